import Ivy.L2.SignalSpec
/-! Proofs for C10 (model `Ivy.Signal`, statements in `Ivy/Props/C10.lean`). -/
namespace Ivy.Signal
namespace Proofs

/-! ### function updates -/
@[simp] theorem upd_same {α : Type} (f : Nat → α) (k : Nat) (v : α) : upd f k v k = v := by simp [upd]
theorem upd_other {α : Type} (f : Nat → α) (k x : Nat) (v : α) (h : x ≠ k) : upd f k v x = f x := by simp [upd, h]
theorem upd_apply {α : Type} (f : Nat → α) (k x : Nat) (v : α) : upd f k v x = if x = k then v else f x := rfl
theorem setAll_apply (f : Nat → Bool) (ps : List Nat) (j : Nat) : setAll f ps j = if j ∈ ps then true else f j := rfl
@[simp] theorem setAll_nil (f : Nat → Bool) : setAll f [] = f := by funext j; simp [setAll]

/-! ### the comparator -/
theorem less_irrefl (st : State) (a : Nat) : less st a a = false := by
  unfold less; cases st.excl a <;> simp

theorem less_trans (st : State) (a b c : Nat) (h1 : less st a b = true) (h2 : less st b c = true) : less st a c = true := by
  unfold less at *
  cases ha : st.excl a <;> cases hb : st.excl b <;> cases hc : st.excl c <;> simp [ha, hb, hc] at * <;> grind

theorem less_total (st : State) (a b : Nat) (h : a ≠ b) (h1 : less st a b = false) : less st b a = true := by
  unfold less at *
  cases ha : st.excl a <;> cases hb : st.excl b <;> simp [ha, hb] at * <;> grind

theorem less_congr (st st' : State) (a b : Nat) (ha : st'.sig a = st.sig a ∧ st'.excl a = st.excl a)
    (hb : st'.sig b = st.sig b ∧ st'.excl b = st.excl b) : less st' a b = less st a b := by
  unfold less; rw [ha.1, ha.2, hb.1, hb.2]

/-- what `less` means -/
theorem less_iff (st : State) (a b : Nat) : less st a b = true ↔
    st.sig a < st.sig b ∨ (st.sig a = st.sig b ∧ ((st.excl a = true ∧ st.excl b = false) ∨ (st.excl a = st.excl b ∧ a < b))) := by
  unfold less
  cases ha : st.excl a <;> cases hb : st.excl b <;> simp <;> grind

/-! ### sorted sets -/
theorem sorted_congr (st st' : State) (l : List Nat)
    (h : ∀ x, x ∈ l → st'.sig x = st.sig x ∧ st'.excl x = st.excl x) (hs : Sorted st l) : Sorted st' l := by
  unfold Sorted at *
  induction l with
  | nil => simp
  | cons a tl ih =>
    rw [List.pairwise_cons] at hs ⊢
    refine ⟨fun b hb => ?_, ih (fun x hx => h x (List.mem_cons_of_mem _ hx)) hs.2⟩
    rw [less_congr st st' a b (h a (by simp)) (h b (List.mem_cons_of_mem _ hb))]
    exact hs.1 b hb

theorem sorted_nodup (st : State) (l : List Nat) (hs : Sorted st l) : l.Nodup := by
  unfold Sorted at hs
  refine List.Pairwise.imp ?_ hs
  intro a b hab heq
  subst heq
  rw [less_irrefl] at hab
  exact Bool.noConfusion hab

theorem mem_insertS (st : State) (i : Nat) (l : List Nat) (x : Nat) : x ∈ insertS st i l ↔ x = i ∨ x ∈ l := by
  induction l with
  | nil => simp [insertS]
  | cons a tl ih =>
    unfold insertS
    split
    · simp
    · simp [ih]; grind

theorem sorted_insertS (st : State) (i : Nat) (l : List Nat) (hs : Sorted st l) (hi : i ∉ l) : Sorted st (insertS st i l) := by
  unfold Sorted at *
  induction l with
  | nil => simp [insertS]
  | cons a tl ih =>
    rw [List.pairwise_cons] at hs
    unfold insertS
    split
    · rename_i hlt
      rw [List.pairwise_cons]
      refine ⟨fun b hb => ?_, List.pairwise_cons.mpr hs⟩
      rcases List.mem_cons.mp hb with rfl | hb
      · exact hlt
      · exact less_trans st i a b hlt (hs.1 b hb)
    · rename_i hlt
      have hia : i ≠ a := fun h => hi (by simp [h])
      have hai : less st a i = true := less_total st i a hia (by simpa using hlt)
      rw [List.pairwise_cons]
      refine ⟨fun b hb => ?_, ih hs.2 (fun h => hi (List.mem_cons_of_mem _ h))⟩
      rcases (mem_insertS st i tl b).mp hb with rfl | hb
      · exact hai
      · exact hs.1 b hb

theorem sorted_erase (st : State) (i : Nat) (l : List Nat) (hs : Sorted st l) : Sorted st (l.erase i) :=
  List.Pairwise.sublist (List.erase_sublist) hs

theorem mem_erase_sorted (st : State) (i x : Nat) (l : List Nat) (hs : Sorted st l) : x ∈ l.erase i ↔ x ≠ i ∧ x ∈ l :=
  List.Nodup.mem_erase_iff (sorted_nodup st l hs)

/-! ### the wake walk -/

/-- the rule over a list (membership in the list as the set) -/
def SelL (st : State) (l : List Nat) (n i : Nat) : Prop :=
  i ∈ l ∧ st.sig i = n ∧
  ((st.excl i = true ∧ ∀ j, j ∈ l → st.sig j = n → st.excl j = true → i ≤ j) ∨
   (st.excl i = false ∧ ∀ j, j ∈ l → st.sig j = n → st.excl j = false))

/-- continuing the walk over a sorted tail whose interests for `n` are all shared and that starts at or after `n` -/
theorem walk_shared (st : State) (n : Nat) (l : List Nat) (hs : Sorted st l)
    (hge : ∀ j, j ∈ l → n ≤ st.sig j) (hsh : ∀ j, j ∈ l → st.sig j = n → st.excl j = false) :
    ∀ i, i ∈ walk st n l ↔ i ∈ l ∧ st.sig i = n := by
  induction l with
  | nil => simp [walk]
  | cons a tl ih =>
    unfold Sorted at hs
    rw [List.pairwise_cons] at hs
    intro i
    unfold walk
    by_cases ha : st.sig a = n
    · have hea : st.excl a = false := hsh a (by simp) ha
      simp [ha, hea]
      rw [ih hs.2 (fun j hj => hge j (List.mem_cons_of_mem _ hj)) (fun j hj => hsh j (List.mem_cons_of_mem _ hj))]
      grind
    · simp [ha]
      intro hi
      rcases hi with rfl | hi
      · exact ha
      · have := (less_iff st a i).mp (hs.1 i hi)
        have := hge a (by simp)
        omega

theorem walk_sub (st : State) (n : Nat) (l : List Nat) : ∀ i, i ∈ walk st n l → i ∈ l ∧ st.sig i = n := by
  induction l with
  | nil => simp [walk]
  | cons a tl ih =>
    intro i
    unfold walk
    by_cases ha : st.sig a = n <;> cases he : st.excl a <;> simp [ha]
    · rintro (rfl | h)
      · exact ⟨Or.inl rfl, ha⟩
      · exact ⟨Or.inr (ih i h).1, (ih i h).2⟩
    · rintro rfl; exact ⟨Or.inl rfl, ha⟩

theorem walk_nodup (st : State) (n : Nat) (l : List Nat) (hn : l.Nodup) : (walk st n l).Nodup := by
  induction l with
  | nil => simp [walk]
  | cons a tl ih =>
    unfold walk
    rw [List.nodup_cons] at hn
    by_cases ha : st.sig a = n <;> cases he : st.excl a <;> simp [ha]
    exact ⟨fun h => hn.1 (walk_sub st n tl a h).1, ih hn.2⟩

theorem findFirst_sub (st : State) (l : List Nat) (n : Nat) : (findFirst st l n).Sublist l := by
  unfold findFirst
  have h := List.dropWhile_sublist (l := l) (fun i => decide (st.sig i < n))
  split
  · simp
  · rename_i i tl heq
    split
    · rw [← heq]; exact h
    · simp

/-- `__iv_signal_do_wake` on a sorted set wakes exactly the interests the rule selects -/
theorem wake_spec (st : State) (n : Nat) (l : List Nat) (hs : Sorted st l) :
    ∀ i, i ∈ walk st n (findFirst st l n) ↔ SelL st l n i := by
  induction l with
  | nil => intro i; simp [findFirst, walk, SelL]
  | cons a tl ih =>
    have hs' := hs
    unfold Sorted at hs
    rw [List.pairwise_cons] at hs
    have hlt : ∀ b, b ∈ tl → _ := fun b hb => (less_iff st a b).mp (hs.1 b hb)
    intro i
    by_cases h1 : st.sig a < n
    · -- skipped by the descent
      have : findFirst st (a :: tl) n = findFirst st tl n := by simp [findFirst, List.dropWhile, h1]
      rw [this, ih hs.2]
      unfold SelL
      constructor
      · rintro ⟨hm, hsg, hr⟩
        refine ⟨List.mem_cons_of_mem _ hm, hsg, ?_⟩
        rcases hr with ⟨he, hr⟩ | ⟨he, hr⟩
        · left; refine ⟨he, fun j hj => ?_⟩
          rcases List.mem_cons.mp hj with rfl | hj
          · intro h; omega
          · exact hr j hj
        · right; refine ⟨he, fun j hj => ?_⟩
          rcases List.mem_cons.mp hj with rfl | hj
          · intro h; omega
          · exact hr j hj
      · rintro ⟨hm, hsg, hr⟩
        have hm' : i ∈ tl := by
          rcases List.mem_cons.mp hm with rfl | hm
          · omega
          · exact hm
        refine ⟨hm', hsg, ?_⟩
        rcases hr with ⟨he, hr⟩ | ⟨he, hr⟩
        · left; exact ⟨he, fun j hj => hr j (List.mem_cons_of_mem _ hj)⟩
        · right; exact ⟨he, fun j hj => hr j (List.mem_cons_of_mem _ hj)⟩
    · by_cases h2 : st.sig a = n
      · have : findFirst st (a :: tl) n = a :: tl := by simp [findFirst, List.dropWhile, h2]
        rw [this]
        unfold walk
        cases hea : st.excl a
        · -- first interest for n is shared: no exclusive one exists
          have hsh : ∀ j, j ∈ tl → st.sig j = n → st.excl j = false := by
            intro j hj hjs
            have := hlt j hj
            grind
          have hge : ∀ j, j ∈ tl → n ≤ st.sig j := by
            intro j hj; have := hlt j hj; omega
          simp [h2]
          rw [walk_shared st n tl hs.2 hge hsh]
          unfold SelL
          constructor
          · rintro (rfl | ⟨hm, hsg⟩)
            · refine ⟨by simp, h2, Or.inr ⟨hea, fun j hj hjs => ?_⟩⟩
              rcases List.mem_cons.mp hj with rfl | hj
              · exact hea
              · exact hsh j hj hjs
            · refine ⟨List.mem_cons_of_mem _ hm, hsg, Or.inr ⟨hsh i hm hsg, fun j hj hjs => ?_⟩⟩
              rcases List.mem_cons.mp hj with rfl | hj
              · exact hea
              · exact hsh j hj hjs
          · rintro ⟨hm, hsg, _⟩
            rcases List.mem_cons.mp hm with rfl | hm
            · left; rfl
            · right; exact ⟨hm, hsg⟩
        · -- first interest for n is exclusive: only it
          simp [h2]
          unfold SelL
          constructor
          · rintro rfl
            refine ⟨by simp, h2, Or.inl ⟨hea, fun j hj hjs hje => ?_⟩⟩
            rcases List.mem_cons.mp hj with rfl | hj
            · exact Nat.le_refl _
            · have := hlt j hj
              grind
          · rintro ⟨hm, hsg, hr⟩
            rcases List.mem_cons.mp hm with rfl | hm
            · rfl
            · have := hlt i hm
              rcases hr with ⟨he, hr⟩ | ⟨he, hr⟩
              · have := hr a (by simp) h2 hea
                grind
              · have := hr a (by simp) h2
                grind
      · -- the set starts beyond n: nothing for n
        have h3 : n < st.sig a := by omega
        have : findFirst st (a :: tl) n = [] := by simp [findFirst, List.dropWhile, h1, h2]
        rw [this]
        simp [walk, SelL]
        intro hm hsg
        rcases hm with rfl | hm
        · omega
        · have := hlt i hm; omega

/-! ### field lemmas -/
@[simp] theorem startPosts_sig (st : State) (T : Nat) (ps : List Nat) (l : Bool) : (startPosts st T ps l).sig = st.sig := rfl
@[simp] theorem startPosts_excl (st : State) (T : Nat) (ps : List Nat) (l : Bool) : (startPosts st T ps l).excl = st.excl := rfl
@[simp] theorem startPosts_this (st : State) (T : Nat) (ps : List Nat) (l : Bool) : (startPosts st T ps l).this = st.this := rfl
@[simp] theorem startPosts_owner (st : State) (T : Nat) (ps : List Nat) (l : Bool) : (startPosts st T ps l).owner = st.owner := rfl
@[simp] theorem startPosts_reg (st : State) (T : Nat) (ps : List Nat) (l : Bool) : (startPosts st T ps l).reg = st.reg := rfl
@[simp] theorem startPosts_active (st : State) (T : Nat) (ps : List Nat) (l : Bool) : (startPosts st T ps l).active = st.active := rfl
@[simp] theorem startPosts_owed (st : State) (T : Nat) (ps : List Nat) (l : Bool) : (startPosts st T ps l).owed = st.owed := rfl
@[simp] theorem startPosts_noted (st : State) (T : Nat) (ps : List Nat) (l : Bool) : (startPosts st T ps l).noted = st.noted := rfl
@[simp] theorem startPosts_stage (st : State) (T : Nat) (ps : List Nat) (l : Bool) : (startPosts st T ps l).stage = st.stage := rfl
@[simp] theorem startPosts_proc (st : State) (T : Nat) (ps : List Nat) (l : Bool) : (startPosts st T ps l).proc = st.proc := rfl
@[simp] theorem startPosts_thr (st : State) (T : Nat) (ps : List Nat) (l : Bool) : (startPosts st T ps l).thr = st.thr := rfl
@[simp] theorem startPosts_count (st : State) (T : Nat) (ps : List Nat) (l : Bool) : (startPosts st T ps l).count = st.count := rfl
@[simp] theorem startPosts_disp (st : State) (T : Nat) (ps : List Nat) (l : Bool) : (startPosts st T ps l).disp = st.disp := rfl
@[simp] theorem startPosts_ownerPid (st : State) (T : Nat) (ps : List Nat) (l : Bool) : (startPosts st T ps l).ownerPid = st.ownerPid := rfl
@[simp] theorem startPosts_pid (st : State) (T : Nat) (ps : List Nat) (l : Bool) : (startPosts st T ps l).pid = st.pid := rfl
@[simp] theorem startPosts_pc (st : State) (T : Nat) (ps : List Nat) (l : Bool) : (startPosts st T ps l).pc = st.pc := rfl
@[simp] theorem startPosts_pend (st : State) (T : Nat) (ps : List Nat) (l : Bool) : (startPosts st T ps l).pend = upd st.pend T ps := rfl
@[simp] theorem startPosts_lock (st : State) (T : Nat) (ps : List Nat) (l : Bool) : (startPosts st T ps l).lock = if l && !ps.isEmpty then some T else st.lock := rfl

/-! ### invariant: frame lemma for actions that leave the sets alone -/
theorem busy_false (st : State) (T : Nat) : busy st T = false ↔ st.pc T = none ∧ st.pend T = [] := by
  unfold busy
  cases h1 : st.pc T <;> cases h2 : st.pend T <;> simp

theorem not_busy_true (st : State) (T : Nat) : ¬ busy st T = true ↔ st.pc T = none ∧ st.pend T = [] := by
  rw [← busy_false]; cases busy st T <;> simp

theorem inv_frame (st st' : State) (h : Inv st)
    (e1 : st'.sig = st.sig) (e2 : st'.excl = st.excl) (e3 : st'.this = st.this) (e4 : st'.owner = st.owner)
    (e5 : st'.reg = st.reg) (e6 : st'.proc = st.proc) (e7 : st'.thr = st.thr) (e8 : st'.count = st.count)
    (e9 : st'.disp = st.disp) (e10 : st'.ownerPid = st.ownerPid) (e11 : st'.pid ≠ 0)
    (d1 : ∀ T n, st'.pc T = some n → st'.ownerPid = st'.pid)
    (d2 : ∀ T n, st'.pc T = some n → st'.pend T = [])
    (d3 : ∀ T, st'.pend T ≠ [] → st'.ownerPid = st'.pid)
    (d4 : ∀ T i, i ∈ st'.pend T → st'.reg i = true ∧ ((st'.this i = true ∧ st'.owner i = T) ∨ st'.lock = some T))
    (d5 : ∀ T, st'.lock = some T → st'.pend T ≠ [])
    (d6 : ∀ i, st'.reg i = true → st'.noted i = true →
      st'.active i = true ∧ (st'.owed i = true ∨ st'.stage i = 1 ∨ ∃ T, i ∈ st'.pend T)) : Inv st' := by
  have hsorted : ∀ l, Sorted st l → Sorted st' l := fun l hl =>
    sorted_congr st st' l (fun x _ => by rw [e1, e2]; exact ⟨rfl, rfl⟩) hl
  refine { pid_pos := e11
           fresh := by rw [e10, e5]; exact h.fresh
           proc_mem := ?_, thr_mem := ?_
           proc_sorted := by rw [e6]; exact hsorted _ h.proc_sorted
           thr_sorted := by intro T; rw [e7]; exact hsorted _ (h.thr_sorted T)
           count_card := by rw [e5, e8, e1]; exact h.count_card
           disp_count := by rw [e9, e8]; exact h.disp_count
           sig_range := by rw [e5, e1]; exact h.sig_range
           pc_main := d1, pc_pend := d2, pend_main := d3, pend_reg := d4, lock_pend := d5, noted_ok := d6 }
  · intro i; unfold InProc; rw [e6, e5, e3]; exact h.proc_mem i
  · intro T i; unfold InThr; rw [e7, e5, e3, e4]; exact h.thr_mem T i

theorem wake_mem_thr (st : State) (h : Inv st) (T n i : Nat) (hi : i ∈ wake st (st.thr T) n) :
    InThr st T i :=
  (h.thr_mem T i).mp ((findFirst_sub st (st.thr T) n).subset (walk_sub st n _ i hi).1)

theorem wake_mem_proc (st : State) (h : Inv st) (n i : Nat) (hi : i ∈ wake st st.proc n) :
    InProc st i :=
  (h.proc_mem i).mp ((findFirst_sub st st.proc n).subset (walk_sub st n _ i hi).1)

theorem inv_mark (st : State) (h : Inv st) (T : Nat) (ps : List Nat) (locked : Bool) (pc' : Nat → Option Nat)
    (hpend : st.pend T = [])
    (hpc1 : ∀ U, U ≠ T → pc' U = st.pc U)
    (hpc2 : ∀ m, pc' T = some m → ps = [] ∧ st.ownerPid = st.pid)
    (hmain : ps ≠ [] → st.ownerPid = st.pid)
    (hps : ∀ i, i ∈ ps → st.reg i = true ∧ ((st.this i = true ∧ st.owner i = T) ∨ locked = true))
    (hlock : locked = true → st.lock = none) : Inv (markSt { st with pc := pc' } T ps locked) := by
  have hlk : ∀ U, st.lock = some U → U ≠ T := fun U hU hUT => h.lock_pend U hU (hUT ▸ hpend)
  unfold markSt
  apply inv_frame st _ h <;> try first | rfl | exact h.pid_pos
  · intro U m hU
    simp only [startPosts_pc, startPosts_ownerPid, startPosts_pid] at hU ⊢
    by_cases hUT : U = T
    · subst hUT; exact (hpc2 m hU).2
    · rw [hpc1 U hUT] at hU; exact h.pc_main U m hU
  · intro U m hU
    simp only [startPosts_pc, startPosts_pend, upd_apply] at hU ⊢
    by_cases hUT : U = T
    · subst hUT; simp [(hpc2 m hU).1]
    · rw [hpc1 U hUT] at hU; simp only [hUT, if_false]; exact h.pc_pend U m hU
  · intro U hU
    simp only [startPosts_pend, upd_apply, startPosts_ownerPid, startPosts_pid] at hU ⊢
    by_cases hUT : U = T
    · simp only [hUT, if_true] at hU; exact hmain hU
    · simp only [hUT, if_false] at hU; exact h.pend_main U hU
  · intro U i hi
    simp only [startPosts_pend, upd_apply, startPosts_reg, startPosts_this, startPosts_owner, startPosts_lock] at hi ⊢
    by_cases hUT : U = T
    · simp only [hUT, if_true] at hi
      have hne : ps.isEmpty = false := by cases ps <;> simp at hi ⊢
      have := hps i hi
      refine ⟨this.1, ?_⟩
      rcases this.2 with h1 | h1
      · exact Or.inl (hUT ▸ h1)
      · right; simp [h1, hne, hUT]
    · simp only [hUT, if_false] at hi
      have := h.pend_reg U i hi
      refine ⟨this.1, ?_⟩
      rcases this.2 with h1 | h1
      · exact Or.inl h1
      · right
        cases locked
        · simpa using h1
        · rw [hlock rfl] at h1; simp at h1
  · intro U hU
    simp only [startPosts_lock, startPosts_pend, upd_apply] at hU ⊢
    by_cases hc : (locked && !ps.isEmpty) = true
    · simp only [hc, if_true, Option.some.injEq] at hU
      subst hU
      simp only [if_true]
      simp at hc
      exact fun h => by simp [h] at hc
    · simp only [hc] at hU
      have := hlk U hU
      simp only [this, if_false]
      exact h.lock_pend U hU
  · intro i hr hn
    simp only [startPosts_reg, startPosts_noted, startPosts_active, startPosts_owed, startPosts_stage, startPosts_pend,
      setAll_apply, upd_apply] at hr hn ⊢
    by_cases hi : i ∈ ps
    · simp only [hi, if_true, true_and]
      right; right; exact ⟨T, by simp [hi]⟩
    · simp only [hi, if_false] at hn ⊢
      have := h.noted_ok i hr hn
      refine ⟨this.1, ?_⟩
      rcases this.2 with h1 | h1 | ⟨U, hU⟩
      · exact Or.inl h1
      · exact Or.inr (Or.inl h1)
      · right; right
        have hUT : U ≠ T := by intro hUT; rw [hUT, hpend] at hU; simp at hU
        exact ⟨U, by simpa [hUT] using hU⟩

theorem sigProc_inv (st : State) (h : Inv st) (T : Nat) {st' o} (hs : sigProcStep st T = some (st', o)) : Inv st' := by
  unfold sigProcStep at hs
  cases hpc : st.pc T with
  | none => simp [hpc] at hs
  | some n =>
    simp only [hpc] at hs
    cases hc : (st.lock.isSome || !(st.pend T).isEmpty)
    case true => simp [hc] at hs
    simp only [hc, Bool.false_eq_true, if_false, Option.some.injEq, Prod.mk.injEq] at hs
    obtain ⟨rfl, rfl⟩ := hs
    simp at hc
    have hmain := h.pc_main T n hpc
    apply inv_mark st h T _ true (upd st.pc T none)
    · exact hc.2
    · intro U hU; simp [upd_apply, hU]
    · intro m hm; simp at hm
    · intro _; exact hmain
    · intro i hi; exact ⟨(wake_mem_proc st h n i hi).1, Or.inr rfl⟩
    · intro _; exact hc.1

theorem sigThread_inv (st : State) (h : Inv st) (T n : Nat) {st' o} (hs : sigThreadStep st T n = some (st', o)) : Inv st' := by
  unfold sigThreadStep at hs
  cases hbb : busy st T
  case true => simp [hbb] at hs
  have hb := (busy_false st T).mp hbb
  cases hpp : (st.ownerPid == 0 || st.ownerPid != st.pid)
  case true => simp [hbb, hpp] at hs; obtain ⟨rfl, rfl⟩ := hs; exact h
  have hpid' : st.ownerPid = st.pid := by simp at hpp; exact hpp.2
  simp only [hbb, hpp, Bool.false_eq_true, if_false] at hs
  cases hpe : (wake st (st.thr T) n).isEmpty
  case true =>
    simp only [hpe, if_true, Option.some.injEq, Prod.mk.injEq] at hs
    obtain ⟨rfl, rfl⟩ := hs
    have := inv_mark st h T [] false (upd st.pc T (some n)) hb.2 (fun U hU => by simp [upd_apply, hU])
      (fun m _ => ⟨rfl, hpid'⟩) (fun hne => absurd rfl hne) (fun i hi => by simp at hi) (fun hf => by cases hf)
    have e : markSt { st with pc := upd st.pc T (some n) } T [] false = { st with pc := upd st.pc T (some n) } := by
      simp only [markSt, startPosts, setAll_nil]
      have : upd st.pend T [] = st.pend := by
        funext x; simp only [upd_apply]; split
        · rename_i hx; rw [hx, hb.2]
        · rfl
      simp [this]
    rw [e] at this; exact this
  case false =>
    simp only [hpe, Bool.false_eq_true, if_false, Option.some.injEq, Prod.mk.injEq] at hs
    obtain ⟨rfl, rfl⟩ := hs
    exact inv_mark st h T _ false st.pc hb.2 (fun U _ => rfl) (fun m hm => by rw [hb.1] at hm; cases hm)
      (fun _ => hpid') (fun i hi => by
        have := wake_mem_thr st h T n i hi
        exact ⟨this.1, Or.inl ⟨this.2.1, this.2.2⟩⟩) (fun hf => by cases hf)

theorem posted_inv (st : State) (h : Inv st) (T : Nat) {st' o} (hs : postedStep st T = some (st', o)) : Inv st' := by
  unfold postedStep at hs
  cases hp : st.pend T with
  | nil => simp [hp] at hs
  | cons i rest =>
    simp only [hp] at hs
    cases hr : st.reg i
    case false => simp [hr] at hs
    simp only [hr, Bool.not_true, Bool.false_eq_true, if_false, Option.some.injEq, Prod.mk.injEq] at hs
    obtain ⟨rfl, rfl⟩ := hs
    have hnd : ∀ U, st.lock = some U → U ≠ T → True := fun _ _ _ => trivial
    apply inv_frame st _ h <;> try first | rfl | exact h.pid_pos
    · exact h.pc_main
    · intro U m hU
      have := h.pc_pend U m hU
      by_cases hUT : U = T
      · rw [hUT, hp] at this; simp at this
      · simpa [upd_apply, hUT] using this
    · intro U hU
      by_cases hUT : U = T
      · exact h.pend_main T (by rw [hp]; simp)
      · exact h.pend_main U (by simpa [upd_apply, hUT] using hU)
    · intro U j hj
      simp only [upd_apply] at hj ⊢
      by_cases hUT : U = T
      · simp only [hUT, if_true] at hj
        have := h.pend_reg T j (by rw [hp]; exact List.mem_cons_of_mem _ hj)
        refine ⟨this.1, ?_⟩
        rcases this.2 with h1 | h1
        · exact Or.inl (hUT ▸ h1)
        · right
          have hne : rest.isEmpty = false := by cases rest <;> simp at hj ⊢
          simp [hne, h1, hUT]
      · simp only [hUT, if_false] at hj
        have := h.pend_reg U j hj
        refine ⟨this.1, ?_⟩
        rcases this.2 with h1 | h1
        · exact Or.inl h1
        · right
          have : ¬ (st.lock = some T) := by rw [h1]; simpa using hUT
          simp [h1]; intro _; exact hUT
    · intro U hU
      simp only [upd_apply] at hU ⊢
      by_cases hc : (rest.isEmpty && st.lock == some T) = true
      · simp [hc] at hU
      · simp only [hc] at hU
        by_cases hUT : U = T
        · subst hUT
          simp only [if_true]
          simp at hc
          intro hre; exact hc hre hU
        · simp only [hUT, if_false]; exact h.lock_pend U hU
    · intro j hrj hn
      simp only [upd_apply] at hn ⊢
      have := h.noted_ok j hrj hn
      refine ⟨this.1, ?_⟩
      by_cases hji : j = i
      · left; simp [hji]
      · rcases this.2 with h1 | h1 | ⟨U, hU⟩
        · left; simp [hji, h1]
        · exact Or.inr (Or.inl h1)
        · right; right
          refine ⟨U, ?_⟩
          by_cases hUT : U = T
          · rw [hUT, hp] at hU
            simp only [hUT, if_true]
            rcases List.mem_cons.mp hU with h2 | h2
            · exact absurd h2 hji
            · exact h2
          · simpa [hUT] using hU

theorem ev_inv (st : State) (h : Inv st) (a : Action) (ha : (∃ i, a = .evRead i) ∨ (∃ i, a = .evClear i) ∨ (∃ i, a = .evEnd i))
    {st' o} (hs : step st a = some (st', o)) : Inv st' := by
  rcases ha with ⟨i, rfl⟩ | ⟨i, rfl⟩ | ⟨i, rfl⟩
  · simp only [step] at hs
    split at hs
    · rename_i hc
      simp at hc
      simp only [Option.some.injEq, Prod.mk.injEq] at hs
      obtain ⟨rfl, rfl⟩ := hs
      apply inv_frame st _ h <;> try first | rfl | exact h.pid_pos
      · exact h.pc_main
      · exact h.pc_pend
      · exact h.pend_main
      · exact h.pend_reg
      · exact h.lock_pend
      · intro j hr hn
        have := h.noted_ok j hr hn
        refine ⟨this.1, ?_⟩
        simp only [upd_apply]
        by_cases hji : j = i
        · simp [hji]
        · simpa [hji] using this.2
    · simp at hs
  · simp only [step] at hs
    split at hs
    · simp only [Option.some.injEq, Prod.mk.injEq] at hs
      obtain ⟨rfl, rfl⟩ := hs
      apply inv_frame st _ h <;> try first | rfl | exact h.pid_pos
      · exact h.pc_main
      · exact h.pc_pend
      · exact h.pend_main
      · exact h.pend_reg
      · exact h.lock_pend
      · intro j hr hn
        simp only [upd_apply] at hn ⊢
        by_cases hji : j = i
        · simp [hji] at hn
        · simp only [hji, if_false] at hn ⊢
          exact h.noted_ok j hr hn
    · simp at hs
  · simp only [step] at hs
    split at hs
    · rename_i hc
      simp at hc
      simp only [Option.some.injEq, Prod.mk.injEq] at hs
      obtain ⟨rfl, rfl⟩ := hs
      apply inv_frame st _ h <;> try first | rfl | exact h.pid_pos
      · exact h.pc_main
      · exact h.pc_pend
      · exact h.pend_main
      · exact h.pend_reg
      · exact h.lock_pend
      · intro j hr hn
        have := h.noted_ok j hr hn
        refine ⟨this.1, ?_⟩
        simp only [upd_apply]
        by_cases hji : j = i
        · subst hji
          rcases this.2 with h1 | h1 | h1
          · exact Or.inl h1
          · omega
          · exact Or.inr (Or.inr h1)
        · simpa [hji] using this.2
    · simp at hs

theorem fork_inv (st : State) (h : Inv st) (p : Nat) {st' o} (hs : step st (.fork p) = some (st', o)) : Inv st' := by
  simp only [step] at hs
  split at hs
  · simp at hs
  · rename_i hc
    simp at hc
    simp only [Option.some.injEq, Prod.mk.injEq] at hs
    obtain ⟨rfl, rfl⟩ := hs
    apply inv_frame st _ h <;> try first | rfl | exact hc.1.1
    · intro U m hU; simp at hU
    · intro U m hU; simp at hU
    · intro U hU; simp at hU
    · intro U i hi; simp at hi
    · intro U hU; simp [hc.2] at hU
    · intro i _ hn; simp at hn

/-! ### register -/
theorem regStep_eq (st : State) (T i n : Nat) (e t : Bool) {st' o} (hs : regStep st T i n e t = some (st', o)) :
    busy st T = false ∧ st.reg i = false ∧
    ((NSIG ≤ n ∧ st' = st ∧ o = [Out.err]) ∨
     (st.lock = none ∧ n < NSIG ∧ st' = addSt (baseSt st) T i n e t ∧
      o = baseOut st ++ (if (baseSt st).count n == 0 then [Out.disp n true] else []))) := by
  unfold regStep at hs
  cases hb : busy st T <;> simp [hb] at hs
  by_cases hn : NSIG ≤ n
  · simp [hn] at hs
    cases hr : st.reg i <;> simp [hr] at hs
    exact ⟨rfl, rfl, Or.inl ⟨hn, hs.1.symm, hs.2.symm⟩⟩
  · simp [hn] at hs
    cases hl : st.lock <;> simp [hl] at hs
    cases hr : st.reg i <;> simp [hr] at hs
    exact ⟨rfl, rfl, Or.inr ⟨rfl, by omega, hs.1.symm, by rw [← hs.2]; simp⟩⟩

theorem count_zero_of_range (st : State) (h : Inv st) (n : Nat) (hn : NSIG ≤ n) : st.count n = 0 := by
  obtain ⟨regs, _, hm, hc⟩ := h.count_card
  rw [hc n]
  simp only [List.length_eq_zero_iff, List.filter_eq_nil_iff]
  intro i hi
  have := h.sig_range i ((hm i).mp hi)
  simp; omega

theorem base_inv (st : State) (h : Inv st) (hl : st.lock = none) : Inv (baseSt st) ∧ (baseSt st).ownerPid = (baseSt st).pid ∧
    (baseSt st).lock = none ∧ (baseSt st).pend = st.pend ∧ (baseSt st).pc = st.pc ∧ (baseSt st).pid = st.pid := by
  unfold baseSt
  cases hc : (st.ownerPid != 0 && st.ownerPid != st.pid)
  · -- first registration ever, or in the owner process
    simp only [Bool.false_eq_true, if_false]
    refine ⟨?_, by first | rfl | trivial, by first | exact hl | simpa using hl, by first | rfl | trivial, by first | rfl | trivial, by first | rfl | trivial⟩
    simp at hc
    by_cases h0 : st.ownerPid = 0
    · have hpc : ∀ U m, st.pc U = some m → False := fun U m hU => h.pid_pos (by rw [← h.pc_main U m hU, h0])
      have hpe : ∀ U, st.pend U = [] := fun U => by
        by_cases hU : st.pend U = []
        · exact hU
        · exact absurd (by rw [← h.pend_main U hU, h0]) h.pid_pos
      exact { pid_pos := h.pid_pos, fresh := fun h1 => absurd h1 h.pid_pos
              proc_mem := h.proc_mem, thr_mem := h.thr_mem, proc_sorted := h.proc_sorted, thr_sorted := h.thr_sorted
              count_card := h.count_card, disp_count := h.disp_count, sig_range := h.sig_range
              pc_main := fun U m hU => (hpc U m hU).elim, pc_pend := h.pc_pend
              pend_main := fun U hU => absurd (hpe U) hU, pend_reg := h.pend_reg, lock_pend := h.lock_pend
              noted_ok := h.noted_ok }
    · have : st.ownerPid = st.pid := hc h0
      have e : ({ st with ownerPid := st.pid } : State) = st := by cases st; simp_all
      rw [e]; exact h
  · -- forked child: post-fork reset
    simp only [if_true, childReset]
    refine ⟨?_, by first | rfl | trivial, by first | exact hl | simpa using hl, by first | rfl | trivial, by first | rfl | trivial, by first | rfl | trivial⟩
    simp at hc
    have hpc : ∀ U m, st.pc U = some m → False := fun U m hU => hc.2 (h.pc_main U m hU)
    have hpe : ∀ U, st.pend U = [] := fun U => by
      by_cases hU : st.pend U = []
      · exact hU
      · exact absurd (h.pend_main U hU) hc.2
    exact { pid_pos := h.pid_pos, fresh := fun h1 => absurd h1 h.pid_pos
            proc_mem := by intro i; simp [InProc], thr_mem := by intro U i; simp [InThr]
            proc_sorted := by simp [Sorted], thr_sorted := by intro U; simp [Sorted]
            count_card := ⟨[], by simp, by simp, by
              intro n; simp
              intro hn; exact count_zero_of_range st h n (by omega)⟩
            disp_count := by
              intro n
              have hz : NSIG ≤ n → st.count n = 0 := count_zero_of_range st h n
              have hd := h.disp_count n
              by_cases hcn : st.count n = 0
              · have : st.disp n = false := by
                  cases hdn : st.disp n
                  · rfl
                  · exact absurd hcn (hd.mp hdn)
                simp [hcn, this]
              · by_cases hn : n < NSIG
                · simp [hn, hcn]
                · exact absurd (hz (by omega)) hcn
            sig_range := by intro i hi; simp at hi
            pc_main := fun U m hU => (hpc U m hU).elim, pc_pend := h.pc_pend
            pend_main := fun U hU => absurd (hpe U) hU
            pend_reg := fun U i hi => by simp [hpe U] at hi
            lock_pend := h.lock_pend
            noted_ok := by intro i hi; simp at hi }

theorem sorted_of_eq (st st' : State) (l : List Nat) (e1 : st'.sig = st.sig) (e2 : st'.excl = st.excl)
    (hs : Sorted st l) : Sorted st' l :=
  sorted_congr st st' l (fun x _ => by rw [e1, e2]; exact ⟨rfl, rfl⟩) hs

/-- the state of `addSt` before the insertion -/
def add3 (s : State) (T i n : Nat) (e t : Bool) : State :=
  { s with sig := upd s.sig i n, excl := upd s.excl i e, this := upd s.this i t,
           owner := upd s.owner i T, reg := upd s.reg i true,
           active := upd s.active i false, owed := upd s.owed i false, noted := upd s.noted i false,
           count := upd s.count n (s.count n + 1),
           disp := if s.count n == 0 then upd s.disp n true else s.disp }

theorem addSt_eq (s : State) (T i n : Nat) (e t : Bool) :
    addSt s T i n e t = setTree (add3 s T i n e t) t T (insertS (add3 s T i n e t) i (tree (add3 s T i n e t) t T)) := rfl

theorem add_inv (s : State) (h : Inv s) (T i n : Nat) (e t : Bool) (hown : s.ownerPid = s.pid)
    (hr : s.reg i = false) (hn : n < NSIG) : Inv (addSt s T i n e t) := by
  have hnp : i ∉ s.proc := fun hi => by have := ((h.proc_mem i).mp hi).1; rw [hr] at this; cases this
  have hnt : ∀ U, i ∉ s.thr U := fun U hi => by have := ((h.thr_mem U i).mp hi).1; rw [hr] at this; cases this
  have hne : ∀ x, s.reg x = true → x ≠ i := fun x hx hxi => by rw [hxi, hr] at hx; cases hx
  have hso : ∀ l, i ∉ l → Sorted s l → Sorted (add3 s T i n e t) l := fun l hil hl =>
    sorted_congr s _ l (fun x hx => by
      have : x ≠ i := fun hxi => hil (hxi ▸ hx)
      simp [add3, upd_apply, this]) hl
  obtain ⟨regs, hnd, hmem, hcnt⟩ := h.count_card
  have hcard : ∃ regs' : List Nat, regs'.Nodup ∧ (∀ x, x ∈ regs' ↔ (add3 s T i n e t).reg x = true) ∧
      ∀ m, (add3 s T i n e t).count m = (regs'.filter (fun x => (add3 s T i n e t).sig x == m)).length := by
    have hir : i ∉ regs := fun hi => by have := (hmem i).mp hi; rw [hr] at this; cases this
    refine ⟨i :: regs, List.nodup_cons.mpr ⟨hir, hnd⟩, ?_, ?_⟩
    · intro x
      simp only [add3, upd_apply, List.mem_cons]
      by_cases hx : x = i
      · simp [hx]
      · simp [hx, hmem x]
    · intro m
      have hf : regs.filter (fun x => (add3 s T i n e t).sig x == m) = regs.filter (fun x => s.sig x == m) := by
        apply List.filter_congr
        intro x hx
        have : x ≠ i := hne x ((hmem x).mp hx)
        simp [add3, upd_apply, this]
      rw [List.filter_cons, hf]
      simp only [add3, upd_apply, if_true]
      by_cases hm : m = n
      · subst hm; simp [hcnt]
      · have : ¬ (n = m) := fun h => hm h.symm
        simp [hm, this, hcnt]
  have hdisp : ∀ m, (add3 s T i n e t).disp m = true ↔ (add3 s T i n e t).count m ≠ 0 := by
    intro m
    simp only [add3, upd_apply]
    by_cases hm : m = n
    · subst hm
      by_cases hc : s.count m = 0
      · simp [hc]
      · simp [hc]; exact (h.disp_count m).mpr hc
    · by_cases hc : s.count n = 0
      · simp [hm, hc, upd_apply]; exact h.disp_count m
      · simp [hm, hc]; exact h.disp_count m
  have hrange : ∀ x, (add3 s T i n e t).reg x = true → (add3 s T i n e t).sig x < NSIG := by
    intro x
    simp only [add3, upd_apply]
    by_cases hx : x = i
    · simp [hx, hn]
    · simp [hx]; exact h.sig_range x
  have hpendreg : ∀ U x, x ∈ s.pend U → x ≠ i := fun U x hx => hne x (h.pend_reg U x hx).1
  have hnoted : ∀ x, (add3 s T i n e t).reg x = true → (add3 s T i n e t).noted x = true →
      (add3 s T i n e t).active x = true ∧ ((add3 s T i n e t).owed x = true ∨ (add3 s T i n e t).stage x = 1 ∨
        ∃ U, x ∈ (add3 s T i n e t).pend U) := by
    intro x
    simp only [add3, upd_apply]
    by_cases hx : x = i
    · simp [hx]
    · simp only [hx, if_false]; exact h.noted_ok x
  have hpr : ∀ U x, x ∈ s.pend U → (add3 s T i n e t).reg x = true ∧
      (((add3 s T i n e t).this x = true ∧ (add3 s T i n e t).owner x = U) ∨ s.lock = some U) := by
    intro U x hx
    have := hpendreg U x hx
    simp only [add3, upd_apply, this, if_false]
    exact h.pend_reg U x hx
  rw [addSt_eq]
  cases t
  · -- process-wide
    simp only [setTree, tree, Bool.false_eq_true, if_false]
    exact { pid_pos := h.pid_pos, fresh := fun h0 => absurd (hown ▸ h0) h.pid_pos
            proc_mem := by
              intro x
              simp only [mem_insertS, InProc]
              show _ ↔ (add3 s T i n false false).reg x = true ∧ (add3 s T i n false false).this x = false
              simp only [add3, upd_apply]
              by_cases hx : x = i
              · simp [hx]
              · simp only [hx, false_or, if_false]; exact h.proc_mem x
            thr_mem := by
              intro U x
              show x ∈ s.thr U ↔ (add3 s T i n e false).reg x = true ∧ (add3 s T i n e false).this x = true ∧ (add3 s T i n e false).owner x = U
              simp only [add3, upd_apply]
              by_cases hx : x = i
              · simp [hx, hnt U]
              · simp only [hx, if_false]; exact h.thr_mem U x
            proc_sorted := sorted_of_eq (add3 s T i n e false) _ _ rfl rfl
              (sorted_insertS _ i s.proc (hso _ hnp h.proc_sorted) hnp)
            thr_sorted := fun U => sorted_of_eq (add3 s T i n e false) _ _ rfl rfl (hso _ (hnt U) (h.thr_sorted U))
            count_card := hcard, disp_count := hdisp, sig_range := hrange
            pc_main := fun U m hU => hown, pc_pend := h.pc_pend, pend_main := fun U _ => hown
            pend_reg := hpr, lock_pend := h.lock_pend, noted_ok := hnoted }
  · -- this-thread
    simp only [setTree, tree, if_true]
    exact { pid_pos := h.pid_pos, fresh := fun h0 => absurd (hown ▸ h0) h.pid_pos
            proc_mem := by
              intro x
              show x ∈ s.proc ↔ (add3 s T i n e true).reg x = true ∧ (add3 s T i n e true).this x = false
              simp only [add3, upd_apply]
              by_cases hx : x = i
              · simp [hx, hnp]
              · simp only [hx, if_false]; exact h.proc_mem x
            thr_mem := by
              intro U x
              show x ∈ upd s.thr T (insertS (add3 s T i n e true) i (s.thr T)) U ↔
                (add3 s T i n e true).reg x = true ∧ (add3 s T i n e true).this x = true ∧ (add3 s T i n e true).owner x = U
              simp only [add3, upd_apply]
              by_cases hU : U = T
              · simp only [hU, if_true, mem_insertS]
                by_cases hx : x = i
                · simp [hx]
                · simp only [hx, false_or, if_false]; exact h.thr_mem T x
              · simp only [hU, if_false]
                by_cases hx : x = i
                · have : ¬ T = U := fun h => hU h.symm
                  simp [hx, hnt U, this]
                · simp only [hx, if_false]; exact h.thr_mem U x
            proc_sorted := sorted_of_eq (add3 s T i n e true) _ _ rfl rfl (hso _ hnp h.proc_sorted)
            thr_sorted := fun U => by
              show Sorted _ (upd s.thr T (insertS (add3 s T i n e true) i (s.thr T)) U)
              simp only [upd_apply]
              by_cases hU : U = T
              · simp only [hU, if_true]
                exact sorted_of_eq (add3 s T i n e true) _ _ rfl rfl
                  (sorted_insertS _ i (s.thr T) (hso _ (hnt T) (h.thr_sorted T)) (hnt T))
              · simp only [hU, if_false]
                exact sorted_of_eq (add3 s T i n e true) _ _ rfl rfl (hso _ (hnt U) (h.thr_sorted U))
            count_card := hcard, disp_count := hdisp, sig_range := hrange
            pc_main := fun U m hU => hown, pc_pend := h.pc_pend, pend_main := fun U _ => hown
            pend_reg := hpr, lock_pend := h.lock_pend, noted_ok := hnoted }

theorem reg_inv (st : State) (h : Inv st) (T i n : Nat) (e t : Bool) {st' o} (hs : regStep st T i n e t = some (st', o)) : Inv st' := by
  obtain ⟨_, hr, hcase⟩ := regStep_eq st T i n e t hs
  rcases hcase with ⟨_, rfl, _⟩ | ⟨hl, hn, rfl, _⟩
  · exact h
  · obtain ⟨hb, hown, _, _, _, _⟩ := base_inv st h hl
    apply add_inv _ hb T i n e t hown ?_ hn
    unfold baseSt
    cases hc : (st.ownerPid != 0 && st.ownerPid != st.pid)
    · simpa using hr
    · simp [childReset]

/-! ### unregister -/
theorem unregStep_eq (st : State) (T i : Nat) {st' o} (hs : unregStep st T i = some (st', o)) :
    busy st T = false ∧ st.lock = none ∧ st.reg i = true ∧ st.owner i = T ∧ st.stage i ≠ 1 ∧ st.ownerPid = st.pid ∧
    st' = markSt (remSt st T i) T
      (if st.count (st.sig i) - 1 == 0 then [] else if st.excl i && st.active i then handoff (remSt st T i) T (st.sig i) (st.this i) else []) true ∧
    o = (if st.count (st.sig i) - 1 == 0 then [Out.disp (st.sig i) false] else []) ++
      (if st.count (st.sig i) - 1 == 0 then [] else if st.excl i && st.active i then handoff (remSt st T i) T (st.sig i) (st.this i) else []).map Out.post := by
  unfold unregStep at hs
  cases hb : busy st T <;> cases hl : st.lock <;> simp [hb, hl] at hs
  obtain ⟨⟨⟨⟨h1, h2⟩, h3⟩, h4⟩, h5, h6⟩ := hs
  exact ⟨rfl, rfl, h1, h2, h3, h4, by simpa using h5.symm, by simpa using h6.symm⟩

theorem filter_length_erase (regs : List Nat) (i : Nat) (hi : i ∈ regs) (p : Nat → Bool) :
    (regs.filter p).length = (if p i then 1 else 0) + ((regs.erase i).filter p).length := by
  have hp := (List.perm_cons_erase hi).filter p
  have := hp.length_eq
  rw [this, List.filter_cons]
  split <;> simp <;> omega

theorem rem_inv (st : State) (h : Inv st) (T i : Nat) (hb : busy st T = false) (hl : st.lock = none)
    (hr : st.reg i = true) (ho : st.owner i = T) : Inv (remSt st T i) := by
  have hbb := (busy_false st T).mp hb
  obtain ⟨regs, hnd, hmem, hcnt⟩ := h.count_card
  have hireg : i ∈ regs := (hmem i).mpr hr
  have hnp : ∀ U, i ∉ st.pend U := by
    intro U hi
    rcases (h.pend_reg U i hi).2 with h1 | h1
    · have : U = T := by rw [← ho, h1.2]
      rw [this, hbb.2] at hi; simp at hi
    · rw [hl] at h1; cases h1
  have hcard : ∃ regs' : List Nat, regs'.Nodup ∧ (∀ x, x ∈ regs' ↔ upd st.reg i false x = true) ∧
      ∀ m, upd st.count (st.sig i) (st.count (st.sig i) - 1) m = (regs'.filter (fun x => st.sig x == m)).length := by
    refine ⟨regs.erase i, hnd.erase i, ?_, ?_⟩
    · intro x
      rw [List.Nodup.mem_erase_iff hnd]
      simp only [upd_apply]
      by_cases hx : x = i
      · simp [hx]
      · simp [hx, hmem x]
    · intro m
      have := filter_length_erase regs i hireg (fun x => st.sig x == m)
      rw [← hcnt m] at this
      simp only [upd_apply]
      by_cases hm : m = st.sig i
      · subst hm; simp at this ⊢; omega
      · have hm' : ¬ (st.sig i = m) := fun h => hm h.symm
        simp [hm, hm'] at this ⊢; omega
  have hc1 : 1 ≤ st.count (st.sig i) := by
    have := filter_length_erase regs i hireg (fun x => st.sig x == st.sig i)
    rw [← hcnt] at this; simp at this; omega
  have hdisp : ∀ m, (if st.count (st.sig i) - 1 == 0 then upd st.disp (st.sig i) false else st.disp) m = true ↔
      upd st.count (st.sig i) (st.count (st.sig i) - 1) m ≠ 0 := by
    intro m
    by_cases hm : m = st.sig i
    · subst hm
      by_cases hc : st.count (st.sig i) - 1 = 0
      · simp [hc]
      · simp [hc]
        exact (h.disp_count _).mpr (by omega)
    · by_cases hc : st.count (st.sig i) - 1 = 0
      · simp [hc, upd_apply, hm]; exact h.disp_count m
      · simp [hc, upd_apply, hm]; exact h.disp_count m
  have hnoted : ∀ x, upd st.reg i false x = true → upd st.noted i false x = true →
      st.active x = true ∧ (upd st.owed i false x = true ∨ st.stage x = 1 ∨ ∃ U, x ∈ st.pend U) := by
    intro x
    simp only [upd_apply]
    by_cases hx : x = i
    · simp [hx]
    · simp only [hx, if_false]; exact h.noted_ok x
  have hpr : ∀ U x, x ∈ st.pend U → upd st.reg i false x = true ∧ ((st.this x = true ∧ st.owner x = U) ∨ st.lock = some U) := by
    intro U x hx
    have : x ≠ i := fun hxi => hnp U (hxi ▸ hx)
    simp only [upd_apply, this, if_false]
    exact h.pend_reg U x hx
  have hfresh : st.ownerPid = 0 → ∀ x, upd st.reg i false x = false := by
    intro h0 x; have := h.fresh h0 i; rw [hr] at this; cases this
  have hrange : ∀ x, upd st.reg i false x = true → st.sig x < NSIG := by
    intro x; simp only [upd_apply]; split
    · intro hh; cases hh
    · exact h.sig_range x
  unfold remSt
  cases ht : st.this i
  · simp only [setTree, tree, Bool.false_eq_true, if_false]
    exact { pid_pos := h.pid_pos, fresh := hfresh
            proc_mem := by
              intro x
              show x ∈ st.proc.erase i ↔ upd st.reg i false x = true ∧ st.this x = false
              rw [mem_erase_sorted st i x st.proc h.proc_sorted]
              simp only [upd_apply]
              by_cases hx : x = i
              · simp [hx]
              · simp only [hx, if_false, ne_eq, not_false_eq_true, true_and]; exact h.proc_mem x
            thr_mem := by
              intro U x
              show x ∈ st.thr U ↔ upd st.reg i false x = true ∧ st.this x = true ∧ st.owner x = U
              simp only [upd_apply]
              by_cases hx : x = i
              · have : i ∉ st.thr U := fun hi => by have := ((h.thr_mem U i).mp hi).2.1; rw [ht] at this; cases this
                simp [hx, this]
              · simp only [hx, if_false]; exact h.thr_mem U x
            proc_sorted := sorted_of_eq st _ _ rfl rfl (sorted_erase st i _ h.proc_sorted)
            thr_sorted := fun U => sorted_of_eq st _ _ rfl rfl (h.thr_sorted U)
            count_card := hcard, disp_count := hdisp, sig_range := hrange
            pc_main := h.pc_main, pc_pend := h.pc_pend, pend_main := h.pend_main
            pend_reg := hpr, lock_pend := h.lock_pend, noted_ok := hnoted }
  · simp only [setTree, tree, if_true]
    exact { pid_pos := h.pid_pos, fresh := hfresh
            proc_mem := by
              intro x
              show x ∈ st.proc ↔ upd st.reg i false x = true ∧ st.this x = false
              simp only [upd_apply]
              by_cases hx : x = i
              · have : i ∉ st.proc := fun hi => by have := ((h.proc_mem i).mp hi).2; rw [ht] at this; cases this
                simp [hx, this]
              · simp only [hx, if_false]; exact h.proc_mem x
            thr_mem := by
              intro U x
              show x ∈ upd st.thr T ((st.thr T).erase i) U ↔ upd st.reg i false x = true ∧ st.this x = true ∧ st.owner x = U
              simp only [upd_apply]
              by_cases hU : U = T
              · simp only [hU, if_true]
                rw [mem_erase_sorted st i x _ (h.thr_sorted T)]
                by_cases hx : x = i
                · simp [hx]
                · simp only [hx, if_false, ne_eq, not_false_eq_true, true_and]; exact h.thr_mem T x
              · simp only [hU, if_false]
                by_cases hx : x = i
                · have : i ∉ st.thr U := fun hi => hU (by rw [← ((h.thr_mem U i).mp hi).2.2, ho])
                  simp [hx, this]
                · simp only [hx, if_false]; exact h.thr_mem U x
            proc_sorted := sorted_of_eq st _ _ rfl rfl h.proc_sorted
            thr_sorted := fun U => by
              show Sorted _ (upd st.thr T ((st.thr T).erase i) U)
              simp only [upd_apply]
              by_cases hU : U = T
              · simp only [hU, if_true]; exact sorted_of_eq st _ _ rfl rfl (sorted_erase st i _ (h.thr_sorted T))
              · simp only [hU, if_false]; exact sorted_of_eq st _ _ rfl rfl (h.thr_sorted U)
            count_card := hcard, disp_count := hdisp, sig_range := hrange
            pc_main := h.pc_main, pc_pend := h.pc_pend, pend_main := h.pend_main
            pend_reg := hpr, lock_pend := h.lock_pend, noted_ok := hnoted }

theorem handoff_reg (r : State) (hr : Inv r) (T n : Nat) (isThis : Bool) (j : Nat) (hj : j ∈ handoff r T n isThis) :
    r.reg j = true := by
  unfold handoff at hj
  cases isThis
  · simp [tree] at hj
    exact (wake_mem_proc r hr n j hj).1
  · simp only [tree, if_true, Bool.and_true] at hj
    split at hj
    · exact (wake_mem_proc r hr n j hj).1
    · exact (wake_mem_thr r hr T n j hj).1

theorem unreg_inv (st : State) (h : Inv st) (T i : Nat) {st' o} (hs : unregStep st T i = some (st', o)) : Inv st' := by
  obtain ⟨hb, hl, hr, ho, _, hown, rfl, _⟩ := unregStep_eq st T i hs
  have hri := rem_inv st h T i hb hl hr ho
  have hbb := (busy_false st T).mp hb
  refine inv_mark (remSt st T i) hri T _ true (remSt st T i).pc ?_ (fun _ _ => rfl) ?_ (fun _ => ?_) ?_ (fun _ => ?_)
  · cases ht : st.this i <;> simp [remSt, setTree, ht, hbb.2]
  · intro m hm
    have : (remSt st T i).pc T = st.pc T := by cases ht : st.this i <;> simp [remSt, setTree, ht]
    rw [this, hbb.1] at hm; cases hm
  · cases ht : st.this i <;> simp [remSt, setTree, ht, hown]
  · intro j hj
    refine ⟨?_, Or.inr rfl⟩
    split at hj
    · simp at hj
    · split at hj
      · exact handoff_reg _ hri T _ _ j hj
      · simp at hj
  · cases ht : st.this i <;> simp [remSt, setTree, ht, hl]

theorem step_inv (st : State) (h : Inv st) (a : Action) {st' o} (hs : step st a = some (st', o)) : Inv st' := by
  cases a with
  | reg T i n e t => exact reg_inv st h T i n e t hs
  | unreg T i => exact unreg_inv st h T i hs
  | sigThread T n => exact sigThread_inv st h T n hs
  | sigProc T => exact sigProc_inv st h T hs
  | evRead i => exact ev_inv st h _ (Or.inl ⟨i, rfl⟩) hs
  | evClear i => exact ev_inv st h _ (Or.inr (Or.inl ⟨i, rfl⟩)) hs
  | evEnd i => exact ev_inv st h _ (Or.inr (Or.inr ⟨i, rfl⟩)) hs
  | posted T => exact posted_inv st h T hs
  | fork p => exact fork_inv st h p hs

theorem init_inv (pid : Nat) (hp : pid ≠ 0) : Inv (State.init pid) := by
  exact { pid_pos := hp, fresh := fun _ _ => rfl
          proc_mem := by intro i; simp [State.init, InProc]
          thr_mem := by intro T i; simp [State.init, InThr]
          proc_sorted := by simp [State.init, Sorted]
          thr_sorted := by intro T; simp [State.init, Sorted]
          count_card := ⟨[], by simp, by simp [State.init], by simp [State.init]⟩
          disp_count := by intro n; simp [State.init]
          sig_range := by intro i hi; simp [State.init] at hi
          pc_main := by intro T n hT; simp [State.init] at hT
          pc_pend := by intro T n hT; simp [State.init] at hT
          pend_main := by intro T hT; simp [State.init] at hT
          pend_reg := by intro T i hi; simp [State.init] at hi
          lock_pend := by intro T hT; simp [State.init] at hT
          noted_ok := by intro i hi; simp [State.init] at hi }

theorem run_inv (st : State) (h : Inv st) (as : List Action) {st' o} (hr : run st as = some (st', o)) : Inv st' := by
  induction as generalizing st o with
  | nil => simp [run] at hr; rw [← hr.1]; exact h
  | cons a as ih =>
    simp only [run] at hr
    cases hs : step st a with
    | none => simp [hs] at hr
    | some p =>
      obtain ⟨st1, o1⟩ := p
      simp only [hs] at hr
      cases hr2 : run st1 as with
      | none => simp [hr2] at hr
      | some q =>
        obtain ⟨st2, o2⟩ := q
        simp only [hr2, Option.some.injEq, Prod.mk.injEq] at hr
        obtain ⟨rfl, _⟩ := hr
        exact ih st1 (step_inv st h a hs) hr2

/-! ### fan-out -/
theorem posts_map (ps : List Nat) : posts (ps.map Out.post) = ps := by
  induction ps with
  | nil => rfl
  | cons a tl ih => simp [posts, ih]

theorem posts_append (a b : List Out) : posts (a ++ b) = posts a ++ posts b := by
  induction a with
  | nil => rfl
  | cons x tl ih => cases x <;> simp [posts, ih]

theorem selL_iff (st : State) (l : List Nat) (P : Nat → Prop) (hm : ∀ i, i ∈ l ↔ P i) (n i : Nat) :
    SelL st l n i ↔ Selected P st n i := by
  unfold SelL Selected
  constructor
  · rintro ⟨h1, h2, h3⟩
    refine ⟨(hm i).mp h1, h2, ?_⟩
    rcases h3 with ⟨he, h⟩ | ⟨he, h⟩
    · exact Or.inl ⟨he, fun j hj => h j ((hm j).mpr hj)⟩
    · exact Or.inr ⟨he, fun j hj => h j ((hm j).mpr hj)⟩
  · rintro ⟨h1, h2, h3⟩
    refine ⟨(hm i).mpr h1, h2, ?_⟩
    rcases h3 with ⟨he, h⟩ | ⟨he, h⟩
    · exact Or.inl ⟨he, fun j hj => h j ((hm j).mp hj)⟩
    · exact Or.inr ⟨he, fun j hj => h j ((hm j).mp hj)⟩

theorem wake_thr_spec (st : State) (h : Inv st) (T n i : Nat) :
    i ∈ wake st (st.thr T) n ↔ Selected (InThr st T) st n i := by
  unfold wake
  rw [wake_spec st n _ (h.thr_sorted T), selL_iff st _ _ (h.thr_mem T)]

theorem wake_proc_spec (st : State) (h : Inv st) (n i : Nat) :
    i ∈ wake st st.proc n ↔ Selected (InProc st) st n i := by
  unfold wake
  rw [wake_spec st n _ h.proc_sorted, selL_iff st _ _ h.proc_mem]

theorem wake_nodup (st : State) (l : List Nat) (n : Nat) (hs : Sorted st l) : (wake st l n).Nodup :=
  walk_nodup st n _ ((findFirst_sub st l n).nodup (sorted_nodup st l hs))

theorem wake_nonempty (st : State) (n : Nat) (l : List Nat) (hs : Sorted st l) (hex : ∃ j, j ∈ l ∧ st.sig j = n) :
    wake st l n ≠ [] := by
  unfold wake
  induction l with
  | nil => obtain ⟨j, hj, _⟩ := hex; cases hj
  | cons a tl ih =>
    have hs' := hs
    unfold Sorted at hs
    rw [List.pairwise_cons] at hs
    obtain ⟨j, hj, hjn⟩ := hex
    by_cases h1 : st.sig a < n
    · have : findFirst st (a :: tl) n = findFirst st tl n := by simp [findFirst, List.dropWhile, h1]
      rw [this]
      apply ih hs.2
      rcases List.mem_cons.mp hj with rfl | hj
      · omega
      · exact ⟨j, hj, hjn⟩
    · by_cases h2 : st.sig a = n
      · have : findFirst st (a :: tl) n = a :: tl := by simp [findFirst, List.dropWhile, h2]
        rw [this]; unfold walk
        cases st.excl a <;> simp [h2]
      · exfalso
        rcases List.mem_cons.mp hj with rfl | hj
        · exact h2 hjn
        · have := (less_iff st a j).mp (hs.1 j hj)
          omega

theorem wake_thr_empty_iff (st : State) (h : Inv st) (T n : Nat) : wake st (st.thr T) n = [] ↔ ¬ HasThr st T n := by
  constructor
  · intro he ⟨j, hj, hjn⟩
    exact wake_nonempty st n _ (h.thr_sorted T) ⟨j, (h.thr_mem T j).mpr hj, hjn⟩ he
  · intro hn
    cases hw : wake st (st.thr T) n with
    | nil => rfl
    | cons a tl =>
      exfalso
      have ha : a ∈ wake st (st.thr T) n := by rw [hw]; simp
      have := (wake_thr_spec st h T n a).mp ha
      exact hn ⟨a, this.1, this.2.1⟩

theorem sel_congr (P : Nat → Prop) (st st' : State) (e1 : st'.sig = st.sig) (e2 : st'.excl = st.excl) (n i : Nat) :
    Selected P st' n i ↔ Selected P st n i := by
  unfold Selected; rw [e1, e2]

/-- first half of the handler -/
theorem fanout_thread (st : State) (h : Inv st) (T n : Nat) (hp : st.ownerPid = st.pid) {st' o}
    (hs : step st (.sigThread T n) = some (st', o)) :
    (∀ i, i ∈ posts o ↔ Selected (InThr st T) st n i) ∧ (posts o).Nodup ∧ o = (posts o).map Out.post ∧
    (st'.pc T = some n ↔ ¬ HasThr st T n) ∧ (HasThr st T n → st'.pc T = none) ∧ st'.pend T = posts o ∧
    (∀ i, i ∈ posts o → st'.active i = true ∧ st'.noted i = true) ∧
    (¬ HasThr st T n → st' = { st with pc := upd st.pc T (some n) }) := by
  simp only [step, sigThreadStep] at hs
  cases hbb : busy st T
  case true => simp [hbb] at hs
  have hb := (busy_false st T).mp hbb
  have hpp : (st.ownerPid == 0 || st.ownerPid != st.pid) = false := by
    have := h.pid_pos; simp [hp]; omega
  simp only [hbb, hpp, Bool.false_eq_true, if_false] at hs
  have hemp := wake_thr_empty_iff st h T n
  cases hpe : (wake st (st.thr T) n).isEmpty
  case true =>
    have hps : wake st (st.thr T) n = [] := List.isEmpty_iff.mp hpe
    simp only [hpe, if_true, Option.some.injEq, Prod.mk.injEq] at hs
    obtain ⟨rfl, rfl⟩ := hs
    have hno := hemp.mp hps
    refine ⟨fun i => ?_, by simp [posts], by simp [posts], by simp [hno], fun hh => absurd hh hno, by simp [posts, hb.2],
      by simp [posts], fun _ => rfl⟩
    rw [← wake_thr_spec st h T n i, hps]; simp [posts]
  case false =>
    simp only [hpe, Bool.false_eq_true, if_false, Option.some.injEq, Prod.mk.injEq] at hs
    obtain ⟨rfl, rfl⟩ := hs
    have hne : wake st (st.thr T) n ≠ [] := by intro he; simp [he] at hpe
    have hhas : HasThr st T n := by
      by_cases hh : HasThr st T n
      · exact hh
      · exact absurd (hemp.mpr hh) hne
    rw [posts_map]
    refine ⟨fun i => wake_thr_spec st h T n i, wake_nodup st _ n (h.thr_sorted T), rfl, ?_, fun _ => ?_, ?_, ?_,
      fun hh => absurd hhas hh⟩
    · simp [markSt, hb.1, hhas]
    · simp [markSt, hb.1]
    · simp [markSt]
    · intro i hi; simp [markSt, setAll_apply, hi]

/-- second half of the handler: the process-wide set, whatever happened in between -/
theorem fanout_proc (st : State) (h : Inv st) (T n : Nat) (hpc : st.pc T = some n) {st' o}
    (hs : step st (.sigProc T) = some (st', o)) :
    (∀ i, i ∈ posts o ↔ Selected (InProc st) st n i) ∧ (posts o).Nodup ∧ o = (posts o).map Out.post ∧
    st'.pc T = none ∧ st'.pend T = posts o ∧ (posts o ≠ [] → st'.lock = some T) ∧
    (∀ i, i ∈ posts o → st'.active i = true ∧ st'.noted i = true) := by
  simp only [step, sigProcStep, hpc] at hs
  cases hc : (st.lock.isSome || !(st.pend T).isEmpty)
  case true => simp [hc] at hs
  simp only [hc, Bool.false_eq_true, if_false, Option.some.injEq, Prod.mk.injEq] at hs
  obtain ⟨rfl, rfl⟩ := hs
  rw [posts_map]
  refine ⟨fun i => wake_proc_spec st h n i, wake_nodup st _ n h.proc_sorted, rfl, by simp [markSt], by simp [markSt], ?_, ?_⟩
  · intro hne
    have : (wake st st.proc n).isEmpty = false := by cases hw : wake st st.proc n <;> simp_all
    simp [markSt, this]
  · intro i hi; simp [markSt, setAll_apply, hi]

/-! ### hand-off on unregister -/
theorem fanout_congr (st st' : State) (e1 : st'.sig = st.sig) (e2 : st'.excl = st.excl) (e3 : st'.this = st.this)
    (e4 : st'.owner = st.owner) (e5 : st'.reg = st.reg) (T n j : Nat) :
    (Fanout st' T n j ↔ Fanout st T n j) ∧ (Selected (InProc st') st' n j ↔ Selected (InProc st) st n j) := by
  unfold Fanout HasThr Selected InThr InProc
  rw [e1, e2, e3, e4, e5]
  exact ⟨Iff.rfl, Iff.rfl⟩

theorem handoff_spec (r : State) (hr : Inv r) (T n : Nat) (isThis : Bool) (j : Nat) :
    j ∈ handoff r T n isThis ↔ (if isThis then Fanout r T n j else Selected (InProc r) r n j) := by
  unfold handoff
  cases isThis
  · simp [tree]; exact wake_proc_spec r hr n j
  · simp only [tree, if_true, Bool.and_true]
    have hemp := wake_thr_empty_iff r hr T n
    cases hpe : (wake r (r.thr T) n).isEmpty
    · simp only [Bool.false_eq_true, if_false]
      have hne : wake r (r.thr T) n ≠ [] := by intro he; simp [he] at hpe
      have hhas : HasThr r T n := by
        by_cases hh : HasThr r T n
        · exact hh
        · exact absurd (hemp.mpr hh) hne
      rw [wake_thr_spec r hr T n j]
      unfold Fanout
      constructor
      · intro hs; exact Or.inl ⟨hhas, hs⟩
      · rintro (⟨_, hs⟩ | ⟨hno, _⟩)
        · exact hs
        · exact absurd hhas hno
    · simp only [if_true]
      have hno : ¬ HasThr r T n := hemp.mp (List.isEmpty_iff.mp hpe)
      rw [wake_proc_spec r hr n j]
      unfold Fanout
      constructor
      · intro hs; exact Or.inr ⟨hno, hs⟩
      · rintro (⟨hhas, _⟩ | ⟨_, hs⟩)
        · exact absurd hhas hno
        · exact hs

theorem handoff_nodup (r : State) (hr : Inv r) (T n : Nat) (isThis : Bool) : (handoff r T n isThis).Nodup := by
  unfold handoff
  cases isThis
  · simp [tree]; exact wake_nodup r _ n hr.proc_sorted
  · simp only [tree, if_true, Bool.and_true]
    split
    · exact wake_nodup r _ n hr.proc_sorted
    · exact wake_nodup r _ n (hr.thr_sorted T)

theorem handoff_on_unregister (st : State) (h : Inv st) (T i : Nat) {st' o}
    (hs : step st (.unreg T i) = some (st', o))
    (hex : st.excl i = true) (hact : st.active i = true) (hmore : st.count (st.sig i) ≠ 1) :
    (∀ j, j ∈ posts o ↔ (if st.this i then Fanout st' T (st.sig i) j else Selected (InProc st') st' (st.sig i) j)) ∧
    (posts o).Nodup ∧ o = (posts o).map Out.post ∧ st'.pend T = posts o ∧
    (∀ j, j ∈ posts o → st'.active j = true ∧ st'.noted j = true ∧ st'.reg j = true) := by
  simp only [step] at hs
  obtain ⟨hb, hl, hr, ho, _, hown, rfl, rfl⟩ := unregStep_eq st T i hs
  have hri := rem_inv st h T i hb hl hr ho
  obtain ⟨regs, _, hmem, hcnt⟩ := h.count_card
  have hc1 : 1 ≤ st.count (st.sig i) := by
    have := filter_length_erase regs i ((hmem i).mpr hr) (fun x => st.sig x == st.sig i)
    rw [← hcnt] at this; simp at this; omega
  have hc : (st.count (st.sig i) - 1 == 0) = false := by simp; omega
  simp only [hc, hex, hact, Bool.and_self, Bool.false_eq_true, if_false, if_true, List.nil_append, posts_map]
  refine ⟨fun j => ?_, handoff_nodup _ hri T _ _, by simp, by simp [markSt], fun j hj => ?_⟩
  · rw [handoff_spec _ hri T _ _ j]
    have := fanout_congr (remSt st T i) (markSt (remSt st T i) T (handoff (remSt st T i) T (st.sig i) (st.this i)) true)
      rfl rfl rfl rfl rfl T (st.sig i) j
    cases st.this i
    · simp only [Bool.false_eq_true, if_false]; exact this.2.symm
    · simp only [if_true]; exact this.1.symm
  · refine ⟨by simp [markSt, setAll_apply, hj], by simp [markSt, setAll_apply, hj], ?_⟩
    exact handoff_reg _ hri T _ _ j hj

/-- a noted delivery implies the `active` flag (so the hand-off above fires) -/
theorem noted_active (st : State) (h : Inv st) (i : Nat) (hr : st.reg i = true) (hn : st.noted i = true) :
    st.active i = true := (h.noted_ok i hr hn).1

/-! ### dispositions -/
theorem count_zero_iff (st : State) (h : Inv st) (n : Nat) : st.count n = 0 ↔ ∀ i, st.reg i = true → st.sig i ≠ n := by
  obtain ⟨regs, _, hmem, hcnt⟩ := h.count_card
  rw [hcnt n]
  simp only [List.length_eq_zero_iff, List.filter_eq_nil_iff]
  constructor
  · intro hh i hi; have := hh i ((hmem i).mpr hi); simpa using this
  · intro hh i hi; have := hh i ((hmem i).mp hi); simpa using this

theorem default_restored (st : State) (h : Inv st) (n : Nat) :
    (st.disp n = false ↔ st.count n = 0) ∧ (st.count n = 0 ↔ ∀ i, st.reg i = true → st.sig i ≠ n) := by
  refine ⟨?_, count_zero_iff st h n⟩
  have := h.disp_count n
  cases hd : st.disp n <;> simp [hd] at this ⊢ <;> exact this

theorem unreg_disp (st : State) (h : Inv st) (T i : Nat) {st' o} (hs : step st (.unreg T i) = some (st', o)) :
    (Out.disp (st.sig i) false ∈ o ↔ ∀ j, st.reg j = true → j ≠ i → st.sig j ≠ st.sig i) ∧
    (∀ m b, Out.disp m b ∈ o → m = st.sig i ∧ b = false) := by
  simp only [step] at hs
  obtain ⟨hb, hl, hr, ho, _, hown, rfl, rfl⟩ := unregStep_eq st T i hs
  have hri := rem_inv st h T i hb hl hr ho
  have hz := count_zero_iff _ hri (st.sig i)
  have hcr : (remSt st T i).count (st.sig i) = st.count (st.sig i) - 1 := by
    cases ht : st.this i <;> simp [remSt, setTree, ht]
  have hreg : ∀ j, (remSt st T i).reg j = true ↔ (st.reg j = true ∧ j ≠ i) := by
    intro j
    have : (remSt st T i).reg j = upd st.reg i false j := by cases ht : st.this i <;> simp [remSt, setTree, ht]
    rw [this, upd_apply]
    by_cases hj : j = i <;> simp [hj]
  have hsig : (remSt st T i).sig = st.sig := by cases ht : st.this i <;> simp [remSt, setTree, ht]
  rw [hcr, hsig] at hz
  constructor
  · by_cases hc : st.count (st.sig i) - 1 = 0
    · simp only [hc, beq_self_eq_true, if_true, List.map_nil, List.append_nil, List.mem_singleton, true_iff]
      intro j hj hji; exact hz.mp hc j ((hreg j).mpr ⟨hj, hji⟩)
    · have hc' : (st.count (st.sig i) - 1 == 0) = false := by simpa using hc
      simp only [hc', Bool.false_eq_true, if_false, List.nil_append, List.mem_map, reduceCtorEq, and_false, exists_false, false_iff]
      intro hh; exact hc (hz.mpr (fun j hj => hh j ((hreg j).mp hj).1 ((hreg j).mp hj).2))
  · intro m b hmb
    simp only [List.mem_append, List.mem_map] at hmb
    rcases hmb with hmb | ⟨x, _, hx⟩
    · split at hmb
      · simp at hmb; exact hmb
      · simp at hmb
    · cases hx

/-! ### a forked child is silent -/
theorem child_silent_step (st : State) (T n : Nat) (hp : st.ownerPid ≠ st.pid) {st' o}
    (hs : step st (.sigThread T n) = some (st', o)) : st' = st ∧ o = [] := by
  simp only [step, sigThreadStep] at hs
  cases hbb : busy st T
  case true => simp [hbb] at hs
  have hpp : (st.ownerPid == 0 || st.ownerPid != st.pid) = true := by simp [hp]
  simp [hbb, hpp] at hs
  exact ⟨hs.1.symm, hs.2⟩

def handlerAction : Action → Bool
  | .sigThread _ _ => true
  | .sigProc _ => true
  | .posted _ => true
  | _ => false

theorem child_silent_run (st : State) (h : Inv st) (hp : st.ownerPid ≠ st.pid) (as : List Action)
    (hall : ∀ a, a ∈ as → handlerAction a = true) {st' o} (hr : run st as = some (st', o)) : st' = st ∧ o = [] := by
  induction as generalizing o with
  | nil => simp [run] at hr; exact ⟨hr.1.symm, hr.2⟩
  | cons a as ih =>
    simp only [run] at hr
    have ha := hall a (by simp)
    have hstep : ∀ p, step st a = some p → p = (st, []) := by
      intro p hp'
      obtain ⟨s1, o1⟩ := p
      cases a with
      | sigThread T n => have := child_silent_step st T n hp hp'; rw [this.1, this.2]
      | sigProc T =>
        simp only [step, sigProcStep] at hp'
        cases hpc : st.pc T with
        | none => simp [hpc] at hp'
        | some m => exact absurd (h.pc_main T m hpc) hp
      | posted T =>
        simp only [step, postedStep] at hp'
        cases hpe : st.pend T with
        | nil => simp [hpe] at hp'
        | cons x r => exact absurd (h.pend_main T (by rw [hpe]; simp)) hp
      | _ => simp [handlerAction] at ha
    cases hs : step st a with
    | none => simp [hs] at hr
    | some p =>
      have := hstep p hs
      subst this
      simp only [hs] at hr
      cases hr2 : run st as with
      | none => simp [hr2] at hr
      | some q =>
        obtain ⟨s2, o2⟩ := q
        simp only [hr2, Option.some.injEq, Prod.mk.injEq, List.nil_append] at hr
        obtain ⟨rfl, rfl⟩ := hr
        exact ih (fun a ha => hall a (List.mem_cons_of_mem _ ha)) hr2

theorem fork_child (st : State) (p : Nat) (hp : st.ownerPid = st.pid) {c o} (hs : step st (.fork p) = some (c, o)) :
    c.ownerPid ≠ c.pid ∧ o = [] ∧ (∀ T, c.pc T = none ∧ c.pend T = []) ∧ c.ownerPid = st.ownerPid := by
  simp only [step] at hs
  split at hs
  · simp at hs
  · rename_i hc
    simp at hc
    simp only [Option.some.injEq, Prod.mk.injEq] at hs
    obtain ⟨rfl, rfl⟩ := hs
    refine ⟨?_, rfl, fun T => ⟨rfl, rfl⟩, rfl⟩
    show st.ownerPid ≠ p
    rw [hp]; exact fun h => hc.1.2 h.symm

/-! ### an owed event run is never forgotten -/
theorem markSt_pend_mem (r : State) (T : Nat) (ps : List Nat) (l : Bool) (hp : r.pend T = []) (i : Nat)
    (hi : ∃ U, i ∈ r.pend U) : ∃ U, i ∈ (markSt r T ps l).pend U := by
  obtain ⟨U, hU⟩ := hi
  have hUT : U ≠ T := by intro h; rw [h, hp] at hU; cases hU
  exact ⟨U, by simp [markSt, upd_apply, hUT, hU]⟩

theorem oblig_step (st : State) (h : Inv st) (i : Nat) (ho : Oblig st i) (a : Action) (hc : consumes i a = false)
    {st' o} (hs : step st a = some (st', o)) : Oblig st' i := by
  obtain ⟨hown, hr, hob⟩ := ho
  cases a with
  | reg T j n e t =>
    simp only [step] at hs
    obtain ⟨hb, hrj, hcase⟩ := regStep_eq st T j n e t hs
    rcases hcase with ⟨_, rfl, _⟩ | ⟨hl, hn, rfl, _⟩
    · exact ⟨hown, hr, hob⟩
    · have hji : i ≠ j := by intro hij; rw [hij, hrj] at hr; cases hr
      have hbase : baseSt st = st := by
        unfold baseSt
        have hc' : (st.ownerPid != 0 && st.ownerPid != st.pid) = false := by simp [hown]
        simp only [hc', Bool.false_eq_true, if_false]
        cases st; simp_all
      rw [hbase, addSt_eq]
      cases t <;> simp [Oblig, setTree, add3, upd_apply, hji, hown, hr] <;> exact hob
  | unreg T j =>
    simp only [step] at hs
    obtain ⟨hb, hl, hrj, hoj, _, _, rfl, _⟩ := unregStep_eq st T j hs
    have hji : i ≠ j := by intro hij; simp [consumes, hij] at hc
    have hbb := (busy_false st T).mp hb
    have hrp : (remSt st T j).pend = st.pend := by cases ht : st.this j <;> simp [remSt, setTree, ht]
    refine ⟨by cases ht : st.this j <;> simp [markSt, remSt, setTree, ht, hown],
            by cases ht : st.this j <;> simp [markSt, remSt, setTree, ht, upd_apply, hji, hr], ?_⟩
    rcases hob with h1 | h1
    · left; cases ht : st.this j <;> simp [markSt, remSt, setTree, ht, upd_apply, hji, h1]
    · right; exact markSt_pend_mem _ T _ true (by rw [hrp]; exact hbb.2) i (by rw [hrp]; exact h1)
  | sigThread T n =>
    have hf := fanout_thread st h T n hown hs
    simp only [step, sigThreadStep] at hs
    cases hbb : busy st T
    case true => simp [hbb] at hs
    have hb := (busy_false st T).mp hbb
    have hpp : (st.ownerPid == 0 || st.ownerPid != st.pid) = false := by
      have := h.pid_pos; simp [hown]; omega
    simp only [hbb, hpp, Bool.false_eq_true, if_false] at hs
    cases hpe : (wake st (st.thr T) n).isEmpty
    · simp only [hpe, Bool.false_eq_true, if_false, Option.some.injEq, Prod.mk.injEq] at hs
      obtain ⟨rfl, rfl⟩ := hs
      refine ⟨hown, hr, ?_⟩
      rcases hob with h1 | h1
      · exact Or.inl h1
      · exact Or.inr (markSt_pend_mem st T _ false hb.2 i h1)
    · simp only [hpe, if_true, Option.some.injEq, Prod.mk.injEq] at hs
      obtain ⟨rfl, rfl⟩ := hs
      exact ⟨hown, hr, hob⟩
  | sigProc T =>
    simp only [step, sigProcStep] at hs
    cases hpc : st.pc T with
    | none => simp [hpc] at hs
    | some n =>
      simp only [hpc] at hs
      cases hcc : (st.lock.isSome || !(st.pend T).isEmpty)
      case true => simp [hcc] at hs
      simp only [hcc, Bool.false_eq_true, if_false, Option.some.injEq, Prod.mk.injEq] at hs
      obtain ⟨rfl, rfl⟩ := hs
      simp at hcc
      refine ⟨hown, hr, ?_⟩
      rcases hob with h1 | h1
      · exact Or.inl h1
      · exact Or.inr (markSt_pend_mem { st with pc := upd st.pc T none } T _ true hcc.2 i h1)
  | posted T =>
    simp only [step, postedStep] at hs
    cases hp : st.pend T with
    | nil => simp [hp] at hs
    | cons x rest =>
      simp only [hp] at hs
      cases hrx : st.reg x
      case false => simp [hrx] at hs
      simp only [hrx, Bool.not_true, Bool.false_eq_true, if_false, Option.some.injEq, Prod.mk.injEq] at hs
      obtain ⟨rfl, rfl⟩ := hs
      refine ⟨hown, hr, ?_⟩
      by_cases hix : i = x
      · left; simp [hix]
      · rcases hob with h1 | ⟨U, hU⟩
        · left; simp [upd_apply, hix, h1]
        · right
          by_cases hUT : U = T
          · rw [hUT, hp] at hU
            rcases List.mem_cons.mp hU with h2 | h2
            · exact absurd h2 hix
            · exact ⟨T, by simp [h2]⟩
          · exact ⟨U, by simp [upd_apply, hUT, hU]⟩
  | evRead j =>
    have hji : i ≠ j := by intro hij; simp [consumes, hij] at hc
    simp only [step] at hs
    split at hs
    · simp only [Option.some.injEq, Prod.mk.injEq] at hs
      obtain ⟨rfl, rfl⟩ := hs
      refine ⟨hown, hr, ?_⟩
      rcases hob with h1 | h1
      · left; simp [upd_apply, hji, h1]
      · exact Or.inr h1
    · simp at hs
  | evClear j =>
    simp only [step] at hs
    split at hs
    · simp only [Option.some.injEq, Prod.mk.injEq] at hs
      obtain ⟨rfl, rfl⟩ := hs
      exact ⟨hown, hr, hob⟩
    · simp at hs
  | evEnd j =>
    simp only [step] at hs
    split at hs
    · simp only [Option.some.injEq, Prod.mk.injEq] at hs
      obtain ⟨rfl, rfl⟩ := hs
      exact ⟨hown, hr, hob⟩
    · simp at hs
  | fork p => simp [consumes] at hc

theorem oblig_run (st : State) (h : Inv st) (i : Nat) (ho : Oblig st i) (as : List Action)
    (hc : ∀ a, a ∈ as → consumes i a = false) {st' o} (hr : run st as = some (st', o)) : Oblig st' i := by
  induction as generalizing st o with
  | nil => simp [run] at hr; rw [← hr.1]; exact ho
  | cons a as ih =>
    simp only [run] at hr
    cases hs : step st a with
    | none => simp [hs] at hr
    | some p =>
      obtain ⟨st1, o1⟩ := p
      simp only [hs] at hr
      cases hr2 : run st1 as with
      | none => simp [hr2] at hr
      | some q =>
        obtain ⟨st2, o2⟩ := q
        simp only [hr2, Option.some.injEq, Prod.mk.injEq] at hr
        obtain ⟨rfl, _⟩ := hr
        exact ih st1 (step_inv st h a hs) (oblig_step st h i ho a (hc a (by simp)) hs)
          (fun a ha => hc a (List.mem_cons_of_mem _ ha)) hr2

/-- a delivery that selects interest i creates the obligation, whatever the stage of i's handler -/
theorem delivery_oblig (st : State) (h : Inv st) (i : Nat) (d : Action) (hd : d.isDelivery = true) {st1 o1}
    (hs : step st d = some (st1, o1)) (hp : i ∈ posts o1) :
    Oblig st1 i ∧ st1.active i = true ∧ st1.noted i = true := by
  have hi1 := step_inv st h d hs
  cases d with
  | sigThread T n =>
    have hown : st.ownerPid = st.pid := by
      by_cases hh : st.ownerPid = st.pid
      · exact hh
      · have := child_silent_step st T n hh hs; rw [this.2] at hp; simp [posts] at hp
    have hf := fanout_thread st h T n hown hs
    have hpe : i ∈ st1.pend T := by rw [hf.2.2.2.2.2.1]; exact hp
    have hown1 : st1.ownerPid = st1.pid := hi1.pend_main T (by intro he; rw [he] at hpe; cases hpe)
    exact ⟨⟨hown1, (hi1.pend_reg T i hpe).1, Or.inr ⟨T, hpe⟩⟩, hf.2.2.2.2.2.2.1 i hp⟩
  | sigProc T =>
    cases hpc : st.pc T with
    | none => simp [step, sigProcStep, hpc] at hs
    | some n =>
      have hf := fanout_proc st h T n hpc hs
      have hpe : i ∈ st1.pend T := by rw [hf.2.2.2.2.1]; exact hp
      have hown1 : st1.ownerPid = st1.pid := hi1.pend_main T (by intro he; rw [he] at hpe; cases hpe)
      exact ⟨⟨hown1, (hi1.pend_reg T i hpe).1, Or.inr ⟨T, hpe⟩⟩, hf.2.2.2.2.2.2 i hp⟩
  | _ => simp [Action.isDelivery] at hd

theorem evRead_enabled (st : State) (i : Nat) (hr : st.reg i = true) (ho : st.owed i = true) (hs : st.stage i = 0)
    (hb : busy st (st.owner i) = false) : ∃ st', step st (.evRead i) = some (st', []) := by
  simp [step, hr, ho, hs, hb]

theorem posted_enabled (st : State) (h : Inv st) (T i : Nat) (rest : List Nat) (hp : st.pend T = i :: rest) :
    ∃ st', step st (.posted T) = some (st', []) ∧ st'.owed i = true := by
  have := (h.pend_reg T i (by rw [hp]; simp)).1
  simp [step, postedStep, hp, this]

theorem fanout_spec (st : State) (h : Inv st) (T n : Nat) (hp : st.ownerPid = st.pid) {st1 o1}
    (h1 : step st (.sigThread T n) = some (st1, o1)) :
    (HasThr st T n → st1.pc T = none ∧ ∀ i, i ∈ posts o1 ↔ Fanout st T n i) ∧
    (¬ HasThr st T n → o1 = [] ∧ st1.pc T = some n ∧
      ∀ {st2 o2}, step st1 (.sigProc T) = some (st2, o2) → ∀ i, i ∈ posts o2 ↔ Fanout st T n i) := by
  have hf := fanout_thread st h T n hp h1
  have hi1 := step_inv st h _ h1
  constructor
  · intro hhas
    refine ⟨hf.2.2.2.2.1 hhas, fun i => ?_⟩
    rw [hf.1 i]
    unfold Fanout
    constructor
    · intro hs; exact Or.inl ⟨hhas, hs⟩
    · rintro (⟨_, hs⟩ | ⟨hno, _⟩)
      · exact hs
      · exact absurd hhas hno
  · intro hno
    have hpnil : posts o1 = [] := by
      apply List.eq_nil_iff_forall_not_mem.mpr
      intro i hi
      have := (hf.1 i).mp hi
      exact hno ⟨i, this.1, this.2.1⟩
    have ho1 : o1 = [] := by rw [hf.2.2.1, hpnil]; rfl
    have hpc := hf.2.2.2.1.mpr hno
    refine ⟨ho1, hpc, ?_⟩
    intro st2 o2 h2 i
    have hst1 := hf.2.2.2.2.2.2.2 hno
    have := (fanout_proc st1 hi1 T n hpc h2).1 i
    rw [this]
    subst hst1
    unfold Fanout
    constructor
    · intro hs; exact Or.inr ⟨hno, hs⟩
    · rintro (⟨hhas, _⟩ | ⟨_, hs⟩)
      · exact absurd hhas hno
      · exact hs

theorem redelivery (st : State) (h : Inv st) (i : Nat) (d : Action) (hd : d.isDelivery = true)
    {st1 o1} (hs : step st d = some (st1, o1)) (hp : i ∈ posts o1)
    (as : List Action) (hc : ∀ a, a ∈ as → consumes i a = false) {st2 o2} (hr : run st1 as = some (st2, o2)) :
    st1.active i = true ∧ st1.noted i = true ∧ Oblig st1 i ∧ Oblig st2 i ∧
    (st2.owed i = true → st2.stage i = 0 → busy st2 (st2.owner i) = false →
      ∃ st3, step st2 (.evRead i) = some (st3, [])) := by
  have hd1 := delivery_oblig st h i d hd hs hp
  have hi1 := step_inv st h d hs
  have ho2 := oblig_run st1 hi1 i hd1.1 as hc hr
  exact ⟨hd1.2.1, hd1.2.2, hd1.1, ho2, fun ho hst hb => evRead_enabled st2 i ho2.2.1 ho hst hb⟩

end Proofs
end Ivy.Signal
