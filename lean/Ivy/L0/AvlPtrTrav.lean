import Ivy.L0.AvlPtrWalk
/-!
Traversal through parent pointers: `iv_avl_tree_next`, `iv_avl_tree_prev`,
`iv_avl_tree_min`, `iv_avl_tree_max` return the in-order neighbour / ends, and iterating
them visits exactly the in-order address list (hence `toList`) and terminates.
-/
set_option linter.unusedSimpArgs false
set_option linter.unusedVariables false
namespace Ivy.AvlPtr
open Ivy.Avl (Tree toList size)
open Ivy.Avl.Tree

theorem size_plug (c : List Frame) (t : Tree) : c.length + size t ≤ size (plug c t) := by
  induction c generalizing t with
  | nil => simp
  | cons f c ih =>
    have := ih (fill f t)
    cases f <;> simp [fill, size] at this ⊢ <;> omega

theorem descendLeft_spec {m : Mem} {root : Option Nat} : ∀ (t : Tree) {i : Nat} {par : Option Nat}
    {ids : List Nat} (fuel : Nat), Own m (some i) par t ids → size t ≤ fuel →
    ∃ v rest, ids = v :: rest ∧ descendLeft fuel ⟨m, root⟩ i = some v := by
  intro t
  induction t with
  | nil => intro i par ids fuel h; cases h.1
  | node l k hh r ihl _ =>
    intro i par ids fuel h hf
    obtain ⟨_, lp, rp, il, ir, e, hm, hl, hr, rfl⟩ := h
    cases e
    cases fuel with
    | zero => simp [size] at hf
    | succ fuel =>
      cases lp with
      | none =>
        obtain ⟨_, rfl⟩ := own_none hl
        exact ⟨i, ir, rfl, by simp [descendLeft, hm]⟩
      | some j =>
        obtain ⟨v, rest, rfl, e⟩ := ihl fuel hl (by simp [size] at hf; omega)
        exact ⟨v, rest ++ i :: ir, rfl, by simp [descendLeft, hm, e]⟩

theorem descendRight_spec {m : Mem} {root : Option Nat} : ∀ (t : Tree) {i : Nat} {par : Option Nat}
    {ids : List Nat} (fuel : Nat), Own m (some i) par t ids → size t ≤ fuel →
    ∃ v init, ids = init ++ [v] ∧ descendRight fuel ⟨m, root⟩ i = some v := by
  intro t
  induction t with
  | nil => intro i par ids fuel h; cases h.1
  | node l k hh r _ ihr =>
    intro i par ids fuel h hf
    obtain ⟨_, lp, rp, il, ir, e, hm, hl, hr, rfl⟩ := h
    cases e
    cases fuel with
    | zero => simp [size] at hf
    | succ fuel =>
      cases rp with
      | none =>
        obtain ⟨_, rfl⟩ := own_none hr
        exact ⟨i, il, rfl, by simp [descendRight, hm]⟩
      | some j =>
        obtain ⟨v, init, rfl, e⟩ := ihr fuel hr (by simp [size] at hf; omega)
        exact ⟨v, il ++ i :: init, by simp, by simp [descendRight, hm, e]⟩

/-- climbing while we are a right child ends at the first address right of the subtree -/
theorem climbRight_spec {m : Mem} {root : Option Nat} : ∀ (c : List Frame) {an : Nat}
    {hp : Option Nat} {pre post ids : List Nat} {t : Tree} (fuel : Nat),
    OwnCtx m root none c (some an) hp pre post → Own m (some an) hp t ids →
    (pre ++ ids ++ post).Nodup → c.length ≤ fuel →
    climbRight fuel ⟨m, root⟩ an hp = some post.head? := by
  intro c
  induction c with
  | nil =>
    intro an hp pre post ids t fuel hc ht nd hf
    obtain ⟨_, rfl, _, rfl⟩ := hc
    cases fuel <;> rfl
  | cons f c ih =>
    intro an hp pre post ids t fuel hc ht nd hf
    cases fuel with
    | zero => simp at hf
    | succ fuel =>
    simp only [List.length_cons, Nat.add_le_add_iff_right] at hf
    have han := own_root_mem ht
    cases f with
    | L k h sib =>
      obtain ⟨g, rp, gp, sids, post', rfl, hg, hs, hc', rfl⟩ := hc
      have : rp ≠ some an := by
        rintro rfl
        have := own_root_mem hs
        grind
      simp [climbRight, hg, this]
    | R k h sib =>
      obtain ⟨g, lp, gp, sids, pre', rfl, hg, hs, hc', rfl⟩ := hc
      have ht' : Own m (some g) gp (node sib k h t) (sids ++ g :: ids) :=
        ⟨g, lp, some an, sids, ids, rfl, hg, hs, ht, rfl⟩
      have := ih fuel hc' ht' (by simpa using nd) hf
      simp [climbRight, hg, this]

theorem climbLeft_spec {m : Mem} {root : Option Nat} : ∀ (c : List Frame) {an : Nat}
    {hp : Option Nat} {pre post ids : List Nat} {t : Tree} (fuel : Nat),
    OwnCtx m root none c (some an) hp pre post → Own m (some an) hp t ids →
    (pre ++ ids ++ post).Nodup → c.length ≤ fuel →
    climbLeft fuel ⟨m, root⟩ an hp = some pre.getLast? := by
  intro c
  induction c with
  | nil =>
    intro an hp pre post ids t fuel hc ht nd hf
    obtain ⟨_, rfl, rfl, _⟩ := hc
    cases fuel <;> rfl
  | cons f c ih =>
    intro an hp pre post ids t fuel hc ht nd hf
    cases fuel with
    | zero => simp at hf
    | succ fuel =>
    simp only [List.length_cons, Nat.add_le_add_iff_right] at hf
    have han := own_root_mem ht
    cases f with
    | R k h sib =>
      obtain ⟨g, lp, gp, sids, pre', rfl, hg, hs, hc', rfl⟩ := hc
      have : lp ≠ some an := by
        rintro rfl
        have := own_root_mem hs
        grind
      simp [climbLeft, hg, this]
    | L k h sib =>
      obtain ⟨g, rp, gp, sids, post', rfl, hg, hs, hc', rfl⟩ := hc
      have ht' : Own m (some g) gp (node t k h sib) (ids ++ g :: sids) :=
        ⟨g, some an, rp, ids, sids, rfl, hg, ht, hs, rfl⟩
      have := ih fuel hc' ht' (by simpa using nd) hf
      simp [climbLeft, hg, this]

theorem nodup_split_unique {A A' B B' : List Nat} {i : Nat} (nd : (A ++ i :: B).Nodup)
    (e : A ++ i :: B = A' ++ i :: B') : A = A' ∧ B = B' := by
  induction A generalizing A' with
  | nil =>
    cases A' with
    | nil => simpa using e
    | cons a A' =>
      simp only [List.nil_append, List.cons_append, List.cons.injEq] at e
      obtain ⟨rfl, rfl⟩ := e
      simp at nd
  | cons a A ih =>
    cases A' with
    | nil =>
      simp only [List.nil_append, List.cons_append, List.cons.injEq] at e
      obtain ⟨rfl, rfl⟩ := e
      simp at nd
    | cons a' A' =>
      simp only [List.cons_append, List.cons.injEq] at e
      obtain ⟨rfl, e⟩ := e
      obtain ⟨rfl, rfl⟩ := ih (by simpa using (List.nodup_cons.1 nd).2) e
      exact ⟨rfl, rfl⟩

/-- `iv_avl_tree_next` returns the in-order successor (NULL after the last node). -/
theorem next_spec {h : Heap} {t : Tree} {ids A B : List Nat} {i : Nat} {fuel : Nat}
    (hR : Repr h t ids) (hi : ids = A ++ i :: B) (hf : size t ≤ fuel) :
    next fuel h i = some B.head? := by
  obtain ⟨m, root⟩ := h
  obtain ⟨ho, nd⟩ := hR
  simp only at ho
  obtain ⟨c, l, k, hh, r, par, pre, post, il, ir, rfl, hc, hn, e⟩ :=
    own_find ho (a := i) (by simp [hi])
  have hn0 := hn
  obtain ⟨_, lp, rp, il', ir', e1, hm, hl, hr, e2⟩ := hn
  cases e1
  have ndI : (il ++ i :: ir).Nodup := by
    rw [e] at nd
    exact (List.nodup_append.1 (List.nodup_append.1 nd).1).2.1
  obtain ⟨rfl, rfl⟩ := nodup_split_unique ndI e2
  have hsz := size_plug c (node l k hh r)
  simp only [size] at hsz
  have : A = pre ++ il ∧ B = ir ++ post := by
    apply nodup_split_unique (i := i) (hi ▸ nd)
    rw [← hi, e]; simp
  obtain ⟨rfl, rfl⟩ := this
  cases rp with
  | none =>
    obtain ⟨_, rfl⟩ := own_none hr
    have := climbRight_spec (root := root) c fuel hc hn0 (e ▸ nd) (by omega)
    simp [next, hm, this]
  | some j =>
    obtain ⟨v, rest, rfl, e3⟩ := descendLeft_spec (root := root) r fuel hr (by omega)
    simp [next, hm, e3]

/-- `iv_avl_tree_prev` returns the in-order predecessor (NULL before the first node). -/
theorem prev_spec {h : Heap} {t : Tree} {ids A B : List Nat} {i : Nat} {fuel : Nat}
    (hR : Repr h t ids) (hi : ids = A ++ i :: B) (hf : size t ≤ fuel) :
    prev fuel h i = some A.getLast? := by
  obtain ⟨m, root⟩ := h
  obtain ⟨ho, nd⟩ := hR
  simp only at ho
  obtain ⟨c, l, k, hh, r, par, pre, post, il, ir, rfl, hc, hn, e⟩ :=
    own_find ho (a := i) (by simp [hi])
  have hn0 := hn
  obtain ⟨_, lp, rp, il', ir', e1, hm, hl, hr, e2⟩ := hn
  cases e1
  have ndI : (il ++ i :: ir).Nodup := by
    rw [e] at nd
    exact (List.nodup_append.1 (List.nodup_append.1 nd).1).2.1
  obtain ⟨rfl, rfl⟩ := nodup_split_unique ndI e2
  have hsz := size_plug c (node l k hh r)
  simp only [size] at hsz
  have : A = pre ++ il ∧ B = ir ++ post := by
    apply nodup_split_unique (i := i) (hi ▸ nd)
    rw [← hi, e]; simp
  obtain ⟨rfl, rfl⟩ := this
  cases lp with
  | none =>
    obtain ⟨_, rfl⟩ := own_none hl
    have := climbLeft_spec (root := root) c fuel hc hn0 (e ▸ nd) (by omega)
    simp [prev, hm, this]
  | some j =>
    obtain ⟨v, init, rfl, e3⟩ := descendRight_spec (root := root) l fuel hl (by omega)
    simp [prev, hm, e3]

theorem min_spec {h : Heap} {t : Tree} {ids : List Nat} {fuel : Nat}
    (hR : Repr h t ids) (hf : size t ≤ fuel) : min fuel h = some ids.head? := by
  obtain ⟨m, root⟩ := h
  obtain ⟨ho, nd⟩ := hR
  simp only at ho
  cases root with
  | none => obtain ⟨_, rfl⟩ := own_none ho; rfl
  | some i =>
    obtain ⟨v, rest, rfl, e⟩ := descendLeft_spec (root := some i) t fuel ho hf
    simp [min, e]

theorem max_spec {h : Heap} {t : Tree} {ids : List Nat} {fuel : Nat}
    (hR : Repr h t ids) (hf : size t ≤ fuel) : max fuel h = some ids.getLast? := by
  obtain ⟨m, root⟩ := h
  obtain ⟨ho, nd⟩ := hR
  simp only at ho
  cases root with
  | none => obtain ⟨_, rfl⟩ := own_none ho; rfl
  | some i =>
    obtain ⟨v, init, rfl, e⟩ := descendRight_spec (root := some i) t fuel ho hf
    simp [max, e]

theorem iterNext_spec {h : Heap} {t : Tree} {ids : List Nat} {fuel : Nat}
    (hR : Repr h t ids) (hf : size t ≤ fuel) : ∀ (B A : List Nat) (n : Nat),
    ids = A ++ B → B.length ≤ n → iterNext fuel h n B.head? = some B := by
  intro B
  induction B with
  | nil => intro A n _ _; cases n <;> rfl
  | cons b B ih =>
    intro A n e hn
    cases n with
    | zero => simp at hn
    | succ n =>
      have h1 := next_spec hR e hf
      have h2 := ih (A ++ [b]) n (by simp [e]) (by simpa using hn)
      simp [iterNext, h1, h2]

theorem iterPrev_spec {h : Heap} {t : Tree} {ids : List Nat} {fuel : Nat}
    (hR : Repr h t ids) (hf : size t ≤ fuel) : ∀ (R B : List Nat) (n : Nat),
    ids = R.reverse ++ B → R.length ≤ n → iterPrev fuel h n R.head? = some R := by
  intro R
  induction R with
  | nil => intro B n _ _; cases n <;> rfl
  | cons a R ih =>
    intro B n e hn
    cases n with
    | zero => simp at hn
    | succ n =>
      have e' : ids = R.reverse ++ a :: B := by simp [e]
      have h1 := prev_spec hR e' hf
      rw [List.getLast?_reverse] at h1
      have h2 := ih (a :: B) n e' (by simpa using hn)
      simp [iterPrev, h1, h2]

/-- `iv_avl_tree_for_each` visits exactly the nodes of the tree, in order, and terminates. -/
theorem forEach_spec {h : Heap} {t : Tree} {ids : List Nat} {fuel : Nat}
    (hR : Repr h t ids) (hf : size t ≤ fuel) : forEach fuel h = some ids := by
  have hlen := own_length hR.1
  simp [forEach, min_spec hR hf, iterNext_spec hR hf ids [] fuel rfl (by omega)]

/-- walking back from `iv_avl_tree_max` with `iv_avl_tree_prev` visits them in reverse. -/
theorem forEachRev_spec {h : Heap} {t : Tree} {ids : List Nat} {fuel : Nat}
    (hR : Repr h t ids) (hf : size t ≤ fuel) : forEachRev fuel h = some ids.reverse := by
  have hlen := own_length hR.1
  have := iterPrev_spec hR hf ids.reverse [] fuel (by simp) (by simp; omega)
  rw [List.head?_reverse] at this
  simp [forEachRev, max_spec hR hf, this]

/-- the keys stored at the in-order addresses are `toList` -/
theorem keysOf_ids {h : Heap} {t : Tree} {ids : List Nat} (hR : Repr h t ids) :
    keysOf h ids = (toList t).map some := own_keys hR.1

theorem keysOf_reverse (h : Heap) (l : List Nat) : keysOf h l.reverse = (keysOf h l).reverse := by
  simp [keysOf]

end Ivy.AvlPtr
