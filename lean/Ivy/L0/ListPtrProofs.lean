import Ivy.L0.ListPtr
/-!
Refinement proofs for the pointer-level list model (`Ivy/L0/ListPtr.lean`).

A circular doubly-linked list is two singly-linked rings over the same nodes, one through
the `next` fields and one, in the opposite direction, through the `prev` fields:

* `Walk f a xs b` : starting at address `a` and following the field map `f` one visits
  exactly the addresses `xs`, in order, and then arrives at `b`;
* `Repr h head xs` : the addresses `head :: xs` are pairwise distinct, following `next` from
  `head` one visits `xs` and is back at `head`, following `prev` from `head` one visits
  `xs.reverse` and is back at `head`.

All list surgery is proved once for a generic field map (`walk_retarget`, `walk_remove`,
`walk_insert_seg`) and instantiated for `next` (with `xs`) and `prev` (with `xs.reverse`)
in `repr_remove` / `repr_insert_seg`.  Each C function is then handled in three steps: compute
the resulting heap in closed form (`wrNext`/`wrPrev` = the stores), read off its `next`/`prev`
maps, apply the generic lemma.
-/
namespace Ivy.ListPtr

/-! ### list helpers -/

/-- first element of `l`, or `d` when `l` is empty (`l.headD d`) -/
def hd : List Nat → Nat → Nat
  | [], d => d
  | a :: _, _ => a

/-- last element of `l`, or `d` when `l` is empty (`l.getLastD d`) -/
def lst : List Nat → Nat → Nat
  | [], d => d
  | a :: l, _ => lst l a

@[simp] theorem hd_nil (d : Nat) : hd [] d = d := rfl
@[simp] theorem hd_cons (a : Nat) (l : List Nat) (d : Nat) : hd (a :: l) d = a := rfl
@[simp] theorem lst_nil (d : Nat) : lst [] d = d := rfl
@[simp] theorem lst_cons (a : Nat) (l : List Nat) (d : Nat) : lst (a :: l) d = lst l a := rfl

theorem hd_eq_headD (l : List Nat) (d : Nat) : hd l d = l.headD d := by cases l <;> rfl
theorem lst_eq_getLastD (l : List Nat) (d : Nat) : lst l d = l.getLastD d := by
  induction l generalizing d with
  | nil => rfl
  | cons a l ih => rw [lst_cons, ih, List.getLastD_cons]

@[simp] theorem hd_append (l₁ l₂ : List Nat) (d : Nat) : hd (l₁ ++ l₂) d = hd l₁ (hd l₂ d) := by
  cases l₁ <;> rfl

@[simp] theorem lst_append (l₁ l₂ : List Nat) (d : Nat) : lst (l₁ ++ l₂) d = lst l₂ (lst l₁ d) := by
  induction l₁ generalizing d with
  | nil => rfl
  | cons a l ih => simp [ih]

@[simp] theorem hd_reverse (l : List Nat) (d : Nat) : hd l.reverse d = lst l d := by
  induction l generalizing d with
  | nil => rfl
  | cons a l ih => simp [ih]

@[simp] theorem lst_reverse (l : List Nat) (d : Nat) : lst l.reverse d = hd l d := by
  cases l with
  | nil => rfl
  | cons a l => simp

theorem lst_mem (l : List Nat) (d : Nat) : lst l d ∈ d :: l := by
  induction l generalizing d with
  | nil => simp
  | cons a l ih =>
    rw [lst_cons]
    exact List.mem_cons_of_mem _ (ih a)

theorem nodup_reverse (l : List Nat) : l.reverse.Nodup ↔ l.Nodup := by
  simp only [List.Nodup, List.pairwise_reverse]
  constructor <;> intro h <;> exact h.imp (fun e => Ne.symm e)

theorem nodup_insert_seg {d : Nat} {A B Y : List Nat} (h : (d :: (A ++ B)).Nodup) (hy : Y.Nodup)
    (hdis : ∀ i ∈ Y, i ∉ d :: (A ++ B)) : (d :: (A ++ Y ++ B)).Nodup := by
  simp only [List.nodup_cons, List.nodup_append, List.mem_append, List.mem_cons, not_or] at *
  grind

theorem hd_mem (l : List Nat) (d : Nat) : hd l d ∈ d :: l := by
  cases l <;> simp

/-! ### field maps of a heap -/

/-- `next` field at an address: `none` = not allocated, `some none` = NULL -/
def nextOf (h : Heap) (a : Nat) : Option (Option Nat) := (h a).map (·.next)
def prevOf (h : Heap) (a : Nat) : Option (Option Nat) := (h a).map (·.prev)

/-- heap after `a->next = v` (for an allocated `a`) -/
def wrNext (h : Heap) (a : Nat) (v : Option Nat) : Heap :=
  fun j => if j = a then (h j).map fun n => { n with next := v } else h j
def wrPrev (h : Heap) (a : Nat) (v : Option Nat) : Heap :=
  fun j => if j = a then (h j).map fun n => { n with prev := v } else h j

/-- the address holds a record -/
def Alloc (h : Heap) (a : Nat) : Prop := (h a).isSome

instance (h : Heap) (a : Nat) : Decidable (Alloc h a) := inferInstanceAs (Decidable ((h a).isSome = true))

theorem ldNext_some (h : Heap) (a : Nat) : ldNext h (some a) = nextOf h a := rfl
theorem ldPrev_some (h : Heap) (a : Nat) : ldPrev h (some a) = prevOf h a := rfl

theorem stNext_some {h : Heap} {a : Nat} (v : Option Nat) (ha : Alloc h a) :
    stNext h (some a) v = some (wrNext h a v) := by
  unfold Alloc at ha
  cases e : h a with
  | none => simp [e] at ha
  | some n =>
    simp only [stNext, e]
    congr 1; funext j
    by_cases hj : j = a <;> simp [wrNext, hj, e]

theorem stPrev_some {h : Heap} {a : Nat} (v : Option Nat) (ha : Alloc h a) :
    stPrev h (some a) v = some (wrPrev h a v) := by
  unfold Alloc at ha
  cases e : h a with
  | none => simp [e] at ha
  | some n =>
    simp only [stPrev, e]
    congr 1; funext j
    by_cases hj : j = a <;> simp [wrPrev, hj, e]

@[simp] theorem alloc_wrNext (h : Heap) (a : Nat) (v : Option Nat) (j : Nat) :
    Alloc (wrNext h a v) j ↔ Alloc h j := by
  by_cases hj : j = a <;> simp [Alloc, wrNext, hj]

@[simp] theorem alloc_wrPrev (h : Heap) (a : Nat) (v : Option Nat) (j : Nat) :
    Alloc (wrPrev h a v) j ↔ Alloc h j := by
  by_cases hj : j = a <;> simp [Alloc, wrPrev, hj]

theorem alloc_of_next {h : Heap} {a : Nat} {v : Option Nat} (e : nextOf h a = some v) : Alloc h a := by
  unfold nextOf at e; unfold Alloc
  cases e' : h a <;> simp [e'] at e ⊢

theorem alloc_of_prev {h : Heap} {a : Nat} {v : Option Nat} (e : prevOf h a = some v) : Alloc h a := by
  unfold prevOf at e; unfold Alloc
  cases e' : h a <;> simp [e'] at e ⊢

theorem nextOf_wrNext_self {h : Heap} {a : Nat} (v : Option Nat) (ha : Alloc h a) :
    nextOf (wrNext h a v) a = some v := by
  unfold Alloc at ha
  cases e : h a <;> simp_all [nextOf, wrNext]

theorem prevOf_wrPrev_self {h : Heap} {a : Nat} (v : Option Nat) (ha : Alloc h a) :
    prevOf (wrPrev h a v) a = some v := by
  unfold Alloc at ha
  cases e : h a <;> simp_all [prevOf, wrPrev]

theorem nextOf_wrNext_ne {h : Heap} {a j : Nat} (v : Option Nat) (hj : j ≠ a) :
    nextOf (wrNext h a v) j = nextOf h j := by
  simp [nextOf, wrNext, hj]

theorem prevOf_wrPrev_ne {h : Heap} {a j : Nat} (v : Option Nat) (hj : j ≠ a) :
    prevOf (wrPrev h a v) j = prevOf h j := by
  simp [prevOf, wrPrev, hj]

@[simp] theorem nextOf_wrPrev (h : Heap) (a : Nat) (v : Option Nat) (j : Nat) :
    nextOf (wrPrev h a v) j = nextOf h j := by
  by_cases hj : j = a
  · subst hj; cases e : h j <;> simp [nextOf, wrPrev, e]
  · simp [nextOf, wrPrev, hj]

@[simp] theorem prevOf_wrNext (h : Heap) (a : Nat) (v : Option Nat) (j : Nat) :
    prevOf (wrNext h a v) j = prevOf h j := by
  by_cases hj : j = a
  · subst hj; cases e : h j <;> simp [prevOf, wrNext, e]
  · simp [prevOf, wrNext, hj]

theorem wrNext_ne {h : Heap} {a j : Nat} (v : Option Nat) (hj : j ≠ a) : wrNext h a v j = h j := by
  simp [wrNext, hj]

theorem wrPrev_ne {h : Heap} {a j : Nat} (v : Option Nat) (hj : j ≠ a) : wrPrev h a v j = h j := by
  simp [wrPrev, hj]

/-- a record is determined by its two fields -/
theorem node_of_fields {h : Heap} {a : Nat} {n p : Option Nat}
    (hn : nextOf h a = some n) (hp : prevOf h a = some p) : h a = some ⟨n, p⟩ := by
  unfold nextOf at hn; unfold prevOf at hp
  cases e : h a with
  | none => simp [e] at hn
  | some nd =>
    cases nd
    simp_all

theorem fields_of_node {h : Heap} {a : Nat} {n p : Option Nat} (e : h a = some ⟨n, p⟩) :
    nextOf h a = some n ∧ prevOf h a = some p := by
  simp [nextOf, prevOf, e]

/-- two heaps with the same fields at an address have the same record there -/
theorem heap_ext_at {h h' : Heap} {a : Nat} (hn : nextOf h' a = nextOf h a)
    (hp : prevOf h' a = prevOf h a) : h' a = h a := by
  unfold nextOf at hn; unfold prevOf at hp
  cases e : h a with
  | none => cases e' : h' a <;> simp_all
  | some nd =>
    cases e' : h' a with
    | none => simp_all
    | some nd' => cases nd; cases nd'; simp_all

/-! ### singly-linked walks over a generic field map -/

abbrev FMap := Nat → Option (Option Nat)

/-- from `a`, following `f`, one visits exactly `xs` in order and then reaches `b` -/
def Walk (f : FMap) : Nat → List Nat → Nat → Prop
  | a, [], b => f a = some (some b)
  | a, x :: xs, b => f a = some (some x) ∧ Walk f x xs b

/-- the part of a walk after its first hop: `B` is visited in order and leads to `b` -/
def Tail (f : FMap) : List Nat → Nat → Prop
  | [], _ => True
  | t :: B, b => Walk f t B b

theorem walk_iff_tail {f : FMap} {a : Nat} {B : List Nat} {b : Nat} :
    Walk f a B b ↔ f a = some (some (hd B b)) ∧ Tail f B b := by
  cases B <;> simp [Walk, Tail]

theorem walk_append {f : FMap} {a : Nat} {A : List Nat} {y : Nat} {B : List Nat} {b : Nat} :
    Walk f a (A ++ y :: B) b ↔ Walk f a A y ∧ Walk f y B b := by
  induction A generalizing a with
  | nil => simp [Walk]
  | cons x A ih => simp [Walk, ih, and_assoc]

theorem walk_split {f : FMap} {a : Nat} {A B : List Nat} {b : Nat} :
    Walk f a (A ++ B) b ↔ Walk f a A (hd B b) ∧ Tail f B b := by
  cases B with
  | nil => simp [Tail]
  | cons t B => simp [walk_append, Tail]

theorem walk_frame {f f' : FMap} {a : Nat} {A : List Nat} {b : Nat}
    (hw : Walk f a A b) (hf : ∀ i ∈ a :: A, f' i = f i) : Walk f' a A b := by
  induction A generalizing a with
  | nil => simpa [Walk, hf a (by simp)] using hw
  | cons x A ih =>
    refine ⟨by simpa [hf a (by simp)] using hw.1, ih hw.2 ?_⟩
    intro i hi; exact hf i (List.mem_cons_of_mem _ hi)

theorem tail_frame {f f' : FMap} {B : List Nat} {b : Nat}
    (ht : Tail f B b) (hf : ∀ i ∈ B, f' i = f i) : Tail f' B b := by
  cases B with
  | nil => trivial
  | cons t B => exact walk_frame ht hf

/-- redirect the last hop of a walk -/
theorem walk_retarget {f f' : FMap} {a : Nat} {A : List Nat} {c t : Nat}
    (hw : Walk f a A c) (nd : (a :: A).Nodup)
    (hl : f' (lst A a) = some (some t))
    (hf : ∀ i ∈ a :: A, i ≠ lst A a → f' i = f i) : Walk f' a A t := by
  induction A generalizing a with
  | nil => simpa [Walk] using hl
  | cons x A ih =>
    rw [lst_cons] at hl hf
    have hne : a ≠ lst A x := by
      intro e
      have := lst_mem A x
      rw [← e] at this
      exact (List.nodup_cons.1 nd).1 this
    refine ⟨?_, ih hw.2 (List.nodup_cons.1 nd).2 hl ?_⟩
    · rw [hf a (by simp) hne]; exact hw.1
    · intro i hi; exact hf i (List.mem_cons_of_mem _ hi)

/-- unlink `x`: the predecessor's field now holds `x`'s old successor -/
theorem walk_remove {f f' : FMap} {a : Nat} {A : List Nat} {x : Nat} {B : List Nat} {b : Nat}
    (hw : Walk f a (A ++ x :: B) b) (nd : (a :: (A ++ B)).Nodup)
    (hl : f' (lst A a) = some (some (hd B b)))
    (hf : ∀ i ∈ a :: (A ++ B), i ≠ lst A a → f' i = f i) :
    Walk f' a (A ++ B) b := by
  obtain ⟨h1, h2⟩ := walk_append.1 hw
  have hlm := lst_mem A a
  have ndA : (a :: A).Nodup := by
    have := nd; simp only [List.nodup_cons, List.nodup_append, List.mem_append] at this ⊢
    exact ⟨fun h => this.1 (Or.inl h), this.2.1⟩
  refine walk_split.2 ⟨walk_retarget h1 ndA hl ?_, tail_frame (walk_iff_tail.1 h2).2 ?_⟩
  · intro i hi; apply hf i
    simp only [List.mem_cons, List.mem_append] at hi ⊢
    rcases hi with h | h
    · exact Or.inl h
    · exact Or.inr (Or.inl h)
  · intro i hi
    apply hf i (by simp [hi])
    rintro rfl
    simp only [List.nodup_cons, List.nodup_append, List.mem_append, List.mem_cons] at nd hlm
    rcases hlm with h | h
    · exact nd.1 (h ▸ Or.inr hi)
    · exact nd.2.2.2 _ h _ hi rfl

theorem tail_append {f : FMap} {S B : List Nat} {b : Nat} :
    Tail f (S ++ B) b ↔ Tail f S (hd B b) ∧ Tail f B b := by
  cases S with
  | nil => simp [Tail]
  | cons s S => simp only [List.cons_append, Tail]; exact walk_split

/-- redirect the last hop of a tail -/
theorem tail_retarget {f f' : FMap} {S : List Nat} {c t d : Nat}
    (ht : Tail f S c) (nd : S.Nodup) (hl : f' (lst S d) = some (some t))
    (hf : ∀ i ∈ S, i ≠ lst S d → f' i = f i) : Tail f' S t := by
  cases S with
  | nil => trivial
  | cons s S => exact walk_retarget ht nd hl hf

/-- insert the (possibly empty) segment `S` between `A` and `B`: in the new map the predecessor
walks through `S` to the old successor -/
theorem walk_insert_seg {f f' : FMap} {a : Nat} {A B S : List Nat} {b : Nat}
    (hw : Walk f a (A ++ B) b) (nd : (a :: (A ++ B)).Nodup)
    (hs : Walk f' (lst A a) S (hd B b))
    (hf : ∀ i ∈ a :: (A ++ B), i ≠ lst A a → f' i = f i) :
    Walk f' a (A ++ S ++ B) b := by
  obtain ⟨h1, h2⟩ := walk_split.1 hw
  obtain ⟨s1, s2⟩ := walk_iff_tail.1 hs
  have hlm := lst_mem A a
  have ndA : (a :: A).Nodup := by
    have := nd; simp only [List.nodup_cons, List.nodup_append, List.mem_append] at this ⊢
    exact ⟨fun h => this.1 (Or.inl h), this.2.1⟩
  rw [List.append_assoc]
  refine walk_split.2 ⟨walk_retarget h1 ndA (by simpa using s1) ?_, tail_append.2 ⟨s2, tail_frame h2 ?_⟩⟩
  · intro i hi; apply hf i
    simp only [List.mem_cons, List.mem_append] at hi ⊢
    rcases hi with h | h
    · exact Or.inl h
    · exact Or.inr (Or.inl h)
  · intro i hi
    apply hf i (by simp [hi])
    rintro rfl
    simp only [List.nodup_cons, List.nodup_append, List.mem_append, List.mem_cons] at nd hlm
    rcases hlm with h | h
    · exact nd.1 (h ▸ Or.inr hi)
    · exact nd.2.2.2 _ h _ hi rfl

/-! ### the representation predicate -/

/-- The heap holds a well-formed circular doubly-linked list with head node `head` whose
elements are, in order, the addresses `xs`: `head :: xs` pairwise distinct; following `next`
from `head` visits `xs` and returns to `head`; following `prev` from `head` visits `xs.reverse`
and returns to `head`. -/
def Repr (h : Heap) (head : Nat) (xs : List Nat) : Prop :=
  (head :: xs).Nodup ∧ Walk (nextOf h) head xs head ∧ Walk (prevOf h) head xs.reverse head

theorem rev_mid (A : List Nat) (x : Nat) (B : List Nat) :
    (A ++ x :: B).reverse = B.reverse ++ x :: A.reverse := by simp

theorem repr_head {h : Heap} {head : Nat} {xs : List Nat} (hR : Repr h head xs) :
    nextOf h head = some (some (hd xs head)) ∧ prevOf h head = some (some (lst xs head)) := by
  refine ⟨(walk_iff_tail.1 hR.2.1).1, ?_⟩
  simpa using (walk_iff_tail.1 hR.2.2).1

theorem repr_elem {h : Heap} {head : Nat} {A : List Nat} {x : Nat} {B : List Nat}
    (hR : Repr h head (A ++ x :: B)) :
    nextOf h x = some (some (hd B head)) ∧ prevOf h x = some (some (lst A head)) := by
  refine ⟨(walk_iff_tail.1 (walk_append.1 hR.2.1).2).1, ?_⟩
  have := hR.2.2
  rw [rev_mid] at this
  simpa using (walk_iff_tail.1 (walk_append.1 this).2).1

/-- every node of the ring, head included, is allocated and has non-NULL fields pointing
into the ring -/
theorem repr_node {h : Heap} {head : Nat} {xs : List Nat} (hR : Repr h head xs) {a : Nat}
    (ha : a ∈ head :: xs) :
    ∃ n p, h a = some ⟨some n, some p⟩ ∧ n ∈ head :: xs ∧ p ∈ head :: xs := by
  rcases List.mem_cons.1 ha with rfl | hx
  · obtain ⟨e1, e2⟩ := repr_head hR
    exact ⟨_, _, node_of_fields e1 e2, hd_mem _ _, lst_mem _ _⟩
  · obtain ⟨A, B, rfl⟩ := List.append_of_mem hx
    obtain ⟨e1, e2⟩ := repr_elem hR
    refine ⟨_, _, node_of_fields e1 e2, ?_, ?_⟩
    · have := hd_mem B head; simp only [List.mem_cons, List.mem_append] at this ⊢
      rcases this with h | h
      · exact Or.inl h
      · exact Or.inr (Or.inr (Or.inr h))
    · have := lst_mem A head; simp only [List.mem_cons, List.mem_append] at this ⊢
      rcases this with h | h
      · exact Or.inl h
      · exact Or.inr (Or.inl h)

theorem repr_alloc {h : Heap} {head : Nat} {xs : List Nat} (hR : Repr h head xs) {a : Nat}
    (ha : a ∈ head :: xs) : Alloc h a := by
  obtain ⟨n, p, e, _⟩ := repr_node hR ha
  simp [Alloc, e]

/-- `Repr` depends only on the records of `head :: xs` -/
theorem repr_frame {h h' : Heap} {head : Nat} {xs : List Nat} (hR : Repr h head xs)
    (hf : ∀ i ∈ head :: xs, h' i = h i) : Repr h' head xs := by
  refine ⟨hR.1, walk_frame hR.2.1 ?_, walk_frame hR.2.2 ?_⟩
  · intro i hi; simp [nextOf, hf i hi]
  · intro i hi
    have : i ∈ head :: xs := by simpa using hi
    simp [prevOf, hf i this]

/-- mutual consistency: `a->next->prev == a` and `a->prev->next == a` all the way round -/
theorem repr_consistent {h : Heap} {head : Nat} {xs : List Nat} (hR : Repr h head xs) {a : Nat}
    (ha : a ∈ head :: xs) :
    ∃ n p, nextOf h a = some (some n) ∧ prevOf h a = some (some p) ∧
      prevOf h n = some (some a) ∧ nextOf h p = some (some a) := by
  rcases List.mem_cons.1 ha with rfl | hx
  · obtain ⟨e1, e2⟩ := repr_head hR
    refine ⟨_, _, e1, e2, ?_, ?_⟩
    · cases xs with
      | nil => simpa using e2
      | cons x xs => simpa using (repr_elem (A := []) hR).2
    · rcases List.eq_nil_or_concat xs with rfl | ⟨xs', z, rfl⟩
      · simpa using e1
      · simp only [List.concat_eq_append] at hR ⊢
        simpa using (repr_elem (B := []) hR).1
  · obtain ⟨A, B, rfl⟩ := List.append_of_mem hx
    obtain ⟨e1, e2⟩ := repr_elem hR
    refine ⟨_, _, e1, e2, ?_, ?_⟩
    · cases B with
      | nil => simpa using (repr_head hR).2
      | cons b B =>
        have : A ++ a :: b :: B = (A ++ [a]) ++ b :: B := by simp
        rw [this] at hR
        simpa using (repr_elem hR).2
    · rcases List.eq_nil_or_concat A with rfl | ⟨A', z, rfl⟩
      · simpa using (repr_head hR).1
      · simp only [List.concat_eq_append, List.append_assoc, List.cons_append, List.nil_append] at hR ⊢
        simpa using (repr_elem hR).1

/-- generic insertion of the segment `S` between `A` and `B` -/
theorem repr_insert_seg {h h' : Heap} {head : Nat} {A B S : List Nat}
    (hR : Repr h head (A ++ B)) (nd : (head :: (A ++ S ++ B)).Nodup)
    (hn : Walk (nextOf h') (lst A head) S (hd B head))
    (hp : Walk (prevOf h') (hd B head) S.reverse (lst A head))
    (hfn : ∀ i ∈ head :: (A ++ B), i ≠ lst A head → nextOf h' i = nextOf h i)
    (hfp : ∀ i ∈ head :: (A ++ B), i ≠ hd B head → prevOf h' i = prevOf h i) :
    Repr h' head (A ++ S ++ B) := by
  refine ⟨nd, walk_insert_seg hR.2.1 hR.1 hn hfn, ?_⟩
  have h2 := hR.2.2
  rw [List.reverse_append] at h2
  have nd2 : (head :: (B.reverse ++ A.reverse)).Nodup := by
    have := hR.1
    simp only [List.nodup_cons, List.nodup_append, List.mem_append, List.mem_reverse,
      nodup_reverse] at this ⊢
    exact ⟨fun h => this.1 h.symm, this.2.2.1, this.2.1, fun a ha b hb e => this.2.2.2 b hb a ha e.symm⟩
  have := walk_insert_seg (S := S.reverse) h2 nd2 (by simpa using hp) (by
    intro i hi hne
    apply hfp i _ (by simpa using hne)
    simp only [List.mem_cons, List.mem_append, List.mem_reverse] at hi ⊢
    rcases hi with h | h | h
    · exact Or.inl h
    · exact Or.inr (Or.inr h)
    · exact Or.inr (Or.inl h))
  simpa [List.reverse_append, List.append_assoc] using this

/-- generic removal of the element between `A` and `B` -/
theorem repr_remove {h h' : Heap} {head : Nat} {A : List Nat} {x : Nat} {B : List Nat}
    (hR : Repr h head (A ++ x :: B))
    (hn : nextOf h' (lst A head) = some (some (hd B head)))
    (hp : prevOf h' (hd B head) = some (some (lst A head)))
    (hfn : ∀ i ∈ head :: (A ++ B), i ≠ lst A head → nextOf h' i = nextOf h i)
    (hfp : ∀ i ∈ head :: (A ++ B), i ≠ hd B head → prevOf h' i = prevOf h i) :
    Repr h' head (A ++ B) := by
  have nd : (head :: (A ++ B)).Nodup := by
    have := hR.1
    simp only [List.nodup_cons, List.nodup_append, List.mem_append, List.mem_cons] at this ⊢
    exact ⟨fun h => this.1 (h.elim Or.inl (fun h => Or.inr (Or.inr h))), this.2.1, this.2.2.1.2,
      fun a ha b hb => this.2.2.2 a ha b (Or.inr hb)⟩
  refine ⟨nd, walk_remove hR.2.1 nd hn hfn, ?_⟩
  have h2 := hR.2.2
  rw [rev_mid] at h2
  have nd2 : (head :: (B.reverse ++ A.reverse)).Nodup := by
    have := nd
    simp only [List.nodup_cons, List.nodup_append, List.mem_append, List.mem_reverse,
      nodup_reverse] at this ⊢
    exact ⟨fun h => this.1 h.symm, this.2.2.1, this.2.1, fun a ha b hb e => this.2.2.2 b hb a ha e.symm⟩
  have := walk_remove h2 nd2 (by simpa using hp) (by
    intro i hi hne
    apply hfp i _ (by simpa using hne)
    simp only [List.mem_cons, List.mem_append, List.mem_reverse] at hi ⊢
    rcases hi with h | h | h
    · exact Or.inl h
    · exact Or.inr (Or.inr h)
    · exact Or.inr (Or.inl h))
  simpa [List.reverse_append] using this

/-- separation: a list whose nodes are all outside the touched set is still represented -/
theorem repr_sep {h h' : Heap} {T : List Nat} (hf : ∀ j, j ∉ T → h' j = h j)
    {o : Nat} {ys : List Nat} (hO : Repr h o ys) (hd : ∀ i ∈ o :: ys, i ∉ T) : Repr h' o ys :=
  repr_frame hO (fun i hi => hf i (hd i hi))

/-! ### INIT_IV_LIST_HEAD, iv_list_empty -/

/-- heap after `INIT_IV_LIST_HEAD(a)` -/
def initH (h : Heap) (a : Nat) : Heap := wrPrev (wrNext h a (some a)) a (some a)

theorem init_eq {h : Heap} {a : Nat} (ha : Alloc h a) : init h a = some (initH h a) := by
  simp [init, initH, stNext_some, stPrev_some, ha]

theorem nextOf_initH_self {h : Heap} {a : Nat} (ha : Alloc h a) :
    nextOf (initH h a) a = some (some a) := by
  simp [initH, nextOf_wrNext_self, ha]

theorem prevOf_initH_self {h : Heap} {a : Nat} (ha : Alloc h a) :
    prevOf (initH h a) a = some (some a) := by
  simp [initH, prevOf_wrPrev_self, ha]

theorem initH_ne {h : Heap} {a j : Nat} (hj : j ≠ a) : initH h a j = h j := by
  simp [initH, wrPrev_ne, wrNext_ne, hj]

theorem nextOf_initH_ne {h : Heap} {a j : Nat} (hj : j ≠ a) : nextOf (initH h a) j = nextOf h j := by
  simp [nextOf, initH_ne hj]

theorem prevOf_initH_ne {h : Heap} {a j : Nat} (hj : j ≠ a) : prevOf (initH h a) j = prevOf h j := by
  simp [prevOf, initH_ne hj]

@[simp] theorem alloc_initH (h : Heap) (a j : Nat) : Alloc (initH h a) j ↔ Alloc h j := by
  simp [initH]

theorem repr_initH {h : Heap} {a : Nat} (ha : Alloc h a) : Repr (initH h a) a [] :=
  ⟨by simp, nextOf_initH_self ha, prevOf_initH_self ha⟩

theorem init_spec {h : Heap} {a : Nat} (ha : Alloc h a) :
    ∃ h', init h a = some h' ∧ Repr h' a [] ∧ ∀ j, j ≠ a → h' j = h j :=
  ⟨_, init_eq ha, repr_initH ha, fun _ hj => initH_ne hj⟩

theorem empty_spec {h : Heap} {head : Nat} {xs : List Nat} (hR : Repr h head xs) :
    empty h head = some xs.isEmpty := by
  have hn := (repr_head hR).1
  cases xs with
  | nil => simp [empty, ldNext_some, hn]
  | cons x xs =>
    have : x ≠ head := fun e => (List.nodup_cons.1 hR.1).1 (e ▸ List.mem_cons_self ..)
    simp [empty, ldNext_some, hn, this]

/-! ### iv_list_add, iv_list_add_tail -/

theorem add_spec {h : Heap} {head : Nat} {xs : List Nat} {x : Nat}
    (hR : Repr h head xs) (hx : Alloc h x) (hfresh : x ∉ head :: xs) :
    ∃ h', add h x head = some h' ∧ Repr h' head (x :: xs) ∧
      (∀ j, j ∉ [x, head, hd xs head] → h' j = h j) := by
  obtain ⟨hn, hp⟩ := repr_head hR
  have hxh : x ≠ head := fun e => hfresh (e ▸ List.mem_cons_self ..)
  have hhx : head ≠ x := Ne.symm hxh
  have hxf : x ≠ hd xs head := fun e => hfresh (e ▸ hd_mem _ _)
  have hfx : hd xs head ≠ x := Ne.symm hxf
  have haf : Alloc h (hd xs head) := repr_alloc hR (hd_mem _ _)
  have hah : Alloc h head := repr_alloc hR (List.mem_cons_self ..)
  refine ⟨wrNext (wrPrev (wrPrev (wrNext h x (some (hd xs head))) x (some head))
      (hd xs head) (some x)) head (some x), ?_, ?_, ?_⟩
  · simp [add, ldNext_some, hn, stNext_some, stPrev_some, hx, haf, hah, nextOf_wrNext_ne, hhx]
  · have nd : (head :: ([] ++ [x] ++ xs)).Nodup := by
      have := hR.1
      simp only [List.mem_cons, not_or] at hfresh
      simp only [List.nil_append, List.singleton_append, List.nodup_cons, List.mem_cons, not_or] at this ⊢
      exact ⟨⟨hhx, this.1⟩, hfresh.2, this.2⟩
    refine repr_insert_seg (A := []) (B := xs) (S := [x]) hR nd ?_ ?_ ?_ ?_
    · simp [Walk, nextOf_wrNext_self, nextOf_wrNext_ne, hx, hah, hxh]
    · simp [Walk, prevOf_wrPrev_self, prevOf_wrPrev_ne, hx, haf, hxf]
    · intro i hi hne
      have hix : i ≠ x := fun e => hfresh (e ▸ hi)
      simp only [lst_nil] at hne
      simp [nextOf_wrNext_ne, hix, hne]
    · intro i hi hne
      have hix : i ≠ x := fun e => hfresh (e ▸ hi)
      simp [prevOf_wrPrev_ne, hix, hne]
  · intro j hj
    simp only [List.mem_cons, List.not_mem_nil, or_false, not_or] at hj
    simp [wrNext_ne, wrPrev_ne, hj]

theorem addTail_spec {h : Heap} {head : Nat} {xs : List Nat} {x : Nat}
    (hR : Repr h head xs) (hx : Alloc h x) (hfresh : x ∉ head :: xs) :
    ∃ h', addTail h x head = some h' ∧ Repr h' head (xs ++ [x]) ∧
      (∀ j, j ∉ [x, head, lst xs head] → h' j = h j) := by
  obtain ⟨hn, hp⟩ := repr_head hR
  have hxh : x ≠ head := fun e => hfresh (e ▸ List.mem_cons_self ..)
  have hhx : head ≠ x := Ne.symm hxh
  have hxl : x ≠ lst xs head := fun e => hfresh (e ▸ lst_mem _ _)
  have hlx : lst xs head ≠ x := Ne.symm hxl
  have hal : Alloc h (lst xs head) := repr_alloc hR (lst_mem _ _)
  have hah : Alloc h head := repr_alloc hR (List.mem_cons_self ..)
  refine ⟨wrPrev (wrNext (wrPrev (wrNext h x (some head)) x (some (lst xs head)))
      (lst xs head) (some x)) head (some x), ?_, ?_, ?_⟩
  · simp [addTail, ldPrev_some, hp, stNext_some, stPrev_some, hx, hal, hah, prevOf_wrPrev_ne, hhx]
  · have nd : (head :: (xs ++ [x] ++ [])).Nodup := by
      have := hR.1
      simp only [List.mem_cons, not_or] at hfresh
      simp only [List.append_nil, List.nodup_cons, List.nodup_append, List.mem_append, List.mem_cons,
        List.not_mem_nil, or_false, not_or] at this ⊢
      refine ⟨⟨this.1, hhx⟩, this.2, by simp, ?_⟩
      intro a ha b hb; subst hb; intro e; exact hfresh.2 (e ▸ ha)
    have hR0 : Repr h head (xs ++ []) := by simpa using hR
    suffices hs : Repr (wrPrev (wrNext (wrPrev (wrNext h x (some head)) x (some (lst xs head)))
        (lst xs head) (some x)) head (some x)) head (xs ++ [x] ++ []) by simpa using hs
    refine repr_insert_seg (A := xs) (B := []) (S := [x]) hR0 nd ?_ ?_ ?_ ?_
    · simp [Walk, nextOf_wrNext_self, nextOf_wrNext_ne, hx, hal, hxl]
    · simp [Walk, prevOf_wrPrev_self, prevOf_wrPrev_ne, hx, hah, hxh]
    · intro i hi hne
      have hix : i ≠ x := fun e => hfresh (e ▸ (by simpa using hi))
      simp [nextOf_wrNext_ne, hix, hne]
    · intro i hi hne
      have hix : i ≠ x := fun e => hfresh (e ▸ (by simpa using hi))
      simp only [hd_nil] at hne
      simp [prevOf_wrPrev_ne, hix, hne]
  · intro j hj
    simp only [List.mem_cons, List.not_mem_nil, or_false, not_or] at hj
    simp [wrNext_ne, wrPrev_ne, hj]

/-! ### iv_list_del, iv_list_del_init -/

/-- heap after the two unlink stores: `p->next = n; n->prev = p` -/
def unlinkH (h : Heap) (p n : Nat) : Heap := wrPrev (wrNext h p (some n)) n (some p)

theorem unlinkH_ne {h : Heap} {p n j : Nat} (hp : j ≠ p) (hn : j ≠ n) : unlinkH h p n j = h j := by
  simp [unlinkH, wrPrev_ne, wrNext_ne, hp, hn]

@[simp] theorem alloc_unlinkH (h : Heap) (p n j : Nat) : Alloc (unlinkH h p n) j ↔ Alloc h j := by
  simp [unlinkH]

theorem unlink_eq {h : Heap} {x p n : Nat} (hn : nextOf h x = some (some n))
    (hp : prevOf h x = some (some p)) (hap : Alloc h p) (han : Alloc h n) (hxp : x ≠ p) :
    unlink h x = some (unlinkH h p n) := by
  simp [unlink, unlinkH, ldNext_some, ldPrev_some, hn, hp, stNext_some, stPrev_some, hap, han,
    nextOf_wrNext_ne, hxp]

theorem mid_facts {h : Heap} {head : Nat} {A : List Nat} {x : Nat} {B : List Nat}
    (hR : Repr h head (A ++ x :: B)) :
    x ≠ lst A head ∧ x ≠ hd B head ∧ x ∉ head :: (A ++ B) ∧
      lst A head ∈ head :: (A ++ B) ∧ hd B head ∈ head :: (A ++ B) := by
  have nd := hR.1
  have hl := lst_mem A head
  have hh := hd_mem B head
  simp only [List.nodup_cons, List.nodup_append, List.mem_append, List.mem_cons, not_or] at nd hl hh ⊢
  have hxA : x ∉ A := fun hx => nd.2.2.2 x hx x (Or.inl rfl) rfl
  refine ⟨?_, ?_, ⟨fun e => nd.1.2.1 e.symm, hxA, nd.2.2.1.1⟩, ?_, ?_⟩
  · rintro e; rcases hl with h | h
    · exact nd.1.2.1 (e ▸ h).symm
    · exact hxA (e ▸ h)
  · rintro e; rcases hh with h | h
    · exact nd.1.2.1 (e ▸ h).symm
    · exact nd.2.2.1.1 (e ▸ h)
  · rcases hl with h | h
    · exact Or.inl h
    · exact Or.inr (Or.inl h)
  · rcases hh with h | h
    · exact Or.inl h
    · exact Or.inr (Or.inr h)

/-- after the two unlink stores the list without `x` is represented (whatever `x` holds) -/
theorem repr_unlinkH {h : Heap} {head : Nat} {A : List Nat} {x : Nat} {B : List Nat}
    (hR : Repr h head (A ++ x :: B)) :
    Repr (unlinkH h (lst A head) (hd B head)) head (A ++ B) := by
  obtain ⟨hxp, hxn, hxo, hpm, hnm⟩ := mid_facts hR
  have nd := hR.1
  have hap : Alloc h (lst A head) := repr_alloc hR (by
    simp only [List.mem_cons, List.mem_append] at hpm ⊢
    rcases hpm with h | h | h
    · exact Or.inl h
    · exact Or.inr (Or.inl h)
    · exact Or.inr (Or.inr (Or.inr h)))
  have han : Alloc h (hd B head) := repr_alloc hR (by
    simp only [List.mem_cons, List.mem_append] at hnm ⊢
    rcases hnm with h | h | h
    · exact Or.inl h
    · exact Or.inr (Or.inl h)
    · exact Or.inr (Or.inr (Or.inr h)))
  refine repr_remove hR ?_ ?_ ?_ ?_
  · simp [unlinkH, nextOf_wrNext_self, hap]
  · simp [unlinkH, prevOf_wrPrev_self, han]
  · intro i _ hne; simp [unlinkH, nextOf_wrNext_ne, hne]
  · intro i _ hne; simp [unlinkH, prevOf_wrPrev_ne, hne]

theorem unlink_mid {h : Heap} {head : Nat} {A : List Nat} {x : Nat} {B : List Nat}
    (hR : Repr h head (A ++ x :: B)) :
    unlink h x = some (unlinkH h (lst A head) (hd B head)) ∧ Alloc h x := by
  obtain ⟨hxp, hxn, hxo, hpm, hnm⟩ := mid_facts hR
  obtain ⟨en, ep⟩ := repr_elem hR
  have sub : ∀ i, i ∈ head :: (A ++ B) → i ∈ head :: (A ++ x :: B) := by
    intro i hi
    simp only [List.mem_cons, List.mem_append] at hi ⊢
    rcases hi with h | h | h
    · exact Or.inl h
    · exact Or.inr (Or.inl h)
    · exact Or.inr (Or.inr (Or.inr h))
  exact ⟨unlink_eq en ep (repr_alloc hR (sub _ hpm)) (repr_alloc hR (sub _ hnm)) hxp,
    alloc_of_next en⟩

theorem del_mid {h : Heap} {head : Nat} {A : List Nat} {x : Nat} {B : List Nat}
    (hR : Repr h head (A ++ x :: B)) :
    ∃ h', del h x = some h' ∧ Repr h' head (A ++ B) ∧ h' x = some ⟨none, none⟩ ∧
      (∀ j, j ∉ [x, lst A head, hd B head] → h' j = h j) := by
  obtain ⟨hxp, hxn, hxo, hpm, hnm⟩ := mid_facts hR
  obtain ⟨hu, hax⟩ := unlink_mid hR
  refine ⟨wrNext (wrPrev (unlinkH h (lst A head) (hd B head)) x none) x none, ?_, ?_, ?_, ?_⟩
  · simp [del, hu, stNext_some, stPrev_some, hax]
  · refine repr_frame (repr_unlinkH hR) ?_
    intro i hi
    have : i ≠ x := fun e => hxo (e ▸ hi)
    simp [wrNext_ne, wrPrev_ne, this]
  · apply node_of_fields
    · simp [nextOf_wrNext_self, hax]
    · simp [prevOf_wrPrev_self, hax]
  · intro j hj
    simp only [List.mem_cons, List.not_mem_nil, or_false, not_or] at hj
    simp [wrNext_ne, wrPrev_ne, hj, unlinkH_ne]

theorem delInit_mid {h : Heap} {head : Nat} {A : List Nat} {x : Nat} {B : List Nat}
    (hR : Repr h head (A ++ x :: B)) :
    ∃ h', delInit h x = some h' ∧ Repr h' head (A ++ B) ∧ Repr h' x [] ∧
      (∀ j, j ∉ [x, lst A head, hd B head] → h' j = h j) := by
  obtain ⟨hxp, hxn, hxo, hpm, hnm⟩ := mid_facts hR
  obtain ⟨hu, hax⟩ := unlink_mid hR
  have hax' : Alloc (unlinkH h (lst A head) (hd B head)) x := by simpa using hax
  refine ⟨initH (unlinkH h (lst A head) (hd B head)) x, ?_, ?_, repr_initH hax', ?_⟩
  · simp [delInit, hu, init_eq hax']
  · refine repr_frame (repr_unlinkH hR) ?_
    intro i hi
    have : i ≠ x := fun e => hxo (e ▸ hi)
    simp [initH_ne this]
  · intro j hj
    simp only [List.mem_cons, List.not_mem_nil, or_false, not_or] at hj
    simp [initH_ne hj.1, unlinkH_ne hj.2.1 hj.2.2]

/-- in a duplicate-free list, erasing a member removes exactly its one occurrence -/
theorem erase_mid {A : List Nat} {x : Nat} {B : List Nat} (nd : (A ++ x :: B).Nodup) :
    (A ++ x :: B).erase x = A ++ B := by
  have hxA : x ∉ A := by
    simp only [List.nodup_append, List.mem_cons] at nd
    exact fun hx => nd.2.2 x hx x (Or.inl rfl) rfl
  simp [List.erase_append, hxA]

theorem del_spec {h : Heap} {head : Nat} {xs : List Nat} {x : Nat}
    (hR : Repr h head xs) (hx : x ∈ xs) :
    ∃ h' A B, xs = A ++ x :: B ∧ del h x = some h' ∧ Repr h' head (xs.erase x) ∧
      h' x = some ⟨none, none⟩ ∧ (∀ j, j ∉ [x, lst A head, hd B head] → h' j = h j) := by
  obtain ⟨A, B, rfl⟩ := List.append_of_mem hx
  obtain ⟨h', e, r, n, f⟩ := del_mid hR
  refine ⟨h', A, B, rfl, e, ?_, n, f⟩
  rw [erase_mid (List.nodup_cons.1 hR.1).2]; exact r

theorem delInit_spec {h : Heap} {head : Nat} {xs : List Nat} {x : Nat}
    (hR : Repr h head xs) (hx : x ∈ xs) :
    ∃ h' A B, xs = A ++ x :: B ∧ delInit h x = some h' ∧ Repr h' head (xs.erase x) ∧
      Repr h' x [] ∧ (∀ j, j ∉ [x, lst A head, hd B head] → h' j = h j) := by
  obtain ⟨A, B, rfl⟩ := List.append_of_mem hx
  obtain ⟨h', e, r, n, f⟩ := delInit_mid hR
  refine ⟨h', A, B, rfl, e, ?_, n, f⟩
  rw [erase_mid (List.nodup_cons.1 hR.1).2]; exact r

/-! ### __iv_list_splice and the four splice variants -/

/-- heap after `__iv_list_splice` with `first = s`, `last = l`, `prev = p`, `next = n` -/
def spliceH (h : Heap) (s l p n : Nat) : Heap :=
  wrPrev (wrNext (wrNext (wrPrev h s (some p)) p (some s)) l (some n)) n (some l)

theorem spliceH_ne {h : Heap} {s l p n j : Nat} (hj : j ∉ [s, l, p, n]) : spliceH h s l p n j = h j := by
  simp only [List.mem_cons, List.not_mem_nil, or_false, not_or] at hj
  simp [spliceH, wrPrev_ne, wrNext_ne, hj]

@[simp] theorem alloc_spliceH (h : Heap) (s l p n j : Nat) :
    Alloc (spliceH h s l p n) j ↔ Alloc h j := by
  simp [spliceH]

/-- the elements `s :: S` of the list at `src` are inserted between `A` and `B` of the list at
`dst` when `__iv_list_splice` is called with `prev` = the node before the gap and `next` = the
node after it -/
theorem splice'_mid {h : Heap} {src dst s : Nat} {S A B : List Nat}
    (hRs : Repr h src (s :: S)) (hRd : Repr h dst (A ++ B))
    (hdis : ∀ i ∈ src :: s :: S, i ∉ dst :: (A ++ B)) :
    splice' h src (some (lst A dst)) (some (hd B dst)) =
        some (spliceH h s (lst S s) (lst A dst) (hd B dst)) ∧
      Repr (spliceH h s (lst S s) (lst A dst) (hd B dst)) dst (A ++ s :: S ++ B) := by
  obtain ⟨sn, sp⟩ := repr_head hRs
  simp only [hd_cons, lst_cons] at sn sp
  have ndS := hRs.1
  have ndD := hRd.1
  have hpm : lst A dst ∈ dst :: (A ++ B) := by
    have := lst_mem A dst; simp only [List.mem_cons, List.mem_append] at this ⊢
    rcases this with h | h
    · exact Or.inl h
    · exact Or.inr (Or.inl h)
  have hnm : hd B dst ∈ dst :: (A ++ B) := by
    have := hd_mem B dst; simp only [List.mem_cons, List.mem_append] at this ⊢
    rcases this with h | h
    · exact Or.inl h
    · exact Or.inr (Or.inr h)
  have hlm : lst S s ∈ s :: S := lst_mem S s
  have hsm : s ∈ s :: S := List.mem_cons_self ..
  have has : Alloc h s := repr_alloc hRs (List.mem_cons_of_mem _ hsm)
  have hal : Alloc h (lst S s) := repr_alloc hRs (List.mem_cons_of_mem _ hlm)
  have hap : Alloc h (lst A dst) := repr_alloc hRd hpm
  have han : Alloc h (hd B dst) := repr_alloc hRd hnm
  -- the source elements are not in the destination ring
  have hSD : ∀ i ∈ s :: S, ∀ j ∈ dst :: (A ++ B), i ≠ j := by
    intro i hi j hj e; exact hdis i (List.mem_cons_of_mem _ hi) (e ▸ hj)
  have hlp : lst S s ≠ lst A dst := hSD _ hlm _ hpm
  have hsn : s ≠ hd B dst := hSD _ hsm _ hnm
  constructor
  · simp [splice', spliceH, ldNext_some, ldPrev_some, sn, sp, stNext_some, stPrev_some, has, hal,
      hap, han]
  · have nd : (dst :: (A ++ (s :: S) ++ B)).Nodup :=
      nodup_insert_seg ndD (List.nodup_cons.1 ndS).2 (fun i hi => hdis i (List.mem_cons_of_mem _ hi))
    have := repr_insert_seg (h' := spliceH h s (lst S s) (lst A dst) (hd B dst)) (S := s :: S)
      hRd nd ?_ ?_ ?_ ?_
    · simpa using this
    · -- forward: prev -> s -> ... -> last -> next
      refine walk_iff_tail.2 ⟨by simp [spliceH, nextOf_wrNext_ne, nextOf_wrNext_self, hap, hlp.symm], ?_⟩
      refine tail_retarget (d := s) (walk_iff_tail.1 hRs.2.1).2 (List.nodup_cons.1 ndS).2 ?_ ?_
      · simp [spliceH, nextOf_wrNext_self, hal]
      · intro i hi hne
        have : i ≠ lst A dst := hSD i hi _ hpm
        simp only [lst_cons] at hne
        simp [spliceH, nextOf_wrNext_ne, hne, this]
    · -- backward: next -> last -> ... -> s -> prev
      refine walk_iff_tail.2 ⟨by simp [spliceH, prevOf_wrPrev_self, han], ?_⟩
      have ht := (walk_iff_tail.1 hRs.2.2).2
      refine tail_retarget (d := s) ht ((nodup_reverse _).2 (List.nodup_cons.1 ndS).2) ?_ ?_
      · simp [spliceH, prevOf_wrPrev_ne, prevOf_wrPrev_self, has, hsn]
      · intro i hi hne
        have him : i ∈ s :: S := by simpa [or_comm] using hi
        have : i ≠ hd B dst := hSD i him _ hnm
        simp only [lst_reverse, hd_cons] at hne
        simp [spliceH, prevOf_wrPrev_ne, hne, this]
    · intro i hi hne
      have : i ≠ lst S s := fun e => hSD _ hlm i hi e.symm
      simp [spliceH, nextOf_wrNext_ne, hne, this]
    · intro i hi hne
      have : i ≠ s := fun e => hSD _ hsm i hi e.symm
      simp [spliceH, prevOf_wrPrev_ne, hne, this]

/-- the source head is none of the four nodes `__iv_list_splice` writes to -/
theorem splice_src_untouched {h : Heap} {src dst s : Nat} {S A B : List Nat}
    (hRs : Repr h src (s :: S)) (hdis : ∀ i ∈ src :: s :: S, i ∉ dst :: (A ++ B)) :
    src ∉ [s, lst S s, lst A dst, hd B dst] := by
  have nd := hRs.1
  have h1 := lst_mem S s
  have h2 := lst_mem A dst
  have h3 := hd_mem B dst
  have h4 := hdis src (List.mem_cons_self ..)
  simp only [List.nodup_cons, List.mem_append, List.mem_cons, not_or, List.not_mem_nil, or_false] at *
  grind

theorem splice_spec {h : Heap} {src dst : Nat} {ys xs : List Nat}
    (hRs : Repr h src ys) (hRd : Repr h dst xs) (hdis : ∀ i ∈ src :: ys, i ∉ dst :: xs) :
    ∃ h', splice h src dst = some h' ∧ Repr h' dst (ys ++ xs) ∧ h' src = h src ∧
      (ys = [] → h' = h) ∧
      (∀ j, j ∉ [hd ys src, lst ys src, dst, hd xs dst] → h' j = h j) := by
  have he := empty_spec hRs
  have hdn := (repr_head hRd).1
  cases ys with
  | nil => exact ⟨h, by simp [splice, he], by simpa using hRd, rfl, fun _ => rfl, fun _ _ => rfl⟩
  | cons s S =>
    obtain ⟨e, r⟩ := splice'_mid (A := []) (B := xs) hRs (by simpa using hRd) (by simpa using hdis)
    refine ⟨_, by simpa [splice, he, ldNext_some, hdn] using e, by simpa using r, ?_, by simp, ?_⟩
    · exact spliceH_ne (splice_src_untouched (A := []) (B := xs) hRs (by simpa using hdis))
    · intro j hj; exact spliceH_ne (by simpa using hj)

theorem spliceTail_spec {h : Heap} {src dst : Nat} {ys xs : List Nat}
    (hRs : Repr h src ys) (hRd : Repr h dst xs) (hdis : ∀ i ∈ src :: ys, i ∉ dst :: xs) :
    ∃ h', spliceTail h src dst = some h' ∧ Repr h' dst (xs ++ ys) ∧ h' src = h src ∧
      (ys = [] → h' = h) ∧
      (∀ j, j ∉ [hd ys src, lst ys src, lst xs dst, dst] → h' j = h j) := by
  have he := empty_spec hRs
  have hdp := (repr_head hRd).2
  cases ys with
  | nil => exact ⟨h, by simp [spliceTail, he], by simpa using hRd, rfl, fun _ => rfl, fun _ _ => rfl⟩
  | cons s S =>
    obtain ⟨e, r⟩ := splice'_mid (A := xs) (B := []) hRs (by simpa using hRd) (by simpa using hdis)
    refine ⟨_, by simpa [spliceTail, he, ldPrev_some, hdp] using e, by simpa using r, ?_, by simp, ?_⟩
    · exact spliceH_ne (splice_src_untouched (A := xs) (B := []) hRs (by simpa using hdis))
    · intro j hj; exact spliceH_ne (by simpa using hj)

theorem spliceInit_spec {h : Heap} {src dst : Nat} {ys xs : List Nat}
    (hRs : Repr h src ys) (hRd : Repr h dst xs) (hdis : ∀ i ∈ src :: ys, i ∉ dst :: xs) :
    ∃ h', spliceInit h src dst = some h' ∧ Repr h' dst (ys ++ xs) ∧ Repr h' src [] ∧
      (ys = [] → h' = h) ∧
      (∀ j, j ∉ [src, hd ys src, lst ys src, dst, hd xs dst] → h' j = h j) := by
  have he := empty_spec hRs
  have hdn := (repr_head hRd).1
  cases ys with
  | nil => exact ⟨h, by simp [spliceInit, he], by simpa using hRd, hRs, fun _ => rfl, fun _ _ => rfl⟩
  | cons s S =>
    obtain ⟨e, r⟩ := splice'_mid (A := []) (B := xs) hRs (by simpa using hRd) (by simpa using hdis)
    simp only [lst_nil] at e r
    have has : Alloc (spliceH h s (lst S s) dst (hd xs dst)) src := by
      simpa using repr_alloc hRs (List.mem_cons_self ..)
    refine ⟨initH (spliceH h s (lst S s) dst (hd xs dst)) src, ?_, ?_, repr_initH has, by simp, ?_⟩
    · simp [spliceInit, he, ldNext_some, hdn, e, init_eq has]
    · refine repr_frame (by simpa using r) ?_
      intro i hi
      have : i ≠ src := by
        rintro rfl
        have nd := hRs.1
        have h4 := hdis i (List.mem_cons_self ..)
        simp only [List.nodup_cons, List.mem_append, List.mem_cons, not_or] at *
        grind
      exact initH_ne this
    · intro j hj
      simp only [List.mem_cons, not_or] at hj
      rw [initH_ne hj.1]
      exact spliceH_ne (by simpa using hj.2)

theorem spliceTailInit_spec {h : Heap} {src dst : Nat} {ys xs : List Nat}
    (hRs : Repr h src ys) (hRd : Repr h dst xs) (hdis : ∀ i ∈ src :: ys, i ∉ dst :: xs) :
    ∃ h', spliceTailInit h src dst = some h' ∧ Repr h' dst (xs ++ ys) ∧ Repr h' src [] ∧
      (ys = [] → h' = h) ∧
      (∀ j, j ∉ [src, hd ys src, lst ys src, lst xs dst, dst] → h' j = h j) := by
  have he := empty_spec hRs
  have hdp := (repr_head hRd).2
  cases ys with
  | nil => exact ⟨h, by simp [spliceTailInit, he], by simpa using hRd, hRs, fun _ => rfl, fun _ _ => rfl⟩
  | cons s S =>
    obtain ⟨e, r⟩ := splice'_mid (A := xs) (B := []) hRs (by simpa using hRd) (by simpa using hdis)
    simp only [hd_nil] at e r
    have has : Alloc (spliceH h s (lst S s) (lst xs dst) dst) src := by
      simpa using repr_alloc hRs (List.mem_cons_self ..)
    refine ⟨initH (spliceH h s (lst S s) (lst xs dst) dst) src, ?_, ?_, repr_initH has, by simp, ?_⟩
    · simp [spliceTailInit, he, ldPrev_some, hdp, e, init_eq has]
    · refine repr_frame (by simpa using r) ?_
      intro i hi
      have : i ≠ src := by
        rintro rfl
        have nd := hRs.1
        have h4 := hdis i (List.mem_cons_self ..)
        simp only [List.nodup_cons, List.mem_append, List.mem_cons, not_or] at *
        grind
      exact initH_ne this
    · intro j hj
      simp only [List.mem_cons, not_or] at hj
      rw [initH_ne hj.1]
      exact spliceH_ne (by simpa using hj.2)

/-! ### __iv_list_steal_elements -/

theorem steal_spec {h : Heap} {oldh newh : Nat} {xs : List Nat}
    (hR : Repr h oldh xs) (hnew : Alloc h newh) (hfresh : newh ∉ oldh :: xs) :
    ∃ h', steal h oldh newh = some h' ∧ Repr h' newh xs ∧ Repr h' oldh [] ∧
      (∀ j, j ∉ [oldh, newh, hd xs oldh, lst xs oldh] → h' j = h j) := by
  obtain ⟨hn, hp⟩ := repr_head hR
  have hao : Alloc h oldh := repr_alloc hR (List.mem_cons_self ..)
  have hno : newh ≠ oldh := fun e => hfresh (e ▸ List.mem_cons_self ..)
  have hon : oldh ≠ newh := Ne.symm hno
  cases xs with
  | nil =>
    simp only [hd_nil, lst_nil] at hn hp
    refine ⟨initH (wrPrev (wrNext (wrPrev (wrNext h oldh (some newh)) oldh (some newh))
        newh (some newh)) newh (some newh)) oldh, ?_, ?_, repr_initH (by simpa using hao), ?_⟩
    · simp [steal, ldNext_some, ldPrev_some, hn, hp, stNext_some, stPrev_some, hao, hnew,
        nextOf_wrNext_self, prevOf_wrPrev_self, initH]
    · refine ⟨by simp, ?_, ?_⟩
      · simp [Walk, nextOf_initH_ne hno, nextOf_wrNext_self, hnew]
      · simp [Walk, prevOf_initH_ne hno, prevOf_wrPrev_self, hnew]
    · intro j hj
      simp only [List.mem_cons, List.not_mem_nil, or_false, not_or, hd_nil, lst_nil] at hj
      simp [initH_ne hj.1, wrPrev_ne, wrNext_ne, hj]
  | cons s S =>
    simp only [hd_cons, lst_cons] at hn hp
    have nd := hR.1
    have hlm : lst S s ∈ s :: S := lst_mem S s
    have hsm : s ∈ s :: S := List.mem_cons_self ..
    have has : Alloc h s := repr_alloc hR (List.mem_cons_of_mem _ hsm)
    have hal : Alloc h (lst S s) := repr_alloc hR (List.mem_cons_of_mem _ hlm)
    have hos : oldh ≠ s := fun e => (List.nodup_cons.1 nd).1 (e ▸ hsm)
    have hol : oldh ≠ lst S s := fun e => (List.nodup_cons.1 nd).1 (e ▸ hlm)
    have hns : newh ≠ s := by
      intro e; subst e; exact hfresh (List.mem_cons_of_mem _ hsm)
    have hnl : newh ≠ lst S s := by
      intro e; subst e; exact hfresh (List.mem_cons_of_mem _ hlm)
    refine ⟨initH (wrPrev (wrNext (wrPrev (wrNext h (lst S s) (some newh)) s (some newh))
        newh (some s)) newh (some (lst S s))) oldh, ?_, ?_, repr_initH (by simpa using hao), ?_⟩
    · simp [steal, ldNext_some, ldPrev_some, hn, hp, stNext_some, stPrev_some, hao, hnew, has, hal,
        nextOf_wrNext_ne, prevOf_wrPrev_ne, hol, hos, initH]
    · have ndn : (newh :: s :: S).Nodup := List.nodup_cons.2 ⟨fun hm => hfresh (List.mem_cons_of_mem _ hm),
        (List.nodup_cons.1 nd).2⟩
      refine ⟨ndn, walk_iff_tail.2 ⟨?_, ?_⟩, walk_iff_tail.2 ⟨?_, ?_⟩⟩
      · simp [nextOf_initH_ne hno, nextOf_wrNext_self, hnew]
      · refine tail_retarget (d := s) (walk_iff_tail.1 hR.2.1).2 (List.nodup_cons.1 nd).2 ?_ ?_
        · simp [nextOf_initH_ne hol.symm, nextOf_wrNext_ne, hnl.symm, nextOf_wrNext_self, hal]
        · intro i hi hne
          have hio : i ≠ oldh := fun e => (List.nodup_cons.1 nd).1 (e ▸ hi)
          have hin : i ≠ newh := fun e => hfresh (e ▸ List.mem_cons_of_mem _ hi)
          simp only [lst_cons] at hne
          simp [nextOf_initH_ne hio, nextOf_wrNext_ne, hin, hne]
      · simp [prevOf_initH_ne hno, prevOf_wrPrev_self, hnew]
      · refine tail_retarget (d := s) (walk_iff_tail.1 hR.2.2).2
          ((nodup_reverse _).2 (List.nodup_cons.1 nd).2) ?_ ?_
        · simp [prevOf_initH_ne hos.symm, prevOf_wrPrev_ne, hns.symm, prevOf_wrPrev_self, has]
        · intro i hi hne
          have him : i ∈ s :: S := by simpa [or_comm] using hi
          have hio : i ≠ oldh := fun e => (List.nodup_cons.1 nd).1 (e ▸ him)
          have hin : i ≠ newh := fun e => hfresh (e ▸ List.mem_cons_of_mem _ him)
          simp only [lst_reverse, hd_cons] at hne
          simp [prevOf_initH_ne hio, prevOf_wrPrev_ne, hin, hne]
    · intro j hj
      simp only [List.mem_cons, List.not_mem_nil, or_false, not_or, hd_cons, lst_cons] at hj
      simp [initH_ne hj.1, wrPrev_ne, wrNext_ne, hj]

/-! ### iv_list_for_each -/

theorem forEachLoop_tail {h : Heap} {head : Nat} {L : List Nat} {fuel : Nat}
    (ht : Tail (nextOf h) L head) (hh : head ∉ L) (hf : L.length ≤ fuel) :
    forEachLoop h head fuel (some (hd L head)) = some L := by
  induction L generalizing fuel with
  | nil => cases fuel <;> simp [forEachLoop]
  | cons c L ih =>
    have hc : c ≠ head := fun e => hh (e ▸ List.mem_cons_self ..)
    obtain ⟨e, t⟩ := walk_iff_tail.1 (show Walk (nextOf h) c L head from ht)
    cases fuel with
    | zero => simp at hf
    | succ fuel =>
      have := ih t (fun hm => hh (List.mem_cons_of_mem _ hm)) (by simpa using hf)
      simp [forEachLoop, hc, ldNext_some, e, this]

theorem forEach_spec {h : Heap} {head : Nat} {xs : List Nat} {fuel : Nat}
    (hR : Repr h head xs) (hf : xs.length ≤ fuel) : forEach fuel h head = some xs := by
  obtain ⟨e, t⟩ := walk_iff_tail.1 hR.2.1
  simp [forEach, ldNext_some, e, forEachLoop_tail t (List.nodup_cons.1 hR.1).1 hf]

/-! ### iv_list_for_each_safe with deletion of the current element -/

/-- the elements that survive `for_each_safe` when the body deletes the element visited at
position `i` iff `d i` -/
def survivors (d : Nat → Bool) : Nat → List Nat → List Nat
  | _, [] => []
  | i, x :: xs => if d i then survivors d (i + 1) xs else x :: survivors d (i + 1) xs

theorem survivors_sub (d : Nat → Bool) (i : Nat) (xs : List Nat) :
    ∀ x ∈ survivors d i xs, x ∈ xs := by
  induction xs generalizing i with
  | nil => simp [survivors]
  | cons y xs ih =>
    intro x hx
    simp only [survivors] at hx
    split at hx
    · exact List.mem_cons_of_mem _ (ih _ x hx)
    · rcases List.mem_cons.1 hx with rfl | hx
      · exact List.mem_cons_self ..
      · exact List.mem_cons_of_mem _ (ih _ x hx)

theorem forEachSafeLoop_spec {head : Nat} {d : Nat → Bool} (R : List Nat) :
    ∀ (S : List Nat) (h : Heap) (fuel pos : Nat) (nxt : Option Nat),
      Repr h head (S ++ R) → R.length ≤ fuel → (R ≠ [] → nxt = some (hd R.tail head)) →
      ∃ h', forEachSafeLoop head d fuel h pos (some (hd R head)) nxt = some (h', R) ∧
        Repr h' head (S ++ survivors d pos R) ∧
        (∀ j, j ∉ head :: (S ++ R) → h' j = h j) ∧
        (∀ x ∈ R, x ∉ survivors d pos R → h' x = some ⟨none, none⟩) := by
  induction R with
  | nil =>
    intro S h fuel pos nxt hR _ _
    refine ⟨h, ?_, by simpa [survivors] using hR, fun _ _ => rfl, by simp⟩
    cases fuel <;> simp [forEachSafeLoop]
  | cons c R ih =>
    intro S h fuel pos nxt hR hf hnx
    have hnxt : nxt = some (hd R head) := hnx (by simp)
    subst hnxt
    have nd := hR.1
    have hc : c ≠ head := by
      intro e; subst e
      simp [List.nodup_cons] at nd
    cases fuel with
    | zero => simp at hf
    | succ fuel =>
      have hf' : R.length ≤ fuel := by simpa using hf
      -- the heap after the body, and the list it represents
      have key : ∀ (h1 : Heap) (S' : List Nat), Repr h1 head (S' ++ R) →
          ∃ v, ldNext h1 (some (hd R head)) = some v ∧ (R ≠ [] → v = some (hd R.tail head)) := by
        intro h1 S' hR1
        cases R with
        | nil =>
          obtain ⟨e, _⟩ := repr_head hR1
          exact ⟨_, by simpa [ldNext_some] using e, by simp⟩
        | cons c' R' =>
          obtain ⟨e, _⟩ := repr_elem hR1
          exact ⟨_, by simpa [ldNext_some] using e, by simp⟩
      by_cases hd' : d pos = true
      · obtain ⟨h1, e1, r1, n1, f1⟩ := del_mid hR
        obtain ⟨v, ev, hv⟩ := key h1 S r1
        obtain ⟨h', e', r', f', n'⟩ := ih S h1 fuel (pos + 1) v r1 hf' hv
        have hcout : c ∉ head :: (S ++ R) := (mid_facts hR).2.2.1
        refine ⟨h', ?_, by simpa [survivors, hd'] using r', ?_, ?_⟩
        · simp [forEachSafeLoop, hc, hd', e1, ev, e']
        · intro j hj
          rw [f' j (by
            simp only [List.mem_cons, List.mem_append, not_or] at hj ⊢
            exact ⟨hj.1, hj.2.1, hj.2.2.2⟩)]
          apply f1 j
          have h1 := lst_mem S head
          have h2 := hd_mem R head
          simp only [List.mem_cons, List.mem_append, not_or, List.not_mem_nil, or_false] at hj h1 h2 ⊢
          grind
        · intro x hx hns
          simp only [survivors, hd', if_true] at hns
          by_cases hxc : x = c
          · subst hxc
            rw [f' x hcout]; exact n1
          · exact n' x ((List.mem_cons.1 hx).resolve_left hxc) hns
      · have hR' : Repr h head ((S ++ [c]) ++ R) := by simpa using hR
        obtain ⟨v, ev, hv⟩ := key h (S ++ [c]) hR'
        obtain ⟨h', e', r', f', n'⟩ := ih (S ++ [c]) h fuel (pos + 1) v hR' hf' hv
        refine ⟨h', ?_, by simpa [survivors, hd'] using r', ?_, ?_⟩
        · simp [forEachSafeLoop, hc, hd', ev, e']
        · intro j hj
          exact f' j (by simpa using hj)
        · intro x hx hns
          simp only [survivors, hd'] at hns
          simp only [Bool.false_eq_true, if_false, List.mem_cons, not_or] at hns
          exact n' x ((List.mem_cons.1 hx).resolve_left hns.1) hns.2

theorem forEachSafe_spec {h : Heap} {head : Nat} {xs : List Nat} {fuel : Nat} (d : Nat → Bool)
    (hR : Repr h head xs) (hf : xs.length ≤ fuel) :
    ∃ h', forEachSafe fuel h head d = some (h', xs) ∧ Repr h' head (survivors d 0 xs) ∧
      (∀ j, j ∉ head :: xs → h' j = h j) ∧
      (∀ x ∈ xs, x ∉ survivors d 0 xs → h' x = some ⟨none, none⟩) := by
  obtain ⟨e, _⟩ := repr_head hR
  have : ∃ v, ldNext h (some (hd xs head)) = some v ∧ (xs ≠ [] → v = some (hd xs.tail head)) := by
    cases xs with
    | nil => exact ⟨_, by simpa [ldNext_some] using e, by simp⟩
    | cons c R =>
      obtain ⟨e2, _⟩ := repr_elem (A := []) hR
      exact ⟨_, by simpa [ldNext_some] using e2, by simp⟩
  obtain ⟨v, ev, hv⟩ := this
  obtain ⟨h', e', r', f', n'⟩ := forEachSafeLoop_spec (d := d) xs [] h fuel 0 v (by simpa using hR) hf hv
  exact ⟨h', by simp [forEachSafe, ldNext_some, e, ev, e'], by simpa using r', by simpa using f', n'⟩

/-! ### the property statements: refinement + frame + separation -/

/-- what an operation that only touches nodes of `big` preserves: every list all of whose
nodes are outside `big` -/
def Preserves (h h' : Heap) (big : List Nat) : Prop :=
  ∀ o ys, Repr h o ys → (∀ i ∈ o :: ys, i ∉ big) → Repr h' o ys

theorem preserves_of_frame {h h' : Heap} {T big : List Nat} (hsub : ∀ j ∈ T, j ∈ big)
    (hf : ∀ j, j ∉ T → h' j = h j) : Preserves h h' big :=
  fun _ _ hO hdis => repr_sep hf hO (fun i hi hT => hdis i hi (hsub i hT))

theorem add_refines {h : Heap} {head : Nat} {xs : List Nat} {x : Nat}
    (hR : Repr h head xs) (hx : Alloc h x) (hfresh : x ∉ head :: xs) :
    ∃ h', add h x head = some h' ∧ Repr h' head (x :: xs) ∧
      (∀ j, j ∉ [x, head, hd xs head] → h' j = h j) ∧ Preserves h h' (x :: head :: xs) := by
  obtain ⟨h', e, r, f⟩ := add_spec hR hx hfresh
  refine ⟨h', e, r, f, preserves_of_frame ?_ f⟩
  have := hd_mem xs head
  simp only [List.mem_cons, List.not_mem_nil, or_false] at this ⊢
  grind

theorem addTail_refines {h : Heap} {head : Nat} {xs : List Nat} {x : Nat}
    (hR : Repr h head xs) (hx : Alloc h x) (hfresh : x ∉ head :: xs) :
    ∃ h', addTail h x head = some h' ∧ Repr h' head (xs ++ [x]) ∧
      (∀ j, j ∉ [x, head, lst xs head] → h' j = h j) ∧ Preserves h h' (x :: head :: xs) := by
  obtain ⟨h', e, r, f⟩ := addTail_spec hR hx hfresh
  refine ⟨h', e, r, f, preserves_of_frame ?_ f⟩
  have := lst_mem xs head
  simp only [List.mem_cons, List.not_mem_nil, or_false] at this ⊢
  grind

theorem del_refines {h : Heap} {head : Nat} {xs : List Nat} {x : Nat}
    (hR : Repr h head xs) (hx : x ∈ xs) :
    ∃ h' A B, xs = A ++ x :: B ∧ del h x = some h' ∧ Repr h' head (xs.erase x) ∧
      h' x = some ⟨none, none⟩ ∧ (∀ j, j ∉ [x, lst A head, hd B head] → h' j = h j) ∧
      Preserves h h' (head :: xs) := by
  obtain ⟨h', A, B, rfl, e, r, n, f⟩ := del_spec hR hx
  refine ⟨h', A, B, rfl, e, r, n, f, preserves_of_frame ?_ f⟩
  have h1 := lst_mem A head
  have h2 := hd_mem B head
  simp only [List.mem_cons, List.mem_append, List.not_mem_nil, or_false] at h1 h2 ⊢
  grind

theorem delInit_refines {h : Heap} {head : Nat} {xs : List Nat} {x : Nat}
    (hR : Repr h head xs) (hx : x ∈ xs) :
    ∃ h' A B, xs = A ++ x :: B ∧ delInit h x = some h' ∧ Repr h' head (xs.erase x) ∧
      Repr h' x [] ∧ (∀ j, j ∉ [x, lst A head, hd B head] → h' j = h j) ∧
      Preserves h h' (head :: xs) := by
  obtain ⟨h', A, B, rfl, e, r, n, f⟩ := delInit_spec hR hx
  refine ⟨h', A, B, rfl, e, r, n, f, preserves_of_frame ?_ f⟩
  have h1 := lst_mem A head
  have h2 := hd_mem B head
  simp only [List.mem_cons, List.mem_append, List.not_mem_nil, or_false] at h1 h2 ⊢
  grind

theorem splice_refines {h : Heap} {src dst : Nat} {ys xs : List Nat}
    (hRs : Repr h src ys) (hRd : Repr h dst xs) (hdis : ∀ i ∈ src :: ys, i ∉ dst :: xs) :
    ∃ h', splice h src dst = some h' ∧ Repr h' dst (ys ++ xs) ∧ h' src = h src ∧
      (ys = [] → h' = h) ∧
      (∀ j, j ∉ [hd ys src, lst ys src, dst, hd xs dst] → h' j = h j) ∧
      Preserves h h' (src :: ys ++ dst :: xs) := by
  obtain ⟨h', e, r, s, n, f⟩ := splice_spec hRs hRd hdis
  refine ⟨h', e, r, s, n, f, preserves_of_frame ?_ f⟩
  have h1 := hd_mem ys src
  have h2 := lst_mem ys src
  have h3 := hd_mem xs dst
  simp only [List.mem_cons, List.mem_append, List.not_mem_nil, or_false] at h1 h2 h3 ⊢
  grind

theorem spliceTail_refines {h : Heap} {src dst : Nat} {ys xs : List Nat}
    (hRs : Repr h src ys) (hRd : Repr h dst xs) (hdis : ∀ i ∈ src :: ys, i ∉ dst :: xs) :
    ∃ h', spliceTail h src dst = some h' ∧ Repr h' dst (xs ++ ys) ∧ h' src = h src ∧
      (ys = [] → h' = h) ∧
      (∀ j, j ∉ [hd ys src, lst ys src, lst xs dst, dst] → h' j = h j) ∧
      Preserves h h' (src :: ys ++ dst :: xs) := by
  obtain ⟨h', e, r, s, n, f⟩ := spliceTail_spec hRs hRd hdis
  refine ⟨h', e, r, s, n, f, preserves_of_frame ?_ f⟩
  have h1 := hd_mem ys src
  have h2 := lst_mem ys src
  have h3 := lst_mem xs dst
  simp only [List.mem_cons, List.mem_append, List.not_mem_nil, or_false] at h1 h2 h3 ⊢
  grind

theorem spliceInit_refines {h : Heap} {src dst : Nat} {ys xs : List Nat}
    (hRs : Repr h src ys) (hRd : Repr h dst xs) (hdis : ∀ i ∈ src :: ys, i ∉ dst :: xs) :
    ∃ h', spliceInit h src dst = some h' ∧ Repr h' dst (ys ++ xs) ∧ Repr h' src [] ∧
      (ys = [] → h' = h) ∧
      (∀ j, j ∉ [src, hd ys src, lst ys src, dst, hd xs dst] → h' j = h j) ∧
      Preserves h h' (src :: ys ++ dst :: xs) := by
  obtain ⟨h', e, r, s, n, f⟩ := spliceInit_spec hRs hRd hdis
  refine ⟨h', e, r, s, n, f, preserves_of_frame ?_ f⟩
  have h1 := hd_mem ys src
  have h2 := lst_mem ys src
  have h3 := hd_mem xs dst
  simp only [List.mem_cons, List.mem_append, List.not_mem_nil, or_false] at h1 h2 h3 ⊢
  grind

theorem spliceTailInit_refines {h : Heap} {src dst : Nat} {ys xs : List Nat}
    (hRs : Repr h src ys) (hRd : Repr h dst xs) (hdis : ∀ i ∈ src :: ys, i ∉ dst :: xs) :
    ∃ h', spliceTailInit h src dst = some h' ∧ Repr h' dst (xs ++ ys) ∧ Repr h' src [] ∧
      (ys = [] → h' = h) ∧
      (∀ j, j ∉ [src, hd ys src, lst ys src, lst xs dst, dst] → h' j = h j) ∧
      Preserves h h' (src :: ys ++ dst :: xs) := by
  obtain ⟨h', e, r, s, n, f⟩ := spliceTailInit_spec hRs hRd hdis
  refine ⟨h', e, r, s, n, f, preserves_of_frame ?_ f⟩
  have h1 := hd_mem ys src
  have h2 := lst_mem ys src
  have h3 := lst_mem xs dst
  simp only [List.mem_cons, List.mem_append, List.not_mem_nil, or_false] at h1 h2 h3 ⊢
  grind

theorem steal_refines {h : Heap} {oldh newh : Nat} {xs : List Nat}
    (hR : Repr h oldh xs) (hnew : Alloc h newh) (hfresh : newh ∉ oldh :: xs) :
    ∃ h', steal h oldh newh = some h' ∧ Repr h' newh xs ∧ Repr h' oldh [] ∧
      (∀ j, j ∉ [oldh, newh, hd xs oldh, lst xs oldh] → h' j = h j) ∧
      Preserves h h' (newh :: oldh :: xs) := by
  obtain ⟨h', e, r, s, f⟩ := steal_spec hR hnew hfresh
  refine ⟨h', e, r, s, f, preserves_of_frame ?_ f⟩
  have h1 := hd_mem xs oldh
  have h2 := lst_mem xs oldh
  simp only [List.mem_cons, List.not_mem_nil, or_false] at h1 h2 ⊢
  grind

theorem forEachSafe_refines {h : Heap} {head : Nat} {xs : List Nat} {fuel : Nat} (d : Nat → Bool)
    (hR : Repr h head xs) (hf : xs.length ≤ fuel) :
    ∃ h', forEachSafe fuel h head d = some (h', xs) ∧ Repr h' head (survivors d 0 xs) ∧
      (∀ j, j ∉ head :: xs → h' j = h j) ∧
      (∀ x ∈ xs, x ∉ survivors d 0 xs → h' x = some ⟨none, none⟩) ∧
      Preserves h h' (head :: xs) := by
  obtain ⟨h', e, r, f, n⟩ := forEachSafe_spec d hR hf
  exact ⟨h', e, r, f, n, preserves_of_frame (fun _ hj => hj) f⟩

/-- a head whose first element does not point back to it heads no well-formed list -/
theorem not_repr_of_foreign_first {h : Heap} {src s p : Nat} (hn : nextOf h src = some (some s))
    (hp : prevOf h s = some (some p)) (hne : p ≠ src) (zs : List Nat) : ¬ Repr h src zs := by
  intro hR
  obtain ⟨n, _, e1, _, e2, _⟩ := repr_consistent hR (List.mem_cons_self ..)
  rw [hn] at e1
  cases e1
  rw [hp] at e2
  cases e2
  exact hne rfl

/-- after a non-`_init` splice of a non-empty list the source head is stale: its record is
unchanged (still pointing at the old first/last element) but it is the head of no list -/
theorem splice_stale {h h' : Heap} {src dst : Nat} {ys xs : List Nat}
    (hRs : Repr h src ys) (hRd : Repr h dst xs) (hdis : ∀ i ∈ src :: ys, i ∉ dst :: xs)
    (hne : ys ≠ []) (he : splice h src dst = some h' ∨ spliceTail h src dst = some h') :
    h' src = some ⟨some (hd ys src), some (lst ys src)⟩ ∧ ∀ zs, ¬ Repr h' src zs := by
  obtain ⟨e1, e2⟩ := repr_head hRs
  have hsrc := node_of_fields e1 e2
  have hsd : ∀ j ∈ dst :: xs, j ≠ src := fun j hj e => hdis src (List.mem_cons_self ..) (e ▸ hj)
  cases ys with
  | nil => exact absurd rfl hne
  | cons s S =>
    rcases he with he | he
    · obtain ⟨h'', e, r, sr, _⟩ := splice_spec hRs hRd hdis
      rw [he] at e; cases e
      refine ⟨sr.trans hsrc, not_repr_of_foreign_first (fields_of_node (sr.trans hsrc)).1
        (repr_elem (A := []) r).2 (hsd _ (List.mem_cons_self ..))⟩
    · obtain ⟨h'', e, r, sr, _⟩ := spliceTail_spec hRs hRd hdis
      rw [he] at e; cases e
      refine ⟨sr.trans hsrc, not_repr_of_foreign_first (fields_of_node (sr.trans hsrc)).1
        (repr_elem (A := xs) r).2 (hsd _ (lst_mem _ _))⟩

instance decWalk (f : FMap) : (a : Nat) → (xs : List Nat) → (b : Nat) → Decidable (Walk f a xs b)
  | a, [], b => inferInstanceAs (Decidable (f a = some (some b)))
  | a, x :: xs, b =>
    have := decWalk f x xs b
    inferInstanceAs (Decidable (f a = some (some x) ∧ Walk f x xs b))

instance (h : Heap) (head : Nat) (xs : List Nat) : Decidable (Repr h head xs) :=
  inferInstanceAs (Decidable (_ ∧ _ ∧ _))

/-- `survivors` is the positional filter -/
theorem survivors_eq (d : Nat → Bool) (i : Nat) (xs : List Nat) :
    survivors d i xs = ((xs.zipIdx i).filter (fun p => !d p.2)).map (·.1) := by
  induction xs generalizing i with
  | nil => rfl
  | cons x xs ih =>
    simp only [survivors, List.zipIdx_cons, List.filter_cons]
    cases hdi : d i <;> simp [ih]

end Ivy.ListPtr
