import Ivy.L0.AvlSpec
/-!
Helper lemmas and proofs for the C16 theorems about the AVL model (`Ivy/L0/Avl.lean`).

Route: `rebal_spec` (one `rebalance_node` on children differing by ≤ 2) → `fix_spec` /
`fix_shrunk_*` (one step of the `rebalance_path` walk, including the early stop) →
`ins_spec`, `removeMax_spec`, `removeMin_spec`, `del_spec` (strengthened inductions that
track "stopped ⇒ stored height unchanged, not stopped ⇒ height changed by exactly one")
→ the six exported theorems.
-/
namespace Ivy.Avl.Proofs
open Ivy.Avl Tree

@[simp] theorem height_nil : height nil = 0 := rfl
@[simp] theorem height_node {l k h r} : height (node l k h r) = h := rfl
@[simp] theorem height_mk {l k r} : height (mk l k r) = 1 + max (height l) (height r) := rfl
@[simp] theorem toList_nil : toList nil = [] := rfl
@[simp] theorem toList_node {l k h r} : toList (node l k h r) = toList l ++ k :: toList r := rfl
@[simp] theorem toList_mk {l k r} : toList (mk l k r) = toList l ++ k :: toList r := rfl
@[simp] theorem bal_nil : Bal nil := trivial
theorem bal_node {l k h r} : Bal (node l k h r) ↔
    Bal l ∧ Bal r ∧ h = 1 + max (height l) (height r) ∧
    height l ≤ height r + 1 ∧ height r ≤ height l + 1 := Iff.rfl
theorem bal_mk {l k r} : Bal (mk l k r) ↔
    Bal l ∧ Bal r ∧ height l ≤ height r + 1 ∧ height r ≤ height l + 1 := by
  simp [mk, bal_node]

theorem rebal_left (l r : Tree) (k : Int) (hl : Bal l) (hr : Bal r)
    (h : height l = height r + 2) :
    ∃ t, rebalanceNode (mk l k r) = some t ∧ Bal t ∧
      toList t = toList l ++ k :: toList r ∧
      (height t = height l + 1 ∨ height t = height l) := by
  cases l with
  | nil => simp at h
  | node la lk lh lr =>
    rw [bal_node] at hl
    simp only [height_node] at h
    obtain ⟨hla, hlr, e, b1, b2⟩ := hl
    by_cases hc : height lr ≤ height la
    · refine ⟨mk la lk (mk lr k r), ?_, ?_, ?_, ?_⟩
      · have hb : (height r : Int) - (lh : Int) = -2 := by omega
        have hb2 : (height lr : Int) - height la ≤ 0 := by omega
        simp [rebalanceNode, mk, balance, rotR, hb, hb2]
      · simp [bal_mk, *]; omega
      · simp
      · simp; omega
    · cases lr with
      | nil => simp at hc
      | node c d dh e' =>
        rw [bal_node] at hlr
        simp only [height_node] at *
        refine ⟨mk (mk la lk c) d (mk e' k r), ?_, ?_, ?_, ?_⟩
        · have hb : (height r : Int) - (lh : Int) = -2 := by omega
          have hb2 : ¬ (dh : Int) - height la ≤ 0 := by omega
          simp [rebalanceNode, mk, balance, rotLR, hb, hb2]
        · simp [bal_mk, *]; omega
        · simp
        · simp; omega


theorem rebal_right (l r : Tree) (k : Int) (hl : Bal l) (hr : Bal r)
    (h : height r = height l + 2) :
    ∃ t, rebalanceNode (mk l k r) = some t ∧ Bal t ∧
      toList t = toList l ++ k :: toList r ∧
      (height t = height r + 1 ∨ height t = height r) := by
  cases r with
  | nil => simp at h
  | node ra rk rh rr =>
    rw [bal_node] at hr
    simp only [height_node] at h
    obtain ⟨hra, hrr, e, b1, b2⟩ := hr
    have hb0 : ¬ (rh : Int) - (height l : Int) = -2 := by omega
    have hb : (rh : Int) - (height l : Int) = 2 := by omega
    by_cases hc : height ra ≤ height rr
    · refine ⟨mk (mk l k ra) rk rr, ?_, ?_, ?_, ?_⟩
      · have hb2 : ¬ (height rr : Int) - height ra < 0 := by omega
        simp [rebalanceNode, mk, balance, rotL, hb, hb2]
      · simp [bal_mk, *]; omega
      · simp
      · simp; omega
    · cases ra with
      | nil => simp at hc
      | node c d dh e' =>
        rw [bal_node] at hra
        simp only [height_node] at *
        refine ⟨mk (mk l k c) d (mk e' rk rr), ?_, ?_, ?_, ?_⟩
        · have hb2 : (height rr : Int) - dh < 0 := by omega
          simp [rebalanceNode, mk, balance, rotRL, hb, hb2]
        · simp [bal_mk, *]; omega
        · simp
        · simp; omega

theorem rebal_mid (l r : Tree) (k : Int)
    (h1 : height l ≤ height r + 1) (h2 : height r ≤ height l + 1) :
    rebalanceNode (mk l k r) = some (mk l k r) := by
  have hb0 : ¬ (height r : Int) - (height l : Int) = -2 := by omega
  have hb : ¬ (height r : Int) - (height l : Int) = 2 := by omega
  simp [rebalanceNode, mk, balance, hb0, hb]

/-- `rebalance_node` on a freshly recalculated node whose (valid) children differ by at most 2. -/
theorem rebal_spec (l r : Tree) (k : Int) (hl : Bal l) (hr : Bal r)
    (h1 : height l ≤ height r + 2) (h2 : height r ≤ height l + 2) :
    ∃ t, rebalanceNode (mk l k r) = some t ∧ Bal t ∧
      toList t = toList l ++ k :: toList r ∧
      (height t = 1 + max (height l) (height r) ∨
        (height t = max (height l) (height r) ∧
          (height l = height r + 2 ∨ height r = height l + 2))) := by
  by_cases c1 : height l = height r + 2
  · obtain ⟨t, e, b, tl, hh⟩ := rebal_left l r k hl hr c1
    exact ⟨t, e, b, tl, by omega⟩
  · by_cases c2 : height r = height l + 2
    · obtain ⟨t, e, b, tl, hh⟩ := rebal_right l r k hl hr c2
      exact ⟨t, e, b, tl, by omega⟩
    · refine ⟨mk l k r, rebal_mid l r k (by omega) (by omega), ?_, by simp, by simp⟩
      rw [bal_mk]; exact ⟨hl, hr, by omega, by omega⟩

theorem fix_spec (l r : Tree) (k : Int) (h : Nat) (hl : Bal l) (hr : Bal r)
    (h1 : height l ≤ height r + 2) (h2 : height r ≤ height l + 2) :
    ∃ t, fix false l k h r = some (t, height t == h) ∧ Bal t ∧
      toList t = toList l ++ k :: toList r ∧
      (height t = 1 + max (height l) (height r) ∨
        (height t = max (height l) (height r) ∧
          (height l = height r + 2 ∨ height r = height l + 2))) := by
  obtain ⟨t, e, b, tl, hh⟩ := rebal_spec l r k hl hr h1 h2
  exact ⟨t, by simp [fix, e], b, tl, hh⟩

theorem fix_stop (l r : Tree) (k : Int) (h : Nat) :
    fix true l k h r = some (node l k h r, true) := by simp [fix]

theorem ordered_nil : Ordered nil := by simp [Ordered]

theorem ordered_parts {t l r : Tree} {k : Int} (e : toList t = toList l ++ k :: toList r) :
    Ordered t ↔ Ordered l ∧ Ordered r ∧ (∀ y ∈ toList l, y < k) ∧ (∀ y ∈ toList r, k < y) := by
  unfold Ordered
  rw [e, List.pairwise_append, List.pairwise_cons]
  constructor
  · rintro ⟨a, ⟨b, c⟩, d⟩
    exact ⟨a, c, fun y hy => d y hy k (by simp), b⟩
  · rintro ⟨a, b, c, d⟩
    refine ⟨a, ⟨d, b⟩, ?_⟩
    intro y hy z hz
    rcases List.mem_cons.1 hz with rfl | hz
    · exact c y hy
    · exact Int.lt_trans (c y hy) (d z hz)

theorem ordered_node {l r : Tree} {k : Int} {h : Nat} :
    Ordered (node l k h r) ↔
      Ordered l ∧ Ordered r ∧ (∀ y ∈ toList l, y < k) ∧ (∀ y ∈ toList r, k < y) :=
  ordered_parts rfl

theorem ins_spec (x : Int) : ∀ t, Bal t → Ordered t → x ∉ toList t →
    ∃ t' s, ins x t = .ok t' s ∧ Bal t' ∧ Ordered t' ∧
      (∀ y, y ∈ toList t' ↔ (y = x ∨ y ∈ toList t)) ∧
      ((s = true ∧ height t' = height t) ∨ (s = false ∧ height t' = height t + 1)) := by
  intro t
  induction t with
  | nil =>
    intro _ _ _
    refine ⟨node nil x 1 nil, false, rfl, ?_, ?_, ?_, ?_⟩
    · simp [bal_node]
    · simp [Ordered]
    · simp
    · simp
  | node l k h r ihl ihr =>
    intro hb ho hx
    rw [bal_node] at hb
    obtain ⟨bl, br, eh, b1, b2⟩ := hb
    obtain ⟨ol, or', o1, o2⟩ := ordered_node.1 ho
    simp only [toList_node, List.mem_append, List.mem_cons, not_or] at hx
    obtain ⟨xl, xk, xr⟩ := hx
    by_cases c : x < k
    · obtain ⟨l', s, e, bl', ol', ml', hh⟩ := ihl bl ol xl
      cases s with
      | true =>
        refine ⟨node l' k h r, true, ?_, ?_, ?_, ?_, ?_⟩
        · simp [ins, c, e, fix]
        · rw [bal_node]; simp at hh; exact ⟨bl', br, by omega, by omega, by omega⟩
        · rw [ordered_node]; exact ⟨ol', or', by grind, o2⟩
        · intro y; simp [ml' y]; grind
        · simp
      | false =>
        simp at hh
        obtain ⟨t, ef, bt, tl, ht⟩ := fix_spec l' r k h bl' br (by omega) (by omega)
        refine ⟨t, height t == h, ?_, bt, ?_, ?_, ?_⟩
        · simp [ins, c, e, ef]
        · rw [ordered_parts tl]; exact ⟨ol', or', by grind, o2⟩
        · intro y; simp [tl, ml' y]; grind
        · by_cases hth : height t = h
          · simp [hth]
          · simp [hth]; omega
    · have c' : k < x := by omega
      obtain ⟨r', s, e, br', or'', mr', hh⟩ := ihr br or' xr
      cases s with
      | true =>
        refine ⟨node l k h r', true, ?_, ?_, ?_, ?_, ?_⟩
        · simp [ins, c, c', e, fix]
        · rw [bal_node]; simp at hh; exact ⟨bl, br', by omega, by omega, by omega⟩
        · rw [ordered_node]; exact ⟨ol, or'', o1, by grind⟩
        · intro y; simp [mr' y]; grind
        · simp
      | false =>
        simp at hh
        obtain ⟨t, ef, bt, tl, ht⟩ := fix_spec l r' k h bl br' (by omega) (by omega)
        refine ⟨t, height t == h, ?_, bt, ?_, ?_, ?_⟩
        · simp [ins, c, c', e, ef]
        · rw [ordered_parts tl]; exact ⟨ol, or'', o1, by grind⟩
        · intro y; simp [tl, mr' y]; grind
        · by_cases hth : height t = h
          · simp [hth]
          · simp [hth]; omega


theorem insert_new (t : Tree) (x : Int) (h : Inv t) (hx : x ∉ toList t) :
    ∃ t', insert x t = some (t', 0) ∧ Inv t' ∧ ∀ y, y ∈ toList t' ↔ (y = x ∨ y ∈ toList t) := by
  obtain ⟨t', s, e, b, o, m, _⟩ := ins_spec x t h.bal h.ord hx
  exact ⟨t', by simp [insert, e], ⟨b, o⟩, m⟩

theorem ins_dup (x : Int) : ∀ t, Ordered t → x ∈ toList t → ins x t = .dup := by
  intro t
  induction t with
  | nil => intro _ hx; simp at hx
  | node l k h r ihl ihr =>
    intro ho hx
    obtain ⟨ol, or', o1, o2⟩ := ordered_node.1 ho
    simp only [toList_node, List.mem_append, List.mem_cons] at hx
    by_cases c : x < k
    · have xl : x ∈ toList l := by
        rcases hx with h | h | h
        · exact h
        · omega
        · have := o2 x h; omega
      simp [ins, c, ihl ol xl]
    · by_cases c' : k < x
      · have xr : x ∈ toList r := by
          rcases hx with h | h | h
          · have := o1 x h; omega
          · omega
          · exact h
        simp [ins, c, c', ihr or' xr]
      · simp [ins, c, c']

theorem insert_dup (t : Tree) (x : Int) (h : Inv t) (hx : x ∈ toList t) :
    insert x t = some (t, -1) := by
  simp [insert, ins_dup x t h.ord hx]

theorem height_zero {t : Tree} (hb : Bal t) (h : height t = 0) : t = nil := by
  cases t with
  | nil => rfl
  | node l k h' r => rw [bal_node] at hb; simp at h; omega

/-- the walk step at a node whose left child was replaced by a (possibly) shorter one -/
theorem fix_shrunk_left (l l' r : Tree) (k' : Int) (h : Nat) (s : Bool)
    (bl' : Bal l') (br : Bal r) (eh : h = 1 + max (height l) (height r))
    (b1 : height l ≤ height r + 1) (b2 : height r ≤ height l + 1)
    (hh : (s = true ∧ height l' = height l) ∨ (s = false ∧ height l' + 1 = height l)) :
    ∃ t s', fix s l' k' h r = some (t, s') ∧ Bal t ∧
      toList t = toList l' ++ k' :: toList r ∧
      ((s' = true ∧ height t = h) ∨ (s' = false ∧ height t + 1 = h)) := by
  cases s with
  | true =>
    simp at hh
    refine ⟨node l' k' h r, true, fix_stop _ _ _ _, ?_, rfl, by simp⟩
    rw [bal_node]; exact ⟨bl', br, by omega, by omega, by omega⟩
  | false =>
    simp at hh
    obtain ⟨t, ef, bt, tl, ht⟩ := fix_spec l' r k' h bl' br (by omega) (by omega)
    refine ⟨t, height t == h, ef, bt, tl, ?_⟩
    by_cases hth : height t = h
    · simp [hth]
    · simp [hth]; omega

theorem fix_shrunk_right (l r r' : Tree) (k' : Int) (h : Nat) (s : Bool)
    (bl : Bal l) (br' : Bal r') (eh : h = 1 + max (height l) (height r))
    (b1 : height l ≤ height r + 1) (b2 : height r ≤ height l + 1)
    (hh : (s = true ∧ height r' = height r) ∨ (s = false ∧ height r' + 1 = height r)) :
    ∃ t s', fix s l k' h r' = some (t, s') ∧ Bal t ∧
      toList t = toList l ++ k' :: toList r' ∧
      ((s' = true ∧ height t = h) ∨ (s' = false ∧ height t + 1 = h)) := by
  cases s with
  | true =>
    simp at hh
    refine ⟨node l k' h r', true, fix_stop _ _ _ _, ?_, rfl, by simp⟩
    rw [bal_node]; exact ⟨bl, br', by omega, by omega, by omega⟩
  | false =>
    simp at hh
    obtain ⟨t, ef, bt, tl, ht⟩ := fix_spec l r' k' h bl br' (by omega) (by omega)
    refine ⟨t, height t == h, ef, bt, tl, ?_⟩
    by_cases hth : height t = h
    · simp [hth]
    · simp [hth]; omega

theorem removeMax_spec : ∀ t, t ≠ nil → Bal t →
    ∃ t' m s, removeMax t = some (t', m, s) ∧ Bal t' ∧ toList t = toList t' ++ [m] ∧
      ((s = true ∧ height t' = height t) ∨ (s = false ∧ height t' + 1 = height t)) := by
  intro t
  induction t with
  | nil => intro h; exact absurd rfl h
  | node l k h r ihl ihr =>
    intro _ hb
    rw [bal_node] at hb
    obtain ⟨bl, br, eh, b1, b2⟩ := hb
    cases r with
    | nil =>
      refine ⟨l, k, false, by simp [removeMax], bl, by simp, ?_⟩
      simp at *; omega
    | node ra rk rh rr =>
      obtain ⟨r', m, s, e, br', tl, hh⟩ := ihr (by simp) br
      obtain ⟨t, s', ef, bt, tl', ht⟩ :=
        fix_shrunk_right l (node ra rk rh rr) r' k h s bl br' eh b1 b2 hh
      refine ⟨t, m, s', ?_, bt, ?_, by simpa using ht⟩
      · rw [removeMax]; simp only [e, ef]
      · rw [tl', toList_node (r := node ra rk rh rr), tl]; simp

theorem removeMin_spec : ∀ t, t ≠ nil → Bal t →
    ∃ t' m s, removeMin t = some (t', m, s) ∧ Bal t' ∧ toList t = m :: toList t' ∧
      ((s = true ∧ height t' = height t) ∨ (s = false ∧ height t' + 1 = height t)) := by
  intro t
  induction t with
  | nil => intro h; exact absurd rfl h
  | node l k h r ihl ihr =>
    intro _ hb
    rw [bal_node] at hb
    obtain ⟨bl, br, eh, b1, b2⟩ := hb
    cases l with
    | nil =>
      refine ⟨r, k, false, by simp [removeMin], br, by simp, ?_⟩
      simp at *; omega
    | node la lk lh lr =>
      obtain ⟨l', m, s, e, bl', tl, hh⟩ := ihl (by simp) bl
      obtain ⟨t, s', ef, bt, tl', ht⟩ :=
        fix_shrunk_left (node la lk lh lr) l' r k h s bl' br eh b1 b2 hh
      refine ⟨t, m, s', ?_, bt, ?_, by simpa using ht⟩
      · rw [removeMin]; simp only [e, ef]
      · rw [tl', toList_node (l := node la lk lh lr), tl]; simp

theorem del_spec (x : Int) : ∀ t, Bal t → Ordered t → x ∈ toList t →
    ∃ t' s, del x t = some (t', s) ∧ Bal t' ∧
      (∃ a b, toList t = a ++ x :: b ∧ toList t' = a ++ b) ∧
      ((s = true ∧ height t' = height t) ∨ (s = false ∧ height t' + 1 = height t)) := by
  intro t
  induction t with
  | nil => intro _ _ hx; simp at hx
  | node l k h r ihl ihr =>
    intro hb ho hx
    rw [bal_node] at hb
    obtain ⟨bl, br, eh, b1, b2⟩ := hb
    obtain ⟨ol, or', o1, o2⟩ := ordered_node.1 ho
    simp only [toList_node, List.mem_append, List.mem_cons] at hx
    by_cases c : x < k
    · have xl : x ∈ toList l := by
        rcases hx with h | h | h
        · exact h
        · omega
        · have := o2 x h; omega
      obtain ⟨l', s, e, bl', ⟨a, b, ea, eb⟩, hh⟩ := ihl bl ol xl
      obtain ⟨t, s', ef, bt, tl', ht⟩ := fix_shrunk_left l l' r k h s bl' br eh b1 b2 hh
      refine ⟨t, s', by simp [del, c, e, ef], bt, ⟨a, b ++ k :: toList r, ?_, ?_⟩, by simpa using ht⟩
      · simp [ea]
      · simp [tl', eb]
    · by_cases c' : k < x
      · have xr : x ∈ toList r := by
          rcases hx with h | h | h
          · have := o1 x h; omega
          · omega
          · exact h
        obtain ⟨r', s, e, br', ⟨a, b, ea, eb⟩, hh⟩ := ihr br or' xr
        obtain ⟨t, s', ef, bt, tl', ht⟩ := fix_shrunk_right l r r' k h s bl br' eh b1 b2 hh
        refine ⟨t, s', by simp [del, c, c', e, ef], bt, ⟨toList l ++ k :: a, b, ?_, ?_⟩, by simpa using ht⟩
        · simp [ea]
        · simp [tl', eb]
      · have xk : x = k := by omega
        subst xk
        by_cases hn : l = nil ∧ r = nil
        · obtain ⟨rfl, rfl⟩ := hn
          refine ⟨nil, false, by simp [del], bal_nil, ⟨[], [], by simp, by simp⟩, ?_⟩
          simp at *; omega
        · have hdel : del x (node l x h r) =
              if height l > height r then
                match removeMax l with
                | none => none
                | some (l', m, s) => fix s l' m h r
              else
                match removeMin r with
                | none => none
                | some (r', m, s) => fix s l m h r' := by
            rw [del]
            · simp only [Int.lt_irrefl, if_false]; rfl
            · intro a b; exact hn ⟨a, b⟩
          by_cases hg : height l > height r
          · have ln : l ≠ nil := by rintro rfl; simp at hg
            obtain ⟨l', m, s, e, bl', tl, hh⟩ := removeMax_spec l ln bl
            obtain ⟨t, s', ef, bt, tl', ht⟩ := fix_shrunk_left l l' r m h s bl' br eh b1 b2 hh
            refine ⟨t, s', by simp [hdel, hg, e, ef], bt, ⟨toList l, toList r, by simp, ?_⟩, by simpa using ht⟩
            simp [tl', tl]
          · have rn : r ≠ nil := by
              rintro rfl
              apply hn
              exact ⟨height_zero bl (by simp at hg; omega), rfl⟩
            obtain ⟨r', m, s, e, br', tl, hh⟩ := removeMin_spec r rn br
            obtain ⟨t, s', ef, bt, tl', ht⟩ := fix_shrunk_right l r r' m h s bl br' eh b1 b2 hh
            refine ⟨t, s', by simp [hdel, hg, e, ef], bt, ⟨toList l, toList r, by simp, ?_⟩, by simpa using ht⟩
            simp [tl', tl]

theorem remove_mid {a b : List Int} {x : Int} (hp : (a ++ x :: b).Pairwise (· < ·)) :
    (a ++ b).Pairwise (· < ·) ∧ ∀ y, y ∈ a ++ b ↔ (y ≠ x ∧ y ∈ a ++ x :: b) := by
  simp only [List.pairwise_append, List.pairwise_cons, List.mem_cons, List.mem_append] at *
  obtain ⟨pa, ⟨xb, pb⟩, ab⟩ := hp
  refine ⟨⟨pa, pb, fun y hy z hz => ab y hy z (Or.inr hz)⟩, ?_⟩
  intro y
  constructor
  · rintro (h | h)
    · have := ab y h x (Or.inl rfl); exact ⟨by omega, Or.inl h⟩
    · have := xb y h; exact ⟨by omega, Or.inr (Or.inr h)⟩
  · rintro ⟨ne, h | h | h⟩
    · exact Or.inl h
    · exact absurd h ne
    · exact Or.inr h

theorem delete_mem (t : Tree) (x : Int) (h : Inv t) (hx : x ∈ toList t) :
    ∃ t', delete x t = some t' ∧ Inv t' ∧ ∀ y, y ∈ toList t' ↔ (y ≠ x ∧ y ∈ toList t) := by
  obtain ⟨t', s, e, b, ⟨a, c, ea, ec⟩, _⟩ := del_spec x t h.bal h.ord hx
  have ho := h.ord
  unfold Ordered at ho
  rw [ea] at ho
  obtain ⟨p, m⟩ := remove_mid ho
  refine ⟨t', by simp [delete, e], ⟨b, ?_⟩, ?_⟩
  · unfold Ordered; rw [ec]; exact p
  · intro y; rw [ec, ea]; exact m y

theorem height_exact (t : Tree) (h : Bal t) : height t = realHeight t := by
  induction t with
  | nil => rfl
  | node l k h' r ihl ihr =>
    rw [bal_node] at h
    obtain ⟨bl, br, eh, _, _⟩ := h
    simp [realHeight, eh, ← ihl bl, ← ihr br]

theorem height_log_aux : ∀ t, Bal t → ∀ n, n ≤ height t → 2 ^ (n / 2) ≤ size t + 1 := by
  intro t
  induction t with
  | nil => intro _ n hn; simp at hn; subst hn; simp [size]
  | node l k h r ihl ihr =>
    intro hb n hn
    rw [bal_node] at hb
    obtain ⟨bl, br, eh, b1, b2⟩ := hb
    simp only [height_node] at hn
    by_cases c : n < 2
    · have : n / 2 = 0 := by omega
      rw [this]; simp [size]
    · have e : n / 2 = (n - 2) / 2 + 1 := by omega
      have h1 := ihl bl (n - 2) (by omega)
      have h2 := ihr br (n - 2) (by omega)
      rw [e, Nat.pow_succ]
      simp only [size]
      omega

theorem height_log (t : Tree) (h : Bal t) : 2 ^ (height t / 2) ≤ size t + 1 :=
  height_log_aux t h (height t) (Nat.le_refl _)

theorem history (ops : List Op) (hv : ValidHist ops) :
    ∃ t rcs, runHist ops = some (t, rcs) ∧ Inv t ∧ ∀ y, y ∈ toList t ↔ specMem ops y := by
  induction ops with
  | nil => exact ⟨nil, [], rfl, ⟨bal_nil, ordered_nil⟩, by simp [specMem]⟩
  | cons op ops ih =>
    cases op with
    | ins k =>
      obtain ⟨t, rcs, e, inv, m⟩ := ih hv
      by_cases hk : k ∈ toList t
      · refine ⟨t, -1 :: rcs, by simp [runHist, e, insert_dup t k inv hk], inv, ?_⟩
        intro y; simp only [specMem, ← m y]
        constructor
        · exact Or.inr
        · rintro (rfl | h)
          · exact hk
          · exact h
      · obtain ⟨t', e', inv', m'⟩ := insert_new t k inv hk
        refine ⟨t', 0 :: rcs, by simp [runHist, e, e'], inv', ?_⟩
        intro y; simp only [specMem, ← m y]; exact m' y
    | del k =>
      obtain ⟨hk, hv'⟩ := hv
      obtain ⟨t, rcs, e, inv, m⟩ := ih hv'
      obtain ⟨t', e', inv', m'⟩ := delete_mem t k inv ((m k).2 hk)
      refine ⟨t', rcs, by simp [runHist, e, e'], inv', ?_⟩
      intro y; simp only [specMem, ← m y]; exact m' y

end Ivy.Avl.Proofs
