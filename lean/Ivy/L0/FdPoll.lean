/-!
# The poll/ppoll back end of ivykis (`/repo/src/iv_fd_poll.c`) — executable model

Statement-by-statement transcription of the bookkeeping of the poll(2)/ppoll(2) back end:

* `iv_fd_poll_register_fd`   → `registerFd`
* `bits_to_poll_mask`        → `bitsToPollMask`
* `iv_fd_poll_notify_fd`     → `notifyFd`   (three branches, in the C order, incl. the swap-remove)
* `iv_fd_poll_activate_fds`  → `activate`   (revents → `iv_fd_make_ready` calls, in C order)
* `iv_fd_poll_notify_fd_sync`→ `notifyFdSync` (probe result is an input; on success = `notifyFd`)

and of the callers in `/repo/src/iv_fd.c` that decide *when* the back end is told something:

* `recompute_wanted_flags`   → `recomputeWanted`
* `notify_fd` (static)       → `notify` = `setWanted` of the recomputed bands
* `iv_fd_register`, `iv_fd_register_try`, `iv_fd_unregister`, `iv_fd_set_handler_{in,out,err}`
                              → `step` on `Op`
* `iv_fd_make_ready` + the handler loop of `iv_fd_poll_and_run` → `dispatch`

State.  `pfds[]` / `fds[]` are the two dense arrays of `st->u.poll`, modelled as total functions
on `Nat` next to the explicit length `num` (`num_regd_fds`): a slot `≥ num` keeps whatever was
last written there, exactly as in C, where a removed slot is left stale.  An `iv_fd_` object is a
`Nat` id (an address); `objs` is memory.  `index = none` is `u.index == -1`.

Not modelled: the capacity `IV_FD_POLL_MAXFD` of the two arrays (C never checks `num` against
it; see `NOTES-fdpoll.md`), `revents` as a field of `pfds[]` (it is an input of `activate`),
`int` overflow.  `num - 1` is truncated subtraction; `Props.C15poll.num_pos_of_index` shows
the branch is only entered with `num > 0`.

No proofs in this file.
-/
namespace Ivy.FdPoll

/-! ## constants (`iv_private_posix.h`, `<poll.h>` on Linux; printed by both T-diff sides) -/

def MASKIN : Nat := 1
def MASKOUT : Nat := 2
def MASKERR : Nat := 4

def POLLIN : Nat := 1
def POLLOUT : Nat := 4
def POLLERR : Nat := 8
def POLLHUP : Nat := 16
def POLLNVAL : Nat := 32

def MAXFD : Nat := 65536

/-! ## state -/

/-- `struct pollfd` without `revents` -/
structure PollFd where
  fd : Nat
  events : Nat
deriving DecidableEq, Repr, Inhabited

/-- the fields of `struct iv_fd_` that the poll back end and its callers read or write -/
structure Obj where
  /-- `fd->fd` -/
  fdnum : Nat := 0
  /-- `fd->handler_in != NULL` -/
  hin : Bool := false
  /-- `fd->handler_out != NULL` -/
  hout : Bool := false
  /-- `fd->handler_err != NULL` -/
  herr : Bool := false
  /-- `fd->registered` -/
  registered : Bool := false
  /-- `fd->wanted_bands` -/
  wanted : Nat := 0
  /-- `fd->u.index`; `none` is `-1` -/
  index : Option Nat := none
deriving DecidableEq, Repr, Inhabited

structure State where
  /-- `st->u.poll.pfds[]` -/
  pfds : Nat → PollFd
  /-- `st->u.poll.fds[]` (object ids) -/
  fds : Nat → Nat
  /-- `st->u.poll.num_regd_fds` -/
  num : Nat
  /-- memory: the `struct iv_fd_` at each address -/
  objs : Nat → Obj

/-- array / memory store -/
def upd {α : Type} (f : Nat → α) (i : Nat) (v : α) : Nat → α := fun j => if j = i then v else f j

def State.setObj (s : State) (o : Nat) (v : Obj) : State := { s with objs := upd s.objs o v }

/-- `o->u.index = v` -/
def State.setIndex (s : State) (o : Nat) (v : Option Nat) : State :=
  s.setObj o { s.objs o with index := v }

/-- after `iv_fd_poll_init`: `num_regd_fds = 0`, arrays freshly malloc'ed (any content) -/
def init : State := { pfds := fun _ => ⟨0, 0⟩, fds := fun _ => 0, num := 0, objs := fun _ => {} }

/-! ## iv_fd_poll.c -/

/-- `iv_fd_poll_register_fd`: `fd->u.index = -1` (the `fd->fd >= IV_FD_POLL_MAXFD` check is in
`step`, which refuses the op like every other `iv_fatal`) -/
def registerFd (s : State) (o : Nat) : State := s.setIndex o none

/-- `bits_to_poll_mask` -/
def bitsToPollMask (bits : Nat) : Nat :=
  let mask := 0
  let mask := if bits &&& MASKIN ≠ 0 then mask ||| (POLLIN ||| POLLHUP) else mask
  let mask := if bits &&& MASKOUT ≠ 0 then mask ||| (POLLOUT ||| POLLHUP) else mask
  let mask := if bits &&& MASKERR ≠ 0 then mask ||| POLLHUP else mask
  mask

/-- `iv_fd_poll_notify_fd` -/
def notifyFd (s : State) (o : Nat) : State :=
  let fd := s.objs o
  match fd.index with
  | none =>
    if fd.wanted ≠ 0 then
      -- fd->u.index = st->u.poll.num_regd_fds++;
      let i := s.num
      let s := { s with num := s.num + 1 }
      let s := s.setIndex o (some i)
      -- st->u.poll.pfds[fd->u.index].fd = fd->fd;
      let s := { s with pfds := upd s.pfds i { s.pfds i with fd := fd.fdnum } }
      -- st->u.poll.pfds[fd->u.index].events = bits_to_poll_mask(fd->wanted_bands);
      let s := { s with pfds := upd s.pfds i { s.pfds i with events := bitsToPollMask fd.wanted } }
      -- st->u.poll.fds[fd->u.index] = fd;
      { s with fds := upd s.fds i o }
    else
      s
  | some i =>
    if fd.wanted = 0 then
      -- st->u.poll.num_regd_fds--;
      let s := { s with num := s.num - 1 }
      let s :=
        if i ≠ s.num then
          -- st->u.poll.pfds[fd->u.index] = st->u.poll.pfds[st->u.poll.num_regd_fds];
          let s := { s with pfds := upd s.pfds i (s.pfds s.num) }
          -- last = st->u.poll.fds[st->u.poll.num_regd_fds];
          let last := s.fds s.num
          -- last->u.index = fd->u.index;
          let s := s.setIndex last (s.objs o).index
          -- st->u.poll.fds[fd->u.index] = last;   (fd->u.index is still `i`: if last == fd it was
          -- just assigned its own value)
          { s with fds := upd s.fds i last }
        else s
      -- fd->u.index = -1;
      s.setIndex o none
    else
      -- st->u.poll.pfds[fd->u.index].events = bits_to_poll_mask(fd->wanted_bands);
      { s with pfds := upd s.pfds i { s.pfds i with events := bitsToPollMask fd.wanted } }

/-- `iv_fd_poll_notify_fd_sync`: `probeOk` = the one-descriptor `poll()` succeeded without
`POLLNVAL`.  Returns the C return value (`0` / `-1`) as a `Bool`. -/
def notifyFdSyncG (nf : State → Nat → State) (s : State) (o : Nat) (probeOk : Bool) :
    State × Bool :=
  if !probeOk then (s, false) else (nf s o, true)

def notifyFdSync := notifyFdSyncG notifyFd

/-- the three tests of the loop body of `iv_fd_poll_activate_fds`, in order -/
def bandsOf (revents : Nat) : List Nat :=
  (if revents &&& (POLLIN ||| POLLERR ||| POLLHUP) ≠ 0 then [MASKIN] else []) ++
  (if revents &&& (POLLOUT ||| POLLERR ||| POLLHUP) ≠ 0 then [MASKOUT] else []) ++
  (if revents &&& (POLLERR ||| POLLHUP) ≠ 0 then [MASKERR] else [])

/-- `iv_fd_poll_activate_fds`: the `iv_fd_make_ready(active, fd, band)` calls, in order;
`revents i` is `pfds[i].revents` as left by `poll()` -/
def activate (s : State) (revents : Nat → Nat) : List (Nat × Nat) :=
  (List.range s.num).flatMap fun i =>
    -- fd = st->u.poll.fds[i]; revents = st->u.poll.pfds[i].revents;
    let fd := s.fds i
    (bandsOf (revents i)).map fun band => (fd, band)

/-! ## iv_fd.c -/

/-- `recompute_wanted_flags` -/
def recomputeWanted (fd : Obj) : Nat :=
  let wanted := 0
  if fd.registered then
    let wanted := if fd.hin then wanted ||| MASKIN else wanted
    let wanted := if fd.hout then wanted ||| MASKOUT else wanted
    let wanted := if fd.herr then wanted ||| MASKERR else wanted
    wanted
  else wanted

/-- `fd->wanted_bands = bands; method->notify_fd(st, fd);` — the only way iv_fd.c talks to the
back end after registration -/
def setWantedG (nf : State → Nat → State) (s : State) (o : Nat) (bands : Nat) : State :=
  nf (s.setObj o { s.objs o with wanted := bands }) o

def setWanted := setWantedG notifyFd

/-- static `notify_fd` of iv_fd.c: `recompute_wanted_flags(fd); method->notify_fd(st, fd);` -/
def notifyG (nf : State → Nat → State) (s : State) (o : Nat) : State :=
  setWantedG nf s o (recomputeWanted (s.objs o))

def notify := notifyG notifyFd

inductive Band | inn | out | err
deriving DecidableEq, Repr

def Obj.setHandler (fd : Obj) : Band → Bool → Obj
  | .inn, v => { fd with hin := v }
  | .out, v => { fd with hout := v }
  | .err, v => { fd with herr := v }

/-- what a user of the library does to one `struct iv_fd` -/
inductive Op
  /-- `fd->fd = n` (plain store; only meaningful while unregistered) -/
  | setFd (o n : Nat)
  /-- registered: `iv_fd_set_handler_{in,out,err}(fd, on ? h : NULL)`;
      unregistered: plain store to `fd->handler_*` (how handlers are set up before registering) -/
  | setHandler (o : Nat) (b : Band) (on : Bool)
  /-- `iv_fd_register(fd)` -/
  | register (o : Nat)
  /-- `iv_fd_register_try(fd)`; `probeOk` = the descriptor is open (no `POLLNVAL`) -/
  | registerTry (o : Nat) (probeOk : Bool)
  /-- `iv_fd_unregister(fd)` -/
  | unregister (o : Nat)
deriving DecidableEq, Repr

def Op.obj : Op → Nat
  | .setFd o _ | .setHandler o _ _ | .register o | .registerTry o _ | .unregister o => o

/-- One API call.  A call that ends in `iv_fatal` (register of a registered fd or of a
descriptor number `≥ IV_FD_POLL_MAXFD`, unregister / set_handler of an unregistered one through
the API, changing `fd->fd` of a registered fd) leaves the state alone: the process is gone.
`nf` is the back end's `notify_fd` (`notifyFd`; the negative theorem plugs in a mutant). -/
def stepG (nf : State → Nat → State) (s : State) : Op → State
  | .setFd o n =>
    if (s.objs o).registered then s else s.setObj o { s.objs o with fdnum := n }
  | .setHandler o b on =>
    -- fd->handler_in = handler_in;
    let s' := s.setObj o ((s.objs o).setHandler b on)
    -- notify_fd(st, fd);
    if (s.objs o).registered then notifyG nf s' o else s'
  | .register o =>
    let fd := s.objs o
    if fd.registered || decide (fd.fdnum ≥ MAXFD) then s else
    -- iv_fd_register_prologue: fd->registered = 1; ...; method->register_fd(st, fd);
    let s := s.setObj o { fd with registered := true }
    let s := registerFd s o
    -- notify_fd(st, fd);
    notifyG nf s o
  | .registerTry o probeOk =>
    let fd := s.objs o
    if fd.registered || decide (fd.fdnum ≥ MAXFD) then s else
    let s := s.setObj o { fd with registered := true }
    let s := registerFd s o
    -- recompute_wanted_flags(fd); orig_wanted_bands = fd->wanted_bands;
    let orig := recomputeWanted (s.objs o)
    -- if (!fd->wanted_bands) fd->wanted_bands = MASKIN | MASKOUT;
    let s := s.setObj o { s.objs o with wanted := if orig = 0 then MASKIN ||| MASKOUT else orig }
    -- ret = method->notify_fd_sync(st, fd);
    match notifyFdSyncG nf s o probeOk with
    | (s, false) =>
      -- fd->registered = 0; (no unregister_fd method for poll)
      s.setObj o { s.objs o with registered := false }
    | (s, true) =>
      -- if (!orig_wanted_bands) { fd->wanted_bands = 0; method->notify_fd(st, fd); }
      if orig = 0 then setWantedG nf s o 0 else s
  | .unregister o =>
    let fd := s.objs o
    if !fd.registered then s else
    -- fd->registered = 0; ...; notify_fd(st, fd);
    let s := s.setObj o { fd with registered := false }
    notifyG nf s o

def step := stepG notifyFd

def run (s : State) (ops : List Op) : State := ops.foldl step s

/-- `iv_fd_make_ready`: an fd not yet on the active list is appended with `ready_bands = bands`,
otherwise `ready_bands |= bands` -/
def makeReady (active : List (Nat × Nat)) (o bands : Nat) : List (Nat × Nat) :=
  if active.any (fun e => e.1 == o) then
    active.map fun e => if e.1 == o then (e.1, e.2 ||| bands) else e
  else active ++ [(o, bands)]

/-- the handler loop of `iv_fd_poll_and_run` for handlers that do not touch registrations:
per active fd, in list order, err / in / out if the band is ready and the handler is non-NULL -/
def dispatch (s : State) (calls : List (Nat × Nat)) : List (Nat × Nat) :=
  let active := calls.foldl (fun a c => makeReady a c.1 c.2) []
  active.flatMap fun e =>
    let fd := s.objs e.1
    (if e.2 &&& MASKERR ≠ 0 ∧ fd.herr then [(e.1, MASKERR)] else []) ++
    (if e.2 &&& MASKIN ≠ 0 ∧ fd.hin then [(e.1, MASKIN)] else []) ++
    (if e.2 &&& MASKOUT ≠ 0 ∧ fd.hout then [(e.1, MASKOUT)] else [])

/-! ## the mutant used by the negative theorem: the moved slot keeps its stale index -/

/-- `iv_fd_poll_notify_fd` with the line `last->u.index = fd->u.index;` deleted -/
def notifyFdMut (s : State) (o : Nat) : State :=
  let fd := s.objs o
  match fd.index with
  | none =>
    if fd.wanted ≠ 0 then
      let i := s.num
      let s := { s with num := s.num + 1 }
      let s := s.setIndex o (some i)
      let s := { s with pfds := upd s.pfds i { s.pfds i with fd := fd.fdnum } }
      let s := { s with pfds := upd s.pfds i { s.pfds i with events := bitsToPollMask fd.wanted } }
      { s with fds := upd s.fds i o }
    else
      s
  | some i =>
    if fd.wanted = 0 then
      let s := { s with num := s.num - 1 }
      let s :=
        if i ≠ s.num then
          let s := { s with pfds := upd s.pfds i (s.pfds s.num) }
          let last := s.fds s.num
          { s with fds := upd s.fds i last }
        else s
      s.setIndex o none
    else
      { s with pfds := upd s.pfds i { s.pfds i with events := bitsToPollMask fd.wanted } }

/-- the API on the mutant back end -/
def stepMut := stepG notifyFdMut

def runMut (s : State) (ops : List Op) : State := ops.foldl stepMut s

end Ivy.FdPoll
