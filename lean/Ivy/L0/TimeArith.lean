/-!
# The loop's time arithmetic — executable model (statement by statement)

Transcribes, from `/repo/src/iv_private.h`:

* `timespec_gt(a, b)`                      → `tsGt a b`
* `to_relative(st, rel, abs)`              → `toRelative now abs` (pure part, `now = st->time`) and
                                             `toRelativeC src c abs` (with the clock cache)
* `to_msec(st, abs)`                       → `toMsec now abs` / `toMsecC src c abs`
* `__iv_invalidate_now(st)`                → `invalidate c`

from `/repo/src/iv_timer.c`:

* `iv_validate_now()` (and the identical three statements inlined in `to_relative`,
  `iv_run_timers`, `__iv_now_location_valid`)               → `validate src c`
* `iv_invalidate_now()`                                      → `invalidate c`
* `timer_ptr_gt(a, b)` = `timespec_gt(&a->expires, &b->expires)`  → `tsGt`
* the expiry test of `iv_run_timers`: `if (timespec_gt(&t->expires, &st->time)) break;`
  — the head timer is run iff `!timespec_gt(expires, st->time)`  → `due now exp`,
  with the early return `if (!st->num_timers) return;` and the cache → `runTimersC src c head`
* `iv_get_soonest_timeout(st)`                               → `getSoonest numTimers root`

from `/repo/src/iv_fd_epoll.c`:

* `iv_fd_epoll_timerfd_set_poll_timeout`: `val.it_value = *abs; if (sec == 0 && nsec == 0)
  val.it_value.tv_nsec = 1;`                                 → `armValue abs`
* `iv_fd_epoll_timerfd_clear_poll_timeout`: `it_value = {0, 0}` → `clearValue`

`tv_sec` (`time_t`, signed 64 bit) and `tv_nsec` (`long`) are modelled as unbounded `Int`; the
intermediate values every C statement computes are listed by `relIntermediates` /
`msecIntermediates`, and `Ivy/Props/C04time.lean` proves that for normalised inputs with
`|tv_sec| < 2^62` each of them fits its C type (so the C arithmetic, which has undefined behaviour
on signed overflow, coincides with the arithmetic here).  C's `/` on integers truncates toward
zero: `Int.tdiv`.

No proofs in this file.
-/
namespace Ivy.TimeArith

/-- `struct timespec` -/
structure Ts where
  sec : Int
  nsec : Int
deriving DecidableEq, Repr, Inhabited

/-- a normalised `struct timespec`: `0 ≤ tv_nsec < 10^9` -/
def Ts.norm (t : Ts) : Prop := 0 ≤ t.nsec ∧ t.nsec < 1000000000

instance (t : Ts) : Decidable t.norm := by unfold Ts.norm; infer_instance

/-- the instant in nanoseconds (specification side only; the C code never computes this) -/
def toNs (t : Ts) : Int := t.sec * 1000000000 + t.nsec

/-- `timespec_gt`:
`return !!((a->tv_sec > b->tv_sec) || (a->tv_sec == b->tv_sec && a->tv_nsec > b->tv_nsec));` -/
def tsGt (a b : Ts) : Bool :=
  decide (a.sec > b.sec) || (decide (a.sec = b.sec) && decide (a.nsec > b.nsec))

/-- the expiry test of `iv_run_timers`: the head timer is unregistered and run iff
`timespec_gt(&t->expires, &st->time)` is false -/
def due (now exp : Ts) : Bool := !tsGt exp now

/-- `to_relative` for `abs != NULL`, after the clock cache has been made valid (`now = st->time`):
```
if (timespec_gt(abs, &st->time)) {
    rel->tv_sec = abs->tv_sec - st->time.tv_sec;
    rel->tv_nsec = abs->tv_nsec - st->time.tv_nsec;
    if (rel->tv_nsec < 0) { rel->tv_sec--; rel->tv_nsec += 1000000000; }
} else { rel->tv_sec = 0; rel->tv_nsec = 0; }
``` -/
def toRelative (now abs : Ts) : Ts :=
  if tsGt abs now then
    let sec := abs.sec - now.sec
    let nsec := abs.nsec - now.nsec
    if nsec < 0 then ⟨sec - 1, nsec + 1000000000⟩ else ⟨sec, nsec⟩
  else ⟨0, 0⟩

/-- `to_msec`:
```
if (abs != NULL) {
    to_relative(st, &rel, abs);
    if (rel.tv_sec < 86400)
        return 1000 * rel.tv_sec + ((rel.tv_nsec + 999999) / 1000000);
    return 86400000;
}
return -1;
``` -/
def toMsec (now : Ts) (abs : Option Ts) : Int :=
  match abs with
  | none => -1
  | some a =>
    let rel := toRelative now a
    if rel.sec < 86400 then 1000 * rel.sec + Int.tdiv (rel.nsec + 999999) 1000000
    else 86400000

/-! ## the values the C statements compute on the way (for the no-overflow theorems) -/

/-- every value of type `time_t` / `long` that `to_relative` stores for `abs != NULL` -/
def relIntermediates (now abs : Ts) : List Int :=
  if tsGt abs now then
    let sec := abs.sec - now.sec
    let nsec := abs.nsec - now.nsec
    if nsec < 0 then [sec, nsec, sec - 1, nsec + 1000000000] else [sec, nsec]
  else [0, 0]

/-- every value `to_msec` computes after `to_relative` (`time_t`/`long` arithmetic); the last one is
what is converted to the `int` return value -/
def msecIntermediates (now abs : Ts) : List Int :=
  let rel := toRelative now abs
  if rel.sec < 86400 then
    [1000 * rel.sec, rel.nsec + 999999, Int.tdiv (rel.nsec + 999999) 1000000,
     1000 * rel.sec + Int.tdiv (rel.nsec + 999999) 1000000]
  else [86400000]

/-- fits a signed 64-bit `time_t` / `long` -/
def I64 (x : Int) : Prop := -9223372036854775808 ≤ x ∧ x ≤ 9223372036854775807
/-- fits a 32-bit `int` -/
def I32 (x : Int) : Prop := -2147483648 ≤ x ∧ x ≤ 2147483647
/-- the side condition of the no-overflow theorems: `|tv_sec| < 2^62` -/
def SecBound (t : Ts) : Prop := -4611686018427387904 < t.sec ∧ t.sec < 4611686018427387904

/-! ## `iv_get_soonest_timeout` -/

/-- `if (st->num_timers) return &first_leaf.child[1]->expires; return NULL;` (`root` = the heap's
root element; that the root is the minimum is the heap's business, property C05) -/
def getSoonest (numTimers : Nat) (root : Ts) : Option Ts :=
  if numTimers ≠ 0 then some root else none

/-! ## the timerfd value -/

/-- `val.it_value = *abs; if (val.it_value.tv_sec == 0 && val.it_value.tv_nsec == 0)
val.it_value.tv_nsec = 1;` -/
def armValue (abs : Ts) : Ts :=
  if abs.sec = 0 ∧ abs.nsec = 0 then { abs with nsec := 1 } else abs

/-- `iv_fd_epoll_timerfd_clear_poll_timeout`: `it_value = {0, 0}` (disarms) -/
def clearValue : Ts := ⟨0, 0⟩

/-! ## the clock cache `st->time_valid` / `st->time`

The clock source (`iv_time_get`) is an input stream: the `k`-th call (k = 0, 1, ..) returns
`src k`.  `reads` is a ghost counter of the calls made so far. -/

structure Clock where
  timeValid : Bool := false
  time : Ts := ⟨0, 0⟩
  reads : Nat := 0
deriving DecidableEq, Repr, Inhabited

/-- `if (!st->time_valid) { st->time_valid = 1; iv_time_get(&st->time); }` -/
def validate (src : Nat → Ts) (c : Clock) : Clock :=
  if c.timeValid then c else { timeValid := true, time := src c.reads, reads := c.reads + 1 }

/-- `st->time_valid = 0;` -/
def invalidate (c : Clock) : Clock := { c with timeValid := false }

/-- `to_relative(st, &rel, abs)` including `abs == NULL` (returns `NULL`, the clock is not
touched) -/
def toRelativeC (src : Nat → Ts) (c : Clock) (abs : Option Ts) : Clock × Option Ts :=
  match abs with
  | none => (c, none)
  | some a => let c' := validate src c; (c', some (toRelative c'.time a))

/-- `to_msec(st, abs)` -/
def toMsecC (src : Nat → Ts) (c : Clock) (abs : Option Ts) : Clock × Int :=
  match abs with
  | none => (c, -1)
  | some a => let c' := validate src c; (c', toMsec c'.time (some a))

/-- the head of `iv_run_timers`: `if (!st->num_timers) return;` then the validation, then the
expiry test of the root timer (`head = iv_get_soonest_timeout`); returns whether it is run -/
def runTimersC (src : Nat → Ts) (c : Clock) (head : Option Ts) : Clock × Bool :=
  match head with
  | none => (c, false)
  | some e => let c' := validate src c; (c', due c'.time e)

/-- the calls that touch the cache -/
inductive COp where
  | validate
  | invalidate
  | rel (abs : Option Ts)
  | msec (abs : Option Ts)
  | runTimers (head : Option Ts)
deriving DecidableEq, Repr

def cstep (src : Nat → Ts) (c : Clock) : COp → Clock
  | .validate => validate src c
  | .invalidate => invalidate c
  | .rel a => (toRelativeC src c a).1
  | .msec a => (toMsecC src c a).1
  | .runTimers h => (runTimersC src c h).1

def crun (src : Nat → Ts) (c : Clock) (ops : List COp) : Clock := ops.foldl (cstep src) c

/-! ## broken variants (for the negative theorems of `Ivy/Props/C04time.lean`) -/

/-- `to_msec` with `rel.tv_nsec / 1000000` (rounding DOWN) -/
def toMsecDown (now : Ts) (abs : Option Ts) : Int :=
  match abs with
  | none => -1
  | some a =>
    let rel := toRelative now a
    if rel.sec < 86400 then 1000 * rel.sec + Int.tdiv rel.nsec 1000000 else 86400000

/-- `to_relative` without the borrow (`rel->tv_sec--; rel->tv_nsec += 1000000000;`) -/
def toRelativeNoBorrow (now abs : Ts) : Ts :=
  if tsGt abs now then ⟨abs.sec - now.sec, abs.nsec - now.nsec⟩ else ⟨0, 0⟩

/-- `to_relative` without the clamp (the `timespec_gt` test and its `else` branch) -/
def toRelativeNoClamp (now abs : Ts) : Ts :=
  let sec := abs.sec - now.sec
  let nsec := abs.nsec - now.nsec
  if nsec < 0 then ⟨sec - 1, nsec + 1000000000⟩ else ⟨sec, nsec⟩

end Ivy.TimeArith
