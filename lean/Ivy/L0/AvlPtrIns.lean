import Ivy.L0.AvlPtrWalk
/-!
`iv_avl_tree_insert` at pointer level refines `Avl.insert`.
-/
set_option linter.unusedSimpArgs false
set_option linter.unusedVariables false
namespace Ivy.AvlPtr
open Ivy.Avl (Tree toList size)
open Ivy.Avl.Tree

/-- the descent loop follows `locate` -/
theorem descend_spec (x : Int) : ∀ (t : Tree) {m : Mem} {root : Option Nat} {c : List Frame}
    {hole hp : Option Nat} {pre post ids : List Nat} {ref : Ref} (fuel : Nat),
    OwnCtx m root none c hole hp pre post → Own m hole hp t ids → IsRef c hp ref →
    size t < fuel →
    (locate x t c = none → descend fuel ⟨m, root⟩ x ref hp = some .dup) ∧
    (∀ cF, locate x t c = some cF → ∃ ref' p' pre' post',
      descend fuel ⟨m, root⟩ x ref hp = some (.found ref' p') ∧
      OwnCtx m root none cF none p' pre' post' ∧ IsRef cF p' ref' ∧
      pre' ++ post' = pre ++ ids ++ post) := by
  intro t
  induction t with
  | nil =>
    intro m root c hole hp pre post ids ref fuel hc ht href hf
    obtain ⟨rfl, rfl⟩ := ht
    cases fuel with
    | zero => simp at hf
    | succ fuel =>
      have hd := deref_ctx hc href
      refine ⟨by simp [locate], ?_⟩
      intro cF hl
      simp only [locate, Option.some.injEq] at hl
      subst hl
      exact ⟨ref, hp, pre, post, by simp [descend, hd], hc, href, by simp⟩
  | node l k h r ihl ihr =>
    intro m root c hole hp pre post ids ref fuel hc ht href hf
    obtain ⟨i, lp, rp, il, ir, rfl, hm, hl, hr, rfl⟩ := ht
    cases fuel with
    | zero => simp at hf
    | succ fuel =>
      have hd := deref_ctx hc href
      simp only [size] at hf
      by_cases c1 : x < k
      · have hc' : OwnCtx m root none (.L k h r :: c) lp (some i) pre (i :: ir ++ post) :=
          ⟨i, rp, hp, ir, post, rfl, hm, hr, hc, rfl⟩
        obtain ⟨a1, a2⟩ := ihl fuel hc' hl (ref := .left i) ⟨i, rfl, rfl⟩ (by omega)
        refine ⟨?_, ?_⟩
        · intro hn
          simp only [locate, c1, if_true] at hn
          simp [descend, hd, hm, c1, a1 hn]
        · intro cF hn
          simp only [locate, c1, if_true] at hn
          obtain ⟨ref', p', pre', post', e, b1, b2, b3⟩ := a2 cF hn
          exact ⟨ref', p', pre', post', by simp [descend, hd, hm, c1, e], b1, b2, by simp [b3]⟩
      · by_cases c2 : k < x
        · have hc' : OwnCtx m root none (.R k h l :: c) rp (some i) (pre ++ il ++ [i]) post :=
            ⟨i, lp, hp, il, pre, rfl, hm, hl, hc, rfl⟩
          obtain ⟨a1, a2⟩ := ihr fuel hc' hr (ref := .right i) ⟨i, rfl, rfl⟩ (by omega)
          refine ⟨?_, ?_⟩
          · intro hn
            simp only [locate, c1, c2, if_true, if_false] at hn
            simp [descend, hd, hm, c1, c2, a1 hn]
          · intro cF hn
            simp only [locate, c1, c2, if_true, if_false] at hn
            obtain ⟨ref', p', pre', post', e, b1, b2, b3⟩ := a2 cF hn
            exact ⟨ref', p', pre', post', by simp [descend, hd, hm, c1, c2, e], b1, b2,
              by simp [b3]⟩
        · refine ⟨fun _ => by simp [descend, hd, hm, c1, c2], ?_⟩
          intro cF hn
          simp [locate, c1, c2] at hn

/-- Pointer-level insert computes the functional insert: whenever the functional model
returns `(T, rc)`, the C-level code returns `rc` and leaves a heap representing `T`, with
the new node's address spliced into the in-order address list, every parent pointer
correct, and no memory outside the tree and the new node touched. -/
theorem insert_refines {h : Heap} {t T : Tree} {ids : List Nat} {a : Nat} {na : Node}
    {fuel : Nat} {rc : Int}
    (hR : Repr h t ids) (ha : h.mem a = some na) (hfresh : a ∉ ids) (hf : size t < fuel)
    (hins : Avl.insert na.key t = some (T, rc)) :
    ∃ h' ids', insert fuel h a = some (h', rc) ∧ Repr h' T ids' ∧
      ((rc = 0 ∧ ∃ pre post, ids = pre ++ post ∧ ids' = pre ++ a :: post) ∨
        (rc = -1 ∧ h' = h ∧ ids' = ids)) ∧
      (∀ n, n ∉ ids → n ≠ a → h'.mem n = h.mem n) := by
  obtain ⟨m, root⟩ := h
  obtain ⟨ho, nd⟩ := hR
  simp only at ho ha
  have hloc := ins_locate na.key t [] trivial
  simp only [plug_nil] at hloc
  have hc0 : OwnCtx m root none [] root none [] [] := ⟨rfl, rfl, rfl, rfl⟩
  obtain ⟨d1, d2⟩ := descend_spec na.key t (ref := .root) fuel hc0 ho rfl hf
  cases hl : locate na.key t [] with
  | none =>
    rw [hl] at hloc
    simp only [Avl.insert, hloc, Option.some.injEq, Prod.mk.injEq] at hins
    obtain ⟨rfl, rfl⟩ := hins
    refine ⟨⟨m, root⟩, ids, ?_, ⟨ho, nd⟩, Or.inr ⟨rfl, rfl, rfl⟩, fun _ _ _ => rfl⟩
    simp [insert, ha, d1 hl]
  | some cF =>
    rw [hl] at hloc
    obtain ⟨ref', p', pre', post', e1, hcF, hrefF, hids⟩ := d2 cF hl
    simp only [List.nil_append, List.append_nil] at hids
    subst hids
    obtain ⟨_, hlen⟩ := locate_plug na.key t [] cF hl
    simp only [List.length_nil, Nat.zero_add] at hlen
    simp only [upIns] at hloc
    cases hup : up false cF (node nil na.key 1 nil) with
    | none => simp [hup, Avl.insert, hloc] at hins
    | some p =>
      obtain ⟨T', s⟩ := p
      simp only [hup, Avl.insert, hloc, Option.some.injEq, Prod.mk.injEq] at hins
      obtain ⟨rfl, rfl⟩ := hins
      -- initialise the new node
      obtain ⟨m1, hm1⟩ : ∃ m1, m1 = upd m a ⟨na.key, none, none, p', 1⟩ := ⟨_, rfl⟩
      have hfr1 : ∀ n, n ≠ a → m1 n = m n := by intro n hn; simp [hm1, upd_ne, hn]
      have hc1 : OwnCtx m1 root none cF none p' pre' post' :=
        ownCtx_frame hcF (fun n hn => hfr1 n (fun e => hfresh (e ▸ hn)))
      obtain ⟨m2, root2, e2, hc2, hfr2⟩ := store_ctx hc1 hrefF nd (some a)
      have hpa : p' ≠ some a := ownCtx_hp_not hc1 hfresh
      have hm2a : m2 a = some ⟨na.key, none, none, p', 1⟩ := by
        rw [hfr2 a hpa, hm1]; simp
      have hoa : Own m2 (some a) p' (node nil na.key 1 nil) [a] :=
        ⟨a, none, none, [], [], rfl, hm2a, ⟨rfl, rfl⟩, ⟨rfl, rfl⟩, rfl⟩
      have nd2 : (pre' ++ [a] ++ post').Nodup := by grind
      obtain ⟨m', root', e3, ho', hfr3⟩ := walk_spec fuel hc2 hoa nd2 hup (by omega)
      refine ⟨⟨m', root'⟩, pre' ++ [a] ++ post', ?_, ⟨ho', nd2⟩,
        Or.inl ⟨rfl, pre', post', rfl, by simp⟩, ?_⟩
      · simp only [insert, ha, e1, Option.bind_eq_bind, Option.bind_some, Heap.set]
        rw [← hm1, e2]
        simp [e3]
      · intro n hn hna
        have h1 : n ∉ pre' ++ [a] ++ post' := by
          simp only [List.mem_append, List.mem_singleton, not_or] at hn ⊢
          exact ⟨⟨hn.1, hna⟩, hn.2⟩
        have h2 : p' ≠ some n := ownCtx_hp_not hc1 hn
        show m' n = m n
        rw [hfr3 n h1, hfr2 n h2, hfr1 n hna]

end Ivy.AvlPtr
