/-
Pointer-level model of ivykis' intrusive circular doubly-linked list:
`struct iv_list_head` and the inline functions / macros of /repo/src/include/iv_list.h,
plus `__iv_list_steal_elements` of /repo/src/iv_private.h.

Every other model in this tree represents these lists as plain Lean `List`s.  This file
models the *heap*: a `struct iv_list_head` is a record with the two pointer fields
`next` and `prev` (`Option Nat`, `none` = NULL: `iv_list_del` stores NULL into both);
memory is a partial map from addresses (`Nat`) to such records.  A list head and a list
element are the same kind of record, exactly as in C.

Every C function is transcribed statement by statement (same order of loads and stores;
a value that the C code reads twice is read twice) in the `Option` monad: `none` = the C
code would dereference NULL or an address that is not allocated, or a traversal ran out
of fuel.  `Ivy/L0/ListPtrProofs.lean` proves that these functions refine the list
operations (`x :: xs`, `xs ++ [x]`, `erase`, `++`, ...).
-/
namespace Ivy.ListPtr

/-- `struct iv_list_head` -/
structure Node where
  next : Option Nat
  prev : Option Nat
deriving Repr, DecidableEq, Inhabited

/-- memory: address ↦ record (`none` = not allocated) -/
abbrev Heap := Nat → Option Node

/-- load `p->next`; faults when `p` is NULL or not allocated -/
def ldNext (h : Heap) (p : Option Nat) : Option (Option Nat) :=
  match p with
  | none => none
  | some a => (h a).map (·.next)

/-- load `p->prev` -/
def ldPrev (h : Heap) (p : Option Nat) : Option (Option Nat) :=
  match p with
  | none => none
  | some a => (h a).map (·.prev)

/-- store `p->next = v` -/
def stNext (h : Heap) (p : Option Nat) (v : Option Nat) : Option Heap :=
  match p with
  | none => none
  | some a =>
    match h a with
    | none => none
    | some n => some fun j => if j = a then some { n with next := v } else h j

/-- store `p->prev = v` -/
def stPrev (h : Heap) (p : Option Nat) (v : Option Nat) : Option Heap :=
  match p with
  | none => none
  | some a =>
    match h a with
    | none => none
    | some n => some fun j => if j = a then some { n with prev := v } else h j

/-- `INIT_IV_LIST_HEAD(ilh)` -/
def init (h : Heap) (ilh : Nat) : Option Heap := do
  let h ← stNext h (some ilh) (some ilh)          -- (ilh)->next = (ilh);
  stPrev h (some ilh) (some ilh)                  -- (ilh)->prev = (ilh);

/-- `iv_list_add(ilh, head)` -/
def add (h : Heap) (ilh head : Nat) : Option Heap := do
  let h ← stNext h (some ilh) (← ldNext h (some head))     -- ilh->next = head->next;
  let h ← stPrev h (some ilh) (some head)                  -- ilh->prev = head;
  let h ← stPrev h (← ldNext h (some head)) (some ilh)     -- head->next->prev = ilh;
  stNext h (some head) (some ilh)                          -- head->next = ilh;

/-- `iv_list_add_tail(ilh, head)` -/
def addTail (h : Heap) (ilh head : Nat) : Option Heap := do
  let h ← stNext h (some ilh) (some head)                  -- ilh->next = head;
  let h ← stPrev h (some ilh) (← ldPrev h (some head))     -- ilh->prev = head->prev;
  let h ← stNext h (← ldPrev h (some head)) (some ilh)     -- head->prev->next = ilh;
  stPrev h (some head) (some ilh)                          -- head->prev = ilh;

/-- the two unlink stores shared by `iv_list_del` and `iv_list_del_init` -/
def unlink (h : Heap) (ilh : Nat) : Option Heap := do
  let h ← stNext h (← ldPrev h (some ilh)) (← ldNext h (some ilh))   -- ilh->prev->next = ilh->next;
  stPrev h (← ldNext h (some ilh)) (← ldPrev h (some ilh))           -- ilh->next->prev = ilh->prev;

/-- `iv_list_del(ilh)` -/
def del (h : Heap) (ilh : Nat) : Option Heap := do
  let h ← unlink h ilh
  let h ← stPrev h (some ilh) none                         -- ilh->prev = NULL;
  stNext h (some ilh) none                                 -- ilh->next = NULL;

/-- `iv_list_del_init(ilh)` -/
def delInit (h : Heap) (ilh : Nat) : Option Heap := do
  let h ← unlink h ilh
  init h ilh                                               -- INIT_IV_LIST_HEAD(ilh);

/-- `iv_list_empty(head)`: `head->next == head` -/
def empty (h : Heap) (head : Nat) : Option Bool := do
  some ((← ldNext h (some head)) == some head)

/-- `__iv_list_splice(ilh, prev, next)`; `prev`/`next` are the pointer values passed in -/
def splice' (h : Heap) (ilh : Nat) (prev next : Option Nat) : Option Heap := do
  let first ← ldNext h (some ilh)                          -- first = ilh->next;
  let last ← ldPrev h (some ilh)                           -- last = ilh->prev;
  let h ← stPrev h first prev                              -- first->prev = prev;
  let h ← stNext h prev first                              -- prev->next = first;
  let h ← stNext h last next                               -- last->next = next;
  stPrev h next last                                       -- next->prev = last;

/-- `iv_list_splice(ilh, head)` -/
def splice (h : Heap) (ilh head : Nat) : Option Heap := do
  if !(← empty h ilh) then
    splice' h ilh (some head) (← ldNext h (some head))
  else some h

/-- `iv_list_splice_init(ilh, head)` -/
def spliceInit (h : Heap) (ilh head : Nat) : Option Heap := do
  if !(← empty h ilh) then
    let h ← splice' h ilh (some head) (← ldNext h (some head))
    init h ilh
  else some h

/-- `iv_list_splice_tail(ilh, head)` -/
def spliceTail (h : Heap) (ilh head : Nat) : Option Heap := do
  if !(← empty h ilh) then
    splice' h ilh (← ldPrev h (some head)) (some head)
  else some h

/-- `iv_list_splice_tail_init(ilh, head)` -/
def spliceTailInit (h : Heap) (ilh head : Nat) : Option Heap := do
  if !(← empty h ilh) then
    let h ← splice' h ilh (← ldPrev h (some head)) (some head)
    init h ilh
  else some h

/-- `__iv_list_steal_elements(oldh, newh)` (iv_private.h) -/
def steal (h : Heap) (oldh newh : Nat) : Option Heap := do
  let first ← ldNext h (some oldh)                         -- first = oldh->next;
  let last ← ldPrev h (some oldh)                          -- last = oldh->prev;
  let h ← stNext h last (some newh)                        -- last->next = newh;
  let h ← stPrev h first (some newh)                       -- first->prev = newh;
  let h ← stNext h (some newh) (← ldNext h (some oldh))    -- newh->next = oldh->next;
  let h ← stPrev h (some newh) (← ldPrev h (some oldh))    -- newh->prev = oldh->prev;
  let h ← stNext h (some oldh) (some oldh)                 -- oldh->next = oldh;
  stPrev h (some oldh) (some oldh)                         -- oldh->prev = oldh;

/-- the loop of `iv_list_for_each(ilh, head)`:
`for (ilh = head->next; ilh != head; ilh = ilh->next)`; `cur` is the value of `ilh` at the
loop test.  Returns the addresses the body was entered with.  The body is entered with
`ilh == NULL` only on a corrupt list: counted as a fault. -/
def forEachLoop (h : Heap) (head : Nat) : Nat → Option Nat → Option (List Nat)
  | 0, cur => if cur = some head then some [] else none
  | fuel + 1, cur =>
    if cur = some head then some [] else do
      let c ← cur
      let nx ← ldNext h (some c)                           -- ilh = ilh->next
      let rest ← forEachLoop h head fuel nx
      some (c :: rest)

/-- `iv_list_for_each(ilh, head)` with an empty body -/
def forEach (fuel : Nat) (h : Heap) (head : Nat) : Option (List Nat) := do
  forEachLoop h head fuel (← ldNext h (some head))         -- ilh = head->next

/-- the loop of `iv_list_for_each_safe(ilh, ilh2, head)`:
`for (ilh = head->next, ilh2 = ilh->next; ilh != head; ilh = ilh2, ilh2 = ilh->next)`.
`cur`/`nxt` are `ilh`/`ilh2` at the loop test, `pos` counts the iterations; the body is
`if (d pos) iv_list_del(ilh);`.  Returns the final heap and the addresses visited. -/
def forEachSafeLoop (head : Nat) (d : Nat → Bool) :
    Nat → Heap → Nat → Option Nat → Option Nat → Option (Heap × List Nat)
  | 0, h, _, cur, _ => if cur = some head then some (h, []) else none
  | fuel + 1, h, pos, cur, nxt =>
    if cur = some head then some (h, []) else do
      let c ← cur
      let h ← if d pos then del h c else some h            -- body
      let nxt' ← ldNext h nxt                              -- ilh = ilh2, ilh2 = ilh->next
      let (h, rest) ← forEachSafeLoop head d fuel h (pos + 1) nxt nxt'
      some (h, c :: rest)

/-- `iv_list_for_each_safe(ilh, ilh2, head) { if (d position) iv_list_del(ilh); }` -/
def forEachSafe (fuel : Nat) (h : Heap) (head : Nat) (d : Nat → Bool) :
    Option (Heap × List Nat) := do
  let cur ← ldNext h (some head)                           -- ilh = head->next
  let nxt ← ldNext h cur                                   -- ilh2 = ilh->next
  forEachSafeLoop head d fuel h 0 cur nxt

/-- heap in which the addresses `< n` hold records with NULL fields (zeroed memory) -/
def zeroed (n : Nat) : Heap := fun j => if j < n then some ⟨none, none⟩ else none

end Ivy.ListPtr
