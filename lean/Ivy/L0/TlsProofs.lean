import Ivy.L0.Tls
/-! Proofs for the iv_tls registry model. -/
namespace Ivy.Tls

theorem align16_ge (n : Nat) : n ≤ align16 n := by unfold align16; omega
theorem align16_mod (n : Nat) : align16 n % 16 = 0 := by unfold align16; omega
theorem align16_lt (n : Nat) : align16 n < n + 16 := by unfold align16; omega

/-- the layout invariant of the registry -/
structure Inv (base : Nat) (s : St) : Prop where
  last_al  : s.last % 16 = 0
  base_le  : base ≤ s.last
  /-- every region lies above `struct iv_state` and below `last_offset`, aligned -/
  inside   : ∀ p ∈ s.users, base ≤ p.2 ∧ p.2 + p.1.size ≤ s.last ∧ p.2 % 16 = 0
  /-- regions are laid out in registration order without overlap -/
  sorted   : s.users.Pairwise (fun a b => a.2 + a.1.size ≤ b.2)

theorem init_inv (base : Nat) : Inv base (St.init base) :=
  { last_al := align16_mod _, base_le := align16_ge _, inside := by simp [St.init], sorted := by simp [St.init] }

theorem register_inv {base : Nat} {s s' : St} {u : User} (h : Inv base s) (hr : register s u = some s') : Inv base s' := by
  unfold register at hr
  split at hr
  · simp at hr
  · simp at hr; subst hr
    have hge := align16_ge (s.last + u.size)
    refine { last_al := align16_mod _, base_le := ?_, inside := ?_, sorted := ?_ }
    · have := h.base_le; simp; omega
    · intro p hp
      simp at hp
      rcases hp with hp | hp
      · have := h.inside p hp; simp; omega
      · subst hp; have := h.base_le; have := h.last_al; simp; omega
    · simp [List.pairwise_append]
      refine ⟨h.sorted, ?_⟩
      intro a b hab
      have := h.inside (a, b) hab
      simp at this; omega

theorem registerAll_inv {base : Nat} : ∀ (us : List User) {s s' : St}, Inv base s → registerAll s us = some s' → Inv base s'
  | [], s, s', h, hr => by simp [registerAll] at hr; subst hr; exact h
  | u :: us, s, s', h, hr => by
    simp only [registerAll] at hr
    split at hr
    · rename_i s1 h1; exact registerAll_inv us (register_inv h h1) hr
    · simp at hr

theorem registerAll_users : ∀ (us : List User) {s s' : St}, registerAll s us = some s' → s'.users.map (·.1) = s.users.map (·.1) ++ us ∧ s'.inited = s.inited
  | [], s, s', hr => by simp [registerAll] at hr; subst hr; simp
  | u :: us, s, s', hr => by
    simp only [registerAll] at hr
    split at hr
    · rename_i s1 h1
      have := registerAll_users us hr
      unfold register at h1
      split at h1
      · simp at h1
      · simp at h1; subst h1; simp at this ⊢; exact this
    · simp at hr

theorem registerAll_some : ∀ (us : List User) (s : St), s.inited = false → ∃ s', registerAll s us = some s'
  | [], s, _ => ⟨s, rfl⟩
  | u :: us, s, h => by
    simp only [registerAll, register, h]
    exact registerAll_some us _ (by simp)

end Ivy.Tls
