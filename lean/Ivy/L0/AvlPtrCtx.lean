import Ivy.L0.AvlProofs
/-!
Zipper view of the functional AVL model (`Ivy/L0/Avl.lean`).

The C code walks *up* from a node through parent pointers (`rebalance_path`), whereas
the functional model recurses *down* and rebalances on the way back.  This file
re-expresses the functional operations over one-hole contexts (`List Frame`, innermost
frame first) so that the pointer-level walk can be compared with them:

* `up s c t`  = apply `fix` along the context `c`, bottom-up, to the subtree `t`
* `ins x (plug c t)`, `del x (plug c t)`, `removeMax (plug c t)` … in terms of `up`.

No heap here; purely functional lemmas.
-/
namespace Ivy.AvlPtr
open Ivy.Avl Ivy.Avl.Tree Ivy.Avl.Proofs

inductive Frame where
  /-- the hole is the left child of a node `(k,h)` whose right subtree is `sib` -/
  | L (k : Int) (h : Nat) (sib : Tree)
  /-- the hole is the right child of a node `(k,h)` whose left subtree is `sib` -/
  | R (k : Int) (h : Nat) (sib : Tree)

def fill : Frame → Tree → Tree
  | .L k h sib, t => node t k h sib
  | .R k h sib, t => node sib k h t

/-- plug a subtree into a context (innermost frame first) -/
def plug : List Frame → Tree → Tree
  | [], t => t
  | f :: c, t => plug c (fill f t)

def fixF (s : Bool) : Frame → Tree → Option (Tree × Bool)
  | .L k h sib, t => fix s t k h sib
  | .R k h sib, t => fix s sib k h t

/-- the `rebalance_path` walk as seen by the functional model -/
def up : Bool → List Frame → Tree → Option (Tree × Bool)
  | s, [], t => some (t, s)
  | s, f :: c, t =>
    match fixF s f t with
    | none => none
    | some (t', s') => up s' c t'

@[simp] theorem plug_nil (t : Tree) : plug [] t = t := rfl
@[simp] theorem plug_cons (f : Frame) (c : List Frame) (t : Tree) :
    plug (f :: c) t = plug c (fill f t) := rfl

theorem plug_append (c1 c2 : List Frame) (t : Tree) :
    plug (c1 ++ c2) t = plug c2 (plug c1 t) := by
  induction c1 generalizing t with
  | nil => rfl
  | cons f c ih => simp [ih]

theorem up_true (c : List Frame) (t : Tree) : up true c t = some (plug c t, true) := by
  induction c generalizing t with
  | nil => rfl
  | cons f c ih => cases f <;> simp [up, fixF, fix, fill, ih]

theorem up_append (s : Bool) (c1 c2 : List Frame) (t : Tree) :
    up s (c1 ++ c2) t = (up s c1 t).bind (fun p => up p.2 c2 p.1) := by
  induction c1 generalizing s t with
  | nil => simp [up]
  | cons f c ih =>
    simp only [List.cons_append, up]
    cases fixF s f t with
    | none => simp
    | some p => simp [ih]

/-- `x` compares with the frame keys the way the descent to the hole goes -/
def Along (x : Int) : List Frame → Prop
  | [] => True
  | .L k _ _ :: c => x < k ∧ Along x c
  | .R k _ _ :: c => k < x ∧ Along x c

def upIns (c : List Frame) : InsRes → InsRes
  | .ok t s => match up s c t with
    | some (T, s') => .ok T s'
    | none => .fault
  | e => e

theorem ins_plug (x : Int) (c : List Frame) (t : Tree) (ha : Along x c) :
    ins x (plug c t) = upIns c (ins x t) := by
  induction c generalizing t with
  | nil => simp only [plug_nil]; cases ins x t <;> simp [upIns, up]
  | cons f c ih =>
    cases f with
    | L k h sib =>
      obtain ⟨hk, ha⟩ := ha
      rw [plug_cons, ih _ ha]
      simp only [fill, ins, hk, if_true]
      cases h1 : ins x t with
      | dup => rfl
      | fault => rfl
      | ok t' s =>
        simp only [upIns, up, fixF]
        cases h2 : fix s t' k h sib with
        | none => simp
        | some p => simp
    | R k h sib =>
      obtain ⟨hk, ha⟩ := ha
      have hk' : ¬ x < k := by omega
      rw [plug_cons, ih _ ha]
      simp only [fill, ins, hk, hk', if_true, if_false]
      cases h1 : ins x t with
      | dup => rfl
      | fault => rfl
      | ok t' s =>
        simp only [upIns, up, fixF]
        cases h2 : fix s sib k h t' with
        | none => simp
        | some p => simp

/-- the descent of `iv_avl_tree_insert`: the context of the NULL slot reached, or `none`
when a node with key `x` is met. -/
def locate (x : Int) : Tree → List Frame → Option (List Frame)
  | nil, c => some c
  | node l k h r, c =>
    if x < k then locate x l (.L k h r :: c)
    else if k < x then locate x r (.R k h l :: c)
    else none

theorem ins_locate (x : Int) (t : Tree) (c : List Frame) (ha : Along x c) :
    ins x (plug c t) =
      match locate x t c with
      | none => .dup
      | some cF => upIns cF (.ok (node nil x 1 nil) false) := by
  induction t generalizing c with
  | nil => rw [ins_plug x c nil ha]; simp [locate, ins]
  | node l k h r ihl ihr =>
    by_cases c1 : x < k
    · have := ihl (.L k h r :: c) ⟨c1, ha⟩
      simpa [locate, c1, fill] using this
    · by_cases c2 : k < x
      · have := ihr (.R k h l :: c) ⟨c2, ha⟩
        simpa [locate, c1, c2, fill] using this
      · rw [ins_plug x c _ ha]
        simp [locate, ins, c1, c2, upIns]

theorem locate_plug (x : Int) (t : Tree) (c cF : List Frame) (h : locate x t c = some cF) :
    plug cF nil = plug c t ∧ cF.length ≤ c.length + size t := by
  induction t generalizing c with
  | nil => simp [locate] at h; subst h; simp [size]
  | node l k hh r ihl ihr =>
    by_cases c1 : x < k
    · simp only [locate, c1, if_true] at h
      obtain ⟨h1, h2⟩ := ihl _ h
      refine ⟨by simpa [fill] using h1, ?_⟩
      simp [size] at h2 ⊢; omega
    · by_cases c2 : k < x
      · simp only [locate, c1, c2, if_true, if_false] at h
        obtain ⟨h1, h2⟩ := ihr _ h
        refine ⟨by simpa [fill] using h1, ?_⟩
        simp [size] at h2 ⊢; omega
      · simp [locate, c1, c2] at h

theorem del_plug (x : Int) (c : List Frame) (t : Tree) (ha : Along x c) :
    del x (plug c t) = (del x t).bind (fun p => up p.2 c p.1) := by
  induction c generalizing t with
  | nil => simp only [plug_nil]; cases del x t <;> simp [up]
  | cons f c ih =>
    cases f with
    | L k h sib =>
      obtain ⟨hk, ha⟩ := ha
      rw [plug_cons, ih _ ha]
      simp only [fill, del, hk, if_true]
      cases h1 : del x t with
      | none => simp
      | some p =>
        obtain ⟨t', s⟩ := p
        simp only [Option.bind_some, up, fixF]
        cases h2 : fix s t' k h sib <;> simp
    | R k h sib =>
      obtain ⟨hk, ha⟩ := ha
      have hk' : ¬ x < k := by omega
      rw [plug_cons, ih _ ha]
      simp only [fill, del, hk, hk', if_true, if_false]
      cases h1 : del x t with
      | none => simp
      | some p =>
        obtain ⟨t', s⟩ := p
        simp only [Option.bind_some, up, fixF]
        cases h2 : fix s sib k h t' <;> simp

def AllR : List Frame → Prop
  | [] => True
  | .L .. :: _ => False
  | .R .. :: c => AllR c

def AllL : List Frame → Prop
  | [] => True
  | .R .. :: _ => False
  | .L .. :: c => AllL c

theorem removeMax_plug (c : List Frame) (t : Tree) (hc : AllR c) (ht : t ≠ nil) :
    removeMax (plug c t) =
      (removeMax t).bind (fun p => (up p.2.2 c p.1).map (fun q => (q.1, p.2.1, q.2))) := by
  induction c generalizing t with
  | nil => simp only [plug_nil]; cases removeMax t <;> simp [up]
  | cons f c ih =>
    cases f with
    | L k h sib => exact absurd hc (by simp [AllR])
    | R k h sib =>
      rw [plug_cons, ih _ hc (by simp [fill])]
      cases t with
      | nil => exact absurd rfl ht
      | node a b hh d =>
        simp only [fill]
        rw [removeMax]
        cases h1 : removeMax (node a b hh d) with
        | none => simp
        | some p =>
          obtain ⟨t', m, s⟩ := p
          simp only [Option.bind_some, up, fixF]
          cases h2 : fix s sib k h t' <;> simp

theorem removeMin_plug (c : List Frame) (t : Tree) (hc : AllL c) (ht : t ≠ nil) :
    removeMin (plug c t) =
      (removeMin t).bind (fun p => (up p.2.2 c p.1).map (fun q => (q.1, p.2.1, q.2))) := by
  induction c generalizing t with
  | nil => simp only [plug_nil]; cases removeMin t <;> simp [up]
  | cons f c ih =>
    cases f with
    | R k h sib => exact absurd hc (by simp [AllL])
    | L k h sib =>
      rw [plug_cons, ih _ hc (by simp [fill])]
      cases t with
      | nil => exact absurd rfl ht
      | node a b hh d =>
        simp only [fill]
        rw [removeMin]
        cases h1 : removeMin (node a b hh d) with
        | none => simp
        | some p =>
          obtain ⟨t', m, s⟩ := p
          simp only [Option.bind_some, up, fixF]
          cases h2 : fix s t' k h sib <;> simp

/-- the victim search `while (victim->right != NULL)`: context of the maximum, its left
subtree, key and stored height -/
def spineR : Tree → List Frame → Option (List Frame × Tree × Int × Nat)
  | nil, _ => none
  | node l k h nil, c => some (c, l, k, h)
  | node l k h (node a b hh d), c => spineR (node a b hh d) (.R k h l :: c)

def spineL : Tree → List Frame → Option (List Frame × Tree × Int × Nat)
  | nil, _ => none
  | node nil k h r, c => some (c, r, k, h)
  | node (node a b hh d) k h r, c => spineL (node a b hh d) (.L k h r :: c)

theorem removeMax_spine (t : Tree) (c : List Frame) (hc : AllR c) (ht : t ≠ nil) :
    removeMax (plug c t) =
      match spineR t c with
      | none => none
      | some (cF, vl, m, _) => (up false cF vl).map (fun q => (q.1, m, q.2)) := by
  induction t generalizing c with
  | nil => exact absurd rfl ht
  | node l k h r _ ihr =>
    cases r with
    | nil =>
      rw [removeMax_plug c _ hc ht]
      simp [spineR, removeMax]
    | node a b hh d =>
      have := ihr (.R k h l :: c) hc (by simp)
      simpa [spineR, fill] using this

theorem removeMin_spine (t : Tree) (c : List Frame) (hc : AllL c) (ht : t ≠ nil) :
    removeMin (plug c t) =
      match spineL t c with
      | none => none
      | some (cF, vr, m, _) => (up false cF vr).map (fun q => (q.1, m, q.2)) := by
  induction t generalizing c with
  | nil => exact absurd rfl ht
  | node l k h r ihl _ =>
    cases l with
    | nil =>
      rw [removeMin_plug c _ hc ht]
      simp [spineL, removeMin]
    | node a b hh d =>
      have := ihl (.L k h r :: c) hc (by simp)
      simpa [spineL, fill] using this

theorem spineR_spec (t : Tree) (c cF : List Frame) (vl : Tree) (m : Int) (vh : Nat)
    (h : spineR t c = some (cF, vl, m, vh)) :
    ∃ cR, cF = cR ++ c ∧ AllR cR ∧ plug cR (node vl m vh nil) = t ∧ cR.length < size t := by
  induction t generalizing c with
  | nil => simp [spineR] at h
  | node l k hh r _ ihr =>
    cases r with
    | nil =>
      simp only [spineR, Option.some.injEq, Prod.mk.injEq] at h
      obtain ⟨rfl, rfl, rfl, rfl⟩ := h
      exact ⟨[], by simp, trivial, rfl, by simp [size] <;> omega⟩
    | node a b hh' d =>
      simp only [spineR] at h
      obtain ⟨cR, e, hr, hp, hl⟩ := ihr _ h
      refine ⟨cR ++ [.R k hh l], by simp [e], ?_, ?_, ?_⟩
      · clear e hp hl h
        induction cR with
        | nil => simp [AllR]
        | cons f c ih => cases f <;> simp_all [AllR]
      · rw [plug_append, hp]; rfl
      · simp [size] at hl ⊢; omega

theorem spineL_spec (t : Tree) (c cF : List Frame) (vr : Tree) (m : Int) (vh : Nat)
    (h : spineL t c = some (cF, vr, m, vh)) :
    ∃ cL, cF = cL ++ c ∧ AllL cL ∧ plug cL (node nil m vh vr) = t ∧ cL.length < size t := by
  induction t generalizing c with
  | nil => simp [spineL] at h
  | node l k hh r ihl _ =>
    cases l with
    | nil =>
      simp only [spineL, Option.some.injEq, Prod.mk.injEq] at h
      obtain ⟨rfl, rfl, rfl, rfl⟩ := h
      exact ⟨[], by simp, trivial, rfl, by simp [size] <;> omega⟩
    | node a b hh' d =>
      simp only [spineL] at h
      obtain ⟨cL, e, hr, hp, hl⟩ := ihl _ h
      refine ⟨cL ++ [.L k hh r], by simp [e], ?_, ?_, ?_⟩
      · clear e hp hl h
        induction cL with
        | nil => simp [AllL]
        | cons f c ih => cases f <;> simp_all [AllL]
      · rw [plug_append, hp]; rfl
      · simp [size] at hl ⊢; omega

theorem spineR_some (t : Tree) (c : List Frame) (ht : t ≠ nil) : (spineR t c).isSome := by
  induction t generalizing c with
  | nil => exact absurd rfl ht
  | node l k h r _ ihr =>
    cases r with
    | nil => simp [spineR]
    | node a b hh d => simpa [spineR] using ihr _ (by simp)

theorem spineL_some (t : Tree) (c : List Frame) (ht : t ≠ nil) : (spineL t c).isSome := by
  induction t generalizing c with
  | nil => exact absurd rfl ht
  | node l k h r ihl _ =>
    cases l with
    | nil => simp [spineL]
    | node a b hh d => simpa [spineL] using ihl _ (by simp)

/-- `iv_avl_tree_delete` of an inner node, in zipper form: the walk starts below the
victim's old position; the victim (key `m`) sits in the deleted node's frame with the
deleted node's stored height. -/
theorem del_node_plug (c : List Frame) (l r : Tree) (k : Int) (h : Nat) (ha : Along k c)
    (hn : ¬ (l = nil ∧ r = nil)) :
    del k (plug c (node l k h r)) =
      if height l > height r then
        match spineR l [] with
        | none => none
        | some (cR, vl, m, _) => up false (cR ++ .L m h r :: c) vl
      else
        match spineL r [] with
        | none => none
        | some (cL, vr, m, _) => up false (cL ++ .R m h l :: c) vr := by
  rw [del_plug k c _ ha]
  have hdel : del k (node l k h r) =
      if height l > height r then
        match removeMax l with
        | none => none
        | some (l', m, s) => fix s l' m h r
      else
        match removeMin r with
        | none => none
        | some (r', m, s) => fix s l m h r' := by
    rw [del]
    · simp only [Int.lt_irrefl, if_false]; rfl
    · intro a b; exact hn ⟨a, b⟩
  rw [hdel]
  by_cases hg : height l > height r
  · have ln : l ≠ nil := by rintro rfl; simp at hg
    have := removeMax_spine l [] trivial ln
    simp only [plug_nil] at this
    simp only [hg, if_true, this]
    cases h1 : spineR l [] with
    | none => simp
    | some q =>
      obtain ⟨cR, vl, m, vh⟩ := q
      simp only [up_append]
      cases h2 : up false cR vl with
      | none => simp
      | some p =>
        obtain ⟨l', s⟩ := p
        simp only [Option.map_some, Option.bind_some, up, fixF]
        cases h3 : fix s l' m h r <;> simp
  · simp only [hg, if_false]
    cases r with
    | nil => simp [removeMin, spineL]
    | node ra rk rh rr =>
      have := removeMin_spine (node ra rk rh rr) [] trivial (by simp)
      simp only [plug_nil] at this
      simp only [this]
      cases h1 : spineL (node ra rk rh rr) [] with
      | none => simp
      | some q =>
        obtain ⟨cL, vr, m, vh⟩ := q
        simp only [up_append]
        cases h2 : up false cL vr with
        | none => simp
        | some p =>
          obtain ⟨r', s⟩ := p
          simp only [Option.map_some, Option.bind_some, up, fixF]
          cases h3 : fix s l m h r' <;> simp

/-- keys left / right of the hole -/
def preK : List Frame → List Int
  | [] => []
  | .L _ _ _ :: c => preK c
  | .R k _ sib :: c => preK c ++ toList sib ++ [k]

def postK : List Frame → List Int
  | [] => []
  | .L k _ sib :: c => k :: toList sib ++ postK c
  | .R _ _ _ :: c => postK c

theorem toList_plug (c : List Frame) (t : Tree) :
    toList (plug c t) = preK c ++ toList t ++ postK c := by
  induction c generalizing t with
  | nil => simp [preK, postK]
  | cons f c ih => cases f <;> simp [ih, fill, preK, postK]

theorem ordered_of_plug (c : List Frame) (t : Tree) (h : Ordered (plug c t)) : Ordered t := by
  unfold Ordered at *
  rw [toList_plug] at h
  exact (List.pairwise_append.1 (List.pairwise_append.1 h).1).2.1

theorem along_of_ordered (x : Int) (c : List Frame) (t : Tree) (h : Ordered (plug c t))
    (hx : x ∈ toList t) : Along x c := by
  induction c generalizing t with
  | nil => trivial
  | cons f c ih =>
    rw [plug_cons] at h
    have ho := ordered_of_plug c _ h
    cases f with
    | L k hh sib =>
      have := ih _ h (by simp [fill, hx])
      obtain ⟨_, _, o1, _⟩ := ordered_node.1 ho
      exact ⟨o1 x hx, this⟩
    | R k hh sib =>
      have := ih _ h (by simp [fill, hx])
      obtain ⟨_, _, _, o2⟩ := ordered_node.1 ho
      exact ⟨o2 x hx, this⟩

end Ivy.AvlPtr
