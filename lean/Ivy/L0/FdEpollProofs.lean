import Ivy.L0.FdEpoll
/-!
Helper lemmas for `Ivy/Props/C15epoll.lean`: the invariant of the epoll registration
bookkeeping and its preservation by every operation of `Ivy/L0/FdEpoll.lean`.
-/
namespace Ivy.L0.FdEpoll

/-! ## function update, list removal -/

@[simp] theorem upd_same {α : Type} (f : Nat → α) (k : Nat) (v : α) : upd f k v k = v := by
  simp [upd]

theorem upd_other {α : Type} (f : Nat → α) {k i : Nat} (v : α) (h : i ≠ k) : upd f k v i = f i := by
  simp [upd, h]

theorem upd_apply {α : Type} (f : Nat → α) (k i : Nat) (v : α) :
    upd f k v i = if i = k then v else f i := rfl

@[simp] theorem mem_lrem {l : List Nat} {o x : Nat} : x ∈ lrem l o ↔ x ∈ l ∧ x ≠ o := by
  simp [lrem]

theorem nodup_lrem {l : List Nat} (o : Nat) (h : l.Nodup) : (lrem l o).Nodup := by
  unfold lrem
  exact List.Pairwise.filter _ h

theorem nodup_lrem_snoc {l : List Nat} (o : Nat) (h : l.Nodup) : (lrem l o ++ [o]).Nodup := by
  rw [List.nodup_append]
  refine ⟨nodup_lrem o h, by simp, ?_⟩
  intro a ha b hb
  simp at hb
  subst hb
  exact (mem_lrem.1 ha).2

theorem lrem_of_not_mem {l : List Nat} {o : Nat} (h : o ∉ l) : lrem l o = l := by
  unfold lrem
  rw [List.filter_eq_self]
  intro a ha
  simp
  intro hao
  exact h (hao ▸ ha)

theorem lrem_cons_self_length (l : List Nat) (o : Nat) : (lrem (o :: l) o).length ≤ l.length := by
  unfold lrem
  simp
  exact List.length_filter_le _ _

/-! ## the invariant -/

/-- the interest-list entry that corresponds to `bands` for object `o`: none for 0, otherwise the
epoll mask of the bands with `data.ptr = o` (an object that only has an error handler is present
with an empty mask: ERR / HUP are always reported) -/
def entry (bands o : Nat) : Option (Nat × Nat) :=
  if bands = 0 then none else some (bitsToPollMask bands, o)

structure Inv (s : State) : Prop where
  nodup : s.notify.Nodup
  queued_iff : ∀ o, (s.objs o).queued = true ↔ o ∈ s.notify
  queued_reg : ∀ o, (s.objs o).queued = true → (s.objs o).reg = true
  pending : ∀ o, (s.objs o).reg = true → (s.objs o).registered ≠ (s.objs o).wanted →
    (s.objs o).queued = true
  belief : ∀ o, (s.objs o).reg = true → s.kernel (s.objs o).fd = entry (s.objs o).registered o
  owner : ∀ d m p, s.kernel d = some (m, p) → (s.objs p).reg = true ∧ (s.objs p).fd = d
  inj : ∀ o o', (s.objs o).reg = true → (s.objs o').reg = true →
    (s.objs o).fd = (s.objs o').fd → o = o'
  live_iff : ∀ o, o ∈ s.live ↔ (s.objs o).reg = true
  isopen : ∀ o, (s.objs o).reg = true → s.closed (s.objs o).fd = false
  notfatal : s.fatal = false

theorem inv_init : Inv init := by
  constructor <;> simp [init]

theorem entry_some {b o m p : Nat} (h : entry b o = some (m, p)) :
    p = o ∧ b ≠ 0 ∧ m = bitsToPollMask b := by
  unfold entry at h; split at h <;> simp_all

theorem upd_self_eq {α : Type} (f : Nat → α) (k : Nat) (v : α) (h : f k = v) : upd f k v = f := by
  funext i; unfold upd; split
  · next hi => rw [hi, h]
  · rfl

@[simp] theorem upd_upd {α : Type} (f : Nat → α) (k : Nat) (v w : α) :
    upd (upd f k v) k w = upd f k w := by
  funext i; unfold upd; split <;> rfl

/-! ## `__iv_fd_epoll_flush_one` -/

/-- the state after a successful `__iv_fd_epoll_flush_one` -/
def flushed (s : State) (o : Nat) : State :=
  { s with notify := lrem s.notify o,
           objs := upd s.objs o { s.objs o with queued := false, registered := (s.objs o).wanted },
           kernel := upd s.kernel (s.objs o).fd (entry (s.objs o).wanted o) }

/-- with the descriptor open and the library's belief about it right, the op chosen from
`registered_bands` / `wanted_bands` is accepted by the kernel and leaves the entry of the wanted
bands -/
theorem kernelCtl_ok (k : Kernel) (closed : Nat → Bool) (fd r w o : Nat) (hopen : closed fd = false)
    (hb : k fd = entry r o) (hrw : r ≠ w) :
    kernelCtl k closed (chooseOp r w) fd (bitsToPollMask w) o = (upd k fd (entry w o), 0) := by
  unfold kernelCtl chooseOp entry
  unfold entry at hb
  by_cases h1 : r = 0 <;> by_cases h2 : w = 0 <;> simp [h1, h2, hopen] at hb ⊢ <;> simp [hb]
  omega

theorem flushOneRaw_ok (s : State) (o : Nat) (hopen : s.closed (s.objs o).fd = false)
    (hb : s.kernel (s.objs o).fd = entry (s.objs o).registered o) :
    (flushOneRaw s o).1 = flushed s o ∧ ctlErr (flushOneRaw s o).2 = 0 := by
  unfold flushOneRaw flushed delInitNotify
  simp only [upd_same]
  by_cases hrw : (s.objs o).registered = (s.objs o).wanted
  · simp only [hrw, if_true, ctlErr, and_true]
    rw [upd_self_eq s.kernel _ _ (by rw [hb, hrw])]
  · simp only [hrw, if_false]
    rw [kernelCtl_ok _ _ _ _ _ _ hopen hb hrw]
    simp [ctlErr, upd_upd]

/-- what the call was: none when nothing changed, otherwise exactly the op of the C table -/
theorem flushOneRaw_ctl (s : State) (o : Nat) :
    (flushOneRaw s o).2 = none ∧ (s.objs o).registered = (s.objs o).wanted ∨
    ∃ e, (flushOneRaw s o).2 = some ⟨chooseOp (s.objs o).registered (s.objs o).wanted, (s.objs o).fd,
      bitsToPollMask (s.objs o).wanted, o, e⟩ ∧ (s.objs o).registered ≠ (s.objs o).wanted := by
  unfold flushOneRaw delInitNotify
  simp only [upd_same]
  by_cases hrw : (s.objs o).registered = (s.objs o).wanted
  · left; simp [hrw]
  · right; simp [hrw]

theorem flushOne_ok (s : State) (o : Nat) (hopen : s.closed (s.objs o).fd = false)
    (hb : s.kernel (s.objs o).fd = entry (s.objs o).registered o) :
    (flushOne s o).1 = flushed s o ∧ (flushOne s o).2 = (flushOneRaw s o).2 ∧
      ctlErr (flushOne s o).2 = 0 := by
  have h := flushOneRaw_ok s o hopen hb
  unfold flushOne
  simp [h.2, h.1]

theorem inv_flushed {s : State} {o : Nat} (hI : Inv s) (hr : (s.objs o).reg = true) :
    Inv (flushed s o) := by
  obtain ⟨h1, h2, h3, h4, h5, h6, h7, h8, h9, h10⟩ := hI
  unfold flushed
  constructor
  · exact nodup_lrem o h1
  · intro x; simp only [upd_apply, mem_lrem]; grind
  · intro x; simp only [upd_apply]; grind
  · intro x; simp only [upd_apply]; grind
  · intro x; simp only [upd_apply]; grind
  · intro d m p; simp only [upd_apply, entry]; grind
  · intro x y; simp only [upd_apply]; grind
  · intro x; simp only [upd_apply]; grind
  · intro x; simp only [upd_apply]; grind
  · exact h10

/-! ## `iv_fd_epoll_notify_fd` -/

def notified (s : State) (o : Nat) : State :=
  { s with notify := lrem s.notify o ++ (if (s.objs o).registered ≠ (s.objs o).wanted then [o] else []),
           objs := upd s.objs o { s.objs o with queued := decide ((s.objs o).registered ≠ (s.objs o).wanted) } }

theorem notifyFd_eq (s : State) (o : Nat) : notifyFd s o = notified s o := by
  unfold notifyFd notified delInitNotify
  simp only [upd_same]
  by_cases h : (s.objs o).registered = (s.objs o).wanted <;> simp [h, upd_upd]

theorem nodup_notified_list {l : List Nat} (o : Nat) (c : Prop) [Decidable c] (h : l.Nodup) :
    (lrem l o ++ (if c then [o] else [])).Nodup := by
  split
  · exact nodup_lrem_snoc o h
  · simpa using nodup_lrem o h

theorem mem_notified_list {l : List Nat} {o x : Nat} {c : Prop} [Decidable c] :
    x ∈ lrem l o ++ (if c then [o] else []) ↔ (x ∈ l ∧ x ≠ o) ∨ (c ∧ x = o) := by
  split <;> simp [*]

/-! ## `iv_fd_set_handler_*` -/

@[simp] theorem setH_fd (f : Obj) (band : Nat) (b : Bool) : (setH f band b).fd = f.fd := by
  unfold setH; split <;> (try split) <;> rfl
@[simp] theorem setH_reg (f : Obj) (band : Nat) (b : Bool) : (setH f band b).reg = f.reg := by
  unfold setH; split <;> (try split) <;> rfl
@[simp] theorem setH_wanted (f : Obj) (band : Nat) (b : Bool) : (setH f band b).wanted = f.wanted := by
  unfold setH; split <;> (try split) <;> rfl
@[simp] theorem setH_registered (f : Obj) (band : Nat) (b : Bool) :
    (setH f band b).registered = f.registered := by
  unfold setH; split <;> (try split) <;> rfl
@[simp] theorem setH_queued (f : Obj) (band : Nat) (b : Bool) : (setH f band b).queued = f.queued := by
  unfold setH; split <;> (try split) <;> rfl

/-- the state after `iv_fd_set_handler_*` on a registered object -/
def handlerSet (s : State) (o band : Nat) (b : Bool) : State :=
  let f := setH (s.objs o) band b
  let w := wantedOf f
  { s with notify := lrem s.notify o ++ (if f.registered ≠ w then [o] else []),
           objs := upd s.objs o { f with wanted := w, queued := decide (f.registered ≠ w) } }

theorem setHandler_eq (s : State) (o band : Nat) (b : Bool) :
    setHandler s o band b =
      if (s.objs o).reg then handlerSet s o band b
      else { s with objs := upd s.objs o (setH (s.objs o) band b) } := by
  unfold setHandler
  simp only [setObj, upd_same, setH_reg]
  by_cases hr : (s.objs o).reg = true
  · rw [if_pos hr, if_pos hr]
    simp only [coreNotifyFd, recompute, setObj, notifyFd_eq, notified, upd_same, handlerSet, upd_upd]
  · rw [if_neg hr, if_neg hr]

theorem inv_setHandler {s : State} (hI : Inv s) (o band : Nat) (b : Bool) :
    Inv (setHandler s o band b) := by
  obtain ⟨h1, h2, h3, h4, h5, h6, h7, h8, h9, h10⟩ := hI
  rw [setHandler_eq]
  split
  · next hr =>
    unfold handlerSet
    constructor
    · exact nodup_notified_list o _ h1
    · intro x; simp only [upd_apply, mem_notified_list, setH_registered]; grind
    · intro x; simp only [upd_apply, setH_reg]; grind
    · intro x; simp only [upd_apply, setH_reg, setH_registered]; grind
    · intro x; simp only [upd_apply, setH_reg, setH_registered, setH_fd]; grind
    · intro d m p; simp only [upd_apply, setH_reg, setH_fd]; grind
    · intro x y; simp only [upd_apply, setH_reg, setH_fd]; grind
    · intro x; simp only [upd_apply, setH_reg]; grind
    · intro x; simp only [upd_apply, setH_reg, setH_fd]; grind
    · exact h10
  · next hr =>
    constructor
    · exact h1
    · intro x; simp only [upd_apply]; grind [setH_queued]
    · intro x; simp only [upd_apply]; grind [setH_queued, setH_reg]
    · intro x; simp only [upd_apply]; grind [setH_queued, setH_reg]
    · intro x; simp only [upd_apply]; grind [setH_queued, setH_reg]
    · intro d m p; simp only [upd_apply]; grind [setH_reg, setH_fd]
    · intro x y; simp only [upd_apply]; grind [setH_reg, setH_fd]
    · intro x; simp only [upd_apply]; grind [setH_reg, setH_fd]
    · intro x; simp only [upd_apply]; grind [setH_reg, setH_fd]
    · exact h10

theorem fdFree_iff {s : State} (hl : ∀ o, o ∈ s.live ↔ (s.objs o).reg = true) (d : Nat) :
    fdFree s d = true ↔ ∀ x, (s.objs x).reg = true → (s.objs x).fd ≠ d := by
  unfold fdFree
  simp only [List.all_eq_true, bne_iff_ne]
  constructor
  · intro h x hx; exact h x ((hl x).2 hx)
  · intro h x hx; exact h x ((hl x).1 hx)

theorem lrem_lrem_snoc (l : List Nat) (o : Nat) : lrem (lrem l o ++ [o]) o = lrem l o := by
  unfold lrem; simp [List.filter_append, List.filter_filter]

theorem setHandler_reg (s : State) (o band : Nat) (b : Bool) (x : Nat) :
    ((setHandler s o band b).objs x).reg = (s.objs x).reg := by
  rw [setHandler_eq]
  split <;> by_cases hx : x = o <;> simp [handlerSet, hx, upd_other]

theorem setHandler_twice_obj {s : State} {o : Nat} (hr : (s.objs o).reg = true) (b : Bool) :
    (setHandler (setHandler s o MASKIN b) o MASKIN (s.objs o).hin).objs o =
      { s.objs o with wanted := wantedOf (s.objs o),
                      queued := decide ((s.objs o).registered ≠ wantedOf (s.objs o)) } := by
  have hreg1 : ((setHandler s o MASKIN b).objs o).reg = true := by rw [setHandler_reg]; exact hr
  rw [setHandler_eq _ o, if_pos hreg1]
  rw [setHandler_eq s o, if_pos hr]
  simp [handlerSet, setH, wantedOf, hr]

/-! ## `iv_fd_register` -/

def registeredSt (s : State) (o d : Nat) : State :=
  let f0 : Obj := { s.objs o with fd := d, reg := true, registered := 0, queued := false }
  let w := wantedOf f0
  { s with objs := upd s.objs o { f0 with wanted := w, queued := decide (0 ≠ w) },
           notify := lrem s.notify o ++ (if 0 ≠ w then [o] else []),
           live := o :: s.live }

theorem register_eq (s : State) (o d : Nat) : register s o d = registeredSt s o d := by
  simp only [register, prologue, coreNotifyFd, recompute, setObj, notifyFd_eq, notified, upd_same,
    registeredSt, upd_upd]

theorem inv_register {s : State} (hI : Inv s) {o d : Nat} (hr : (s.objs o).reg = false)
    (hc : s.closed d = false) (hf : fdFree s d = true) : Inv (register s o d) := by
  obtain ⟨h1, h2, h3, h4, h5, h6, h7, h8, h9, h10⟩ := hI
  rw [fdFree_iff h8] at hf
  have hk : s.kernel d = none := by
    cases hkd : s.kernel d with
    | none => rfl
    | some mp => obtain ⟨m, p⟩ := mp; have := h6 d m p hkd; exact absurd this.2 (hf p this.1)
  rw [register_eq]; unfold registeredSt
  constructor
  · exact nodup_notified_list o _ h1
  · intro x; simp only [upd_apply, mem_notified_list]; grind
  · intro x; simp only [upd_apply]; grind
  · intro x; simp only [upd_apply]; grind
  · intro x; by_cases hx : x = o
    · subst hx; simp [hk, entry]
    · simp only [upd_other _ _ hx]; exact h5 x
  · intro d' m p; simp only [upd_apply]; grind
  · intro x y; simp only [upd_apply]; grind
  · intro x; simp only [upd_apply, List.mem_cons]; grind
  · intro x; simp only [upd_apply]; grind
  · exact h10

/-! ## `iv_fd_unregister` -/

def unregisteredSt (s : State) (o : Nat) : State :=
  { s with objs := upd s.objs o { s.objs o with reg := false, wanted := 0, registered := 0, queued := false },
           notify := lrem s.notify o,
           kernel := upd s.kernel (s.objs o).fd none,
           live := lrem s.live o }

/-- `iv_fd_unregister` just before `method->unregister_fd` -/
def unregMid (s : State) (o : Nat) : State :=
  { s with objs := upd s.objs o
             { s.objs o with reg := false, wanted := 0, queued := decide ((s.objs o).registered ≠ 0) },
           notify := lrem s.notify o ++ (if (s.objs o).registered ≠ 0 then [o] else []),
           live := lrem s.live o }

theorem unregMid_eq (s : State) (o : Nat) : coreNotifyFd (clearReg s o) o = unregMid s o := by
  simp [clearReg, coreNotifyFd, recompute, setObj, notifyFd_eq, notified, upd_upd, wantedOf, unregMid]

theorem ctl_of_flushOneRaw_del (s : State) (o : Nat) (h0 : (s.objs o).registered ≠ 0)
    (hw : (s.objs o).wanted = 0) (hopen : s.closed (s.objs o).fd = false)
    (hb : s.kernel (s.objs o).fd = entry (s.objs o).registered o) :
    (flushOneRaw s o).2 = some ⟨.del, (s.objs o).fd, 0, o, 0⟩ := by
  have h1 := flushOneRaw_ok s o hopen hb
  rcases flushOneRaw_ctl s o with ⟨_, h⟩ | ⟨e, h, _⟩
  · omega
  · rw [h] at h1 ⊢
    have he : e = 0 := by simpa [ctlErr] using h1.2
    subst he
    simp [chooseOp, h0, hw, bitsToPollMask]

theorem unregister_eq {s : State} (hI : Inv s) {o : Nat} (hr : (s.objs o).reg = true) :
    unregister s o = (unregisteredSt s o,
      if (s.objs o).registered = 0 then []
      else [⟨.del, (s.objs o).fd, 0, o, 0⟩]) := by
  have hb := hI.belief o hr
  have ho := hI.isopen o hr
  unfold unregister
  simp only [unregMid_eq, unregisterFd]
  by_cases h0 : (s.objs o).registered = 0
  · simp [h0, unregMid, unregisteredSt]
    rw [upd_self_eq s.kernel _ _ (by rw [hb, h0]; rfl)]
  · have hq : ((unregMid s o).objs o).queued = true := by simp [unregMid, h0]
    have hopen' : (unregMid s o).closed ((unregMid s o).objs o).fd = false := by simpa [unregMid] using ho
    have hb' : (unregMid s o).kernel ((unregMid s o).objs o).fd =
        entry ((unregMid s o).objs o).registered o := by simpa [unregMid] using hb
    have hf := flushOne_ok _ _ hopen' hb'
    have hc := ctl_of_flushOneRaw_del (unregMid s o) o (by simpa [unregMid] using h0) (by simp [unregMid])
      hopen' hb'
    rw [if_pos hq, if_neg h0]
    rw [Prod.ext_iff]
    refine ⟨?_, ?_⟩
    · simp only [hf.1]
      simp [flushed, unregMid, unregisteredSt, h0, lrem_lrem_snoc, entry]
    · simp only [hf.2.1, hc]
      simp [unregMid]

theorem inv_unregisteredSt {s : State} (hI : Inv s) {o : Nat} (hr : (s.objs o).reg = true) :
    Inv (unregisteredSt s o) := by
  obtain ⟨h1, h2, h3, h4, h5, h6, h7, h8, h9, h10⟩ := hI
  unfold unregisteredSt
  constructor
  · exact nodup_lrem o h1
  · intro x; simp only [upd_apply, mem_lrem]; grind
  · intro x; simp only [upd_apply]; grind
  · intro x; simp only [upd_apply]; grind
  · intro x; simp only [upd_apply]; grind
  · intro d m p; simp only [upd_apply]; grind [entry_some]
  · intro x y; simp only [upd_apply]; grind
  · intro x; simp only [upd_apply, mem_lrem]; grind
  · intro x; simp only [upd_apply]; grind
  · exact h10

/-! ## `iv_fd_register_try` -/

/-- the bands `iv_fd_register_try` probes with: the handlers' bands, or IN|OUT when there are none -/
def tryBands (w0 : Nat) : Nat := if w0 = 0 then MASKIN ||| MASKOUT else w0

theorem tryBands_ne_zero (w0 : Nat) : tryBands w0 ≠ 0 := by
  unfold tryBands; split <;> simp_all

def tryObj (s : State) (o d : Nat) : Obj :=
  { s.objs o with fd := d, reg := true, registered := 0, queued := false }

/-- `iv_fd_register_try` just before `method->notify_fd_sync` -/
def tryMid (s : State) (o d : Nat) : State :=
  { s with objs := upd s.objs o { tryObj s o d with wanted := tryBands (wantedOf (tryObj s o d)) },
           live := o :: s.live }

theorem lrem_lrem (l : List Nat) (o : Nat) : lrem (lrem l o) o = lrem l o := by
  unfold lrem; simp [List.filter_filter]

def tryOkSt (s : State) (o d : Nat) : State :=
  let w0 := wantedOf (tryObj s o d)
  let wt := tryBands w0
  { s with objs := upd s.objs o { tryObj s o d with wanted := w0, registered := wt, queued := decide (wt ≠ w0) },
           notify := lrem s.notify o ++ (if wt ≠ w0 then [o] else []),
           kernel := upd s.kernel d (entry wt o),
           live := o :: s.live }

def tryFailSt (s : State) (o d : Nat) : State :=
  { s with objs := upd s.objs o
             { tryObj s o d with wanted := tryBands (wantedOf (tryObj s o d)), reg := false },
           notify := lrem s.notify o,
           live := lrem (o :: s.live) o }

@[simp] theorem tryObj_fd (s : State) (o d : Nat) : (tryObj s o d).fd = d := rfl
@[simp] theorem tryObj_registered (s : State) (o d : Nat) : (tryObj s o d).registered = 0 := rfl
@[simp] theorem tryObj_reg (s : State) (o d : Nat) : (tryObj s o d).reg = true := rfl
@[simp] theorem tryObj_queued (s : State) (o d : Nat) : (tryObj s o d).queued = false := rfl

theorem tryMid_eq (s : State) (o d : Nat) :
    (if wantedOf (tryObj s o d) = 0 then
      setObj (recompute (prologue s o d) o) o fun f => { f with wanted := MASKIN ||| MASKOUT }
      else recompute (prologue s o d) o) = tryMid s o d := by
  have e : ({ s.objs o with fd := d, reg := true, registered := 0, queued := false } : Obj) = tryObj s o d := rfl
  simp only [prologue, recompute, setObj, upd_same, upd_upd, tryMid, tryBands, e]
  split <;> simp_all

theorem tryOrig_eq (s : State) (o d : Nat) :
    ((recompute (prologue s o d) o).objs o).wanted = wantedOf (tryObj s o d) := by
  simp [prologue, recompute, setObj, tryObj]

theorem registerTry_ok (s : State) (o d : Nat) (hc : s.closed d = false) (hk : s.kernel d = none) :
    registerTry s o d = (tryOkSt s o d,
      [⟨.add, d, bitsToPollMask (tryBands (wantedOf (tryObj s o d))), o, 0⟩], 0) := by
  unfold registerTry
  simp only [tryOrig_eq, tryMid_eq, notifySync]
  have hne := tryBands_ne_zero (wantedOf (tryObj s o d))
  have hopen' : (tryMid s o d).closed ((tryMid s o d).objs o).fd = false := by simpa [tryMid] using hc
  have hb' : (tryMid s o d).kernel ((tryMid s o d).objs o).fd = entry ((tryMid s o d).objs o).registered o := by
    simp [tryMid, hk, entry]
  have hf := flushOneRaw_ok _ _ hopen' hb'
  have hctl : (flushOneRaw (tryMid s o d) o).2 =
      some ⟨.add, d, bitsToPollMask (tryBands (wantedOf (tryObj s o d))), o, 0⟩ := by
    rcases flushOneRaw_ctl (tryMid s o d) o with ⟨_, h⟩ | ⟨e, h, _⟩
    · simp [tryMid] at h; omega
    · rw [h] at hf ⊢
      have he : e = 0 := by simpa [ctlErr] using hf.2
      subst he
      simp [tryMid, chooseOp, hne]
  rw [if_neg (by simp [hf.2])]
  simp only [hf.1, hctl]
  by_cases hw0 : wantedOf (tryObj s o d) = 0
  · simp [hw0, notifyFd_eq, notified, setObj, flushed, tryMid, tryOkSt, tryBands, lrem_lrem, upd_upd]
  · simp [hw0, flushed, tryMid, tryOkSt, tryBands, upd_upd]

/-- the errno of a failing probe -/
def tryErr (s : State) (d : Nat) : Nat := if s.closed d then EBADF else EEXIST

theorem registerTry_fail (s : State) (o d : Nat) (hfail : s.closed d = true ∨ (s.kernel d).isSome = true) :
    registerTry s o d = (tryFailSt s o d,
      [⟨.add, d, bitsToPollMask (tryBands (wantedOf (tryObj s o d))), o, tryErr s d⟩], tryErr s d) := by
  unfold registerTry
  simp only [tryOrig_eq, tryMid_eq, notifySync]
  have hne := tryBands_ne_zero (wantedOf (tryObj s o d))
  have hk : kernelCtl s.kernel s.closed .add d (bitsToPollMask (tryBands (wantedOf (tryObj s o d)))) o =
      (s.kernel, tryErr s d) := by
    unfold kernelCtl tryErr
    by_cases hc : s.closed d = true
    · simp [hc]
    · have := hfail.resolve_left hc
      cases hkd : s.kernel d with
      | none => simp [hkd] at this
      | some v => simp [hc]
  have herr : tryErr s d ≠ 0 := by unfold tryErr; split <;> simp
  have hraw : flushOneRaw (tryMid s o d) o = (delInitNotify (tryMid s o d) o,
      some ⟨.add, d, bitsToPollMask (tryBands (wantedOf (tryObj s o d))), o, tryErr s d⟩) := by
    unfold flushOneRaw
    have hch : chooseOp 0 (tryBands (wantedOf (tryObj s o d))) = .add := by simp [chooseOp, hne]
    simp only [delInitNotify, upd_same, tryMid, tryObj_registered, tryObj_fd, hch, hk]
    rw [if_neg (by omega)]
    simp [herr]
  rw [hraw]
  simp only [ctlErr]
  rw [if_pos herr]
  simp [unregisterFd, clearReg, delInitNotify, tryMid, tryFailSt, upd_upd]

theorem kernel_free {s : State} (hI : Inv s) {d : Nat} (hf : fdFree s d = true) : s.kernel d = none := by
  rw [fdFree_iff hI.live_iff] at hf
  cases hkd : s.kernel d with
  | none => rfl
  | some mp => obtain ⟨m, p⟩ := mp; have := hI.owner d m p hkd; exact absurd this.2 (hf p this.1)

theorem inv_tryOkSt {s : State} (hI : Inv s) {o d : Nat} (hr : (s.objs o).reg = false)
    (hc : s.closed d = false) (hf : fdFree s d = true) : Inv (tryOkSt s o d) := by
  have hk := kernel_free hI hf
  obtain ⟨h1, h2, h3, h4, h5, h6, h7, h8, h9, h10⟩ := hI
  rw [fdFree_iff h8] at hf
  have hne := tryBands_ne_zero (wantedOf (tryObj s o d))
  unfold tryOkSt
  constructor
  · exact nodup_notified_list o _ h1
  · intro x; simp only [upd_apply, mem_notified_list]; grind
  · intro x; simp only [upd_apply, tryObj_reg]; grind
  · intro x; simp only [upd_apply, tryObj_reg]; grind
  · intro x; by_cases hx : x = o
    · subst hx; simp
    · simp only [upd_other _ _ hx]
      intro hxr
      rw [upd_other _ _ (hf x hxr)]; exact h5 x hxr
  · intro d' m p h
    change upd s.kernel d _ d' = some (m, p) at h
    change ((upd s.objs o _ p).reg = true ∧ (upd s.objs o _ p).fd = d')
    by_cases hd : d' = d
    · subst hd; rw [upd_same] at h; obtain ⟨hp, _, _⟩ := entry_some h; subst hp; simp
    · rw [upd_other _ _ hd] at h
      have h' := h6 d' m p h
      have hp : p ≠ o := fun hh => by rw [hh, hr] at h'; exact absurd h'.1 (by simp)
      rw [upd_other _ _ hp]; exact h'
  · intro x y; simp only [upd_apply, tryObj_reg, tryObj_fd]; grind
  · intro x; simp only [upd_apply, List.mem_cons, tryObj_reg]; grind
  · intro x; simp only [upd_apply, tryObj_reg, tryObj_fd]; grind
  · exact h10

theorem inv_tryFailSt {s : State} (hI : Inv s) {o d : Nat} (hr : (s.objs o).reg = false) :
    Inv (tryFailSt s o d) := by
  obtain ⟨h1, h2, h3, h4, h5, h6, h7, h8, h9, h10⟩ := hI
  unfold tryFailSt
  constructor
  · exact nodup_lrem o h1
  · intro x; simp only [upd_apply, mem_lrem, tryObj_queued]; grind
  · intro x; simp only [upd_apply, tryObj_queued]; grind
  · intro x; simp only [upd_apply]; grind
  · intro x; simp only [upd_apply]; grind
  · intro d' m p; simp only [upd_apply]; grind
  · intro x y; simp only [upd_apply]; grind
  · intro x; simp only [upd_apply, mem_lrem, List.mem_cons]; grind
  · intro x; simp only [upd_apply]; grind
  · exact h10

/-! ## `iv_fd_epoll_flush_pending` -/

/-- what one successful round of the loop does, from the invariant -/
theorem flushOne_inv {s : State} (hI : Inv s) {o : Nat} (ho : o ∈ s.notify) :
    (flushOne s o).1 = flushed s o ∧ Inv (flushed s o) ∧ ctlErr (flushOne s o).2 = 0 ∧
      (flushOne s o).2 = (flushOneRaw s o).2 := by
  have hr : (s.objs o).reg = true := hI.queued_reg o ((hI.queued_iff o).2 ho)
  have h := flushOne_ok s o (hI.isopen o hr) (hI.belief o hr)
  exact ⟨h.1, inv_flushed hI hr, h.2.2, h.2.1⟩

/-- the facts about one run of the loop that the properties need -/
structure FlushSpec (s s' : State) (cs : List Ctl) : Prop where
  inv : Inv s'
  empty : s'.notify = []
  ok : ∀ c ∈ cs, c.err = 0
  from_queue : ∀ c ∈ cs, c.data ∈ s.notify ∧ (s.objs c.data).registered ≠ (s.objs c.data).wanted ∧
    c.fd = (s.objs c.data).fd ∧ c.mask = bitsToPollMask (s.objs c.data).wanted ∧
    c.op = chooseOp (s.objs c.data).registered (s.objs c.data).wanted
  once : (cs.map (·.data)).Nodup
  same : ∀ x, (s'.objs x).reg = (s.objs x).reg ∧ (s'.objs x).fd = (s.objs x).fd ∧
    (s'.objs x).wanted = (s.objs x).wanted ∧ (s'.objs x).hin = (s.objs x).hin ∧
    (s'.objs x).hout = (s.objs x).hout ∧ (s'.objs x).herr = (s.objs x).herr
  frame : ∀ x, x ∉ s.notify → s'.objs x = s.objs x
  env : s'.closed = s.closed ∧ s'.live = s.live

theorem flushLoop_spec : ∀ (n : Nat) (s : State), Inv s → s.notify.length ≤ n →
    FlushSpec s (flushLoop n s).1 (flushLoop n s).2
  | 0, s, hI, hn => by
    have : s.notify = [] := List.length_eq_zero_iff.1 (by omega)
    simp only [flushLoop]
    exact ⟨hI, this, by simp, by simp, by simp, by simp, by simp, by simp⟩
  | n + 1, s, hI, hn => by
    cases hq : s.notify with
    | nil =>
      simp only [flushLoop, hq]
      exact ⟨hI, hq, by simp, by simp, by simp, by simp, by simp, by simp⟩
    | cons o rest =>
      have ho : o ∈ s.notify := by simp [hq]
      obtain ⟨e1, hI', herr, e2⟩ := flushOne_inv hI ho
      have hnd : (o :: rest).Nodup := hq ▸ hI.nodup
      have hnot : o ∉ rest := (List.nodup_cons.1 hnd).1
      have hrest : (flushed s o).notify = rest := by
        simp only [flushed, hq]
        unfold lrem
        simp only [List.filter_cons, bne_self_eq_false, Bool.false_eq_true, if_false]
        rw [List.filter_eq_self]
        intro a ha; simp; intro h; exact hnot (h ▸ ha)
      have hlen : (flushed s o).notify.length ≤ n := by rw [hrest]; simp [hq] at hn; omega
      have ih := flushLoop_spec n (flushed s o) hI' hlen
      have hnf : (flushed s o).fatal = false := hI'.notfatal
      simp only [flushLoop, hq, e1, hnf, Bool.false_eq_true, if_false]
      rw [e2]
      have hfo : ∀ x, x ≠ o → (flushed s o).objs x = s.objs x := by
        intro x hx; simp [flushed, upd_other _ _ hx]
      constructor
      · exact ih.inv
      · exact ih.empty
      · intro c hc
        rcases List.mem_append.1 hc with h | h
        · rcases flushOneRaw_ctl s o with ⟨h0, _⟩ | ⟨e, h0, _⟩
          · simp [h0] at h
          · rw [e2, h0] at herr; simp [ctlErr] at herr
            simp [h0] at h; subst h; exact herr
        · exact ih.ok c h
      · intro c hc
        rcases List.mem_append.1 hc with h | h
        · rcases flushOneRaw_ctl s o with ⟨h0, _⟩ | ⟨e, h0, hne⟩
          · simp [h0] at h
          · simp [h0] at h; subst h; simp [hq]; exact hne
        · obtain ⟨a1, a2, a3, a4, a5⟩ := ih.from_queue c h
          rw [hrest] at a1
          have hco : c.data ≠ o := fun hh => hnot (hh ▸ a1)
          rw [hfo _ hco] at a2 a3 a4 a5
          exact ⟨by rw [hq]; exact List.mem_cons_of_mem _ a1, a2, a3, a4, a5⟩
      · rw [List.map_append, List.nodup_append]
        refine ⟨?_, ih.once, ?_⟩
        · rcases flushOneRaw_ctl s o with ⟨h0, _⟩ | ⟨e, h0, _⟩ <;> simp [h0]
        · intro a ha b hb
          rcases flushOneRaw_ctl s o with ⟨h0, _⟩ | ⟨e, h0, _⟩
          · simp [h0] at ha
          · simp [h0] at ha
            obtain ⟨c, hc, rfl⟩ := List.mem_map.1 hb
            have := (ih.from_queue c hc).1
            rw [hrest] at this
            intro hab; subst ha; exact hnot (hab ▸ this)
      · intro x
        have := ih.same x
        by_cases hx : x = o
        · subst hx; simpa [flushed] using this
        · rw [hfo x hx] at this; exact this
      · intro x hx
        have hxo : x ≠ o := fun h => hx (h ▸ ho)
        have hxr : x ∉ (flushed s o).notify := by
          rw [hrest]; intro h; exact hx (by rw [hq]; exact List.mem_cons_of_mem _ h)
        rw [ih.frame x hxr, hfo x hxo]
      · exact ⟨ih.env.1, ih.env.2⟩

theorem flushPending_spec {s : State} (hI : Inv s) :
    FlushSpec s (flushPending s).1 (flushPending s).2 :=
  flushLoop_spec _ s hI (Nat.le_refl _)

/-! ## one operation -/

theorem inv_closefd {s : State} (hI : Inv s) {d : Nat} (hf : fdFree s d = true) :
    Inv { s with closed := upd s.closed d true, kernel := upd s.kernel d none } := by
  have hk := kernel_free hI hf
  obtain ⟨h1, h2, h3, h4, h5, h6, h7, h8, h9, h10⟩ := hI
  rw [fdFree_iff h8] at hf
  refine ⟨h1, h2, h3, h4, ?_, ?_, h7, h8, ?_, h10⟩
  · intro x hx; simp only [upd_apply]; grind
  · intro d' m p; simp only [upd_apply]; grind
  · intro x hx; simp only [upd_apply]; grind

theorem inv_openfd {s : State} (hI : Inv s) (d : Nat) :
    Inv { s with closed := upd s.closed d false } := by
  obtain ⟨h1, h2, h3, h4, h5, h6, h7, h8, h9, h10⟩ := hI
  refine ⟨h1, h2, h3, h4, h5, h6, h7, h8, ?_, h10⟩
  intro x hx; simp only [upd_apply]; grind

/-- the three outcomes of `iv_fd_register_try` under the hypothesis `pre` -/
theorem registerTry_cases {s : State} (hI : Inv s) {o d : Nat}
    (hp : pre s (.regtry o d) = true) :
    (s.closed d = false ∧ fdFree s d = true ∧
      registerTry s o d = (tryOkSt s o d,
        [⟨.add, d, bitsToPollMask (tryBands (wantedOf (tryObj s o d))), o, 0⟩], 0)) ∨
    ((s.closed d = true ∨ fdFree s d = false) ∧
      registerTry s o d = (tryFailSt s o d,
        [⟨.add, d, bitsToPollMask (tryBands (wantedOf (tryObj s o d))), o, tryErr s d⟩], tryErr s d)) := by
  simp only [pre, Bool.and_eq_true, Bool.not_eq_true', Bool.or_eq_true] at hp
  by_cases hc : s.closed d = true
  · right; exact ⟨Or.inl hc, registerTry_fail s o d (Or.inl hc)⟩
  · have hc' : s.closed d = false := by simpa using hc
    by_cases hf : fdFree s d = true
    · left; exact ⟨hc', hf, registerTry_ok s o d hc' (kernel_free hI hf)⟩
    · have hk : (s.kernel d).isSome = true := hp.2.resolve_left hf
      right; exact ⟨Or.inr (by simpa using hf), registerTry_fail s o d (Or.inr hk)⟩

theorem step_inv {s : State} (hI : Inv s) (op : Op) (hp : pre s op = true) : Inv (step s op).1 := by
  cases op with
  | reg o d =>
    simp only [pre, Bool.and_eq_true, Bool.not_eq_true'] at hp
    exact inv_register hI hp.1.1 hp.1.2 hp.2
  | regtry o d =>
    have hr : (s.objs o).reg = false := by
      simp only [pre, Bool.and_eq_true, Bool.not_eq_true'] at hp; exact hp.1
    rcases registerTry_cases hI hp with ⟨hc, hf, e⟩ | ⟨_, e⟩
    · simp only [step, e]; exact inv_tryOkSt hI hr hc hf
    · simp only [step, e]; exact inv_tryFailSt hI hr
  | unreg o =>
    simp only [pre] at hp
    simp only [step, unregister_eq hI hp]; exact inv_unregisteredSt hI hp
  | set o band b => exact inv_setHandler hI o band b
  | flush kev => exact (flushPending_spec hI).inv
  | closefd d =>
    simp only [pre, Bool.and_eq_true, Bool.not_eq_true'] at hp
    exact inv_closefd hI hp.2
  | openfd d => exact inv_openfd hI d

theorem exec_inv {s : State} (hI : Inv s) (op : Op) : Inv (exec s op).1 := by
  unfold exec
  rw [if_neg (by simp [hI.notfatal])]
  split
  · next hp => exact step_inv hI op hp
  · exact hI

theorem run_inv {s : State} (hI : Inv s) (ops : List Op) : Inv (run s ops) := by
  induction ops generalizing s with
  | nil => exact hI
  | cons op ops ih => exact ih (exec_inv hI op)

/-- every epoll_ctl of one operation succeeds, except the single probing ADD of a `regtry` on a
closed or occupied descriptor number -/
theorem exec_ctls_ok {s : State} (hI : Inv s) (op : Op) (hs : strict s op = true) :
    ∀ c ∈ (exec s op).2.ctls, c.err = 0 := by
  unfold exec
  rw [if_neg (by simp [hI.notfatal])]
  split
  · next hp =>
    cases op with
    | reg o d => simp [step]
    | regtry o d =>
      simp only [strict, Bool.and_eq_true, Bool.not_eq_true'] at hs
      rcases registerTry_cases hI hp with ⟨_, _, e⟩ | ⟨hbad, _⟩
      · simp [step, e]
      · rcases hbad with h | h <;> simp_all
    | unreg o =>
      simp only [pre] at hp
      simp only [step, unregister_eq hI hp]
      split <;> simp
    | set o band b => simp [step]
    | flush kev => exact (flushPending_spec hI).ok
    | closefd d => simp [step]
    | openfd d => simp [step]
  · simp

theorem runCtls_ok {s : State} (hI : Inv s) (ops : List Op) :
    (∀ c ∈ runCtls s ops, c.err = 0) ∨ ∃ pre' o d post, ops = pre' ++ .regtry o d :: post ∧
      strict (run s pre') (.regtry o d) = false := by
  induction ops generalizing s with
  | nil => left; simp [runCtls]
  | cons op ops ih =>
    by_cases hs : strict s op = true
    · rcases ih (exec_inv hI op) with h | ⟨p, o, d, q, e, hst⟩
      · left
        intro c hc
        simp only [runCtls, List.mem_append] at hc
        rcases hc with hc | hc
        · exact exec_ctls_ok hI op hs c hc
        · exact h c hc
      · right; exact ⟨op :: p, o, d, q, by simp [e], by simpa [run] using hst⟩
    · right
      cases op with
      | regtry o d => exact ⟨[], o, d, ops, rfl, by simpa [run] using hs⟩
      | _ => simp [strict] at hs

/-! ## consequences of the invariant with an empty notify list -/

theorem synced_of_empty {s : State} (hI : Inv s) (he : s.notify = []) {o : Nat}
    (hr : (s.objs o).reg = true) : (s.objs o).registered = (s.objs o).wanted := by
  apply Classical.byContradiction
  intro hne
  have := (hI.queued_iff o).1 (hI.pending o hr hne)
  rw [he] at this; simp at this

theorem kernel_iff_of_empty {s : State} (hI : Inv s) (he : s.notify = []) (d m p : Nat) :
    s.kernel d = some (m, p) ↔
      ((s.objs p).reg = true ∧ (s.objs p).fd = d ∧ (s.objs p).wanted ≠ 0 ∧
        m = bitsToPollMask (s.objs p).wanted) := by
  constructor
  · intro h
    obtain ⟨hr, hfd⟩ := hI.owner d m p h
    have hb := hI.belief p hr
    rw [hfd, h, synced_of_empty hI he hr] at hb
    obtain ⟨_, h2, h3⟩ := entry_some hb.symm
    exact ⟨hr, hfd, h2, h3⟩
  · rintro ⟨hr, hfd, hw, hm⟩
    have hb := hI.belief p hr
    rw [hfd, synced_of_empty hI he hr] at hb
    rw [hb, hm]; simp [entry, hw]

/-- the abstract poll set as a finite map: descriptor number ↦ wanted bands of the registered
object on that descriptor that has any handler (the same map the poll back end keeps in its
`pfds` array: one slot per such object, `events` = the bits of the bands) -/
def pollSet (s : State) (d : Nat) : Option Nat :=
  (s.live.find? fun o => (s.objs o).fd == d && (s.objs o).wanted != 0).map fun o => (s.objs o).wanted

theorem kernel_eq_pollSet_of_empty {s : State} (hI : Inv s) (he : s.notify = []) (d : Nat) :
    (s.kernel d).map Prod.fst = (pollSet s d).map bitsToPollMask := by
  unfold pollSet
  cases hf : s.live.find? fun o => (s.objs o).fd == d && (s.objs o).wanted != 0 with
  | some o =>
    have hmem := List.mem_of_find?_eq_some hf
    have hp := List.find?_some hf
    simp only [Bool.and_eq_true, beq_iff_eq, bne_iff_ne] at hp
    have hr := (hI.live_iff o).1 hmem
    have := (kernel_iff_of_empty hI he d (bitsToPollMask (s.objs o).wanted) o).2 ⟨hr, hp.1, hp.2, rfl⟩
    simp [this]
  | none =>
    rw [List.find?_eq_none] at hf
    cases hk : s.kernel d with
    | none => simp
    | some mp =>
      obtain ⟨m, p⟩ := mp
      obtain ⟨hr, hfd, hw, _⟩ := (kernel_iff_of_empty hI he d m p).1 hk
      have := hf p ((hI.live_iff p).2 hr)
      simp [hfd, hw] at this

/-! ## descriptor closed while registered (outside the hypothesis) -/

theorem flushOneRaw_closed (s : State) (o : Nat) (hc : s.closed (s.objs o).fd = true)
    (hne : (s.objs o).registered ≠ (s.objs o).wanted) :
    (flushOneRaw s o).1 = delInitNotify s o ∧
    (flushOneRaw s o).2 = some ⟨chooseOp (s.objs o).registered (s.objs o).wanted, (s.objs o).fd,
      bitsToPollMask (s.objs o).wanted, o, EBADF⟩ := by
  unfold flushOneRaw
  simp only [delInitNotify, upd_same, kernelCtl, hc, if_true]
  rw [if_neg hne]
  simp

/-! ## dispatch -/

theorem makeReady_absent (a : List (Nat × Nat)) (o b : Nat) (h : ∀ p ∈ a, p.1 ≠ o) :
    makeReady a o b = a ++ [(o, b)] := by
  unfold makeReady
  rw [if_neg]
  simp only [List.any_eq_true, beq_iff_eq, not_exists, not_and]
  intro p hp; exact h p hp

theorem makeReady_last (a : List (Nat × Nat)) (o b b' : Nat) (h : ∀ p ∈ a, p.1 ≠ o) :
    makeReady (a ++ [(o, b)]) o b' = a ++ [(o, b ||| b')] := by
  unfold makeReady
  rw [if_pos (by simp)]
  rw [List.map_append]
  congr 1
  · rw [List.map_congr_left (g := id)]
    · simp
    · intro p hp; simp [h p hp]
  · simp

theorem dispatchOne_gen (a : List (Nat × Nat)) (o : Nat) (c1 c2 c3 : Prop) [Decidable c1] [Decidable c2]
    [Decidable c3] (h : ∀ p ∈ a, p.1 ≠ o) :
    (if c3 then makeReady (if c2 then makeReady (if c1 then makeReady a o MASKIN else a) o MASKOUT
        else (if c1 then makeReady a o MASKIN else a)) o MASKERR
      else (if c2 then makeReady (if c1 then makeReady a o MASKIN else a) o MASKOUT
        else (if c1 then makeReady a o MASKIN else a))) =
    if ((if c1 then MASKIN else 0) ||| (if c2 then MASKOUT else 0) ||| (if c3 then MASKERR else 0)) = 0 then a
    else a ++ [(o, (if c1 then MASKIN else 0) ||| (if c2 then MASKOUT else 0) ||| (if c3 then MASKERR else 0))] := by
  by_cases h1 : c1 <;> by_cases h2 : c2 <;> by_cases h3 : c3 <;>
    simp [h1, h2, h3, makeReady_absent _ _ _ h, makeReady_last _ _ _ _ h]

/-- one event for an object that is not yet on the active list appends it with exactly the bands
of the C conditions (nothing when none of the four bits is set) -/
theorem dispatchOne_eq (a : List (Nat × Nat)) (o ev : Nat) (h : ∀ p ∈ a, p.1 ≠ o) :
    dispatchOne a o ev = if readyBands ev = 0 then a else a ++ [(o, readyBands ev)] := by
  unfold dispatchOne readyBands
  exact dispatchOne_gen a o _ _ _ h

theorem dispatch_fold_eq (evs : List (Nat × Nat)) (a : List (Nat × Nat))
    (hd : (evs.map (·.1)).Nodup) (ha : ∀ p ∈ a, ∀ e ∈ evs, p.1 ≠ e.1) :
    evs.foldl (fun a e => dispatchOne a e.1 e.2) a =
      a ++ (evs.filter (fun e => readyBands e.2 != 0)).map (fun e => (e.1, readyBands e.2)) := by
  induction evs generalizing a with
  | nil => simp
  | cons e evs ih =>
    simp only [List.map_cons, List.nodup_cons] at hd
    have hae : ∀ p ∈ a, p.1 ≠ e.1 := fun p hp => ha p hp e (by simp)
    simp only [List.foldl_cons, dispatchOne_eq a e.1 e.2 hae]
    by_cases h0 : readyBands e.2 = 0
    · simp only [h0, if_true]
      rw [ih a hd.2 (fun p hp e' he' => ha p hp e' (by simp [he']))]
      simp [h0]
    · simp only [h0, if_false]
      rw [ih _ hd.2]
      · simp [h0]
      · intro p hp e' he'
        rcases List.mem_append.1 hp with hp | hp
        · exact ha p hp e' (by simp [he'])
        · simp at hp; subst hp
          intro hh
          exact hd.1 (List.mem_map.2 ⟨e', he', hh.symm⟩)

/-! ## `wanted_bands` is what the three handlers say -/

/-- for every registered object `wanted_bands` is the value `recompute_wanted_flags` computes from
the three handler pointers (between operations; `iv_fd_register_try` deviates only internally) -/
def WInv (s : State) : Prop := ∀ o, (s.objs o).reg = true → (s.objs o).wanted = wantedOf (s.objs o)

theorem wantedOf_congr {f g : Obj} (h1 : f.reg = g.reg) (h2 : f.hin = g.hin) (h3 : f.hout = g.hout)
    (h4 : f.herr = g.herr) : wantedOf f = wantedOf g := by
  unfold wantedOf; rw [h1, h2, h3, h4]

theorem step_winv {s : State} (hI : Inv s) (hW : WInv s) (op : Op) (hp : pre s op = true) :
    WInv (step s op).1 := by
  cases op with
  | reg o d =>
    simp only [step, register_eq, registeredSt]
    intro x; by_cases hx : x = o
    · subst hx; intro _; simp only [upd_same]; exact wantedOf_congr rfl rfl rfl rfl
    · simp only [upd_other _ _ hx]; exact hW x
  | regtry o d =>
    have hr : (s.objs o).reg = false := by
      simp only [pre, Bool.and_eq_true, Bool.not_eq_true'] at hp; exact hp.1
    rcases registerTry_cases hI hp with ⟨_, _, e⟩ | ⟨_, e⟩
    · simp only [step, e, tryOkSt]
      intro x; by_cases hx : x = o
      · subst hx; intro _; simp only [upd_same]; exact wantedOf_congr rfl rfl rfl rfl
      · simp only [upd_other _ _ hx]; exact hW x
    · simp only [step, e, tryFailSt]
      intro x; by_cases hx : x = o
      · subst hx; simp
      · simp only [upd_other _ _ hx]; exact hW x
  | unreg o =>
    simp only [pre] at hp
    simp only [step, unregister_eq hI hp, unregisteredSt]
    intro x; by_cases hx : x = o
    · subst hx; simp
    · simp only [upd_other _ _ hx]; exact hW x
  | set o band b =>
    simp only [step, setHandler_eq]
    split
    · intro x; by_cases hx : x = o
      · subst hx; intro _; simp only [handlerSet, upd_same]; exact wantedOf_congr rfl rfl rfl rfl
      · simp only [handlerSet, upd_other _ _ hx]; exact hW x
    · next hr =>
      intro x; by_cases hx : x = o
      · subst hx; simp only [upd_same, setH_reg]; intro h; exact absurd h hr
      · simp only [upd_other _ _ hx]; exact hW x
  | flush kev =>
    intro x hx
    obtain ⟨a1, _, a3, a4, a5, a6⟩ := (flushPending_spec hI).same x
    change ((flushPending s).1.objs x).reg = true at hx
    change ((flushPending s).1.objs x).wanted = wantedOf ((flushPending s).1.objs x)
    rw [a3, wantedOf_congr a1 a4 a5 a6]
    exact hW x (a1 ▸ hx)
  | closefd d => exact hW
  | openfd d => exact hW

theorem run_winv {s : State} (hI : Inv s) (hW : WInv s) (ops : List Op) : WInv (run s ops) := by
  induction ops generalizing s with
  | nil => exact hW
  | cons op ops ih =>
    apply ih (exec_inv hI op)
    unfold exec
    rw [if_neg (by simp [hI.notfatal])]
    split
    · next hp => exact step_winv hI hW op hp
    · exact hW

end Ivy.L0.FdEpoll
