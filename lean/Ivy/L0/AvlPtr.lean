/-
Pointer-level model of /repo/src/iv_avl.c and of `iv_avl_tree_min`/`iv_avl_tree_max`
in /repo/src/include/iv_avl.h.

Where `Ivy/L0/Avl.lean` models the tree as a functional value, this file models the
*heap*: every `struct iv_avl_node` is a record with `left`, `right`, `parent`
pointers (`Option Nat`, `none` = NULL) and the stored `height`; memory is a partial
map from addresses (`Nat`) to nodes; `struct iv_avl_tree` is the `root` pointer
(the comparator is the order on `key`, the key standing for the user structure
the node is embedded in).

Every C function is transcribed statement by statement in the `Option` monad:
`none` = the C code would dereference NULL (or a dangling address), or a loop ran
out of fuel.  Loops take an explicit fuel argument; `AvlPtrProofs.lean` proves that
`size + 1` always suffices.

A `struct iv_avl_node **` is a `Ref`: the address of `tree->root`, of `p->left`
or of `p->right`.
-/
namespace Ivy.AvlPtr

structure Node where
  key : Int
  left : Option Nat
  right : Option Nat
  parent : Option Nat
  height : Nat
deriving Repr, DecidableEq, Inhabited

abbrev Mem := Nat → Option Node

structure Heap where
  mem : Mem
  root : Option Nat

/-- a `struct iv_avl_node **` -/
inductive Ref where
  | root
  | left (p : Nat)
  | right (p : Nat)
deriving Repr, DecidableEq

/-- memory write -/
def upd (m : Mem) (i : Nat) (n : Node) : Mem := fun j => if j = i then some n else m j

def Heap.set (h : Heap) (i : Nat) (n : Node) : Heap := { h with mem := upd h.mem i n }

/-- `*ref` -/
def deref (h : Heap) : Ref → Option (Option Nat)
  | .root => some h.root
  | .left p => (h.mem p).map (·.left)
  | .right p => (h.mem p).map (·.right)

/-- `*ref = v` -/
def store (h : Heap) (r : Ref) (v : Option Nat) : Option Heap :=
  match r with
  | .root => some { h with root := v }
  | .left p => (h.mem p).map fun n => h.set p { n with left := v }
  | .right p => (h.mem p).map fun n => h.set p { n with right := v }

def setLeft (h : Heap) (i : Nat) (v : Option Nat) : Option Heap :=
  (h.mem i).map fun n => h.set i { n with left := v }
def setRight (h : Heap) (i : Nat) (v : Option Nat) : Option Heap :=
  (h.mem i).map fun n => h.set i { n with right := v }
def setParent (h : Heap) (i : Nat) (v : Option Nat) : Option Heap :=
  (h.mem i).map fun n => h.set i { n with parent := v }
def setHeight (h : Heap) (i : Nat) (v : Nat) : Option Heap :=
  (h.mem i).map fun n => h.set i { n with height := v }

/-- `if (c != NULL) c->parent = p;` -/
def setParentIf (h : Heap) (c : Option Nat) (p : Option Nat) : Option Heap :=
  match c with
  | none => some h
  | some c => setParent h c p

/-- `height()`: the stored field, 0 for NULL. -/
def height (h : Heap) : Option Nat → Option Nat
  | none => some 0
  | some i => (h.mem i).map (·.height)

/-- `recalc_height`. -/
def recalcHeight (h : Heap) (an : Nat) : Option Heap := do
  let n ← h.mem an
  let hl ← height h n.left
  let hr ← height h n.right
  setHeight h an (1 + (if hl > hr then hl else hr))

def rotateLeft (h : Heap) (ref : Ref) : Option Heap := do
  let b ← (← deref h ref)
  let d ← (← h.mem b).right
  let c := (← h.mem d).left
  let h ← setRight h b c
  let h ← setParentIf h c (some b)
  let h ← recalcHeight h b
  let h ← setLeft h d (some b)
  let h ← setParent h d (← h.mem b).parent
  let h ← setParent h b (some d)
  let h ← recalcHeight h d
  store h ref (some d)

def rotateRight (h : Heap) (ref : Ref) : Option Heap := do
  let d ← (← deref h ref)
  let b ← (← h.mem d).left
  let c := (← h.mem b).right
  let h ← setLeft h d c
  let h ← setParentIf h c (some d)
  let h ← recalcHeight h d
  let h ← setRight h b (some d)
  let h ← setParent h b (← h.mem d).parent
  let h ← setParent h d (some b)
  let h ← recalcHeight h b
  store h ref (some b)

def rotateLeftRight (h : Heap) (ref : Ref) : Option Heap := do
  let f ← (← deref h ref)
  let b ← (← h.mem f).left
  let d ← (← h.mem b).right
  let c := (← h.mem d).left
  let h ← setRight h b c
  let h ← setParentIf h c (some b)
  let h ← recalcHeight h b
  let e := (← h.mem d).right
  let h ← setLeft h f e
  let h ← setParentIf h e (some f)
  let h ← recalcHeight h f
  let h ← setLeft h d (some b)
  let h ← setRight h d (some f)
  let h ← setParent h d (← h.mem f).parent
  let h ← setParent h b (some d)
  let h ← setParent h f (some d)
  let h ← recalcHeight h d
  store h ref (some d)

def rotateRightLeft (h : Heap) (ref : Ref) : Option Heap := do
  let b ← (← deref h ref)
  let f ← (← h.mem b).right
  let d ← (← h.mem f).left
  let c := (← h.mem d).left
  let h ← setRight h b c
  let h ← setParentIf h c (some b)
  let h ← recalcHeight h b
  let e := (← h.mem d).right
  let h ← setLeft h f e
  let h ← setParentIf h e (some f)
  let h ← recalcHeight h f
  let h ← setLeft h d (some b)
  let h ← setRight h d (some f)
  let h ← setParent h d (← h.mem b).parent
  let h ← setParent h b (some d)
  let h ← setParent h f (some d)
  let h ← recalcHeight h d
  store h ref (some d)

/-- `balance()`: height(an->right) − height(an->left); `an` is dereferenced. -/
def balance (h : Heap) (an : Option Nat) : Option Int := do
  let n ← h.mem (← an)
  let hr ← height h n.right
  let hl ← height h n.left
  some ((hr : Int) - (hl : Int))

/-- `rebalance_node`. -/
def rebalanceNode (h : Heap) (ref : Ref) : Option Heap := do
  let root ← (← deref h ref)
  let bal ← balance h (some root)
  if bal == -2 then
    if (← balance h (← h.mem root).left) ≤ 0 then rotateRight h ref
    else rotateLeftRight h ref
  else if bal == 2 then
    if (← balance h (← h.mem root).right) < 0 then rotateRightLeft h ref
    else rotateLeft h ref
  else some h

/-- `find_reference`. -/
def findReference (h : Heap) (an : Nat) : Option Ref := do
  match (← h.mem an).parent with
  | some p =>
    if (← h.mem p).left = some an then some (.left p) else some (.right p)
  | none => some .root

/-- `replace_reference`. -/
def replaceReference (h : Heap) (an : Nat) (newChild : Option Nat) : Option Heap := do
  store h (← findReference h an) newChild

/-- `rebalance_path`; one unit of fuel per loop iteration. -/
def rebalancePath : Nat → Heap → Option Nat → Option Heap
  | _, h, none => some h
  | 0, _, some _ => none
  | fuel + 1, h, some an => do
    let oldHeight := (← h.mem an).height
    let h ← recalcHeight h an
    let ref ← findReference h an
    let h ← rebalanceNode h ref
    let an ← (← deref h ref)
    let n ← h.mem an
    if oldHeight = n.height then some h
    else rebalancePath fuel h n.parent

/-- result of the descent loop of `iv_avl_tree_insert` -/
inductive Descent where
  | dup
  | found (pp : Ref) (p : Option Nat)
deriving Repr, DecidableEq

/-- the `while (*pp != NULL)` loop of `iv_avl_tree_insert`. -/
def descend : Nat → Heap → Int → Ref → Option Nat → Option Descent
  | 0, _, _, _, _ => none
  | fuel + 1, h, x, pp, p => do
    match (← deref h pp) with
    | none => some (.found pp p)
    | some q =>
      let n ← h.mem q
      if x < n.key then descend fuel h x (.left q) (some q)
      else if n.key < x then descend fuel h x (.right q) (some q)
      else some .dup

/-- `iv_avl_tree_insert`: heap and return code. -/
def insert (fuel : Nat) (h : Heap) (an : Nat) : Option (Heap × Int) := do
  let n ← h.mem an
  match (← descend fuel h n.key .root none) with
  | .dup => some (h, -1)
  | .found pp p =>
    let h := h.set an { n with left := none, right := none, parent := p, height := 1 }
    let h ← store h pp (some an)
    let h ← rebalancePath fuel h p
    some (h, 0)

/-- `iv_avl_tree_delete_leaf`. -/
def deleteLeaf (h : Heap) (an : Nat) : Option (Heap × Option Nat) := do
  let h ← replaceReference h an none
  some (h, (← h.mem an).parent)

/-- `while (victim->right != NULL) victim = victim->right;` -/
def descendRight : Nat → Heap → Nat → Option Nat
  | 0, _, _ => none
  | fuel + 1, h, v => do
    match (← h.mem v).right with
    | none => some v
    | some r => descendRight fuel h r

/-- `while (victim->left != NULL) victim = victim->left;` -/
def descendLeft : Nat → Heap → Nat → Option Nat
  | 0, _, _ => none
  | fuel + 1, h, v => do
    match (← h.mem v).left with
    | none => some v
    | some l => descendLeft fuel h l

/-- `iv_avl_tree_delete_nonleaf`. -/
def deleteNonleaf (fuel : Nat) (h : Heap) (an : Nat) : Option (Heap × Option Nat) := do
  let n ← h.mem an
  let hl ← height h n.left
  let hr ← height h n.right
  let (h, victim) ←
    if hl > hr then do
      let victim ← descendRight fuel h (← n.left)
      let vl := (← h.mem victim).left
      let h ← replaceReference h victim vl
      let h ← setParentIf h vl (← h.mem victim).parent
      some (h, victim)
    else do
      let victim ← descendLeft fuel h (← n.right)
      let vr := (← h.mem victim).right
      let h ← replaceReference h victim vr
      let h ← setParentIf h vr (← h.mem victim).parent
      some (h, victim)
  let p := (← h.mem victim).parent
  let p := if p = some an then some victim else p
  let h ← replaceReference h an (some victim)
  let na ← h.mem an
  let nv ← h.mem victim
  let h := h.set victim { nv with left := na.left, right := na.right,
                                  parent := na.parent, height := na.height }
  let h ← setParentIf h na.left (some victim)
  let h ← setParentIf h na.right (some victim)
  some (h, p)

/-- `iv_avl_tree_delete`. -/
def delete (fuel : Nat) (h : Heap) (an : Nat) : Option Heap := do
  let n ← h.mem an
  let (h, p) ←
    if n.left = none ∧ n.right = none then deleteLeaf h an
    else deleteNonleaf fuel h an
  rebalancePath fuel h p

/-- second loop of `iv_avl_tree_next`: `while (p != NULL && an == p->right)`. -/
def climbRight : Nat → Heap → Nat → Option Nat → Option (Option Nat)
  | _, _, _, none => some none
  | 0, _, _, some _ => none
  | fuel + 1, h, an, some p => do
    if (← h.mem p).right = some an then climbRight fuel h p (← h.mem p).parent
    else some (some p)

def climbLeft : Nat → Heap → Nat → Option Nat → Option (Option Nat)
  | _, _, _, none => some none
  | 0, _, _, some _ => none
  | fuel + 1, h, an, some p => do
    if (← h.mem p).left = some an then climbLeft fuel h p (← h.mem p).parent
    else some (some p)

/-- `iv_avl_tree_next`; outer `none` = fault, inner `none` = NULL result. -/
def next (fuel : Nat) (h : Heap) (an : Nat) : Option (Option Nat) := do
  let n ← h.mem an
  match n.right with
  | some r => some (← descendLeft fuel h r)
  | none => climbRight fuel h an n.parent

/-- `iv_avl_tree_prev`. -/
def prev (fuel : Nat) (h : Heap) (an : Nat) : Option (Option Nat) := do
  let n ← h.mem an
  match n.left with
  | some l => some (← descendRight fuel h l)
  | none => climbLeft fuel h an n.parent

/-- `iv_avl_tree_min`. -/
def min (fuel : Nat) (h : Heap) : Option (Option Nat) :=
  match h.root with
  | some r => (descendLeft fuel h r).map some
  | none => some none

/-- `iv_avl_tree_max`. -/
def max (fuel : Nat) (h : Heap) : Option (Option Nat) :=
  match h.root with
  | some r => (descendRight fuel h r).map some
  | none => some none

/-- `for (an = first; an != NULL; an = iv_avl_tree_next(an))`: the nodes visited.
`n` bounds the number of iterations, `fuel` the inner loops. -/
def iterNext (fuel : Nat) (h : Heap) : Nat → Option Nat → Option (List Nat)
  | _, none => some []
  | 0, some _ => none
  | n + 1, some an => do
    let nx ← next fuel h an
    let rest ← iterNext fuel h n nx
    some (an :: rest)

def iterPrev (fuel : Nat) (h : Heap) : Nat → Option Nat → Option (List Nat)
  | _, none => some []
  | 0, some _ => none
  | n + 1, some an => do
    let pv ← prev fuel h an
    let rest ← iterPrev fuel h n pv
    some (an :: rest)

/-- `iv_avl_tree_for_each`: node addresses in visiting order. -/
def forEach (fuel : Nat) (h : Heap) : Option (List Nat) := do
  iterNext fuel h fuel (← min fuel h)

/-- backwards: from `iv_avl_tree_max` by `iv_avl_tree_prev`. -/
def forEachRev (fuel : Nat) (h : Heap) : Option (List Nat) := do
  iterPrev fuel h fuel (← max fuel h)

/-- keys stored at a list of addresses -/
def keysOf (h : Heap) (l : List Nat) : List (Option Int) := l.map fun i => (h.mem i).map (·.key)

def empty : Heap := { mem := fun _ => none, root := none }

/-- allocate (or overwrite) a node structure holding `key`, links uninitialised. -/
def alloc (h : Heap) (i : Nat) (key : Int) : Heap :=
  h.set i { key := key, left := none, right := none, parent := none, height := 0 }

end Ivy.AvlPtr
