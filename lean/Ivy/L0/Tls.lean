/-
Model of /repo/src/iv_tls.c: the registry of per-thread module state ("tls users").

Each module registers once, before the first `iv_init`, and is given a region
`[state_offset, state_offset + sizeof_state)` inside the per-thread block that `iv_init` allocates
with `calloc(1, iv_tls_total_state_size())`; the block starts with `struct iv_state` itself
(`base = sizeof(struct iv_state)` bytes).  `iv_tls_thread_init` / `iv_tls_thread_deinit` walk the
registry in registration order and call each module's hook with a pointer to its region.
Offsets are bytes relative to the start of the block.
-/
namespace Ivy.Tls

structure User where
  size      : Nat          -- sizeof_state
  hasInit   : Bool         -- init_thread != NULL
  hasDeinit : Bool         -- deinit_thread != NULL
deriving Repr, DecidableEq

/-- `(n + 15) & ~15` -/
def align16 (n : Nat) : Nat := (n + 15) / 16 * 16

structure St where
  inited : Bool
  last   : Nat                   -- last_offset
  users  : List (User × Nat)     -- registry in registration order, each with its state_offset
deriving Repr, DecidableEq

/-- static initialisers: `last_offset = (sizeof(struct iv_state) + 15) & ~15` -/
def St.init (base : Nat) : St := { inited := false, last := align16 base, users := [] }

/-- `iv_tls_user_register`; `none` = iv_fatal ("called after iv_init") -/
def register (s : St) (u : User) : Option St :=
  if s.inited then none
  else some { s with last := align16 (s.last + u.size), users := s.users ++ [(u, s.last)] }

/-- `iv_tls_total_state_size` -/
def total (s : St) : Nat := s.last

/-- `iv_tls_thread_init`: the offsets the init hooks are called with, in call order -/
def threadInit (s : St) : St × List Nat :=
  ({ s with inited := true }, (s.users.filter (·.1.hasInit)).map (·.2))

/-- `iv_tls_thread_deinit`: the offsets the deinit hooks are called with, in call order -/
def threadDeinit (s : St) : List Nat := (s.users.filter (·.1.hasDeinit)).map (·.2)

/-- `__iv_tls_user_ptr` for a thread that has loop state: `none` = iv_fatal (offset 0 = never registered) -/
def userPtr (off : Nat) : Option Nat := if off = 0 then none else some off

/-- a history of registrations from the static initial state -/
def registerAll (s : St) : List User → Option St
  | [] => some s
  | u :: us => match register s u with
    | some s' => registerAll s' us
    | none => none

end Ivy.Tls
