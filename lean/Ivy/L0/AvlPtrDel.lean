import Ivy.L0.AvlPtrWalk
import Ivy.L0.AvlPtrTrav
/-!
`iv_avl_tree_delete` at pointer level refines `Avl.delete`: leaf unlink, victim search,
victim splice (`replace_reference(victim, victim->left)` + parent fix-up), replacement of
the deleted node by the victim (child/parent pointers and stored height taken over, both
children re-parented) and the `rebalance_path` walk from the right starting node.
-/
set_option linter.unusedSimpArgs false
set_option linter.unusedVariables false
namespace Ivy.AvlPtr
open Ivy.Avl (Tree toList size)
open Ivy.Avl.Tree

/-! ### generic lemmas: changing the parent of the top of a subtree / context -/

theorem own_retop {m m' : Mem} {p par par' : Option Nat} {t : Tree} {ids : List Nat}
    (h : Own m p par t ids) (nd : ids.Nodup)
    (hf : ∀ j ∈ ids, p ≠ some j → m' j = m j)
    (hp : ∀ j n, p = some j → m j = some n → m' j = some { n with parent := par' }) :
    Own m' p par' t ids := by
  cases t with
  | nil => exact ⟨h.1, h.2⟩
  | node l k hh r =>
    obtain ⟨i, lp, rp, il, ir, rfl, hm, hl, hr, rfl⟩ := h
    have hi : i ∉ il ∧ i ∉ ir := by grind
    refine ⟨i, lp, rp, il, ir, rfl, ?_, own_frame hl ?_, own_frame hr ?_, rfl⟩
    · rw [hp i _ rfl hm]
    · intro j hj
      exact hf j (by simp [hj]) (by rintro e; cases e; exact hi.1 hj)
    · intro j hj
      exact hf j (by simp [hj]) (by rintro e; cases e; exact hi.2 hj)

theorem ownCtx_top_mem {m : Mem} {top tp : Option Nat} {c : List Frame} {hole hp : Option Nat}
    {pre post : List Nat} (h : OwnCtx m top tp c hole hp pre post) (hc : c ≠ []) :
    ∃ j, top = some j ∧ j ∈ pre ++ post := by
  induction c generalizing hole hp pre post with
  | nil => exact absurd rfl hc
  | cons f c ih =>
    cases f with
    | L k hh sib =>
      obtain ⟨i, rp, gp, sids, post', rfl, hm, hs, hc', rfl⟩ := h
      by_cases hn : c = []
      · subst hn
        obtain ⟨e, _, _, _⟩ := hc'
        exact ⟨i, e.symm, by simp⟩
      · obtain ⟨j, e, hj⟩ := ih hc' hn
        exact ⟨j, e, by grind⟩
    | R k hh sib =>
      obtain ⟨i, lp, gp, sids, pre', rfl, hm, hs, hc', rfl⟩ := h
      by_cases hn : c = []
      · subst hn
        obtain ⟨e, _, _, _⟩ := hc'
        exact ⟨i, e.symm, by simp⟩
      · obtain ⟨j, e, hj⟩ := ih hc' hn
        exact ⟨j, e, by grind⟩

theorem ownCtx_retop {m m' : Mem} {top tp tp' : Option Nat} {c : List Frame}
    {hole hp : Option Nat} {pre post : List Nat}
    (h : OwnCtx m top tp c hole hp pre post) (hc : c ≠ []) (nd : (pre ++ post).Nodup)
    (hf : ∀ j ∈ pre ++ post, top ≠ some j → m' j = m j)
    (hp' : ∀ j n, top = some j → m j = some n → m' j = some { n with parent := tp' }) :
    OwnCtx m' top tp' c hole hp pre post := by
  induction c generalizing hole hp pre post with
  | nil => exact absurd rfl hc
  | cons f c ih =>
    cases f with
    | L k hh sib =>
      obtain ⟨i, rp, gp, sids, post', rfl, hm, hs, hc', rfl⟩ := h
      by_cases hn : c = []
      · subst hn
        obtain ⟨e, rfl, rfl, rfl⟩ := hc'
        subst e
        refine ⟨i, rp, tp', sids, [], rfl, by rw [hp' i _ rfl hm], own_frame hs ?_,
          ⟨rfl, rfl, rfl, rfl⟩, rfl⟩
        intro j hj
        exact hf j (by simp [hj]) (by rintro e; cases e; grind)
      · obtain ⟨jt, rfl, hjt⟩ := ownCtx_top_mem hc' hn
        have hij : i ≠ jt := by grind
        refine ⟨i, rp, gp, sids, post', rfl, ?_, own_frame hs ?_, ih hc' hn ?_ ?_, rfl⟩
        · rw [hf i (by simp) (by rintro e; cases e; exact hij rfl)]; exact hm
        · intro j hj
          exact hf j (by simp [hj]) (by rintro e; cases e; grind)
        · grind
        · intro j hj hne
          exact hf j (by grind) hne
    | R k hh sib =>
      obtain ⟨i, lp, gp, sids, pre', rfl, hm, hs, hc', rfl⟩ := h
      by_cases hn : c = []
      · subst hn
        obtain ⟨e, rfl, rfl, rfl⟩ := hc'
        subst e
        refine ⟨i, lp, tp', sids, [], rfl, by rw [hp' i _ rfl hm], own_frame hs ?_,
          ⟨rfl, rfl, rfl, rfl⟩, rfl⟩
        intro j hj
        exact hf j (by simp [hj]) (by rintro e; cases e; grind)
      · obtain ⟨jt, rfl, hjt⟩ := ownCtx_top_mem hc' hn
        have hij : i ≠ jt := by grind
        refine ⟨i, lp, gp, sids, pre', rfl, ?_, own_frame hs ?_, ih hc' hn ?_ ?_, rfl⟩
        · rw [hf i (by simp) (by rintro e; cases e; exact hij rfl)]; exact hm
        · intro j hj
          exact hf j (by simp [hj]) (by rintro e; cases e; grind)
        · grind
        · intro j hj hne
          exact hf j (by grind) hne

/-- context + hole subtree, re-parented at the top; when the context is empty the hole's
root is the top, so its expected parent changes with it -/
theorem ctx_hole_retop {m m' : Mem} {top tp tp' : Option Nat} {c : List Frame}
    {hole hp : Option Nat} {pre post ids : List Nat} {t : Tree}
    (h : OwnCtx m top tp c hole hp pre post) (ht : Own m hole hp t ids)
    (nd : (pre ++ ids ++ post).Nodup)
    (hf : ∀ j ∈ pre ++ ids ++ post, top ≠ some j → m' j = m j)
    (hp' : ∀ j n, top = some j → m j = some n → m' j = some { n with parent := tp' }) :
    OwnCtx m' top tp' c hole (if c = [] then tp' else hp) pre post ∧
      Own m' hole (if c = [] then tp' else hp) t ids := by
  by_cases hc : c = []
  · subst hc
    obtain ⟨rfl, rfl, rfl, rfl⟩ := h
    simp only [if_true]
    refine ⟨⟨rfl, rfl, rfl, rfl⟩, own_retop ht (by simpa using nd) ?_ hp'⟩
    intro j hj; exact hf j (by simp [hj])
  · simp only [hc, if_false]
    obtain ⟨jt, rfl, hjt⟩ := ownCtx_top_mem h hc
    refine ⟨ownCtx_retop h hc (by grind) ?_ hp', own_frame ht ?_⟩
    · intro j hj; exact hf j (by grind)
    · intro j hj
      exact hf j (by simp [hj]) (by rintro e; cases e; grind)

/-- `*ref = v` for a non-empty context with an arbitrary top -/
theorem store_ctx_gen {m : Mem} {top tp : Option Nat} {c : List Frame} {hole hp : Option Nat}
    {pre post : List Nat} {ref : Ref}
    (hc : OwnCtx m top tp c hole hp pre post) (hne : c ≠ []) (hr : IsRef c hp ref)
    (nd : (pre ++ post).Nodup) (v : Option Nat) :
    ∃ m', (∀ root, store ⟨m, root⟩ ref v = some ⟨m', root⟩) ∧
      OwnCtx m' top tp c v hp pre post ∧ (∀ j, hp ≠ some j → m' j = m j) := by
  cases c with
  | nil => exact absurd rfl hne
  | cons f c =>
    cases f with
    | L k hh sib =>
      obtain ⟨g, rp, gp, sids, post', rfl, hg, hs, hc, rfl⟩ := hc
      obtain ⟨g', e, rfl⟩ := hr
      cases e
      have hn : g ∉ sids ∧ g ∉ pre ++ post' := by grind
      refine ⟨upd m g ⟨k, v, rp, gp, hh⟩, fun root => by simp [store, hg, Heap.set], ?_, ?_⟩
      · refine ⟨g, rp, gp, sids, post', rfl, by simp [upd], own_frame hs ?_, ownCtx_frame hc ?_, rfl⟩
        · intro j hj
          have : j ≠ g := fun e => hn.1 (e ▸ hj)
          simp [upd, this]
        · intro j hj
          have : j ≠ g := fun e => hn.2 (e ▸ hj)
          simp [upd, this]
      · intro j hj
        have : j ≠ g := fun e => hj (e ▸ rfl)
        simp [upd, this]
    | R k hh sib =>
      obtain ⟨g, lp, gp, sids, pre', rfl, hg, hs, hc, rfl⟩ := hc
      obtain ⟨g', e, rfl⟩ := hr
      cases e
      have hn : g ∉ sids ∧ g ∉ pre' ++ post := by grind
      refine ⟨upd m g ⟨k, lp, v, gp, hh⟩, fun root => by simp [store, hg, Heap.set], ?_, ?_⟩
      · refine ⟨g, lp, gp, sids, pre', rfl, by simp [upd], own_frame hs ?_, ownCtx_frame hc ?_, rfl⟩
        · intro j hj
          have : j ≠ g := fun e => hn.1 (e ▸ hj)
          simp [upd, this]
        · intro j hj
          have : j ≠ g := fun e => hn.2 (e ▸ hj)
          simp [upd, this]
      · intro j hj
        have : j ≠ g := fun e => hj (e ▸ rfl)
        simp [upd, this]

theorem allR_post {m : Mem} {top tp : Option Nat} {c : List Frame} {hole hp : Option Nat}
    {pre post : List Nat} (h : OwnCtx m top tp c hole hp pre post) (hc : AllR c) : post = [] := by
  induction c generalizing hole hp pre post with
  | nil => exact h.2.2.2
  | cons f c ih =>
    cases f with
    | L k hh sib => exact absurd hc (by simp [AllR])
    | R k hh sib =>
      obtain ⟨i, lp, gp, sids, pre', rfl, hm, hs, hc', rfl⟩ := h
      exact ih hc' hc

theorem allL_pre {m : Mem} {top tp : Option Nat} {c : List Frame} {hole hp : Option Nat}
    {pre post : List Nat} (h : OwnCtx m top tp c hole hp pre post) (hc : AllL c) : pre = [] := by
  induction c generalizing hole hp pre post with
  | nil => exact h.2.2.1
  | cons f c ih =>
    cases f with
    | R k hh sib => exact absurd hc (by simp [AllL])
    | L k hh sib =>
      obtain ⟨i, rp, gp, sids, post', rfl, hm, hs, hc', rfl⟩ := h
      exact ih hc' hc

theorem isRef_append {c1 c2 : List Frame} {hp : Option Nat} {ref : Ref} (hne : c1 ≠ []) :
    IsRef (c1 ++ c2) hp ref ↔ IsRef c1 hp ref := by
  cases c1 with
  | nil => exact absurd rfl hne
  | cons f c => cases f <;> exact Iff.rfl

theorem reparent_ne {m : Mem} {p par : Option Nat} {j : Nat} (h : p ≠ some j) :
    reparent m p par j = m j := by
  cases p with
  | none => rfl
  | some i =>
    have : j ≠ i := fun e => h (e ▸ rfl)
    simp only [reparent]
    cases m i <;> simp [upd, this]

theorem reparent_root {m : Mem} {par : Option Nat} {j : Nat} {n : Node} (h : m j = some n) :
    reparent m (some j) par j = some { n with parent := par } := by
  simp [reparent, h, upd]

/-! ### the pieces of `iv_avl_tree_delete_nonleaf` -/

/-- victim search and unlink, left branch (`height(an->left) > height(an->right)`) -/
def unlinkLeftMax (fuel : Nat) (h : Heap) (start : Nat) : Option (Heap × Nat) := do
  let victim ← descendRight fuel h start
  let vl := (← h.mem victim).left
  let h ← replaceReference h victim vl
  let h ← setParentIf h vl (← h.mem victim).parent
  some (h, victim)

/-- victim search and unlink, right branch -/
def unlinkRightMin (fuel : Nat) (h : Heap) (start : Nat) : Option (Heap × Nat) := do
  let victim ← descendLeft fuel h start
  let vr := (← h.mem victim).right
  let h ← replaceReference h victim vr
  let h ← setParentIf h vr (← h.mem victim).parent
  some (h, victim)

/-- the tail of `iv_avl_tree_delete_nonleaf`: the victim takes the place of `an` -/
def replaceNode (h : Heap) (an victim : Nat) (p : Option Nat) : Option (Heap × Option Nat) := do
  let h ← replaceReference h an (some victim)
  let na ← h.mem an
  let nv ← h.mem victim
  let h := h.set victim { nv with left := na.left, right := na.right,
                                  parent := na.parent, height := na.height }
  let h ← setParentIf h na.left (some victim)
  let h ← setParentIf h na.right (some victim)
  some (h, p)

/-- `deleteNonleaf` is literally these pieces in sequence -/
theorem deleteNonleaf_eq (fuel : Nat) (h : Heap) (an : Nat) :
    deleteNonleaf fuel h an = (do
      let n ← h.mem an
      let hl ← height h n.left
      let hr ← height h n.right
      let (h, victim) ←
        if hl > hr then (do unlinkLeftMax fuel h (← n.left))
        else (do unlinkRightMin fuel h (← n.right))
      let p := (← h.mem victim).parent
      let p := if p = some an then some victim else p
      replaceNode h an victim p) := by
  simp only [deleteNonleaf, unlinkLeftMax, unlinkRightMin, replaceNode, Option.bind_eq_bind,
    Option.bind_assoc, Option.bind_some]


/-- the victim `v` (a node not in the tree any more) takes over the place, children,
parent and stored height of node `a` -/
theorem replaceNode_spec {m : Mem} {root par lp rp p : Option Nat} {c : List Frame} {a v : Nat}
    {pre post il ir : List Nat} {k : Int} {hh : Nat} {L R : Tree} {nv : Node}
    (hc : OwnCtx m root none c (some a) par pre post)
    (hma : m a = some ⟨k, lp, rp, par, hh⟩) (hmv : m v = some nv)
    (hl : Own m lp (some a) L il) (hr : Own m rp (some a) R ir)
    (nd : (pre ++ (il ++ a :: ir) ++ post).Nodup)
    (hv : v ∉ pre ++ (il ++ a :: ir) ++ post) :
    ∃ m' root', replaceNode ⟨m, root⟩ a v p = some (⟨m', root'⟩, p) ∧
      OwnCtx m' root' none c (some v) par pre post ∧
      m' v = some ⟨nv.key, lp, rp, par, hh⟩ ∧
      (∀ j n, (lp = some j ∨ rp = some j) → m j = some n →
        m' j = some { n with parent := some v }) ∧
      (∀ j, j ∉ pre ++ post → j ≠ v → lp ≠ some j → rp ≠ some j → m' j = m j) := by
  have hoa : Own m (some a) par (node L k hh R) (il ++ a :: ir) :=
    ⟨a, lp, rp, il, ir, rfl, hma, hl, hr, rfl⟩
  obtain ⟨ref, e1, href⟩ := findReference_ctx hc hoa nd
  have ndc : (pre ++ post).Nodup := by grind
  obtain ⟨m3, root3, e2, hc3, fr3⟩ := store_ctx hc href ndc (some v)
  have ha_c : a ∉ pre ++ post := by grind
  have hv_c : v ∉ pre ++ post := by grind
  have hva : v ≠ a := by grind
  have hm3a : m3 a = m a := fr3 a (ownCtx_hp_not hc ha_c)
  have hm3v : m3 v = m v := fr3 v (ownCtx_hp_not hc hv_c)
  obtain ⟨m4, hm4⟩ : ∃ m4, m4 = upd m3 v ⟨nv.key, lp, rp, par, hh⟩ := ⟨_, rfl⟩
  have fr4 : ∀ j, j ∉ pre ++ post → j ≠ v → m4 j = m j := by
    intro j h1 h2
    rw [hm4, upd_ne _ _ h2, fr3 j (ownCtx_hp_not hc h1)]
  have hl4 : Own m4 lp (some a) L il :=
    own_frame hl (fun j hj => fr4 j (by grind) (by grind))
  have hr4 : Own m4 rp (some a) R ir :=
    own_frame hr (fun j hj => fr4 j (by grind) (by grind))
  have e5 := setParentIf_own (root := root3) (par' := some v) hl4
  have hr5 : Own (reparent m4 lp (some v)) rp (some a) R ir :=
    own_frame hr4 (fun j hj => reparent_other hl4 (by grind))
  have e6 := setParentIf_own (root := root3) (par' := some v) hr5
  refine ⟨reparent (reparent m4 lp (some v)) rp (some v), root3, ?_, ?_, ?_, ?_, ?_⟩
  · simp only [replaceNode, replaceReference, e1, e2, Option.bind_eq_bind, Option.bind_some,
      hm3a, hma, hm3v, hmv, Heap.set]
    rw [← hm4, e5]
    simp only [Option.bind_some, e6]
  · apply ownCtx_frame hc3
    intro j hj
    rw [reparent_other hr5 (by grind), reparent_other hl4 (by grind), hm4,
      upd_ne _ _ (by grind)]
  · rw [reparent_other hr5 (by grind), reparent_other hl4 (by grind), hm4]
    simp
  · intro j n hj hmj
    rcases hj with rfl | rfl
    · have hjl := own_root_mem hl
      rw [reparent_other hr5 (by grind)]
      rw [reparent_root (by rw [fr4 j (by grind) (by grind)]; exact hmj)]
    · have hjr := own_root_mem hr
      have h5 : reparent m4 lp (some v) j = some n := by
        rw [reparent_other hl4 (by grind), fr4 j (by grind) (by grind)]; exact hmj
      rw [reparent_root h5]
  · intro j h1 h2 h3 h4
    rw [reparent_ne h4, reparent_ne h3, fr4 j h1 h2]

/-- the `victim->right` loop reaches the maximum; its position as a context -/
theorem victimR_spec {m : Mem} {root : Option Nat} {j0 a : Nat} {l vl : Tree} {il : List Nat}
    {cR : List Frame} {mk : Int} {vh : Nat} {fuel : Nat}
    (hl : Own m (some j0) (some a) l il) (hp : plug cR (node vl mk vh nil) = l) (hr : AllR cR)
    (hf : size l ≤ fuel) :
    ∃ v vp vlp preR vlids, descendRight fuel ⟨m, root⟩ j0 = some v ∧
      OwnCtx m (some j0) (some a) cR (some v) vp preR [] ∧
      m v = some ⟨mk, vlp, none, vp, vh⟩ ∧ Own m vlp (some v) vl vlids ∧
      il = preR ++ vlids ++ [v] := by
  subst hp
  obtain ⟨hole, vp, preR, postR, vids, hc, hv, rfl⟩ := own_unplug hl
  obtain ⟨v, vlp, rp0, vlids, ir0, rfl, hmv, hvl, hr0, rfl⟩ := hv
  obtain ⟨rfl, rfl⟩ := hr0
  have := allR_post hc hr
  subst this
  obtain ⟨v', init, e, ed⟩ := descendRight_spec (root := root) _ fuel hl hf
  have : v' = v := by
    have h1 : (preR ++ (vlids ++ [v]) ++ []).getLast? = some v := by simp
    rw [e] at h1
    simpa using h1
  subst this
  exact ⟨v', vp, vlp, preR, vlids, ed, hc, hmv, hvl, by simp⟩

theorem victimL_spec {m : Mem} {root : Option Nat} {j0 a : Nat} {r vr : Tree} {ir : List Nat}
    {cL : List Frame} {mk : Int} {vh : Nat} {fuel : Nat}
    (hr : Own m (some j0) (some a) r ir) (hp : plug cL (node nil mk vh vr) = r) (hl : AllL cL)
    (hf : size r ≤ fuel) :
    ∃ v vp vrp postL vrids, descendLeft fuel ⟨m, root⟩ j0 = some v ∧
      OwnCtx m (some j0) (some a) cL (some v) vp [] postL ∧
      m v = some ⟨mk, none, vrp, vp, vh⟩ ∧ Own m vrp (some v) vr vrids ∧
      ir = v :: vrids ++ postL := by
  subst hp
  obtain ⟨hole, vp, preL, postL, vids, hc, hv, rfl⟩ := own_unplug hr
  obtain ⟨v, lp0, vrp, il0, vrids, rfl, hmv, hl0, hvr, rfl⟩ := hv
  obtain ⟨rfl, rfl⟩ := hl0
  have := allL_pre hc hl
  subst this
  obtain ⟨v', rest, e, ed⟩ := descendLeft_spec (root := root) _ fuel hr hf
  have : v' = v := by
    simp only [List.nil_append, List.cons_append, List.cons.injEq] at e
    exact e.1.symm
  subst this
  exact ⟨v', vp, vrp, postL, vrids, ed, hc, hmv, hvr, by simp⟩


/-- left branch: after the victim (maximum of the left subtree) has been unlinked, the heap
is again a well-formed tree around `a` whose left subtree is `plug cR vl`; the victim's
record is untouched. -/
theorem unlinkLeftMax_spec {m : Mem} {root par rp : Option Nat} {c cR : List Frame} {a j0 : Nat}
    {pre post il ir : List Nat} {k mk : Int} {hh vh : Nat} {l r vl : Tree} {fuel : Nat}
    (hc : OwnCtx m root none c (some a) par pre post)
    (hma : m a = some ⟨k, some j0, rp, par, hh⟩)
    (hl : Own m (some j0) (some a) l il) (hr : Own m rp (some a) r ir)
    (nd : (pre ++ (il ++ a :: ir) ++ post).Nodup)
    (hp : plug cR (node vl mk vh nil) = l) (hR : AllR cR) (hf : size l ≤ fuel) :
    ∃ v vp vlp mid rp' m2 preR vlids,
      unlinkLeftMax fuel ⟨m, root⟩ j0 = some (⟨m2, root⟩, v) ∧
      il = preR ++ vlids ++ [v] ∧
      m2 v = some ⟨mk, vlp, none, vp, vh⟩ ∧
      m2 a = some ⟨k, mid, rp', par, hh⟩ ∧
      OwnCtx m2 mid (some a) cR vlp vp preR [] ∧ Own m2 vlp vp vl vlids ∧
      Own m2 rp' (some a) r ir ∧
      OwnCtx m2 root none c (some a) par pre post ∧
      (cR = [] → vp = some a) ∧ (cR ≠ [] → vp ≠ some a) ∧
      (∀ j, j ∉ pre ++ (il ++ a :: ir) ++ post → m2 j = m j) := by
  obtain ⟨v, vp, vlp, preR, vlids, ed, hcR, hmv, hvl, rfl⟩ :=
    victimR_spec (root := root) hl hp hR hf
  have hfa : OwnCtx m (some a) par [.L k hh r] (some j0) (some a) [] (a :: ir ++ []) :=
    ⟨a, rp, par, ir, [], rfl, hma, hr, ⟨rfl, rfl, rfl, rfl⟩, rfl⟩
  have hcA := ownCtx_append hcR hfa
  have hcFull := ownCtx_append hcA hc
  have hov : Own m (some v) vp (node vl mk vh nil) (vlids ++ [v]) :=
    ⟨v, vlp, none, vlids, [], rfl, hmv, hvl, ⟨rfl, rfl⟩, rfl⟩
  obtain ⟨ref1, e1, href1⟩ := findReference_ctx hcFull hov (by simpa using nd)
  have hneA : cR ++ [Frame.L k hh r] ≠ [] := by simp
  have hrefA := (isRef_append hneA).1 href1
  obtain ⟨m1, e2, hcA1, fr1⟩ := store_ctx_gen hcA hneA hrefA (by grind) vlp
  obtain ⟨g, hg, hgm⟩ := ownCtx_hp_mem hcA hneA
  subst hg
  simp only [List.nil_append, List.append_nil, List.mem_append, List.mem_cons] at hgm
  have hgv : g ≠ v := by grind
  have hg_vl : g ∉ vlids := by grind
  have hg_c : g ∉ pre ++ post := by grind
  have hm1v : m1 v = m v := fr1 v (by rintro e; cases e; exact hgv rfl)
  have hvl1 : Own m1 vlp (some v) vl vlids :=
    own_frame hvl (fun j hj => fr1 j (by rintro e; cases e; exact hg_vl hj))
  have e3 := setParentIf_own (root := root) (par' := some g) hvl1
  obtain ⟨m2, hm2⟩ : ∃ m2, m2 = reparent m1 vlp (some g) := ⟨_, rfl⟩
  have hvl2 : Own m2 vlp (some g) vl vlids := by rw [hm2]; exact own_reparent hvl1 (by grind)
  have fr2 : ∀ j, j ∉ vlids → m2 j = m1 j := fun j hj => by rw [hm2]; exact reparent_other hvl1 hj
  have hcA2 : OwnCtx m2 (some a) par (cR ++ [Frame.L k hh r]) vlp (some g) ([] ++ preR)
      ([] ++ (a :: ir ++ [])) := ownCtx_frame hcA1 (fun j hj => fr2 j (by grind))
  obtain ⟨mid, mp, pre1, post1, pre2, post2, hcR2, hfa2, epre, epost⟩ := ownCtx_split hcA2
  obtain ⟨i, rp', gp, sids, post', rfl, hma2, hr2, ⟨ei, rfl, rfl, rfl⟩, rfl⟩ := hfa2
  cases ei
  have := allR_post hcR2 hR
  subst this
  simp only [List.nil_append, List.append_nil, List.cons.injEq, true_and] at epre epost
  subst epre
  subst epost
  refine ⟨v, some g, vlp, mid, rp', m2, preR, vlids, ?_, rfl, ?_, hma2, hcR2, hvl2, hr2, ?_, ?_, ?_, ?_⟩
  · simp only [unlinkLeftMax, ed, hmv, replaceReference, e1, e2, Option.bind_eq_bind,
      Option.bind_some, hm1v]
    rw [e3, ← hm2]
    rfl
  · rw [fr2 v (by grind), hm1v]; exact hmv
  · apply ownCtx_frame hc
    intro j hj
    rw [fr2 j (by grind), fr1 j (by rintro e; cases e; exact hg_c hj)]
  · rintro rfl
    exact hcR.2.1
  · intro hne
    obtain ⟨g', eg, hg'⟩ := ownCtx_hp_mem hcR hne
    cases eg
    rintro e; cases e
    grind
  · intro j hj
    rw [fr2 j (by grind), fr1 j (by rintro e; cases e; grind)]


/-- right branch: the victim is the minimum of the right subtree -/
theorem unlinkRightMin_spec {m : Mem} {root par lp : Option Nat} {c cL : List Frame} {a j0 : Nat}
    {pre post il ir : List Nat} {k mk : Int} {hh vh : Nat} {l r vr : Tree} {fuel : Nat}
    (hc : OwnCtx m root none c (some a) par pre post)
    (hma : m a = some ⟨k, lp, some j0, par, hh⟩)
    (hl : Own m lp (some a) l il) (hr : Own m (some j0) (some a) r ir)
    (nd : (pre ++ (il ++ a :: ir) ++ post).Nodup)
    (hp : plug cL (node nil mk vh vr) = r) (hL : AllL cL) (hf : size r ≤ fuel) :
    ∃ v vp vrp mid lp' m2 postL vrids,
      unlinkRightMin fuel ⟨m, root⟩ j0 = some (⟨m2, root⟩, v) ∧
      ir = v :: vrids ++ postL ∧
      m2 v = some ⟨mk, none, vrp, vp, vh⟩ ∧
      m2 a = some ⟨k, lp', mid, par, hh⟩ ∧
      OwnCtx m2 mid (some a) cL vrp vp [] postL ∧ Own m2 vrp vp vr vrids ∧
      Own m2 lp' (some a) l il ∧
      OwnCtx m2 root none c (some a) par pre post ∧
      (cL = [] → vp = some a) ∧ (cL ≠ [] → vp ≠ some a) ∧
      (∀ j, j ∉ pre ++ (il ++ a :: ir) ++ post → m2 j = m j) := by
  obtain ⟨v, vp, vrp, postL, vrids, ed, hcL, hmv, hvr, rfl⟩ :=
    victimL_spec (root := root) hr hp hL hf
  have hfa : OwnCtx m (some a) par [.R k hh l] (some j0) (some a) ([] ++ il ++ [a]) [] :=
    ⟨a, lp, par, il, [], rfl, hma, hl, ⟨rfl, rfl, rfl, rfl⟩, rfl⟩
  have hcA := ownCtx_append hcL hfa
  have hcFull := ownCtx_append hcA hc
  have hov : Own m (some v) vp (node nil mk vh vr) ([] ++ v :: vrids) :=
    ⟨v, none, vrp, [], vrids, rfl, hmv, ⟨rfl, rfl⟩, hvr, rfl⟩
  obtain ⟨ref1, e1, href1⟩ := findReference_ctx hcFull hov (by simpa using nd)
  have hneA : cL ++ [Frame.R k hh l] ≠ [] := by simp
  have hrefA := (isRef_append hneA).1 href1
  obtain ⟨m1, e2, hcA1, fr1⟩ := store_ctx_gen hcA hneA hrefA (by grind) vrp
  obtain ⟨g, hg, hgm⟩ := ownCtx_hp_mem hcA hneA
  subst hg
  simp only [List.nil_append, List.append_nil, List.mem_append, List.mem_cons,
    List.mem_singleton] at hgm
  have hgv : g ≠ v := by grind
  have hg_vr : g ∉ vrids := by grind
  have hg_c : g ∉ pre ++ post := by grind
  have hm1v : m1 v = m v := fr1 v (by rintro e; cases e; exact hgv rfl)
  have hvr1 : Own m1 vrp (some v) vr vrids :=
    own_frame hvr (fun j hj => fr1 j (by rintro e; cases e; exact hg_vr hj))
  have e3 := setParentIf_own (root := root) (par' := some g) hvr1
  obtain ⟨m2, hm2⟩ : ∃ m2, m2 = reparent m1 vrp (some g) := ⟨_, rfl⟩
  have hvr2 : Own m2 vrp (some g) vr vrids := by rw [hm2]; exact own_reparent hvr1 (by grind)
  have fr2 : ∀ j, j ∉ vrids → m2 j = m1 j := fun j hj => by rw [hm2]; exact reparent_other hvr1 hj
  have hcA2 : OwnCtx m2 (some a) par (cL ++ [Frame.R k hh l]) vrp (some g)
      (([] ++ il ++ [a]) ++ []) (postL ++ []) := ownCtx_frame hcA1 (fun j hj => fr2 j (by grind))
  obtain ⟨mid, mp, pre1, post1, pre2, post2, hcL2, hfa2, epre, epost⟩ := ownCtx_split hcA2
  obtain ⟨i, lp', gp, sids, pre', rfl, hma2, hl2, ⟨ei, rfl, rfl, rfl⟩, rfl⟩ := hfa2
  cases ei
  have := allL_pre hcL2 hL
  subst this
  simp only [List.nil_append, List.append_nil] at epre epost
  have epre' : il = sids := by
    have := List.append_inj_left' epre rfl
    exact this
  subst epre'
  subst epost
  refine ⟨v, some g, vrp, mid, lp', m2, postL, vrids, ?_, rfl, ?_, hma2, hcL2, hvr2, hl2, ?_, ?_, ?_, ?_⟩
  · simp only [unlinkRightMin, ed, hmv, replaceReference, e1, e2, Option.bind_eq_bind,
      Option.bind_some, hm1v]
    rw [e3, ← hm2]
    rfl
  · rw [fr2 v (by grind), hm1v]; exact hmv
  · apply ownCtx_frame hc
    intro j hj
    rw [fr2 j (by grind), fr1 j (by rintro e; cases e; exact hg_c hj)]
  · rintro rfl
    exact hcL.2.1
  · intro hne
    obtain ⟨g', eg, hg'⟩ := ownCtx_hp_mem hcL hne
    cases eg
    rintro e; cases e
    grind
  · intro j hj
    rw [fr2 j (by grind), fr1 j (by rintro e; cases e; grind)]


end Ivy.AvlPtr
