import Ivy.L0.Avl
/-! Invariant and abstract specification used by the C16 theorems. -/
namespace Ivy.Avl
open Tree

/-- Stored heights are exact and every node is height-balanced. -/
def Bal : Tree → Prop
  | nil => True
  | node l _ h r =>
    Bal l ∧ Bal r ∧ h = 1 + max (height l) (height r) ∧
    height l ≤ height r + 1 ∧ height r ≤ height l + 1

/-- In-order traversal is strictly increasing (comparator order, no duplicates). -/
def Ordered (t : Tree) : Prop := (toList t).Pairwise (· < ·)

structure Inv (t : Tree) : Prop where
  bal : Bal t
  ord : Ordered t

/-- Histories: the operations a user can perform. -/
inductive Op where
  | ins (k : Int)
  | del (k : Int)
deriving Repr, DecidableEq

/-- The abstract set a history denotes (as a membership predicate). -/
def specMem : List Op → Int → Prop
  | [], _ => False
  | Op.ins k :: ops, y => y = k ∨ specMem ops y      -- most recent op first
  | Op.del k :: ops, y => y ≠ k ∧ specMem ops y

/-- Valid use: only nodes that are in the tree are deleted (`ops` most recent first). -/
def ValidHist : List Op → Prop
  | [] => True
  | Op.ins _ :: ops => ValidHist ops
  | Op.del k :: ops => specMem ops k ∧ ValidHist ops

/-- Run a history (most recent op first) on the model, from the empty tree.
Returns the tree and the list of return codes of the inserts (most recent first). -/
def runHist : List Op → Option (Tree × List Int)
  | [] => some (nil, [])
  | Op.ins k :: ops =>
    match runHist ops with
    | none => none
    | some (t, rcs) =>
      match insert k t with
      | none => none
      | some (t', rc) => some (t', rc :: rcs)
  | Op.del k :: ops =>
    match runHist ops with
    | none => none
    | some (t, rcs) =>
      match delete k t with
      | none => none
      | some t' => some (t', rcs)

end Ivy.Avl
