import Ivy.L0.HeapSpec
/-! Proofs of the C05 statements about the timer heap model (`Ivy/L0/Heap.lean`). -/
namespace Ivy.Heap.Proofs
open Ivy.Heap

/-! ## `timespec_gt` is the strict part of a total preorder -/

theorem le_refl (a : TS) : a.le a := by
  simp [TS.le, TS.gt]

theorem le_trans {a b c : TS} (h1 : a.le b) (h2 : b.le c) : a.le c := by
  simp only [TS.le, TS.gt, Bool.or_eq_false_iff, Bool.and_eq_false_iff, decide_eq_false_iff_not] at *
  omega

theorem le_of_gt {a b : TS} (h : a.gt b = true) : b.le a := by
  simp only [TS.le, TS.gt, Bool.or_eq_false_iff, Bool.and_eq_false_iff, decide_eq_false_iff_not,
    Bool.or_eq_true, Bool.and_eq_true, decide_eq_true_eq] at *
  omega

theorem gt_of_gt_of_le {a b c : TS} (h1 : a.gt c = true) (h2 : a.le b) : b.gt c = true := by
  simp only [TS.le, TS.gt, Bool.or_eq_false_iff, Bool.and_eq_false_iff, decide_eq_false_iff_not,
    Bool.or_eq_true, Bool.and_eq_true, decide_eq_true_eq] at *
  omega

/-! ## capacity arithmetic -/

theorem bits_pos : 0 < bits := by
  unfold bits Ivy.Generated.IV_TIMER_SPLIT_BITS; omega

theorem cap_succ (d : Nat) : cap (d + 1) = cap d * 2 ^ bits := by
  unfold cap
  rw [← Nat.pow_add]
  congr 1
  rw [Nat.add_mul, Nat.one_mul]

theorem cap_pos (d : Nat) : 0 < cap d := Nat.pow_pos (by omega)

theorem two_le_pow_bits : 2 ≤ 2 ^ bits := by
  have := bits_pos
  calc 2 = 2 ^ 1 := rfl
    _ ≤ 2 ^ bits := Nat.pow_le_pow_right (by omega) this

theorem cap_double (d : Nat) : 2 * cap d ≤ cap (d + 1) := by
  rw [cap_succ, Nat.mul_comm]
  exact Nat.mul_le_mul_left _ two_le_pow_bits

theorem cap_even (d : Nat) : ∃ k, cap d = 2 * k := by
  refine ⟨2 ^ ((d + 1) * bits - 1), ?_⟩
  unfold cap
  have := bits_pos
  have h : (d + 1) * bits = ((d + 1) * bits - 1) + 1 := by
    have : 1 ≤ (d + 1) * bits := Nat.mul_pos (by omega) this
    omega
  rw [h, Nat.pow_succ, Nat.mul_comm]
  simp

theorem grow_test (d index : Nat) : (index >>> ((d + 1) * bits) != 0) = decide (cap d ≤ index) := by
  unfold cap
  rw [Nat.shiftRight_eq_div_pow]
  have hp : 0 < 2 ^ ((d + 1) * bits) := Nat.pow_pos (by omega)
  by_cases h : 2 ^ ((d + 1) * bits) ≤ index
  · have : index / 2 ^ ((d + 1) * bits) ≠ 0 := by
      intro h0
      rw [Nat.div_eq_zero_iff] at h0
      omega
    simp [h, this]
  · have : index / 2 ^ ((d + 1) * bits) = 0 := by
      rw [Nat.div_eq_zero_iff]; omega
    simp [h, this]

theorem shrink_test (d : Nat) (hd : 0 < d) : 1 <<< (d * bits) = cap (d - 1) := by
  unfold cap
  rw [Nat.one_shiftLeft]
  congr 2
  omega

/-! ## relaxed invariants -/

/-- timer `a` does not expire after timer `b` -/
def leT (s : Store) (a b : Tid) : Prop := (expOf s a).le (expOf s b)

/-- `HeapInv` without heap order; `g` is an optional "ghost" timer (the one being removed) whose
index field is stale and which sits in no slot. -/
structure Struct (g : Option Tid) (s : Store) : Prop where
  size_eq   : s.slot.size = cap s.depth
  num_lt    : s.num < s.slot.size
  shrunk    : s.depth > 0 → cap (s.depth - 1) ≤ s.num
  exp_idx   : s.exp.size = s.idx.size
  occupied  : ∀ i, 1 ≤ i → i ≤ s.num → ∃ t, s.slot[i]? = some (some t) ∧ s.idx[t]? = some (i : Int)
  tail_null : ∀ i, s.num < i → i < s.slot.size → s.slot[i]? = some none
  back      : ∀ (t : Nat) (i : Nat), some t ≠ g → 1 ≤ i → s.idx[t]? = some (i : Int) →
                i ≤ s.num ∧ s.slot[i]? = some (some t)
  notin     : ∀ (k : Nat) (t : Nat), 1 ≤ k → s.slot[k]? = some (some t) → some t ≠ g
  idx_ge    : ∀ (t : Nat) (v : Int), s.idx[t]? = some v → -1 ≤ v

def Order (s : Store) : Prop :=
  ∀ i a b, 2 ≤ i → i ≤ s.num → s.slot[i / 2]? = some (some a) → s.slot[i]? = some (some b) → leT s a b

/-- grandparent of `j` is ≤ children of `j` -/
def Grand (s : Store) (j : Nat) : Prop :=
  ∀ k a b, 2 ≤ j → k ≤ s.num → k / 2 = j → s.slot[j / 2]? = some (some a) → s.slot[k]? = some (some b) → leT s a b

/-- order may fail only between `j` and its parent -/
def OrderUp (s : Store) (j : Nat) : Prop :=
  (∀ i a b, 2 ≤ i → i ≤ s.num → i ≠ j → s.slot[i / 2]? = some (some a) → s.slot[i]? = some (some b) → leT s a b)
  ∧ Grand s j

/-- order may fail only between `j` and its children -/
def OrderDown (s : Store) (j : Nat) : Prop :=
  (∀ i a b, 2 ≤ i → i ≤ s.num → i / 2 ≠ j → s.slot[i / 2]? = some (some a) → s.slot[i]? = some (some b) → leT s a b)
  ∧ Grand s j

/-- order may fail between `j` and its parent and between `j` and its children -/
def OrderEx (s : Store) (j : Nat) : Prop :=
  (∀ i a b, 2 ≤ i → i ≤ s.num → i ≠ j → i / 2 ≠ j → s.slot[i / 2]? = some (some a) → s.slot[i]? = some (some b) → leT s a b)
  ∧ Grand s j

/-- what the heap operations leave alone -/
structure Frame (s s' : Store) : Prop where
  exp  : s'.exp = s.exp
  size : s'.idx.size = s.idx.size
  idx  : ∀ u, s'.idx[u]? = s.idx[u]? ∨ (onHeap s u ∧ onHeap s' u)

theorem Frame.refl (s : Store) : Frame s s := ⟨rfl, rfl, fun _ => Or.inl rfl⟩

theorem Frame.trans {a b c : Store} (h1 : Frame a b) (h2 : Frame b c) : Frame a c := by
  refine ⟨h2.exp.trans h1.exp, h2.size.trans h1.size, fun u => ?_⟩
  rcases h1.idx u with e1 | ⟨p1, q1⟩ <;> rcases h2.idx u with e2 | ⟨p2, q2⟩
  · exact Or.inl (e2.trans e1)
  · refine Or.inr ⟨?_, q2⟩
    unfold onHeap at *; rw [← e1]; exact p2
  · refine Or.inr ⟨p1, ?_⟩
    unfold onHeap at *; rw [e2]; exact q1
  · exact Or.inr ⟨p1, q2⟩

theorem heapInv_iff (s : Store) : HeapInv s ↔ Struct none s ∧ Order s := by
  constructor
  · intro h
    exact ⟨⟨h.size_eq, h.num_lt, h.shrunk, h.exp_idx, h.occupied, h.tail_null,
      fun t i _ => h.back t i, fun _ _ _ _ => by simp, h.idx_ge⟩, h.order⟩
  · rintro ⟨h, ho⟩
    exact ⟨h.size_eq, h.num_lt, h.shrunk, h.exp_idx, h.occupied, h.tail_null,
      fun t i => h.back t i (by simp), h.idx_ge, ho⟩

/-! ## `swapSlots` -/

theorem swap_slot (s : Store) (i j a b k : Nat) (hi : i < s.slot.size) (hj : j < s.slot.size) :
    (swapSlots s i j a b).slot[k]? =
      if k = j then some (some a) else if k = i then some (some b) else s.slot[k]? := by
  simp only [swapSlots, Array.getElem?_setIfInBounds, Array.size_setIfInBounds]
  grind

theorem swap_idx (s : Store) (i j a b u : Nat) (ha : a < s.idx.size) (hb : b < s.idx.size) :
    (swapSlots s i j a b).idx[u]? =
      if u = a then some (j : Int) else if u = b then some (i : Int) else s.idx[u]? := by
  simp only [swapSlots, Array.getElem?_setIfInBounds, Array.size_setIfInBounds]
  grind

theorem Struct.idx_of_slot {g s} (h : Struct g s) {i a : Nat} (h1 : 1 ≤ i) (h2 : i ≤ s.num)
    (ha : s.slot[i]? = some (some a)) : s.idx[a]? = some (i : Int) := by
  obtain ⟨t, ht, hi⟩ := h.occupied i h1 h2
  rw [ht] at ha
  cases ha
  exact hi

theorem Struct.lt_size {g s} (h : Struct g s) {i : Nat} (h2 : i ≤ s.num) : i < s.slot.size := by
  have := h.num_lt; omega

theorem lt_of_getElem? {α} {xs : Array α} {i : Nat} {v : α} (h : xs[i]? = some v) : i < xs.size := by
  by_cases h' : i < xs.size
  · exact h'
  · rw [Array.getElem?_eq_none (by omega)] at h; cases h

theorem swap_struct {g s} (h : Struct g s) {i j a b : Nat} (hi1 : 1 ≤ i) (hi2 : i ≤ s.num)
    (hj1 : 1 ≤ j) (hj2 : j ≤ s.num) (hij : i ≠ j)
    (ha : s.slot[i]? = some (some a)) (hb : s.slot[j]? = some (some b)) :
    Struct g (swapSlots s i j a b) := by
  have hia := h.idx_of_slot hi1 hi2 ha
  have hib := h.idx_of_slot hj1 hj2 hb
  have hab : a ≠ b := by
    intro e; subst e; rw [hia] at hib; cases hib; omega
  have hsa := lt_of_getElem? hia
  have hsb := lt_of_getElem? hib
  have hsi := h.lt_size hi2
  have hsj := h.lt_size hj2
  have hnum : (swapSlots s i j a b).num = s.num := rfl
  have hdepth : (swapSlots s i j a b).depth = s.depth := rfl
  have hexp : (swapSlots s i j a b).exp = s.exp := rfl
  have hss : (swapSlots s i j a b).slot.size = s.slot.size := by simp [swapSlots]
  have his : (swapSlots s i j a b).idx.size = s.idx.size := by simp [swapSlots]
  constructor
  · rw [hss, hdepth]; exact h.size_eq
  · rw [hss, hnum]; exact h.num_lt
  · rw [hnum, hdepth]; exact h.shrunk
  · rw [hexp, his]; exact h.exp_idx
  · intro k hk1 hk2
    rw [hnum] at hk2
    rw [swap_slot s i j a b k hsi hsj]
    obtain ⟨t, ht, hit⟩ := h.occupied k hk1 hk2
    by_cases hkj : k = j
    · subst hkj
      refine ⟨a, by simp, ?_⟩
      rw [swap_idx s i k a b a hsa hsb]; simp
    · by_cases hki : k = i
      · subst hki
        refine ⟨b, by simp [hkj], ?_⟩
        rw [swap_idx s k j a b b hsa hsb]; simp [Ne.symm hab]
      · refine ⟨t, by simp [hkj, hki, ht], ?_⟩
        have hta : t ≠ a := by
          intro e; subst e; rw [hia] at hit; cases hit; omega
        have htb : t ≠ b := by
          intro e; subst e; rw [hib] at hit; cases hit; omega
        rw [swap_idx s i j a b t hsa hsb]; simp [hta, htb, hit]
  · intro k hk1 hk2
    rw [hnum] at hk1
    rw [hss] at hk2
    rw [swap_slot s i j a b k hsi hsj]
    rw [if_neg (by omega), if_neg (by omega)]
    exact h.tail_null k hk1 hk2
  · intro t k hg hk1 hit
    rw [swap_idx s i j a b t hsa hsb] at hit
    rw [hnum, swap_slot s i j a b k hsi hsj]
    by_cases hta : t = a
    · subst hta
      simp at hit
      have : k = j := by omega
      subst this
      simp [hj2]
    · by_cases htb : t = b
      · subst htb
        simp [hta] at hit
        have : k = i := by omega
        subst this
        simp [hi2, hij]
      · simp [hta, htb] at hit
        obtain ⟨q1, q2⟩ := h.back t k hg hk1 hit
        have hkj : k ≠ j := by
          intro e; subst e; rw [hb] at q2; cases q2; exact htb rfl
        have hki : k ≠ i := by
          intro e; subst e; rw [ha] at q2; cases q2; exact hta rfl
        simp [hkj, hki, q1, q2]
  · intro k t hk1 hkt
    rw [swap_slot s i j a b k hsi hsj] at hkt
    by_cases hkj : k = j
    · simp [hkj] at hkt; subst hkt; exact h.notin i _ hi1 ha
    · by_cases hki : k = i
      · subst hki
        simp [hkj] at hkt
        subst hkt; exact h.notin j _ hj1 hb
      · simp [hkj, hki] at hkt
        exact h.notin k t hk1 hkt
  · intro t v hv
    rw [swap_idx s i j a b t hsa hsb] at hv
    by_cases hta : t = a
    · simp [hta] at hv; omega
    · by_cases htb : t = b
      · subst htb; simp [hta] at hv; omega
      · simp [hta, htb] at hv; exact h.idx_ge t v hv

theorem swap_frame {g s} (h : Struct g s) {i j a b : Nat} (hi1 : 1 ≤ i) (hi2 : i ≤ s.num)
    (hj1 : 1 ≤ j) (hj2 : j ≤ s.num)
    (ha : s.slot[i]? = some (some a)) (hb : s.slot[j]? = some (some b)) :
    Frame s (swapSlots s i j a b) := by
  have hia := h.idx_of_slot hi1 hi2 ha
  have hib := h.idx_of_slot hj1 hj2 hb
  have hsa := lt_of_getElem? hia
  have hsb := lt_of_getElem? hib
  refine ⟨rfl, by simp [swapSlots], fun u => ?_⟩
  rw [swap_idx s i j a b u hsa hsb]
  by_cases hua : u = a
  · subst hua
    right
    refine ⟨⟨i, hi1, hia⟩, ⟨j, hj1, ?_⟩⟩
    rw [swap_idx s i j u b u hsa hsb]; simp
  · by_cases hub : u = b
    · subst hub
      right
      refine ⟨⟨j, hj1, hib⟩, ⟨i, hi1, ?_⟩⟩
      rw [swap_idx s i j a u u hsa hsb]; simp [hua]
    · left; simp [hua, hub]

theorem swap_leT (s : Store) (i j a b x y : Nat) : leT (swapSlots s i j a b) x y ↔ leT s x y := Iff.rfl

/-! ## `pullUp` -/

theorem leT_trans {s a b c} (h1 : leT s a b) (h2 : leT s b c) : leT s a c := le_trans h1 h2

theorem leT_of_gtT {s a b} (h : gtT s a b = true) : leT s b a := le_of_gt h

theorem leT_of_not_gtT {s a b} (h : gtT s a b = false) : leT s a b := h

theorem pullUp_step {g s} (h : Struct g s) {j p c : Nat} (ho : OrderUp s j) (hj1 : 2 ≤ j) (hj2 : j ≤ s.num)
    (hp : s.slot[j / 2]? = some (some p)) (hc : s.slot[j]? = some (some c)) (hgt : gtT s p c = true) :
    OrderUp (swapSlots s j (j / 2) c p) (j / 2) := by
  have hcp : leT s c p := leT_of_gtT hgt
  have hs : ∀ k, (swapSlots s j (j / 2) c p).slot[k]? =
      if k = j / 2 then some (some c) else if k = j then some (some p) else s.slot[k]? :=
    fun k => swap_slot s j (j / 2) c p k (h.lt_size hj2) (h.lt_size (by omega))
  obtain ⟨ho1, ho2⟩ := ho
  constructor
  · intro i a b hi1 hi2 hine h1 h2
    show leT s a b
    replace hi2 : i ≤ s.num := hi2
    rw [hs] at h1 h2
    rw [if_neg hine] at h2
    by_cases hij : i = j
    · subst hij
      simp at h1 h2; subst h1; subst h2; exact hcp
    · rw [if_neg hij] at h2
      by_cases hc1 : i / 2 = j
      · rw [if_neg (by omega), if_pos hc1] at h1
        simp at h1; subst h1
        exact ho2 i p b hj1 hi2 hc1 hp h2
      · rw [if_neg hc1] at h1
        by_cases hc2 : i / 2 = j / 2
        · rw [if_pos hc2] at h1
          simp at h1; subst h1
          exact leT_trans hcp (ho1 i p b hi1 hi2 hij (hc2 ▸ hp) h2)
        · rw [if_neg hc2] at h1
          exact ho1 i a b hi1 hi2 hij h1 h2
  · intro k a b hk1 hk2 hk3 h1 h2
    show leT s a b
    replace hk2 : k ≤ s.num := hk2
    rw [hs] at h1 h2
    rw [if_neg (by omega), if_neg (by omega)] at h1
    rw [if_neg (by omega)] at h2
    have hap : leT s a p := ho1 (j / 2) a p hk1 (by omega) (by omega) h1 hp
    by_cases hkj : k = j
    · rw [if_pos hkj] at h2
      simp at h2; subst h2; exact hap
    · rw [if_neg hkj] at h2
      exact leT_trans hap (ho1 k p b (by omega) hk2 hkj (hk3 ▸ hp) h2)

theorem order_of_orderUp_le {s j} (ho : OrderUp s j) (hj : j ≤ 1) : Order s := by
  intro i a b h1 h2 ha hb
  exact ho.1 i a b h1 h2 (by omega) ha hb

theorem order_of_orderUp_ok {s j p c} (ho : OrderUp s j)
    (hp : s.slot[j / 2]? = some (some p)) (hc : s.slot[j]? = some (some c)) (hle : leT s p c) : Order s := by
  intro i a b h1 h2 ha hb
  by_cases hij : i = j
  · subst hij
    rw [hp] at ha; rw [hc] at hb; cases ha; cases hb; exact hle
  · exact ho.1 i a b h1 h2 hij ha hb

/-- result of `pullUp`/`pushDown`: same sizes, invariant kept, order restored -/
structure Fixed (g : Option Tid) (s s' : Store) : Prop where
  struct : Struct g s'
  order  : Order s'
  frame  : Frame s s'
  num    : s'.num = s.num
  depth  : s'.depth = s.depth

theorem pullUp_ok {g} : ∀ (j : Nat) (s : Store), Struct g s → OrderUp s j → j ≤ s.num →
    ∃ s', pullUp s j = some s' ∧ Fixed g s s' := by
  intro j
  induction j using Nat.strongRecOn with
  | _ j ih =>
    intro s h ho hj2
    rw [pullUp]
    by_cases hj : j ≤ 1
    · rw [dif_pos hj]
      exact ⟨s, rfl, h, order_of_orderUp_le ho hj, Frame.refl s, rfl, rfl⟩
    · rw [dif_neg hj]
      obtain ⟨p, hp, _⟩ := h.occupied (j / 2) (by omega) (by omega)
      obtain ⟨c, hc, _⟩ := h.occupied j (by omega) hj2
      simp only [getSlot, hp, hc]
      cases hgt : gtT s p c
      · simp only [Bool.not_false, if_true]
        exact ⟨s, rfl, h, order_of_orderUp_ok ho hp hc (leT_of_not_gtT hgt), Frame.refl s, rfl, rfl⟩
      · simp only [Bool.not_true, Bool.false_eq_true, if_false]
        have h' := swap_struct h (i := j) (j := j / 2) (by omega) hj2 (by omega) (by omega) (by omega) hc hp
        have hf := swap_frame h (i := j) (j := j / 2) (by omega) hj2 (by omega) (by omega) hc hp
        have ho' := pullUp_step h ho (by omega) hj2 hp hc hgt
        obtain ⟨s', e, hfx⟩ := ih (j / 2) (by omega) _ h' ho' (by show j / 2 ≤ s.num; omega)
        exact ⟨s', e, hfx.struct, hfx.order, hf.trans hfx.frame, hfx.num, hfx.depth⟩

/-! ## `pushDown` -/

theorem pushDown_step {g s} (h : Struct g s) {j c cur tmin : Nat} (ho : OrderDown s j) (hj1 : 1 ≤ j)
    (hc2 : c ≤ s.num) (hcj : c / 2 = j)
    (hcur : s.slot[j]? = some (some cur)) (hmin : s.slot[c]? = some (some tmin))
    (hle : leT s tmin cur)
    (hall : ∀ k b, k ≤ s.num → k / 2 = j → s.slot[k]? = some (some b) → leT s tmin b) :
    OrderDown (swapSlots s j c cur tmin) c := by
  have hs : ∀ k, (swapSlots s j c cur tmin).slot[k]? =
      if k = c then some (some cur) else if k = j then some (some tmin) else s.slot[k]? :=
    fun k => swap_slot s j c cur tmin k (h.lt_size (by omega)) (h.lt_size hc2)
  obtain ⟨ho1, ho2⟩ := ho
  constructor
  · intro i a b hi1 hi2 hine h1 h2
    show leT s a b
    replace hi2 : i ≤ s.num := hi2
    rw [hs] at h1 h2
    rw [if_neg hine] at h1
    by_cases hic : i = c
    · subst hic
      rw [if_pos hcj] at h1
      simp at h1 h2; subst h1; subst h2; exact hle
    · rw [if_neg hic] at h2
      by_cases hij : i = j
      · subst hij
        rw [if_pos rfl] at h2
        rw [if_neg (by omega)] at h1
        simp at h2; subst h2
        exact ho2 c _ _ (by omega) hc2 hcj h1 hmin
      · rw [if_neg hij] at h2
        by_cases hc1 : i / 2 = j
        · rw [if_pos hc1] at h1
          simp at h1; subst h1
          exact hall i b hi2 hc1 h2
        · rw [if_neg hc1] at h1
          exact ho1 i a b hi1 hi2 hc1 h1 h2
  · intro k a b hk1 hk2 hk3 h1 h2
    show leT s a b
    replace hk2 : k ≤ s.num := hk2
    rw [hs] at h1 h2
    rw [if_neg (by omega), if_pos hcj] at h1
    rw [if_neg (by omega), if_neg (by omega)] at h2
    simp at h1; subst h1
    exact ho1 k _ _ (by omega) hk2 (by omega) (hk3 ▸ hmin) h2

theorem order_of_orderDown {s j cur} (ho : OrderDown s j) (hcur : s.slot[j]? = some (some cur))
    (hall : ∀ k b, k ≤ s.num → k / 2 = j → s.slot[k]? = some (some b) → leT s cur b) : Order s := by
  intro i a b h1 h2 ha hb
  by_cases hij : i / 2 = j
  · rw [hij, hcur] at ha; cases ha
    exact hall i b h2 hij hb
  · exact ho.1 i a b h1 h2 hij ha hb

theorem pushDown_ok {g} : ∀ (n j : Nat) (s : Store), s.num + 1 - j ≤ n → Struct g s → OrderDown s j →
    1 ≤ j → j ≤ s.num → ∃ s', pushDown s j = some s' ∧ Fixed g s s' := by
  intro n
  induction n with
  | zero => intro j s hn; omega
  | succ n ih =>
    intro j s hn h ho hj1 hj2
    rw [pushDown]
    rw [dif_neg (by omega)]
    obtain ⟨cur, hcur, _⟩ := h.occupied j hj1 hj2
    simp only [getSlot, hcur]
    by_cases h2j : 2 * j ≤ s.num
    · rw [if_pos h2j]
      obtain ⟨l, hl, _⟩ := h.occupied (2 * j) (by omega) h2j
      have hr : ∃ r?, s.slot[2 * j + 1]? = some r? ∧ (∀ r, r? = some r → 2 * j + 1 ≤ s.num) := by
        have hlt : 2 * j + 1 < s.slot.size := by
          obtain ⟨k, hk⟩ := cap_even s.depth
          have := h.size_eq
          have := h.num_lt
          omega
        refine ⟨s.slot[2 * j + 1], by simp [hlt], fun r hrr => ?_⟩
        by_cases hle : 2 * j + 1 ≤ s.num
        · exact hle
        · have := h.tail_null (2 * j + 1) (by omega) hlt
          simp [hlt, hrr] at this
      obtain ⟨r?, hr, hrn⟩ := hr
      simp only [hl, hr]
      -- the common continuation: swap with the smallest child `c` and recurse
      have key : ∀ c tmin, c ≤ s.num → c / 2 = j → s.slot[c]? = some (some tmin) → leT s tmin cur →
          (∀ k b, k ≤ s.num → k / 2 = j → s.slot[k]? = some (some b) → leT s tmin b) →
          ∃ s', pushDown (swapSlots s j c cur tmin) c = some s' ∧ Fixed g s s' := by
        intro c tmin hc2 hcj hmin hle hall
        have h' := swap_struct h (i := j) (j := c) hj1 hj2 (by omega) hc2 (by omega) hcur hmin
        have hf := swap_frame h (i := j) (j := c) hj1 hj2 (by omega) hc2 hcur hmin
        have ho' := pushDown_step h ho hj1 hc2 hcj hcur hmin hle hall
        obtain ⟨s', e, hfx⟩ := ih c _ (by show s.num + 1 - c ≤ n; omega) h' ho' (by omega) hc2
        exact ⟨s', e, hfx.struct, hfx.order, hf.trans hfx.frame, hfx.num, hfx.depth⟩
      -- children of `j`
      have hkids : ∀ (P : Tid → Prop), P l → (∀ r, r? = some r → P r) →
          ∀ k b, k ≤ s.num → k / 2 = j → s.slot[k]? = some (some b) → P b := by
        intro P hPl hPr k b _ hk hb
        have : k = 2 * j ∨ k = 2 * j + 1 := by omega
        rcases this with e | e
        · subst e; rw [hl] at hb; cases hb; exact hPl
        · subst e; rw [hr] at hb; cases hb; exact hPr b rfl
      cases hg1 : gtT s cur l
      · -- cur ≤ l
        have hcl : leT s cur l := leT_of_not_gtT hg1
        simp only [Bool.false_eq_true, ↓reduceIte]
        cases r? with
        | none =>
          simp only [↓reduceIte]
          refine ⟨s, rfl, h, order_of_orderDown ho hcur ?_, Frame.refl s, rfl, rfl⟩
          exact hkids _ hcl (by simp)
        | some r =>
          dsimp only
          rcases Bool.eq_false_or_eq_true (gtT s cur r) with hg2 | hg2
          rotate_left
          · simp only [hg2, Bool.false_eq_true, ↓reduceIte]
            refine ⟨s, rfl, h, order_of_orderDown ho hcur ?_, Frame.refl s, rfl, rfl⟩
            refine hkids _ hcl ?_
            intro r' e; cases e; exact leT_of_not_gtT hg2
          · have hrc : leT s r cur := leT_of_gtT hg2
            simp only [hg2, ↓reduceIte]
            rw [if_neg (by omega), if_neg (by omega)]
            refine key (2 * j + 1) r (hrn r rfl) (by omega) hr hrc ?_
            refine hkids _ (leT_trans hrc hcl) ?_
            intro r' e; cases e; exact le_refl _
      · have hlc : leT s l cur := leT_of_gtT hg1
        simp only [↓reduceIte]
        cases r? with
        | none =>
          dsimp only
          rw [if_neg (by omega), if_neg (by omega)]
          refine key (2 * j) l h2j (by omega) hl hlc ?_
          exact hkids _ (le_refl _) (by simp)
        | some r =>
          dsimp only
          rcases Bool.eq_false_or_eq_true (gtT s l r) with hg2 | hg2
          rotate_left
          · simp only [hg2, Bool.false_eq_true, ↓reduceIte]
            rw [if_neg (by omega), if_neg (by omega)]
            refine key (2 * j) l h2j (by omega) hl hlc ?_
            refine hkids _ (le_refl _) ?_
            intro r' e; cases e; exact leT_of_not_gtT hg2
          · have hrl : leT s r l := leT_of_gtT hg2
            simp only [hg2, ↓reduceIte]
            rw [if_neg (by omega), if_neg (by omega)]
            refine key (2 * j + 1) r (hrn r rfl) (by omega) hr (leT_trans hrl hlc) ?_
            refine hkids _ hrl ?_
            intro r' e; cases e; exact le_refl _
    · rw [if_neg h2j]
      refine ⟨s, rfl, h, order_of_orderDown ho hcur ?_, Frame.refl s, rfl, rfl⟩
      intro k b hk1 hk2; omega

theorem grand_of_order {g s} (h : Struct g s) (ho : Order s) (j : Nat) : Grand s j := by
  intro k a b h1 h2 h3 ha hb
  obtain ⟨m, hm, _⟩ := h.occupied j (by omega) (by omega)
  exact leT_trans (ho j a m h1 (by omega) ha hm) (ho k m b (by omega) h2 (h3 ▸ hm) hb)

theorem orderDown_of_order {g s} (h : Struct g s) (ho : Order s) (j : Nat) : OrderDown s j :=
  ⟨fun i a b h1 h2 _ ha hb => ho i a b h1 h2 ha hb, grand_of_order h ho j⟩

/-- `pullUp` on a slot whose content was replaced: afterwards only the children of `j` may be out of order -/
theorem pullUp_ex {g s j} (h : Struct g s) (ho : OrderEx s j) (hj1 : 1 ≤ j) (hj2 : j ≤ s.num) :
    ∃ s', pullUp s j = some s' ∧ Struct g s' ∧ OrderDown s' j ∧ Frame s s' ∧ s'.num = s.num ∧
      s'.depth = s.depth := by
  by_cases hj : j ≤ 1
  · rw [pullUp, dif_pos hj]
    refine ⟨s, rfl, h, ⟨?_, ho.2⟩, Frame.refl s, rfl, rfl⟩
    intro i a b h1 h2 h3 ha hb
    exact ho.1 i a b h1 h2 (by omega) h3 ha hb
  · obtain ⟨p, hp, _⟩ := h.occupied (j / 2) (by omega) (by omega)
    obtain ⟨c, hc, _⟩ := h.occupied j (by omega) hj2
    rcases Bool.eq_false_or_eq_true (gtT s p c) with hgt | hgt
    · have hcp : leT s c p := leT_of_gtT hgt
      have hup : OrderUp s j := by
        refine ⟨?_, ho.2⟩
        intro i a b h1 h2 h3 ha hb
        by_cases hij : i / 2 = j
        · rw [hij, hc] at ha; cases ha
          exact leT_trans hcp (ho.2 i p b (by omega) h2 hij hp hb)
        · exact ho.1 i a b h1 h2 h3 hij ha hb
      obtain ⟨s', e, hfx⟩ := pullUp_ok j s h hup hj2
      exact ⟨s', e, hfx.struct, orderDown_of_order hfx.struct hfx.order j, hfx.frame, hfx.num, hfx.depth⟩
    · rw [pullUp, dif_neg hj]
      simp only [getSlot, hp, hc, hgt, Bool.not_false, if_true]
      refine ⟨s, rfl, h, ⟨?_, ho.2⟩, Frame.refl s, rfl, rfl⟩
      intro i a b h1 h2 h3 ha hb
      by_cases hij : i = j
      · subst hij
        rw [hp] at ha; rw [hc] at hb; cases ha; cases hb
        exact leT_of_not_gtT hgt
      · exact ho.1 i a b h1 h2 hij h3 ha hb

/-! ## `init` -/

theorem init_inv (n : Nat) : HeapInv (Store.init n) := by
  constructor
  · simp [Store.init]
  · simp only [Store.init, Array.size_replicate]; exact cap_pos 0
  · intro h; simp [Store.init] at h
  · simp [Store.init]
  · intro i h1 h2; simp only [Store.init] at h2; omega
  · intro i h1 h2
    simp only [Store.init, Array.size_replicate] at h2
    simp [Store.init, h2]
  · intro t i h1 h2
    simp only [Store.init, Array.getElem?_replicate] at h2
    split at h2
    · simp at h2
    · cases h2
  · intro t v h
    simp only [Store.init, Array.getElem?_replicate] at h
    split at h
    · simp at h; omega
    · cases h
  · intro i a b h1 h2; simp only [Store.init] at h2; omega

/-! ## `register` -/

theorem grow_spec (s : Store) (ix : Nat) (hsz : s.slot.size = cap s.depth) (hix : ix ≤ cap s.depth)
    (hsh : s.depth > 0 → cap (s.depth - 1) ≤ ix) :
    (grow s ix).slot.size = cap (grow s ix).depth ∧ ix < (grow s ix).slot.size ∧
    s.slot.size ≤ (grow s ix).slot.size ∧
    ((grow s ix).depth > 0 → cap ((grow s ix).depth - 1) ≤ ix) ∧
    (grow s ix).exp = s.exp ∧ (grow s ix).idx = s.idx ∧ (grow s ix).num = s.num ∧
    (∀ k, k < s.slot.size → (grow s ix).slot[k]? = s.slot[k]?) ∧
    (∀ k, s.slot.size ≤ k → k < (grow s ix).slot.size → (grow s ix).slot[k]? = some none) := by
  unfold grow
  rw [grow_test]
  by_cases hc : cap s.depth ≤ ix
  · have hd := cap_double s.depth
    have hp := cap_pos s.depth
    simp only [hc, decide_true, if_true, Array.size_append, Array.size_replicate]
    refine ⟨by omega, by omega, by omega, fun _ => by simpa using hc, trivial, trivial, trivial, ?_, ?_⟩
    · intro k hk
      rw [Array.getElem?_append_left hk]
    · intro k hk1 hk2
      rw [Array.getElem?_append_right hk1, Array.getElem?_replicate]
      rw [if_pos (by omega)]
  · simp only [hc, decide_false, Bool.false_eq_true, if_false]
    refine ⟨hsz, by omega, by omega, hsh, trivial, trivial, trivial, fun _ _ => trivial, ?_⟩
    intro k hk1 hk2; omega

theorem frame_iffs {s s' : Store} {u : Nat}
    (h : s'.idx[u]? = s.idx[u]? ∨ (onHeap s u ∧ onHeap s' u)) :
    (s'.idx[u]? = some (-1) ↔ s.idx[u]? = some (-1)) ∧ (s'.idx[u]? = some 0 ↔ s.idx[u]? = some 0) ∧
      (onHeap s' u ↔ onHeap s u) := by
  rcases h with e | ⟨⟨i, hi1, hi⟩, ⟨i', hi1', hi'⟩⟩
  · unfold onHeap; rw [e]; simp
  · refine ⟨?_, ?_, ?_⟩
    · rw [hi, hi']; simp
    · rw [hi, hi']; simp; omega
    · exact ⟨fun _ => ⟨i, hi1, hi⟩, fun _ => ⟨i', hi1', hi'⟩⟩

theorem register_ok (s : Store) (t : Tid) (e : TS) (h : HeapInv s)
    (ht : s.idx[t]? = some (-1)) :
    ∃ s', register s t e = .ok s' ∧ HeapInv s' ∧ onHeap s' t ∧ expOf s' t = e ∧ s'.num = s.num + 1 ∧
      s'.idx.size = s.idx.size ∧
      ∀ u, u ≠ t → (s'.idx[u]? = some (-1) ↔ s.idx[u]? = some (-1)) ∧ (s'.idx[u]? = some 0 ↔ s.idx[u]? = some 0) ∧
        (onHeap s' u ↔ onHeap s u) ∧ expOf s' u = expOf s u := by
  have hts := lt_of_getElem? ht
  have hgetD : s.idx.getD t (-1) = -1 := by
    rw [Array.getD_eq_getD_getElem?, ht]; rfl
  unfold register
  simp only [hgetD, bne_self_eq_false, Bool.false_eq_true, if_false]
  obtain ⟨g1, g2, g3, g4, g5, g6, g7, g8, g9⟩ :=
    grow_spec { s with exp := s.exp.setIfInBounds t e, num := s.num + 1 } (s.num + 1) h.size_eq
      (by have := h.num_lt; have := h.size_eq; show s.num + 1 ≤ cap s.depth; omega)
      (fun hd => by have := h.shrunk hd; show cap (s.depth - 1) ≤ s.num + 1; omega)
  generalize grow { s with exp := s.exp.setIfInBounds t e, num := s.num + 1 } (s.num + 1) = s3 at *
  simp only at g3 g5 g6 g7 g8 g9
  rw [if_pos g2]
  obtain ⟨s4, hs4⟩ : ∃ s4 : Store, { s3 with slot := s3.slot.setIfInBounds (s.num + 1) (some t), idx := s3.idx.setIfInBounds t ((s.num + 1 : Nat) : Int) } = s4 := ⟨_, rfl⟩
  rw [hs4]
  have e_num : s4.num = s.num + 1 := by rw [← hs4]; exact g7
  have e_depth : s4.depth = s3.depth := by rw [← hs4]
  have e_exp : s4.exp = s.exp.setIfInBounds t e := by rw [← hs4]; exact g5
  have e_ssz : s4.slot.size = s3.slot.size := by rw [← hs4]; simp
  have e_isz : s4.idx.size = s.idx.size := by rw [← hs4]; simp [g6]
  have e_slot : ∀ k, s4.slot[k]? = if k = s.num + 1 then some (some t) else s3.slot[k]? := by
    intro k; rw [← hs4]; simp only [Array.getElem?_setIfInBounds]
    by_cases hk : s.num + 1 = k
    · subst hk; simp [g2]
    · simp [hk, Ne.symm hk]
  have e_idx : ∀ u, s4.idx[u]? = if u = t then some ((s.num + 1 : Nat) : Int) else s.idx[u]? := by
    intro u; rw [← hs4]; simp only [Array.getElem?_setIfInBounds, g6]
    by_cases hu : t = u
    · subst hu; simp [hts]
    · simp [hu, Ne.symm hu]
  have e_old : ∀ k, k ≤ s.num → s4.slot[k]? = s.slot[k]? := by
    intro k hk
    rw [e_slot, if_neg (by omega)]
    exact g8 k (by have := h.num_lt; omega)
  have e_expOf : ∀ u, u ≠ t → expOf s4 u = expOf s u := by
    intro u hu
    unfold expOf
    rw [e_exp, Array.getD_eq_getD_getElem?, Array.getD_eq_getD_getElem?, Array.getElem?_setIfInBounds, if_neg (Ne.symm hu)]
  have e_ne : ∀ k a, 1 ≤ k → k ≤ s.num → s.slot[k]? = some (some a) → a ≠ t := by
    intro k a hk1 hk2 ha hat
    subst hat
    obtain ⟨a', ha', hia'⟩ := h.occupied k hk1 hk2
    rw [ha] at ha'; cases ha'
    rw [ht] at hia'; cases hia'
  have hstruct : Struct none s4 := by
    constructor
    · rw [e_ssz, e_depth]; exact g1
    · rw [e_ssz, e_num]; exact g2
    · rw [e_num, e_depth]; exact g4
    · rw [e_isz, e_exp]; simp [h.exp_idx]
    · intro k hk1 hk2
      rw [e_num] at hk2
      by_cases hk : k = s.num + 1
      · subst hk
        exact ⟨t, by rw [e_slot]; simp, by rw [e_idx]; simp⟩
      · obtain ⟨a, ha, hia⟩ := h.occupied k hk1 (by omega)
        refine ⟨a, by rw [e_old k (by omega)]; exact ha, ?_⟩
        rw [e_idx, if_neg (e_ne k a hk1 (by omega) ha)]; exact hia
    · intro k hk1 hk2
      rw [e_num] at hk1
      rw [e_ssz] at hk2
      rw [e_slot, if_neg (by omega)]
      by_cases hk : k < s.slot.size
      · rw [g8 k hk]; exact h.tail_null k (by omega) hk
      · exact g9 k (by omega) hk2
    · intro u k _ hk1 hu
      rw [e_idx] at hu
      rw [e_num]
      by_cases hut : u = t
      · subst hut
        simp at hu
        have : k = s.num + 1 := by omega
        subst this
        exact ⟨by omega, by rw [e_slot]; simp⟩
      · rw [if_neg hut] at hu
        obtain ⟨q1, q2⟩ := h.back u k hk1 hu
        exact ⟨by omega, by rw [e_old k q1]; exact q2⟩
    · intro _ _ _ _; simp
    · intro u v hu
      rw [e_idx] at hu
      by_cases hut : u = t
      · subst hut; simp at hu; omega
      · rw [if_neg hut] at hu; exact h.idx_ge u v hu
  have horder : OrderUp s4 (s.num + 1) := by
    constructor
    · intro i a b hi1 hi2 hi3 ha hb
      rw [e_num] at hi2
      rw [e_old _ (by omega)] at ha hb
      have := h.order i a b hi1 (by omega) ha hb
      unfold leT
      rw [e_expOf a (e_ne (i / 2) a (by omega) (by omega) ha), e_expOf b (e_ne i b (by omega) (by omega) hb)]
      exact this
    · intro k a b hk1 hk2 hk3
      rw [e_num] at hk2
      omega
  obtain ⟨s', hpu, hfx⟩ := pullUp_ok (s.num + 1) s4 hstruct horder (by omega)
  rw [hpu]
  refine ⟨s', rfl, (heapInv_iff s').2 ⟨hfx.struct, hfx.order⟩, ?_, ?_, by rw [hfx.num, e_num],
    by rw [hfx.frame.size, e_isz], ?_⟩
  · rcases hfx.frame.idx t with e1 | ⟨_, e2⟩
    · refine ⟨s.num + 1, by omega, ?_⟩
      rw [e1, e_idx]; simp
    · exact e2
  · unfold expOf
    rw [hfx.frame.exp, e_exp, Array.getD_eq_getD_getElem?, Array.getElem?_setIfInBounds]
    simp [h.exp_idx, hts]
  · intro u hu
    have hfr : s'.idx[u]? = s.idx[u]? ∨ (onHeap s u ∧ onHeap s' u) := by
      rcases hfx.frame.idx u with e1 | ⟨e2, e3⟩
      · left; rw [e1, e_idx, if_neg hu]
      · right
        refine ⟨?_, e3⟩
        unfold onHeap at e2 ⊢
        rw [e_idx, if_neg hu] at e2; exact e2
    obtain ⟨q1, q2, q3⟩ := frame_iffs hfr
    refine ⟨q1, q2, q3, ?_⟩
    rw [← e_expOf u hu]
    unfold expOf; rw [hfx.frame.exp]

/-! ## `removeAt` -/

/-- the store after the last timer `mt` was moved into slot `i`, just before `pull_up`/`push_down` -/
def cut (s : Store) (i : Nat) (mt : Tid) : Store :=
  let s1 : Store := { s with slot := (s.slot.setIfInBounds i (some mt)).setIfInBounds s.num none,
                             idx := s.idx.setIfInBounds mt (i : Int) }
  let s2 := if s1.depth > 0 ∧ s1.num = 1 <<< (s1.depth * bits) then removeLevel s1 else s1
  { s2 with num := s2.num - 1 }

theorem removeAt_eq (s : Store) (t : Tid) (i : Nat) (mt : Tid) (hi : i ≤ s.num)
    (hsi : s.slot[i]? = some (some t)) (hsn : s.slot[s.num]? = some (some mt)) :
    removeAt s t i =
      if i != (cut s i mt).num + 1 then
        match pullUp (cut s i mt) i with
        | none => .fault
        | some s1 =>
          match pushDown s1 i with
          | none => .fault
          | some s2 => .ok s2
      else .ok (cut s i mt) := by
  unfold removeAt
  rw [if_neg (by omega)]
  simp only [getSlot, hsi, hsn, bne_self_eq_false, Bool.false_eq_true, if_false]
  rfl

theorem cut_spec (s : Store) (i : Nat) (mt : Tid) (h : HeapInv s) (hi1 : 1 ≤ i) (hi2 : i ≤ s.num) :
    (cut s i mt).num = s.num - 1 ∧ (cut s i mt).exp = s.exp ∧
    (cut s i mt).idx = s.idx.setIfInBounds mt (i : Int) ∧
    (cut s i mt).slot.size = cap (cut s i mt).depth ∧
    s.num - 1 < (cut s i mt).slot.size ∧
    (cut s i mt).slot.size ≤ s.slot.size ∧
    ((cut s i mt).depth > 0 → cap ((cut s i mt).depth - 1) ≤ s.num - 1) ∧
    (∀ k, k < (cut s i mt).slot.size → (cut s i mt).slot[k]? =
        if k = s.num then some none else if k = i then some (some mt) else s.slot[k]?) := by
  have hsz := h.size_eq
  have hnl := h.num_lt
  have hget : ∀ k, k < s.slot.size → ((s.slot.setIfInBounds i (some mt)).setIfInBounds s.num none)[k]? =
      if k = s.num then some none else if k = i then some (some mt) else s.slot[k]? := by
    intro k hk
    simp only [Array.getElem?_setIfInBounds, Array.size_setIfInBounds]
    by_cases h1 : s.num = k
    · subst h1; simp [hnl]
    · by_cases h2 : i = k
      · subst h2; simp [h1, Ne.symm h1, hk]
      · simp [h1, h2, Ne.symm h1, Ne.symm h2]
  dsimp only [cut]
  by_cases hc : s.depth > 0 ∧ s.num = 1 <<< (s.depth * bits)
  · rw [if_pos hc]
    obtain ⟨hd, hn⟩ := hc
    rw [shrink_test s.depth hd] at hn
    have hcd := cap_double (s.depth - 1)
    have hcp := cap_pos (s.depth - 1)
    have e1 : s.depth - 1 + 1 = s.depth := by omega
    rw [e1] at hcd
    simp only [removeLevel, Array.size_extract, Array.size_setIfInBounds, Array.getElem?_extract]
    refine ⟨trivial, trivial, trivial, by omega, by omega, by omega, ?_, ?_⟩
    · intro hd2
      have hcd2 := cap_double (s.depth - 1 - 1)
      have hcp2 := cap_pos (s.depth - 1 - 1)
      have e2 : s.depth - 1 - 1 + 1 = s.depth - 1 := by omega
      rw [e2] at hcd2
      omega
    · intro k hk
      rw [if_pos (by omega)]
      simp only [Nat.zero_add]
      rw [hget k (by omega)]
  · rw [if_neg hc]
    simp only [Array.size_setIfInBounds]
    refine ⟨trivial, trivial, trivial, hsz, by omega, by omega, ?_, ?_⟩
    · intro hd
      have := h.shrunk hd
      rw [shrink_test s.depth hd] at hc
      omega
    · intro k hk
      exact hget k hk

theorem removeAt_ok (s : Store) (t : Tid) (i : Nat) (h : HeapInv s) (hi1 : 1 ≤ i)
    (ht : s.idx[t]? = some (i : Int)) :
    ∃ s', removeAt s t i = .ok s' ∧ Struct (some t) s' ∧ Order s' ∧ s'.num + 1 = s.num ∧ Frame s s' := by
  obtain ⟨hi2, hsi⟩ := h.back t i hi1 ht
  obtain ⟨mt, hsn, himt⟩ := h.occupied s.num (by omega) (Nat.le_refl _)
  have hmts := lt_of_getElem? himt
  have hnl := h.num_lt
  rw [removeAt_eq s t i mt hi2 hsi hsn]
  obtain ⟨c1, c2, c3, c4, c5, c6, c7, c8⟩ := cut_spec s i mt h hi1 hi2
  generalize cut s i mt = c at *
  have hmt_t : i ≠ s.num → mt ≠ t := by
    intro hne e; subst e; rw [ht] at himt; cases himt; omega
  have c_idx : ∀ u, c.idx[u]? = if u = mt then some (i : Int) else s.idx[u]? := by
    intro u
    rw [c3, Array.getElem?_setIfInBounds]
    by_cases hu : mt = u
    · subst hu; simp [hmts]
    · simp [hu, Ne.symm hu]
  have c_le : ∀ a b, leT c a b ↔ leT s a b := by
    intro a b; unfold leT expOf; rw [c2]
  have c_same : ∀ k, k ≤ s.num - 1 → k ≠ i → c.slot[k]? = s.slot[k]? := by
    intro k hk1 hk2
    rw [c8 k (by omega), if_neg (by omega), if_neg hk2]
  have hstruct : Struct (some t) c := by
    constructor
    · exact c4
    · rw [c1]; exact c5
    · rw [c1]; exact c7
    · rw [c2, c3]; simp [h.exp_idx]
    · intro k hk1 hk2
      rw [c1] at hk2
      by_cases hki : k = i
      · subst hki
        refine ⟨mt, ?_, ?_⟩
        · rw [c8 k (by omega), if_neg (by omega), if_pos rfl]
        · rw [c_idx, if_pos rfl]
      · obtain ⟨a, ha, hia⟩ := h.occupied k hk1 (by omega)
        refine ⟨a, by rw [c_same k hk2 hki]; exact ha, ?_⟩
        have : a ≠ mt := by
          intro e; subst e; rw [hia] at himt; cases himt; omega
        rw [c_idx, if_neg this]; exact hia
    · intro k hk1 hk2
      rw [c1] at hk1
      rw [c8 k hk2]
      by_cases hkn : k = s.num
      · rw [if_pos hkn]
      · rw [if_neg hkn, if_neg (by omega)]
        exact h.tail_null k (by omega) (by omega)
    · intro u k hu hk1 hik
      have hut : u ≠ t := fun e => hu (by rw [e])
      rw [c_idx] at hik
      rw [c1]
      by_cases humt : u = mt
      · subst humt
        simp at hik
        have : k = i := by omega
        subst this
        have hkn : k ≠ s.num := by
          intro e; subst e; rw [hsn] at hsi; cases hsi; exact hut rfl
        refine ⟨by omega, ?_⟩
        rw [c8 k (by omega), if_neg hkn, if_pos rfl]
      · rw [if_neg humt] at hik
        obtain ⟨q1, q2⟩ := h.back u k hk1 hik
        have hkn : k ≠ s.num := by
          intro e; subst e; rw [hsn] at q2; cases q2; exact humt rfl
        have hki : k ≠ i := by
          intro e; subst e; rw [hsi] at q2; cases q2; exact hut rfl
        exact ⟨by omega, by rw [c_same k (by omega) hki]; exact q2⟩
    · intro k u hk1 hku e
      cases e
      have hks := lt_of_getElem? hku
      rw [c8 k hks] at hku
      by_cases hkn : k = s.num
      · rw [if_pos hkn] at hku; cases hku
      · rw [if_neg hkn] at hku
        by_cases hki : k = i
        · rw [if_pos hki] at hku
          simp at hku
          exact hmt_t (by omega) hku
        · rw [if_neg hki] at hku
          by_cases hkle : k ≤ s.num
          · obtain ⟨a, ha, hia⟩ := h.occupied k hk1 hkle
            rw [hku] at ha; cases ha
            rw [ht] at hia; cases hia; omega
          · have := h.tail_null k (by omega) (by omega)
            rw [hku] at this; cases this
    · intro u v hu
      rw [c_idx] at hu
      by_cases humt : u = mt
      · rw [if_pos humt] at hu; cases hu; omega
      · rw [if_neg humt] at hu; exact h.idx_ge u v hu
  have hframe : Frame s c := by
    refine ⟨c2, by rw [c3]; simp, fun u => ?_⟩
    rw [c_idx]
    by_cases humt : u = mt
    · subst humt
      right
      exact ⟨⟨s.num, by omega, himt⟩, ⟨i, hi1, by rw [c_idx, if_pos rfl]⟩⟩
    · left; rw [if_neg humt]
  by_cases hin : i = s.num
  · have : (i != c.num + 1) = false := by
      rw [c1]; simp; omega
    rw [this]
    simp only [Bool.false_eq_true, if_false]
    refine ⟨c, rfl, hstruct, ?_, by omega, hframe⟩
    intro k a b hk1 hk2 ha hb
    rw [c1] at hk2
    rw [c_same _ (by omega) (by omega)] at ha hb
    exact (c_le a b).2 (h.order k a b hk1 (by omega) ha hb)
  · have : (i != c.num + 1) = true := by
      rw [c1]; simp; omega
    rw [this]
    simp only [if_true]
    have hex : OrderEx c i := by
      constructor
      · intro k a b hk1 hk2 hk3 hk4 ha hb
        rw [c1] at hk2
        rw [c_same _ (by omega) (by omega)] at ha hb
        exact (c_le a b).2 (h.order k a b hk1 (by omega) ha hb)
      · intro k a b hk1 hk2 hk3 ha hb
        rw [c1] at hk2
        rw [c_same _ (by omega) (by omega)] at ha hb
        exact (c_le a b).2 (leT_trans (h.order i a t hk1 hi2 ha hsi)
          (h.order k t b (by omega) (by omega) (hk3 ▸ hsi) hb))
    obtain ⟨s1, e1, st1, od1, fr1, n1, _⟩ := pullUp_ex hstruct hex hi1 (by omega)
    obtain ⟨s2, e2, hfx⟩ := pushDown_ok (s1.num + 1 - i) i s1 (Nat.le_refl _) st1 od1 hi1 (by omega)
    rw [e1]; simp only []
    rw [e2]
    exact ⟨s2, rfl, hfx.struct, hfx.order, by rw [hfx.num, n1]; omega, (hframe.trans fr1).trans hfx.frame⟩

/-- overwrite the (stale) index field of the removed timer -/
def setIdx (s : Store) (t : Tid) (v : Int) : Store := { s with idx := s.idx.setIfInBounds t v }

theorem setIdx_inv {t s v} (hst : Struct (some t) s) (ho : Order s) (hv1 : -1 ≤ v) (hv2 : v ≤ 0) :
    HeapInv (setIdx s t v) := by
  have hidx : ∀ u, (setIdx s t v).idx[u]? = if t = u then (if t < s.idx.size then some v else none) else s.idx[u]? := by
    intro u; simp only [setIdx, Array.getElem?_setIfInBounds]
  constructor
  · exact hst.size_eq
  · exact hst.num_lt
  · exact hst.shrunk
  · simp [setIdx, hst.exp_idx]
  · intro k hk1 hk2
    obtain ⟨a, ha, hia⟩ := hst.occupied k hk1 hk2
    refine ⟨a, ha, ?_⟩
    have : t ≠ a := fun e => hst.notin k a hk1 ha (by rw [e])
    rw [hidx, if_neg this]; exact hia
  · exact hst.tail_null
  · intro u k hk1 hu
    rw [hidx] at hu
    by_cases htu : t = u
    · rw [if_pos htu] at hu
      split at hu
      · cases hu; omega
      · cases hu
    · rw [if_neg htu] at hu
      exact hst.back u k (fun e => htu (by cases e; rfl)) hk1 hu
  · intro u w hu
    rw [hidx] at hu
    by_cases htu : t = u
    · rw [if_pos htu] at hu
      split at hu
      · cases hu; exact hv1
      · cases hu
    · rw [if_neg htu] at hu
      exact hst.idx_ge u w hu
  · exact ho

/-- `removeAt` followed by overwriting the index of the removed timer -/
theorem remove_ok (s : Store) (t : Tid) (i : Nat) (v : Int) (h : HeapInv s) (hi1 : 1 ≤ i)
    (ht : s.idx[t]? = some (i : Int)) (hv1 : -1 ≤ v) (hv2 : v ≤ 0) :
    ∃ s1, removeAt s t i = .ok s1 ∧ HeapInv (setIdx s1 t v) ∧ (setIdx s1 t v).idx[t]? = some v ∧
      (setIdx s1 t v).num + 1 = s.num ∧ (setIdx s1 t v).idx.size = s.idx.size ∧
      (setIdx s1 t v).exp = s.exp ∧
      ∀ u, u ≠ t → ((setIdx s1 t v).idx[u]? = s.idx[u]? ∨ (onHeap s u ∧ onHeap (setIdx s1 t v) u)) := by
  obtain ⟨s1, e1, hst, ho, hn, hfr⟩ := removeAt_ok s t i h hi1 ht
  have hts := lt_of_getElem? ht
  refine ⟨s1, e1, setIdx_inv hst ho hv1 hv2, ?_, hn, ?_, hfr.exp, ?_⟩
  · simp [setIdx, hfr.size, hts]
  · simp [setIdx, hfr.size]
  · intro u hu
    have e : (setIdx s1 t v).idx[u]? = s1.idx[u]? := by
      simp [setIdx, Ne.symm hu]
    unfold onHeap
    rw [e]
    exact hfr.idx u

theorem expOf_congr {s s' : Store} (h : s'.exp = s.exp) (u : Tid) : expOf s' u = expOf s u := by
  unfold expOf; rw [h]

theorem unregister_ok (s : Store) (batch : List Tid) (t : Tid) (h : HeapInv s) (ht : onHeap s t) :
    ∃ s', unregister s batch t = (.ok s', batch) ∧ HeapInv s' ∧ s'.idx[t]? = some (-1) ∧ s'.num + 1 = s.num ∧
      s'.idx.size = s.idx.size ∧
      ∀ u, u ≠ t → (s'.idx[u]? = some (-1) ↔ s.idx[u]? = some (-1)) ∧ (s'.idx[u]? = some 0 ↔ s.idx[u]? = some 0) ∧
        (onHeap s' u ↔ onHeap s u) ∧ expOf s' u = expOf s u := by
  obtain ⟨i, hi1, hti⟩ := ht
  obtain ⟨s1, e1, hinv, h1, h2, h3, h4, h5⟩ := remove_ok s t i (-1) h hi1 hti (by omega) (by omega)
  have hgetD : s.idx.getD t (-1) = (i : Int) := by
    rw [Array.getD_eq_getD_getElem?, hti]; rfl
  have hb1 : ((i : Int) == -1) = false := by
    rw [beq_eq_false_iff_ne]; omega
  have hb2 : ((i : Int) == 0) = false := by
    rw [beq_eq_false_iff_ne]; omega
  refine ⟨setIdx s1 t (-1), ?_, hinv, h1, h2, h3, ?_⟩
  · unfold unregister
    simp only [hgetD, hb1, hb2, Bool.false_eq_true, if_false, Int.toNat_natCast, e1]
    rfl
  · intro u hu
    obtain ⟨q1, q2, q3⟩ := frame_iffs (h5 u hu)
    exact ⟨q1, q2, q3, expOf_congr h4 u⟩

/-! ## the root is a minimum -/

theorem root_le {g s r} (h : Struct g s) (ho : Order s) (hr : s.slot[1]? = some (some r)) :
    ∀ i b, 1 ≤ i → i ≤ s.num → s.slot[i]? = some (some b) → leT s r b := by
  intro i
  induction i using Nat.strongRecOn with
  | _ i ih =>
    intro b hi1 hi2 hb
    by_cases hi : i = 1
    · subst hi; rw [hr] at hb; cases hb; exact le_refl _
    · obtain ⟨a, ha, _⟩ := h.occupied (i / 2) (by omega) (by omega)
      exact leT_trans (ih (i / 2) (by omega) a (by omega) (by omega) ha) (ho i a b (by omega) hi2 ha hb)

theorem root_le_onHeap {s r} (h : HeapInv s) (hr : s.slot[1]? = some (some r)) (t : Tid) (ht : onHeap s t) :
    leT s r t := by
  obtain ⟨hs, ho⟩ := (heapInv_iff s).1 h
  obtain ⟨i, hi1, hti⟩ := ht
  obtain ⟨hi2, hsi⟩ := h.back t i hi1 hti
  exact root_le hs ho hr i t hi1 hi2 hsi

theorem num_pos_of_onHeap {s t} (h : HeapInv s) (ht : onHeap s t) : 1 ≤ s.num := by
  obtain ⟨i, hi1, hti⟩ := ht
  have := (h.back t i hi1 hti).1
  omega

theorem soonest_is_min (s : Store) (h : HeapInv s) (t : Tid) (ht : onHeap s t) :
    ∃ m, soonest s = some m ∧ m.le (expOf s t) := by
  have hn := num_pos_of_onHeap h ht
  obtain ⟨r, hr, _⟩ := h.occupied 1 (Nat.le_refl _) hn
  refine ⟨expOf s r, ?_, root_le_onHeap h hr t ht⟩
  unfold soonest
  rw [if_neg (by omega)]
  simp only [getSlot, hr]

/-! ## `collect` -/

/-- what `collect` promises, relative to an accumulator `acc` -/
def CollectPost (s : Store) (now : TS) (s' : Store) (batch : List Tid) : Prop :=
  HeapInv s' ∧
  batch.Pairwise (fun a b => (expOf s a).le (expOf s b)) ∧
  batch.Nodup ∧
  (∀ t, t ∈ batch ↔ (onHeap s t ∧ (expOf s t).le now)) ∧
  (∀ t, onHeap s' t ↔ (onHeap s t ∧ (expOf s t).gt now = true)) ∧
  (∀ t, t ∈ batch → s'.idx[t]? = some 0) ∧
  (∀ t, expOf s' t = expOf s t) ∧
  (∀ t, ¬ onHeap s t → s'.idx[t]? = s.idx[t]?)

theorem collectPost_nil {s now} (h : HeapInv s) (hall : ∀ t, onHeap s t → (expOf s t).gt now = true) :
    CollectPost s now s [] := by
  refine ⟨h, List.Pairwise.nil, List.nodup_nil, ?_, ?_, ?_, fun _ => rfl, fun _ _ => rfl⟩
  · intro t
    constructor
    · intro ht; cases ht
    · rintro ⟨h1, h2⟩
      have := hall t h1
      unfold TS.le at h2
      rw [h2] at this; cases this
  · intro t
    exact ⟨fun ht => ⟨ht, hall t ht⟩, fun ht => ht.1⟩
  · intro t ht; cases ht

theorem collect_spec (now : TS) : ∀ (fuel : Nat) (s : Store) (acc : List Tid), HeapInv s → s.num ≤ fuel →
    ∃ s' batch, collect s now fuel acc = (.ok s', acc ++ batch) ∧ CollectPost s now s' batch := by
  intro fuel
  induction fuel with
  | zero =>
    intro s acc h hn
    refine ⟨s, [], by simp [collect], collectPost_nil h ?_⟩
    intro t ht
    have := num_pos_of_onHeap h ht
    omega
  | succ fuel ih =>
    intro s acc h hn
    rw [collect]
    by_cases hz : s.num = 0
    · rw [if_pos hz]
      refine ⟨s, [], by simp, collectPost_nil h ?_⟩
      intro t ht
      have := num_pos_of_onHeap h ht
      omega
    · rw [if_neg hz]
      obtain ⟨r, hr, hir⟩ := h.occupied 1 (Nat.le_refl _) (by omega)
      have hgetD : s.idx.getD r (-1) = 1 := by
        rw [Array.getD_eq_getD_getElem?, hir]; rfl
      simp only [getSlot, hr, hgetD, bne_self_eq_false, Bool.false_eq_true, if_false]
      rcases Bool.eq_false_or_eq_true ((expOf s r).gt now) with hgt | hgt
      · -- the root expires after `now`: so does everything else
        rw [if_pos hgt]
        refine ⟨s, [], by simp, collectPost_nil h ?_⟩
        intro t ht
        exact gt_of_gt_of_le hgt (root_le_onHeap h hr t ht)
      · rw [hgt]
        simp only [Bool.false_eq_true, if_false]
        obtain ⟨s1, e1, hinv, h1, h2, h3, h4, h5⟩ := remove_ok s r 1 0 h (Nat.le_refl _) hir (by omega) (by omega)
        rw [e1]
        obtain ⟨s', b', e', p1, p2, p3, p4, p5, p6, p7, p8⟩ :=
          ih (setIdx s1 r 0) (acc ++ [r]) hinv (by omega)
        have hr_on : onHeap s r := ⟨1, Nat.le_refl _, hir⟩
        have hx_r : ¬ onHeap (setIdx s1 r 0) r := by
          rintro ⟨i, hi1, hi⟩
          rw [h1] at hi
          have : (0 : Int) = (i : Int) := Option.some.inj hi
          omega
        have hx_on : ∀ u, onHeap (setIdx s1 r 0) u ↔ (onHeap s u ∧ u ≠ r) := by
          intro u
          by_cases hu : u = r
          · subst hu; simp [hx_r]
          · have := (frame_iffs (h5 u hu)).2.2
            simp [this, hu]
        have hx_exp : ∀ u, expOf (setIdx s1 r 0) u = expOf s u := expOf_congr h4
        refine ⟨s', r :: b', ?_, p1, ?_, ?_, ?_, ?_, ?_, ?_, ?_⟩
        · show collect (setIdx s1 r 0) now fuel (acc ++ [r]) = _
          rw [e']; simp
        · rw [List.pairwise_cons]
          refine ⟨?_, ?_⟩
          · intro x hx
            have := ((hx_on x).1 ((p4 x).1 hx).1).1
            exact root_le_onHeap h hr x this
          · refine p2.imp ?_
            intro a b hab
            rw [← hx_exp a, ← hx_exp b]; exact hab
        · rw [List.nodup_cons]
          exact ⟨fun hx => hx_r ((p4 r).1 hx).1, p3⟩
        · intro t
          rw [List.mem_cons, p4 t, hx_on t, hx_exp t]
          constructor
          · rintro (e | ⟨⟨q1, _⟩, q2⟩)
            · subst e; exact ⟨hr_on, hgt⟩
            · exact ⟨q1, q2⟩
          · rintro ⟨q1, q2⟩
            by_cases e : t = r
            · exact Or.inl e
            · exact Or.inr ⟨⟨q1, e⟩, q2⟩
        · intro t
          rw [p5 t, hx_on t, hx_exp t]
          constructor
          · rintro ⟨⟨q1, _⟩, q2⟩; exact ⟨q1, q2⟩
          · rintro ⟨q1, q2⟩
            refine ⟨⟨q1, ?_⟩, q2⟩
            intro e; subst e; rw [hgt] at q2; cases q2
        · intro t ht
          rw [List.mem_cons] at ht
          rcases ht with e | ht
          · subst e
            rw [p8 t hx_r, h1]
          · exact p6 t ht
        · intro t; rw [p7 t, hx_exp t]
        · intro t ht
          have htr : t ≠ r := fun e => ht (e ▸ hr_on)
          have hx : ¬ onHeap (setIdx s1 r 0) t := fun hh => ht ((hx_on t).1 hh).1
          rw [p8 t hx]
          rcases h5 t htr with e | ⟨q, _⟩
          · exact e
          · exact absurd q ht

theorem collect_sorted (s : Store) (now : TS) (h : HeapInv s) :
    ∃ s' batch, runCollect s now = (.ok s', batch) ∧ HeapInv s' ∧
      batch.Pairwise (fun a b => (expOf s a).le (expOf s b)) ∧
      batch.Nodup ∧
      (∀ t, t ∈ batch ↔ (onHeap s t ∧ (expOf s t).le now)) ∧
      (∀ t, onHeap s' t ↔ (onHeap s t ∧ (expOf s t).gt now = true)) ∧
      (∀ t, t ∈ batch → s'.idx[t]? = some 0) ∧
      (∀ t, expOf s' t = expOf s t) ∧
      (∀ t, ¬ onHeap s t → s'.idx[t]? = s.idx[t]?) := by
  obtain ⟨s', batch, e, hp⟩ := collect_spec now s.num s [] h (Nat.le_refl _)
  exact ⟨s', batch, by rw [runCollect, e]; simp, hp⟩

end Ivy.Heap.Proofs
