import Ivy.L0.FdPoll
/-!
Helper definitions and lemmas for `Ivy/Props/C15poll.lean` (poll/ppoll back end bookkeeping).
-/
namespace Ivy.FdPoll

/-! ## the invariant -/

/-- The representation invariant of the back end between two API calls. -/
structure WF (s : State) : Prop where
  /-- the object in slot `i` knows it is in slot `i` -/
  slot_index : ∀ i, i < s.num → (s.objs (s.fds i)).index = some i
  /-- only registered objects occupy slots -/
  slot_reg : ∀ i, i < s.num → (s.objs (s.fds i)).registered = true
  /-- `pfds[i].fd` is the descriptor of the object in slot `i` -/
  slot_fd : ∀ i, i < s.num → (s.pfds i).fd = (s.objs (s.fds i)).fdnum
  /-- `pfds[i].events` is the mask of the bands that object wants -/
  slot_events : ∀ i, i < s.num → (s.pfds i).events = bitsToPollMask (s.objs (s.fds i)).wanted
  /-- a registered object's index is in range and points at a slot holding that object -/
  obj_slot : ∀ o i, (s.objs o).registered = true → (s.objs o).index = some i →
    i < s.num ∧ s.fds i = o
  /-- a registered object has a slot exactly when it wants some band -/
  obj_wanted : ∀ o, (s.objs o).registered = true →
    ((s.objs o).index ≠ none ↔ (s.objs o).wanted ≠ 0)

/-- `WF` with a hole at object `x`: `x->wanted_bands` (and possibly `x->registered`) has just
been stored and `notify_fd(x)` has not run yet. -/
structure WFx (s : State) (x : Nat) : Prop where
  slot_index : ∀ i, i < s.num → (s.objs (s.fds i)).index = some i
  slot_reg : ∀ i, i < s.num → s.fds i ≠ x → (s.objs (s.fds i)).registered = true
  slot_fd : ∀ i, i < s.num → (s.pfds i).fd = (s.objs (s.fds i)).fdnum
  slot_events : ∀ i, i < s.num → s.fds i ≠ x →
    (s.pfds i).events = bitsToPollMask (s.objs (s.fds i)).wanted
  obj_slot : ∀ o i, ((s.objs o).registered = true ∨ o = x) → (s.objs o).index = some i →
    i < s.num ∧ s.fds i = o
  obj_wanted : ∀ o, o ≠ x → (s.objs o).registered = true →
    ((s.objs o).index ≠ none ↔ (s.objs o).wanted ≠ 0)
  /-- an object being unregistered wants nothing -/
  x_unreg : (s.objs x).registered = false → (s.objs x).wanted = 0

@[simp] theorem upd_same {α} (f : Nat → α) (i : Nat) (v : α) : upd f i v i = v := by simp [upd]
theorem upd_other {α} (f : Nat → α) (i j : Nat) (v : α) (h : j ≠ i) : upd f i v j = f j := by
  simp [upd, h]
theorem upd_apply {α} (f : Nat → α) (i j : Nat) (v : α) :
    upd f i v j = if j = i then v else f j := rfl

/-! ## `notifyFd`, branch by branch -/

theorem notifyFd_add {s : State} {x : Nat} (hi : (s.objs x).index = none)
    (hw : (s.objs x).wanted ≠ 0) :
    notifyFd s x =
      { pfds := upd s.pfds s.num ⟨(s.objs x).fdnum, bitsToPollMask (s.objs x).wanted⟩,
        fds := upd s.fds s.num x, num := s.num + 1,
        objs := upd s.objs x { s.objs x with index := some s.num } } := by
  simp [notifyFd, hi, hw, State.setIndex, State.setObj]
  funext j; simp only [upd_apply]; split <;> rfl

theorem notifyFd_noop {s : State} {x : Nat} (hi : (s.objs x).index = none)
    (hw : (s.objs x).wanted = 0) : notifyFd s x = s := by
  simp [notifyFd, hi, hw]

theorem notifyFd_mod {s : State} {x i : Nat} (hi : (s.objs x).index = some i)
    (hw : (s.objs x).wanted ≠ 0) :
    notifyFd s x =
      { s with pfds := upd s.pfds i ⟨(s.pfds i).fd, bitsToPollMask (s.objs x).wanted⟩ } := by
  simp [notifyFd, hi, hw]

theorem notifyFd_del_last {s : State} {x i : Nat} (hi : (s.objs x).index = some i)
    (hw : (s.objs x).wanted = 0) (hl : i = s.num - 1) :
    notifyFd s x =
      { s with num := s.num - 1, objs := upd s.objs x { s.objs x with index := none } } := by
  simp [notifyFd, hi, hw, hl, State.setIndex, State.setObj]

theorem notifyFd_del_swap {s : State} {x i : Nat} (hi : (s.objs x).index = some i)
    (hw : (s.objs x).wanted = 0) (hl : i ≠ s.num - 1) :
    notifyFd s x =
      let last := s.fds (s.num - 1)
      let objs1 := upd s.objs last { s.objs last with index := some i }
      { pfds := upd s.pfds i (s.pfds (s.num - 1)), fds := upd s.fds i last, num := s.num - 1,
        objs := upd objs1 x { objs1 x with index := none } } := by
  simp [notifyFd, hi, hw, hl, State.setIndex, State.setObj]

/-- the central step: `iv_fd_poll_notify_fd` closes the hole -/
theorem notifyFd_wf {s : State} {x : Nat} (h : WFx s x) : WF (notifyFd s x) := by
  obtain ⟨h1, h2, h3, h4, h5, h6, h7⟩ := h
  cases hi : (s.objs x).index with
  | none =>
    by_cases hw : (s.objs x).wanted = 0
    · rw [notifyFd_noop hi hw]
      constructor <;> grind
    · rw [notifyFd_add hi hw]
      constructor <;> simp only [upd_apply] <;> grind
  | some i =>
    by_cases hw : (s.objs x).wanted = 0
    · by_cases hl : i = s.num - 1
      · rw [notifyFd_del_last hi hw hl]
        constructor <;> simp only [upd_apply] <;> grind
      · rw [notifyFd_del_swap hi hw hl]
        constructor <;> simp only [upd_apply] <;> grind
    · rw [notifyFd_mod hi hw]
      constructor <;> simp only [upd_apply] <;> grind

/-! ## opening the hole -/

/-- any store to an unregistered object that leaves it unregistered (`fd->fd = n`,
`fd->handler_in = h`, the failure path of iv_fd_register_try) -/
theorem wf_store_unregistered {s : State} (h : WF s) {x : Nat} (v : Obj)
    (hv : v.registered = false) (hx : (s.objs x).registered = false) :
    WF (s.setObj x v) := by
  obtain ⟨h1, h2, h3, h4, h5, h6⟩ := h
  constructor <;> simp only [State.setObj, upd_apply] <;> grind

/-- the general store: whatever iv_fd.c writes into `x` before calling `notify_fd(x)` -/
theorem wfx_store {s : State} (h : WF s) {x : Nat} (v : Obj)
    (h1 : (s.objs x).registered = true → v.index = (s.objs x).index ∧ v.fdnum = (s.objs x).fdnum)
    (h2 : (s.objs x).registered = false → v.index = none)
    (h3 : v.registered = false → v.wanted = 0) : WFx (s.setObj x v) x := by
  obtain ⟨g1, g2, g3, g4, g5, g6⟩ := h
  constructor <;> simp only [State.setObj, upd_apply] <;> grind

@[simp] theorem setObj_setObj (s : State) (x : Nat) (a b : Obj) :
    (s.setObj x a).setObj x b = s.setObj x b := by
  simp only [State.setObj, State.mk.injEq, true_and]
  funext j; simp only [upd_apply]; split <;> rfl

@[simp] theorem setObj_objs_same (s : State) (x : Nat) (a : Obj) : (s.setObj x a).objs x = a := by
  simp [State.setObj]

theorem setObj_objs_other (s : State) (x y : Nat) (a : Obj) (h : y ≠ x) :
    (s.setObj x a).objs y = s.objs y := by
  simp [State.setObj, upd_apply, h]

@[simp] theorem setObj_num (s : State) (x : Nat) (a : Obj) : (s.setObj x a).num = s.num := rfl
@[simp] theorem setObj_pfds (s : State) (x : Nat) (a : Obj) : (s.setObj x a).pfds = s.pfds := rfl
@[simp] theorem setObj_fds (s : State) (x : Nat) (a : Obj) : (s.setObj x a).fds = s.fds := rfl

/-! ## what `notifyFd` never writes -/

/-- `iv_fd_poll_notify_fd` writes nothing but `u.index` in any object -/
theorem notifyFd_obj_fields (s : State) (x o : Nat) :
    ((notifyFd s x).objs o).registered = (s.objs o).registered ∧
    ((notifyFd s x).objs o).wanted = (s.objs o).wanted ∧
    ((notifyFd s x).objs o).fdnum = (s.objs o).fdnum ∧
    ((notifyFd s x).objs o).hin = (s.objs o).hin ∧
    ((notifyFd s x).objs o).hout = (s.objs o).hout ∧
    ((notifyFd s x).objs o).herr = (s.objs o).herr := by
  cases hi : (s.objs x).index with
  | none =>
    by_cases hw : (s.objs x).wanted = 0
    · rw [notifyFd_noop hi hw]; simp
    · rw [notifyFd_add hi hw]; simp only [upd_apply]; grind
  | some i =>
    by_cases hw : (s.objs x).wanted = 0
    · by_cases hl : i = s.num - 1
      · rw [notifyFd_del_last hi hw hl]; simp only [upd_apply]; grind
      · rw [notifyFd_del_swap hi hw hl]; simp only [upd_apply]; grind
    · rw [notifyFd_mod hi hw]; simp

/-! ## every API call preserves the invariant -/

theorem setWanted_wf {s : State} (h : WF s) {x : Nat} (hx : (s.objs x).registered = true)
    (b : Nat) : WF (setWanted s x b) :=
  notifyFd_wf (wfx_store h _ (fun _ => ⟨rfl, rfl⟩) (by simp [hx]) (by simp [hx]))

theorem step_wf {s : State} (h : WF s) (op : Op) : WF (step s op) := by
  cases op with
  | setFd o n =>
    simp only [step, stepG]
    split
    · exact h
    · exact wf_store_unregistered h _ (by simp_all) (by simp_all)
  | setHandler o b on =>
    simp only [step, stepG]
    split
    · rename_i hr
      simp only [notifyG, setWantedG, setObj_setObj, setObj_objs_same]
      apply notifyFd_wf
      apply wfx_store h
      · intro _; cases b <;> simp [Obj.setHandler]
      · simp [hr]
      · cases b <;> simp [Obj.setHandler, hr]
    · rename_i hr
      apply wf_store_unregistered h
      · cases b <;> simp_all [Obj.setHandler]
      · simp_all
  | register o =>
    simp only [step, stepG]
    split
    · exact h
    · rename_i hr
      simp only [Bool.or_eq_true, not_or, Bool.not_eq_true] at hr
      simp only [notifyG, setWantedG, registerFd, State.setIndex, setObj_setObj, setObj_objs_same]
      apply notifyFd_wf
      apply wfx_store h
      · simp [hr.1]
      · simp
      · simp
  | registerTry o ok =>
    simp only [step, stepG]
    split
    · exact h
    · rename_i hr
      simp only [Bool.or_eq_true, not_or, Bool.not_eq_true] at hr
      simp only [notifyFdSyncG, registerFd, State.setIndex, setObj_setObj, setObj_objs_same]
      cases ok with
      | false =>
        simp only [Bool.not_false, if_true, setObj_setObj, setObj_objs_same]
        exact wf_store_unregistered h _ rfl hr.1
      | true =>
        simp only [Bool.not_true, Bool.false_eq_true, if_false]
        have hA : ∀ v : Obj, v.index = none → v.registered = true →
            WF (notifyFd (s.setObj o v) o) := fun v h1 h2 =>
          notifyFd_wf (wfx_store h v (by simp [hr.1]) (fun _ => h1) (by simp [h2]))
        split
        · apply setWanted_wf (hA _ rfl rfl)
          rw [(notifyFd_obj_fields _ _ _).1]; simp
        · exact hA _ rfl rfl
  | unregister o =>
    simp only [step, stepG]
    split
    · exact h
    · rename_i hr
      simp only [Bool.not_eq_true', Bool.not_eq_false] at hr
      simp only [notifyG, setWantedG, setObj_setObj, setObj_objs_same]
      apply notifyFd_wf
      apply wfx_store h
      · simp
      · simp [hr]
      · simp [recomputeWanted]

theorem run_wf {s : State} (h : WF s) (ops : List Op) : WF (run s ops) := by
  induction ops generalizing s with
  | nil => exact h
  | cons op ops ih => exact ih (step_wf h op)

theorem init_wf : WF init := by
  constructor <;> simp [init]

/-! ## `wanted_bands` is tied to the handlers -/

@[simp] theorem notifyFd_registered (s : State) (x o : Nat) :
    ((notifyFd s x).objs o).registered = (s.objs o).registered := (notifyFd_obj_fields s x o).1
@[simp] theorem notifyFd_wanted (s : State) (x o : Nat) :
    ((notifyFd s x).objs o).wanted = (s.objs o).wanted := (notifyFd_obj_fields s x o).2.1
@[simp] theorem notifyFd_fdnum (s : State) (x o : Nat) :
    ((notifyFd s x).objs o).fdnum = (s.objs o).fdnum := (notifyFd_obj_fields s x o).2.2.1
@[simp] theorem notifyFd_hin (s : State) (x o : Nat) :
    ((notifyFd s x).objs o).hin = (s.objs o).hin := (notifyFd_obj_fields s x o).2.2.2.1
@[simp] theorem notifyFd_hout (s : State) (x o : Nat) :
    ((notifyFd s x).objs o).hout = (s.objs o).hout := (notifyFd_obj_fields s x o).2.2.2.2.1
@[simp] theorem notifyFd_herr (s : State) (x o : Nat) :
    ((notifyFd s x).objs o).herr = (s.objs o).herr := (notifyFd_obj_fields s x o).2.2.2.2.2

@[simp] theorem notifyFd_recompute (s : State) (x o : Nat) :
    recomputeWanted ((notifyFd s x).objs o) = recomputeWanted (s.objs o) := by
  simp [recomputeWanted]

/-- between API calls `wanted_bands` of a registered object is what `recompute_wanted_flags`
computes from its three handlers -/
def Tied (s : State) : Prop :=
  ∀ o, (s.objs o).registered = true → (s.objs o).wanted = recomputeWanted (s.objs o)

theorem step_tied {s : State} (h : Tied s) (op : Op) : Tied (step s op) := by
  intro o'
  have h' := h o'
  cases op with
  | setFd o n =>
    simp only [step, stepG]
    split
    · exact h'
    · by_cases ho : o' = o
      · subst ho; simp_all
      · rw [setObj_objs_other _ _ _ _ ho]; exact h'
  | setHandler o b on =>
    simp only [step, stepG]
    split
    · simp only [notifyG, setWantedG, setObj_setObj, setObj_objs_same, notifyFd_registered,
        notifyFd_wanted, notifyFd_recompute]
      by_cases ho : o' = o
      · subst ho; cases b <;> simp [Obj.setHandler, recomputeWanted]
      · rw [setObj_objs_other _ _ _ _ ho]; exact h'
    · by_cases ho : o' = o
      · subst ho; cases b <;> simp_all [Obj.setHandler]
      · rw [setObj_objs_other _ _ _ _ ho]; exact h'
  | register o =>
    simp only [step, stepG]
    split
    · exact h'
    · simp only [notifyG, setWantedG, registerFd, State.setIndex, setObj_setObj, setObj_objs_same,
        notifyFd_registered, notifyFd_wanted, notifyFd_recompute]
      by_cases ho : o' = o
      · subst ho; simp [recomputeWanted]
      · rw [setObj_objs_other _ _ _ _ ho]; exact h'
  | registerTry o ok =>
    simp only [step, stepG]
    split
    · exact h'
    · simp only [notifyFdSyncG, registerFd, State.setIndex, setObj_setObj, setObj_objs_same]
      cases ok with
      | false =>
        simp only [Bool.not_false, if_true, setObj_setObj, setObj_objs_same]
        by_cases ho : o' = o
        · subst ho; simp
        · rw [setObj_objs_other _ _ _ _ ho]; exact h'
      | true =>
        simp only [Bool.not_true, Bool.false_eq_true, if_false]
        split
        · rename_i h0
          simp only [setWantedG, notifyFd_registered, notifyFd_wanted, notifyFd_recompute,
            notifyFd_fdnum, notifyFd_hin, notifyFd_hout, notifyFd_herr]
          by_cases ho : o' = o
          · subst ho
            simp only [setObj_objs_same]
            intro _
            simpa [recomputeWanted] using h0.symm
          · rw [setObj_objs_other _ _ _ _ ho, notifyFd_registered, notifyFd_wanted,
              notifyFd_recompute, setObj_objs_other _ _ _ _ ho]; exact h'
        · rename_i h0
          simp only [notifyFd_registered, notifyFd_wanted, notifyFd_recompute]
          by_cases ho : o' = o
          · subst ho
            simp only [setObj_objs_same]
            intro _
            simp [recomputeWanted]
          · rw [setObj_objs_other _ _ _ _ ho]; exact h'
  | unregister o =>
    simp only [step, stepG]
    split
    · exact h'
    · simp only [notifyG, setWantedG, setObj_setObj, setObj_objs_same,
        notifyFd_registered, notifyFd_wanted, notifyFd_recompute]
      by_cases ho : o' = o
      · subst ho; simp
      · rw [setObj_objs_other _ _ _ _ ho]; exact h'

theorem run_tied {s : State} (h : Tied s) (ops : List Op) : Tied (run s ops) := by
  induction ops generalizing s with
  | nil => exact h
  | cons op ops ih => exact ih (step_tied h op)

/-! ## frame: a call on `x` never changes the poll entry of another object -/

/-- the `struct pollfd` currently polled on behalf of `o`, if any -/
def slotEntry (s : State) (o : Nat) : Option PollFd := (s.objs o).index.map s.pfds

/-- the premises of `wfx_store` -/
def StoreOk (s : State) (x : Nat) (v : Obj) : Prop :=
  ((s.objs x).registered = true → v.index = (s.objs x).index ∧ v.fdnum = (s.objs x).fdnum) ∧
  ((s.objs x).registered = false → v.index = none) ∧
  (v.registered = false → v.wanted = 0)

def handlerObj (fd : Obj) (b : Band) (on : Bool) : Obj :=
  { (fd.setHandler b on) with wanted := recomputeWanted (fd.setHandler b on) }
def regObj (fd : Obj) : Obj :=
  { fd with registered := true, index := none,
            wanted := recomputeWanted { fd with registered := true, index := none } }
def unregObj (fd : Obj) : Obj :=
  { fd with registered := false, wanted := recomputeWanted { fd with registered := false } }

/-- every API call is: nothing / a store to an unregistered object / a store followed by
`notify_fd` / (register_try without handlers) store, `notify_fd`, `wanted = 0`, `notify_fd` -/
theorem step_shape (s : State) (op : Op) :
    step s op = s ∨
    (∃ v, step s op = s.setObj op.obj v ∧ (s.objs op.obj).registered = false ∧
      v.registered = false) ∨
    (∃ v, step s op = notifyFd (s.setObj op.obj v) op.obj ∧ StoreOk s op.obj v) ∨
    (∃ v, step s op = setWanted (notifyFd (s.setObj op.obj v) op.obj) op.obj 0 ∧
      StoreOk s op.obj v ∧ v.registered = true) := by
  cases op with
  | setFd o n =>
    simp only [step, stepG, Op.obj]
    split
    · exact .inl rfl
    · exact .inr (.inl ⟨_, rfl, by simp_all, by simp_all⟩)
  | setHandler o b on =>
    simp only [step, stepG, Op.obj]
    split
    · rename_i hr
      refine .inr (.inr (.inl ⟨handlerObj (s.objs o) b on, ?_, ?_, ?_, ?_⟩))
      · simp only [notifyG, setWantedG, setObj_setObj, setObj_objs_same, handlerObj]
      · intro _; cases b <;> simp [Obj.setHandler, handlerObj]
      · simp [hr]
      · cases b <;> simp [Obj.setHandler, handlerObj, hr]
    · refine .inr (.inl ⟨_, rfl, by simp_all, ?_⟩)
      cases b <;> simp_all [Obj.setHandler]
  | register o =>
    simp only [step, stepG, Op.obj]
    split
    · exact .inl rfl
    · rename_i hr
      simp only [Bool.or_eq_true, not_or, Bool.not_eq_true] at hr
      refine .inr (.inr (.inl ⟨regObj (s.objs o), ?_, ?_, ?_, ?_⟩))
      · simp only [notifyG, setWantedG, registerFd, State.setIndex, setObj_setObj,
          setObj_objs_same, regObj]
      · simp [hr.1]
      · simp [regObj]
      · simp [regObj]
  | registerTry o ok =>
    simp only [step, stepG, Op.obj]
    split
    · exact .inl rfl
    · rename_i hr
      simp only [Bool.or_eq_true, not_or, Bool.not_eq_true] at hr
      simp only [notifyFdSyncG, registerFd, State.setIndex, setObj_setObj, setObj_objs_same]
      cases ok with
      | false =>
        simp only [Bool.not_false, if_true, setObj_setObj, setObj_objs_same]
        exact .inr (.inl ⟨_, rfl, hr.1, rfl⟩)
      | true =>
        simp only [Bool.not_true, Bool.false_eq_true, if_false]
        split
        · refine .inr (.inr (.inr ⟨_, rfl, ⟨?_, ?_, ?_⟩, rfl⟩))
          · simp [hr.1]
          · simp
          · simp
        · refine .inr (.inr (.inl ⟨_, rfl, ?_, ?_, ?_⟩))
          · simp [hr.1]
          · simp
          · simp
  | unregister o =>
    simp only [step, stepG, Op.obj]
    split
    · exact .inl rfl
    · rename_i hr
      simp only [Bool.not_eq_true', Bool.not_eq_false] at hr
      refine .inr (.inr (.inl ⟨unregObj (s.objs o), ?_, ?_, ?_, ?_⟩))
      · simp only [notifyG, setWantedG, setObj_setObj, setObj_objs_same, unregObj]
      · simp [unregObj]
      · simp [hr]
      · simp [recomputeWanted, unregObj]

/-- `notify_fd(x)` leaves the entry of every other registered object alone, and moves it only
when it sat in the last slot and `x` is removed from an earlier one -/
theorem notifyFd_frame {s : State} {x : Nat} (h : WFx s x) {o : Nat} (ho : o ≠ x)
    (hr : (s.objs o).registered = true) :
    slotEntry (notifyFd s x) o = slotEntry s o ∧
    (((notifyFd s x).objs o).index = (s.objs o).index ∨
      ((s.objs o).index = some (s.num - 1) ∧ (s.objs x).wanted = 0 ∧
        ((notifyFd s x).objs o).index = (s.objs x).index)) := by
  obtain ⟨h1, h2, h3, h4, h5, h6, h7⟩ := h
  unfold slotEntry
  cases hi : (s.objs x).index with
  | none =>
    by_cases hw : (s.objs x).wanted = 0
    · rw [notifyFd_noop hi hw]; simp
    · rw [notifyFd_add hi hw]; simp only [upd_apply, if_neg ho]
      cases hio : (s.objs o).index with
      | none => simp
      | some k =>
        have := h5 o k (.inl hr) hio
        simp only [Option.map_some, upd_apply]; grind
  | some i =>
    by_cases hw : (s.objs x).wanted = 0
    · by_cases hl : i = s.num - 1
      · rw [notifyFd_del_last hi hw hl]; simp only [upd_apply, if_neg ho]; simp
      · rw [notifyFd_del_swap hi hw hl]; simp only [upd_apply, if_neg ho]
        have hx := h5 x i (.inr rfl) hi
        cases hio : (s.objs o).index with
        | none =>
          have : o ≠ s.fds (s.num - 1) := by
            intro hc; have := h1 (s.num - 1) (by omega); grind
          simp [this, hio]
        | some k =>
          have hk := h5 o k (.inl hr) hio
          by_cases hlast : o = s.fds (s.num - 1)
          · have hkk := h1 (s.num - 1) (by omega)
            rw [← hlast, hio] at hkk
            simp only [Option.some.injEq] at hkk
            simp [← hlast, hw, hkk]
          · have : k ≠ s.num - 1 := by intro hc; apply hlast; rw [← hc]; exact hk.2.symm
            have hki : k ≠ i := by intro hc; apply ho; rw [← hk.2, hc]; exact hx.2
            simp only [if_neg hlast, hio, Option.map_some, upd_other _ _ _ _ hki]; simp
    · rw [notifyFd_mod hi hw]
      have hx := h5 x i (.inr rfl) hi
      cases hio : (s.objs o).index with
      | none => simp
      | some k =>
        have hk := h5 o k (.inl hr) hio
        have hki : k ≠ i := by intro hc; apply ho; rw [← hk.2, hc]; exact hx.2
        simp [upd_other _ _ _ _ hki]

/-- an object with `u.index` blanked: everything the back end never writes -/
def Obj.noIndex (fd : Obj) : Obj := { fd with index := none }

theorem notifyFd_noIndex (s : State) (x o : Nat) :
    ((notifyFd s x).objs o).noIndex = (s.objs o).noIndex := by
  have := notifyFd_obj_fields s x o
  cases h1 : (notifyFd s x).objs o; cases h2 : s.objs o
  simp_all [Obj.noIndex]

theorem slotEntry_setObj_other (s : State) (x o : Nat) (v : Obj) (h : o ≠ x) :
    slotEntry (s.setObj x v) o = slotEntry s o := by
  simp [slotEntry, setObj_objs_other _ _ _ _ h]

theorem setWanted_frame {s : State} (h : WF s) {x : Nat} (hx : (s.objs x).registered = true)
    (b : Nat) {o : Nat} (ho : o ≠ x) (hr : (s.objs o).registered = true) :
    slotEntry (setWanted s x b) o = slotEntry s o ∧
    ((setWanted s x b).objs o).noIndex = (s.objs o).noIndex := by
  simp only [setWanted, setWantedG]
  rw [notifyFd_noIndex, setObj_objs_other _ _ _ _ ho]
  refine ⟨?_, rfl⟩
  have hx' : WFx (s.setObj x { s.objs x with wanted := b }) x :=
    wfx_store h _ (fun _ => ⟨rfl, rfl⟩) (by simp [hx]) (by simp [hx])
  rw [(notifyFd_frame hx' ho (by rw [setObj_objs_other _ _ _ _ ho]; exact hr)).1,
    slotEntry_setObj_other _ _ _ _ ho]

theorem step_frame {s : State} (h : WF s) (op : Op) {o : Nat} (ho : o ≠ op.obj)
    (hr : (s.objs o).registered = true) :
    slotEntry (step s op) o = slotEntry s o ∧
    ((step s op).objs o).noIndex = (s.objs o).noIndex := by
  have hro : ∀ v, ((s.setObj op.obj v).objs o).registered = true := fun v => by
    rw [setObj_objs_other _ _ _ _ ho]; exact hr
  rcases step_shape s op with e | ⟨v, e, _, _⟩ | ⟨v, e, hv⟩ | ⟨v, e, hv, hvr⟩
  · rw [e]; exact ⟨rfl, rfl⟩
  · rw [e, slotEntry_setObj_other _ _ _ _ ho, setObj_objs_other _ _ _ _ ho]; exact ⟨rfl, rfl⟩
  · rw [e, notifyFd_noIndex, setObj_objs_other _ _ _ _ ho]
    refine ⟨?_, rfl⟩
    rw [(notifyFd_frame (wfx_store h v hv.1 hv.2.1 hv.2.2) ho (hro v)).1,
      slotEntry_setObj_other _ _ _ _ ho]
  · have hw1 := notifyFd_wf (wfx_store h v hv.1 hv.2.1 hv.2.2)
    have hx1 : ((notifyFd (s.setObj op.obj v) op.obj).objs op.obj).registered = true := by
      simp [hvr]
    have hr1 : ((notifyFd (s.setObj op.obj v) op.obj).objs o).registered = true := by
      rw [notifyFd_registered]; exact hro v
    have h2 := setWanted_frame hw1 hx1 0 ho hr1
    rw [e, h2.1, h2.2, notifyFd_noIndex, setObj_objs_other _ _ _ _ ho]
    refine ⟨?_, rfl⟩
    rw [(notifyFd_frame (wfx_store h v hv.1 hv.2.1 hv.2.2) ho (hro v)).1,
      slotEntry_setObj_other _ _ _ _ ho]

/-! ## refinement: the first `num` slots are the abstract poll set -/

/-- `o` is to be polled: registered with at least one handler -/
def isWanted (s : State) (o : Nat) : Bool := (s.objs o).registered && (s.objs o).wanted != 0

/-- what the kernel should be asked on behalf of `o` -/
def entryOf (s : State) (o : Nat) : PollFd :=
  ⟨(s.objs o).fdnum, bitsToPollMask (s.objs o).wanted⟩

/-- the array handed to `poll()`: the first `num` entries of `pfds[]` -/
def pollArray (s : State) : List PollFd := (List.range s.num).map s.pfds

/-- the abstract poll set, listed along a duplicate-free enumeration `univ` of the objects -/
def pollSet (s : State) (univ : List Nat) : List PollFd :=
  (univ.filter (isWanted s)).map (entryOf s)

theorem mem_slots_iff {s : State} (h : WF s) (o : Nat) :
    o ∈ (List.range s.num).map s.fds ↔ isWanted s o = true := by
  obtain ⟨h1, h2, h3, h4, h5, h6⟩ := h
  simp only [List.mem_map, List.mem_range, isWanted, Bool.and_eq_true, bne_iff_ne]
  constructor
  · rintro ⟨i, hi, rfl⟩
    exact ⟨h2 i hi, (h6 _ (h2 i hi)).1 (by simp [h1 i hi])⟩
  · rintro ⟨hr, hw⟩
    have := (h6 o hr).2 hw
    cases hi : (s.objs o).index with
    | none => exact absurd hi this
    | some i => exact ⟨i, h5 o i hr hi⟩

theorem slots_nodup {s : State} (h : WF s) : ((List.range s.num).map s.fds).Nodup := by
  rw [List.nodup_iff_pairwise_ne]
  refine List.Pairwise.map _ ?_ (List.pairwise_lt_range.imp_of_mem
    (S := fun a b => a < s.num ∧ b < s.num ∧ a < b) ?_)
  · rintro a b ⟨ha, hb, hab⟩ he
    have := h.slot_index a ha
    rw [he, h.slot_index b hb] at this
    simp only [Option.some.injEq] at this
    omega
  · intro a b ha hb hab
    exact ⟨List.mem_range.1 ha, List.mem_range.1 hb, hab⟩

theorem slots_perm {s : State} (h : WF s) {univ : List Nat} (hnd : univ.Nodup)
    (hcov : ∀ o, (s.objs o).registered = true → o ∈ univ) :
    ((List.range s.num).map s.fds).Perm (univ.filter (isWanted s)) := by
  rw [List.perm_ext_iff_of_nodup (slots_nodup h) (hnd.sublist List.filter_sublist)]
  intro o
  rw [mem_slots_iff h, List.mem_filter]
  constructor
  · intro hw
    refine ⟨hcov o ?_, hw⟩
    simp only [isWanted, Bool.and_eq_true] at hw
    exact hw.1
  · exact fun hw => hw.2

theorem pollArray_eq {s : State} (h : WF s) :
    pollArray s = ((List.range s.num).map s.fds).map (entryOf s) := by
  simp only [pollArray, List.map_map]
  apply List.map_congr_left
  intro i hi
  have hi := List.mem_range.1 hi
  have h3 := h.slot_fd i hi
  have h4 := h.slot_events i hi
  cases hp : s.pfds i
  simp_all [entryOf]

theorem pollArray_perm {s : State} (h : WF s) {univ : List Nat} (hnd : univ.Nodup)
    (hcov : ∀ o, (s.objs o).registered = true → o ∈ univ) :
    (pollArray s).Perm (pollSet s univ) := by
  rw [pollArray_eq h]
  exact (slots_perm h hnd hcov).map _

theorem num_eq_count {s : State} (h : WF s) {univ : List Nat} (hnd : univ.Nodup)
    (hcov : ∀ o, (s.objs o).registered = true → o ∈ univ) :
    s.num = (univ.filter (isWanted s)).length := by
  have := (slots_perm h hnd hcov).length_eq
  simpa using this

/-! ## only objects named by the calls are ever registered -/

theorem step_registered_sub {s : State} (op : Op) (o : Nat)
    (h : ((step s op).objs o).registered = true) :
    (s.objs o).registered = true ∨ o = op.obj := by
  by_cases ho : o = op.obj
  · exact .inr ho
  · left
    rcases step_shape s op with e | ⟨v, e, _, _⟩ | ⟨v, e, _⟩ | ⟨v, e, _, _⟩
    · rwa [e] at h
    · rwa [e, setObj_objs_other _ _ _ _ ho] at h
    · rwa [e, notifyFd_registered, setObj_objs_other _ _ _ _ ho] at h
    · rw [e] at h
      simp only [setWanted, setWantedG, notifyFd_registered] at h
      rwa [setObj_objs_other _ _ _ _ ho, notifyFd_registered, setObj_objs_other _ _ _ _ ho] at h

theorem run_registered_sub {s : State} (ops : List Op) (o : Nat)
    (h : ((run s ops).objs o).registered = true) :
    (s.objs o).registered = true ∨ o ∈ ops.map Op.obj := by
  induction ops generalizing s with
  | nil => exact .inl h
  | cons op ops ih =>
    rcases ih (s := step s op) h with h' | h'
    · rcases step_registered_sub op o h' with h'' | h''
      · exact .inl h''
      · exact .inr (by simp [h''])
    · exact .inr (by simp [h'])

/-- duplicate-free list of the same elements -/
def dedup : List Nat → List Nat
  | [] => []
  | a :: l => if a ∈ dedup l then dedup l else a :: dedup l

theorem mem_dedup {a : Nat} {l : List Nat} : a ∈ dedup l ↔ a ∈ l := by
  induction l generalizing a with
  | nil => simp [dedup]
  | cons b l ih =>
    simp only [dedup]
    split
    · rename_i hb
      have := ih.1 hb
      simp only [ih, List.mem_cons]
      constructor
      · exact .inr
      · rintro (rfl | h) <;> assumption
    · simp [ih]

theorem nodup_dedup (l : List Nat) : (dedup l).Nodup := by
  induction l with
  | nil => simp [dedup]
  | cons b l ih =>
    simp only [dedup]
    split
    · exact ih
    · exact List.nodup_cons.2 ⟨by assumption, ih⟩

/-! ## dispatch -/

theorem mem_activate {s : State} {rev : Nat → Nat} {o b : Nat} :
    (o, b) ∈ activate s rev ↔ ∃ i, i < s.num ∧ s.fds i = o ∧ b ∈ bandsOf (rev i) := by
  simp only [activate, List.mem_flatMap, List.mem_range, List.mem_map, Prod.mk.injEq]
  constructor
  · rintro ⟨i, hi, b', hb, rfl, rfl⟩; exact ⟨i, hi, rfl, hb⟩
  · rintro ⟨i, hi, rfl, hb⟩; exact ⟨i, hi, b, hb, rfl, rfl⟩

/-- what `poll()` leaves in `pfds[i].revents` when the kernel answers `K fd events` for a
descriptor `fd` polled for `events` -/
def kernelRevents (s : State) (K : Nat → Nat → Nat) : Nat → Nat :=
  fun i => K (s.pfds i).fd (s.pfds i).events

theorem mem_activate_kernel {s : State} (h : WF s) (K : Nat → Nat → Nat) (o b : Nat) :
    (o, b) ∈ activate s (kernelRevents s K) ↔
      isWanted s o = true ∧ b ∈ bandsOf (K (s.objs o).fdnum (bitsToPollMask (s.objs o).wanted)) := by
  rw [mem_activate]
  constructor
  · rintro ⟨i, hi, rfl, hb⟩
    refine ⟨(mem_slots_iff h _).1 (List.mem_map.2 ⟨i, List.mem_range.2 hi, rfl⟩), ?_⟩
    simpa [kernelRevents, h.slot_fd i hi, h.slot_events i hi] using hb
  · rintro ⟨hw, hb⟩
    obtain ⟨i, hi, rfl⟩ := List.mem_map.1 ((mem_slots_iff h o).2 hw)
    have hi := List.mem_range.1 hi
    exact ⟨i, hi, rfl, by simpa [kernelRevents, h.slot_fd i hi, h.slot_events i hi] using hb⟩

theorem bandsOf_mem (r b : Nat) :
    b ∈ bandsOf r ↔
      (b = MASKIN ∧ r &&& (POLLIN ||| POLLERR ||| POLLHUP) ≠ 0) ∨
      (b = MASKOUT ∧ r &&& (POLLOUT ||| POLLERR ||| POLLHUP) ≠ 0) ∨
      (b = MASKERR ∧ r &&& (POLLERR ||| POLLHUP) ≠ 0) := by
  simp only [bandsOf, List.mem_append]
  constructor
  · rintro ((h | h) | h) <;> split at h <;> simp_all
  · rintro (⟨rfl, h⟩ | ⟨rfl, h⟩ | ⟨rfl, h⟩) <;> simp [h]

/-! ## capacity: when do `pfds[]` / `fds[]` (IV_FD_POLL_MAXFD entries) suffice? -/

theorem length_filter_split (l : List Nat) (p : Nat → Bool) :
    l.length = (l.filter p).length + (l.filter (fun x => !p x)).length := by
  induction l with
  | nil => simp
  | cons a l ih =>
    simp only [List.filter_cons]
    cases p a <;> simp <;> omega

theorem nodup_bounded_length : ∀ (n : Nat) (l : List Nat), l.Nodup → (∀ x ∈ l, x < n) → l.length ≤ n := by
  intro n
  induction n with
  | zero =>
    intro l _ hb
    cases l with
    | nil => simp
    | cons a l => exact absurd (hb a (by simp)) (by omega)
  | succ n ih =>
    intro l hnd hb
    have h1 := ih (l.filter (fun x => !(x == n))) (hnd.sublist List.filter_sublist) (by
      intro x hx
      have hm := List.mem_filter.1 hx
      have := hb x hm.1
      have : x ≠ n := by simpa using hm.2
      omega)
    have h2 : (l.filter (fun x => x == n)).length ≤ 1 := by
      have := (List.nodup_iff_count.1 hnd) n
      rwa [List.count_eq_length_filter] at this
    have h3 := length_filter_split l (fun x => x == n)
    omega

/-- descriptor numbers of registered objects are below `IV_FD_POLL_MAXFD`
(`iv_fd_poll_register_fd` refuses others) -/
def FdBound (s : State) : Prop :=
  ∀ o, (s.objs o).registered = true → (s.objs o).fdnum < MAXFD

theorem step_fdBound {s : State} (h : FdBound s) (op : Op) : FdBound (step s op) := by
  intro o'
  have h' := h o'
  cases op with
  | setFd o n =>
    simp only [step, stepG]
    split
    · exact h'
    · by_cases ho : o' = o
      · subst ho; simp_all
      · rw [setObj_objs_other _ _ _ _ ho]; exact h'
  | setHandler o b on =>
    simp only [step, stepG]
    split
    · simp only [notifyG, setWantedG, setObj_setObj, setObj_objs_same, notifyFd_registered,
        notifyFd_fdnum]
      by_cases ho : o' = o
      · subst ho; cases b <;> simpa [Obj.setHandler] using h'
      · rw [setObj_objs_other _ _ _ _ ho]; exact h'
    · by_cases ho : o' = o
      · subst ho; cases b <;> simpa [Obj.setHandler] using h'
      · rw [setObj_objs_other _ _ _ _ ho]; exact h'
  | register o =>
    simp only [step, stepG]
    split
    · exact h'
    · rename_i hr
      simp only [Bool.or_eq_true, not_or, Bool.not_eq_true, decide_eq_false_iff_not,
        Nat.not_le, ge_iff_le] at hr
      simp only [notifyG, setWantedG, registerFd, State.setIndex, setObj_setObj, setObj_objs_same,
        notifyFd_registered, notifyFd_fdnum]
      by_cases ho : o' = o
      · subst ho; simpa using hr.2
      · rw [setObj_objs_other _ _ _ _ ho]; exact h'
  | registerTry o ok =>
    simp only [step, stepG]
    split
    · exact h'
    · rename_i hr
      simp only [Bool.or_eq_true, not_or, Bool.not_eq_true, decide_eq_false_iff_not,
        Nat.not_le, ge_iff_le] at hr
      simp only [notifyFdSyncG, registerFd, State.setIndex, setObj_setObj, setObj_objs_same]
      cases ok with
      | false =>
        simp only [Bool.not_false, if_true, setObj_setObj, setObj_objs_same]
        by_cases ho : o' = o
        · subst ho; simp
        · rw [setObj_objs_other _ _ _ _ ho]; exact h'
      | true =>
        simp only [Bool.not_true, Bool.false_eq_true, if_false]
        split
        · simp only [setWantedG, notifyFd_registered, notifyFd_fdnum]
          by_cases ho : o' = o
          · subst ho; simpa using hr.2
          · rw [setObj_objs_other _ _ _ _ ho, notifyFd_registered, notifyFd_fdnum,
              setObj_objs_other _ _ _ _ ho]; exact h'
        · simp only [notifyFd_registered, notifyFd_fdnum]
          by_cases ho : o' = o
          · subst ho; simpa using hr.2
          · rw [setObj_objs_other _ _ _ _ ho]; exact h'
  | unregister o =>
    simp only [step, stepG]
    split
    · exact h'
    · simp only [notifyG, setWantedG, setObj_setObj, setObj_objs_same,
        notifyFd_registered, notifyFd_fdnum]
      by_cases ho : o' = o
      · subst ho; simp
      · rw [setObj_objs_other _ _ _ _ ho]; exact h'

theorem run_fdBound {s : State} (h : FdBound s) (ops : List Op) : FdBound (run s ops) := by
  induction ops generalizing s with
  | nil => exact h
  | cons op ops ih => exact ih (step_fdBound h op)

/-- if no two registered objects share a descriptor number, the live part of the arrays never
exceeds `IV_FD_POLL_MAXFD` entries -/
theorem num_le_maxfd {s : State} (h : WF s) (hb : FdBound s)
    (hd : ∀ o o', (s.objs o).registered = true → (s.objs o').registered = true →
      (s.objs o).fdnum = (s.objs o').fdnum → o = o') : s.num ≤ MAXFD := by
  have hl := nodup_bounded_length MAXFD ((List.range s.num).map fun i => (s.objs (s.fds i)).fdnum) ?_ ?_
  · simpa using hl
  · rw [List.nodup_iff_pairwise_ne]
    refine List.Pairwise.map _ ?_ (List.pairwise_lt_range.imp_of_mem
      (S := fun a b => a < s.num ∧ b < s.num ∧ a < b) ?_)
    · rintro a b ⟨ha, hb', hab⟩ he
      have hab' := hd _ _ (h.slot_reg a ha) (h.slot_reg b hb') he
      have := h.slot_index a ha
      rw [hab', h.slot_index b hb'] at this
      simp only [Option.some.injEq] at this
      omega
    · intro a b ha hb' hab
      exact ⟨List.mem_range.1 ha, List.mem_range.1 hb', hab⟩
  · intro x hx
    obtain ⟨i, hi, rfl⟩ := List.mem_map.1 hx
    exact hb _ (h.slot_reg i (List.mem_range.1 hi))

end Ivy.FdPoll
