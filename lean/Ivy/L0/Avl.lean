/-
Model of /repo/src/iv_avl.c.

The tree is a functional binary tree whose nodes carry the *stored* height
field of `struct iv_avl_node`.  The model mirrors the mechanism of the C code,
not an idealised AVL tree:

* `mk`            = `recalc_height` applied to a node whose children are given
* `rotL/rotR/rotLR/rotRL` = the four rotations (same order of `recalc_height`)
* `rebalanceNode` = `rebalance_node` (same comparisons: `<= 0` and `< 0`)
* `fix`           = one iteration of the `rebalance_path` loop, *including the
                    early stop*: once a level reports "height unchanged", no
                    level above it is recalculated or rebalanced (stored heights
                    above are left as they are)
* `ins`           = `iv_avl_tree_insert` (descent by comparator; duplicate → fail)
* `del`           = `iv_avl_tree_delete` (leaf / non-leaf with victim choice
                    "left subtree strictly taller → its maximum, else the
                    minimum of the right subtree"; the victim inherits the stored
                    height of the deleted node; the walk starts at the victim's
                    former parent, or at the victim itself when that parent was
                    the deleted node)

Where the C code would dereference NULL the model returns `none`.
Parent pointers are not modelled (the harness checks them at run time).
-/
namespace Ivy.Avl

inductive Tree where
  | nil
  | node (l : Tree) (k : Int) (h : Nat) (r : Tree)
deriving Repr, DecidableEq, Inhabited

open Tree

/-- `height()` of iv_avl.c: the stored field, 0 for NULL. -/
def height : Tree → Nat
  | nil => 0
  | node _ _ h _ => h

/-- `recalc_height` on a node with the given children. -/
def mk (l : Tree) (k : Int) (r : Tree) : Tree :=
  node l k (1 + max (height l) (height r)) r

/-- `balance()`: height(right) − height(left). -/
def balance : Tree → Int
  | nil => 0
  | node l _ _ r => (height r : Int) - (height l : Int)

def rotL : Tree → Option Tree
  | node a b _ (node c d _ e) => some (mk (mk a b c) d e)
  | _ => none

def rotR : Tree → Option Tree
  | node (node a b _ c) d _ e => some (mk a b (mk c d e))
  | _ => none

def rotLR : Tree → Option Tree
  | node (node a b _ (node c d _ e)) f _ g => some (mk (mk a b c) d (mk e f g))
  | _ => none

def rotRL : Tree → Option Tree
  | node a b _ (node (node c d _ e) f _ g) => some (mk (mk a b c) d (mk e f g))
  | _ => none

/-- `rebalance_node`. `none` = the C code would dereference NULL. -/
def rebalanceNode (t : Tree) : Option Tree :=
  match t with
  | nil => none
  | node l _ _ r =>
    let bal := balance t
    if bal == -2 then
      if balance l ≤ 0 then rotR t else rotLR t
    else if bal == 2 then
      if balance r < 0 then rotRL t else rotL t
    else some t

/-- One iteration of `rebalance_path` at a node whose child was just replaced.
`stopped` is true when a lower level already hit `break`. Returns the new
subtree and whether the walk has stopped. -/
def fix (stopped : Bool) (l : Tree) (k : Int) (h : Nat) (r : Tree) : Option (Tree × Bool) :=
  if stopped then some (node l k h r, true)
  else
    match rebalanceNode (mk l k r) with
    | none => none
    | some t => some (t, height t == h)

/-- Outcome of the descent of `iv_avl_tree_insert`. -/
inductive InsRes where
  | dup                       -- comparator returned 0: return −1, nothing changed
  | fault                     -- NULL dereference in the C code
  | ok (t : Tree) (stopped : Bool)
deriving Repr, DecidableEq

def ins (x : Int) : Tree → InsRes
  | nil => .ok (node nil x 1 nil) false
  | node l k h r =>
    if x < k then
      match ins x l with
      | .ok l' s => match fix s l' k h r with
                    | some (t, s') => .ok t s'
                    | none => .fault
      | e => e
    else if k < x then
      match ins x r with
      | .ok r' s => match fix s l k h r' with
                    | some (t, s') => .ok t s'
                    | none => .fault
      | e => e
    else .dup

/-- `iv_avl_tree_insert`: new tree and return code. -/
def insert (x : Int) (t : Tree) : Option (Tree × Int) :=
  match ins x t with
  | .ok t' _ => some (t', 0)
  | .dup => some (t, -1)
  | .fault => none

/-- unlink the maximum of a subtree (victim search `while (victim->right)`), walking back up. -/
def removeMax : Tree → Option (Tree × Int × Bool)
  | nil => none
  | node l k h r =>
    match r with
    | nil => some (l, k, false)
    | node .. =>
      match removeMax r with
      | none => none
      | some (r', m, s) =>
        match fix s l k h r' with
        | none => none
        | some (t, s') => some (t, m, s')

def removeMin : Tree → Option (Tree × Int × Bool)
  | nil => none
  | node l k h r =>
    match l with
    | nil => some (r, k, false)
    | node .. =>
      match removeMin l with
      | none => none
      | some (l', m, s) =>
        match fix s l' k h r with
        | none => none
        | some (t, s') => some (t, m, s')

/-- `iv_avl_tree_delete` of the node whose key is `x`. `none` = node not in
the tree (precondition of the C function violated) or NULL dereference. -/
def del (x : Int) : Tree → Option (Tree × Bool)
  | nil => none
  | node l k h r =>
    if x < k then
      match del x l with
      | none => none
      | some (l', s) => fix s l' k h r
    else if k < x then
      match del x r with
      | none => none
      | some (r', s) => fix s l k h r'
    else
      match l, r with
      | nil, nil => some (nil, false)
      | _, _ =>
        if height l > height r then
          match removeMax l with
          | none => none
          | some (l', m, s) => fix s l' m h r
        else
          match removeMin r with
          | none => none
          | some (r', m, s) => fix s l m h r'

def delete (x : Int) (t : Tree) : Option Tree := (del x t).map (·.1)

/-- In-order key list = what a `iv_avl_tree_min`/`iv_avl_tree_next` traversal visits. -/
def toList : Tree → List Int
  | nil => []
  | node l k _ r => toList l ++ k :: toList r

def size : Tree → Nat
  | nil => 0
  | node l _ _ r => size l + 1 + size r

/-- true height (longest path), as opposed to the stored field. -/
def realHeight : Tree → Nat
  | nil => 0
  | node l _ _ r => 1 + max (realHeight l) (realHeight r)

/-- Canonical dump shared with the C harness: `.` or `(L k:h R)`. -/
def dump : Tree → String
  | nil => "."
  | node l k h r => "(" ++ dump l ++ " " ++ toString k ++ ":" ++ toString h ++ " " ++ dump r ++ ")"

end Ivy.Avl
