import Ivy.L0.AvlPtrIns
import Ivy.L0.AvlPtrDelMain
import Ivy.L0.AvlPtrTrav
/-!
# Pointer-level AVL model refines the functional model

Entry points (helper files: `AvlPtrCtx`, `AvlPtrRepr`, `AvlPtrRot`, `AvlPtrWalk`, `AvlPtrIns`,
`AvlPtrDel`, `AvlPtrDelMain`, `AvlPtrTrav`):

* `Repr h t ids` (`AvlPtrRepr.lean`): heap `h` represents the functional tree `t`; `ids` is
  the in-order list of node addresses; all parent pointers are the actual parents; addresses
  are pairwise distinct.  `repr_parents` spells the parent consistency out.
* `insert_refines` (`AvlPtrIns.lean`), `delete_refines` (here): the transcribed C code
  computes exactly `Avl.insert` / `Avl.delete` on the represented tree, never faults when the
  functional model does not, and re-establishes `Repr` (so every rotation, the victim splice
  and the early stop of `rebalance_path` keep the parent pointers right).
* `next_spec`, `prev_spec`, `min_spec`, `max_spec`, `forEach_spec`, `forEachRev_spec`
  (`AvlPtrTrav.lean`) and the key-level corollaries below.
-/
set_option linter.unusedSimpArgs false
set_option linter.unusedVariables false
namespace Ivy.AvlPtr
open Ivy.Avl (Tree toList size)
open Ivy.Avl.Tree

theorem repr_empty : Repr empty nil [] := ⟨⟨rfl, rfl⟩, List.nodup_nil⟩

theorem nodup_remove {A B : List Nat} {a : Nat} (nd : (A ++ a :: B).Nodup) : (A ++ B).Nodup := by
  simp only [List.nodup_append, List.nodup_cons, List.mem_cons] at nd ⊢
  grind

/-- Parent consistency, spelled out: in a represented tree every node exists, its children's
`parent` fields point back to it, and the subtree root's `parent` is the expected one. -/
theorem own_parents {m : Mem} {p par : Option Nat} {t : Tree} {ids : List Nat}
    (h : Own m p par t ids) :
    (∀ i, p = some i → ∃ n, m i = some n ∧ n.parent = par) ∧
    (∀ i ∈ ids, ∃ n, m i = some n ∧
      (∀ c, n.left = some c → ∃ nc, m c = some nc ∧ nc.parent = some i) ∧
      (∀ c, n.right = some c → ∃ nc, m c = some nc ∧ nc.parent = some i)) := by
  induction t generalizing p par ids with
  | nil => obtain ⟨rfl, rfl⟩ := h; exact ⟨fun _ e => (by cases e), fun _ e => (by cases e)⟩
  | node l k hh r ihl ihr =>
    obtain ⟨i, lp, rp, il, ir, rfl, hm, hl, hr, rfl⟩ := h
    obtain ⟨l1, l2⟩ := ihl hl
    obtain ⟨r1, r2⟩ := ihr hr
    refine ⟨fun j e => by cases e; exact ⟨_, hm, rfl⟩, ?_⟩
    intro j hj
    simp only [List.mem_append, List.mem_cons] at hj
    rcases hj with hj | rfl | hj
    · exact l2 j hj
    · exact ⟨_, hm, fun c e => l1 c e, fun c e => r1 c e⟩
    · exact r2 j hj

theorem repr_parents {h : Heap} {t : Tree} {ids : List Nat} (hR : Repr h t ids) :
    (∀ i, h.root = some i → ∃ n, h.mem i = some n ∧ n.parent = none) ∧
    (∀ i ∈ ids, ∃ n, h.mem i = some n ∧
      (∀ c, n.left = some c → ∃ nc, h.mem c = some nc ∧ nc.parent = some i) ∧
      (∀ c, n.right = some c → ∃ nc, h.mem c = some nc ∧ nc.parent = some i)) :=
  own_parents hR.1

/-- Pointer-level delete computes the functional delete of the key stored in node `a`:
it does not fault, leaves a heap representing `Avl.delete key t` whose address list is the
old one with `a` removed, all parent pointers correct, nothing outside the tree touched. -/
theorem delete_refines {h : Heap} {t T : Tree} {ids : List Nat} {a : Nat} {na : Node}
    {fuel : Nat}
    (hR : Repr h t ids) (ha : a ∈ ids) (hna : h.mem a = some na) (hord : Avl.Ordered t)
    (hf : size t < fuel) (hdel : Avl.delete na.key t = some T) :
    ∃ h' A B, delete fuel h a = some h' ∧ ids = A ++ a :: B ∧ Repr h' T (A ++ B) ∧
      (∀ j, j ∉ ids → h'.mem j = h.mem j) := by
  obtain ⟨m, root⟩ := h
  obtain ⟨ho, nd⟩ := hR
  simp only at ho hna
  obtain ⟨c, l, k, hh, r, par, pre, post, il, ir, rfl, hc, hn, rfl⟩ := own_find ho ha
  obtain ⟨_, lp, rp, il', ir', e1, hma, hl, hr, e2⟩ := hn
  cases e1
  have ndI : (il ++ a :: ir).Nodup :=
    (List.nodup_append.1 (List.nodup_append.1 nd).1).2.1
  obtain ⟨rfl, rfl⟩ := nodup_split_unique ndI e2
  have hk : na.key = k := by rw [hma] at hna; cases hna; rfl
  rw [hk] at hdel
  have halong : Along k c := along_of_ordered k c _ hord (by simp [toList])
  have hsz := size_plug c (node l k hh r)
  simp only [size] at hsz
  simp only [Avl.delete, Option.map_eq_some_iff] at hdel
  obtain ⟨⟨T', s⟩, hdel, rfl⟩ := hdel
  suffices hmain : ∃ m' root' A B, delete fuel ⟨m, root⟩ a = some ⟨m', root'⟩ ∧
      pre ++ (il ++ a :: ir) ++ post = A ++ a :: B ∧ Own m' root' none T' (A ++ B) ∧
      (∀ j, j ∉ pre ++ (il ++ a :: ir) ++ post → m' j = m j) by
    obtain ⟨m', root', A, B, e, eids, ho', fr⟩ := hmain
    exact ⟨⟨m', root'⟩, A, B, e, eids, ⟨ho', nodup_remove (eids ▸ nd)⟩, fr⟩
  by_cases hleaf : l = nil ∧ r = nil
  · obtain ⟨rfl, rfl⟩ := hleaf
    obtain ⟨rfl, rfl⟩ := hl
    obtain ⟨rfl, rfl⟩ := hr
    rw [del_plug k c _ halong] at hdel
    have : Avl.del k (node nil k hh nil) = some (nil, false) := by simp [Avl.del]
    simp only [this, Option.bind_some] at hdel
    obtain ⟨m', root', e, ho', fr⟩ :=
      delete_leaf_case (fuel := fuel) hc hma nd hdel (by simp [size] at hsz; omega)
    exact ⟨m', root', pre, post, e, by simp, ho', fr⟩
  · rw [del_node_plug c l r k hh halong hleaf] at hdel
    by_cases hgt : Avl.height l > Avl.height r
    · simp only [hgt, if_true] at hdel
      cases hsp : spineR l [] with
      | none => simp [hsp] at hdel
      | some q =>
        obtain ⟨cF, vl, mk, vh⟩ := q
        simp only [hsp] at hdel
        obtain ⟨cR, rfl, hR, hp, hlen⟩ := spineR_spec l [] cF vl mk vh hsp
        simp only [List.append_nil] at hdel
        cases lp with
        | none =>
          obtain ⟨rfl, _⟩ := own_none hl
          simp [size] at hlen
        | some j0 =>
          exact delete_left_case hc hma hl hr nd hp hR hgt hdel (by omega) (by omega)
    · simp only [hgt, if_false] at hdel
      cases hsp : spineL r [] with
      | none => simp [hsp] at hdel
      | some q =>
        obtain ⟨cF, vr, mk, vh⟩ := q
        simp only [hsp] at hdel
        obtain ⟨cL, rfl, hL, hp, hlen⟩ := spineL_spec r [] cF vr mk vh hsp
        simp only [List.append_nil] at hdel
        cases rp with
        | none =>
          obtain ⟨rfl, _⟩ := own_none hr
          simp [size] at hlen
        | some j0 =>
          exact delete_right_case hc hma hl hr nd hp hL hgt hdel (by omega) (by omega)

/-! ### key-level traversal statements -/

/-- the key stored at a node address -/
def keyAt (h : Heap) (i : Nat) : Option Int := (h.mem i).map (·.key)

theorem keyAt_ids {h : Heap} {t : Tree} {ids : List Nat} (hR : Repr h t ids) :
    ids.map (keyAt h) = (toList t).map some := own_keys hR.1

theorem opt_bind_of_map {α β : Type} {f : α → Option β} {o : Option α} {o' : Option β}
    (h : o.map f = o'.map some) : o.bind f = o' := by
  cases o <;> cases o' <;> simp_all

/-- `next` of the node holding the `n`-th smallest key is the node holding the `n+1`-th
(NULL for the maximum). -/
theorem next_key {h : Heap} {t : Tree} {ids : List Nat} {fuel n : Nat} {i : Nat}
    (hR : Repr h t ids) (hf : size t ≤ fuel) (hi : ids[n]? = some i) :
    next fuel h i = some ids[n + 1]? ∧ keyAt h i = (toList t)[n]? ∧
      (ids[n + 1]?.bind (keyAt h)) = (toList t)[n + 1]? := by
  have hk := keyAt_ids hR
  obtain ⟨hn, rfl⟩ := List.getElem?_eq_some_iff.1 hi
  have hsplit : ids = ids.take n ++ ids[n] :: ids.drop (n + 1) := by
    rw [List.getElem_cons_drop]; exact (List.take_append_drop n ids).symm
  have h1 := next_spec hR hsplit hf
  rw [List.head?_drop] at h1
  refine ⟨h1, ?_, ?_⟩
  · have := congrArg (fun l => l[n]?) hk
    simp only [List.getElem?_map] at this
    have := opt_bind_of_map this
    rw [hi] at this
    simpa using this
  · have := congrArg (fun l => l[n + 1]?) hk
    simp only [List.getElem?_map] at this
    exact opt_bind_of_map this

/-- `prev` symmetric -/
theorem prev_key {h : Heap} {t : Tree} {ids : List Nat} {fuel n : Nat} {i : Nat}
    (hR : Repr h t ids) (hf : size t ≤ fuel) (hi : ids[n + 1]? = some i) :
    prev fuel h i = some ids[n]? ∧ keyAt h i = (toList t)[n + 1]? ∧
      (ids[n]?.bind (keyAt h)) = (toList t)[n]? := by
  have hk := keyAt_ids hR
  obtain ⟨hn, rfl⟩ := List.getElem?_eq_some_iff.1 hi
  have hsplit : ids = ids.take (n + 1) ++ ids[n + 1] :: ids.drop (n + 1 + 1) := by
    rw [List.getElem_cons_drop]; exact (List.take_append_drop (n + 1) ids).symm
  have h1 := prev_spec hR hsplit hf
  have h2 : (List.take (n + 1) ids).getLast? = ids[n]? := by
    rw [List.getLast?_take]
    have : ids[n]? = some ids[n] := List.getElem?_eq_getElem (by omega)
    simp [this]
  rw [h2] at h1
  refine ⟨h1, ?_, ?_⟩
  · have := congrArg (fun l => l[n + 1]?) hk
    simp only [List.getElem?_map] at this
    have := opt_bind_of_map this
    rw [hi] at this
    simpa using this
  · have := congrArg (fun l => l[n]?) hk
    simp only [List.getElem?_map] at this
    exact opt_bind_of_map this

/-- forward traversal visits exactly `toList t`, in order, and terminates -/
theorem forEach_keys {h : Heap} {t : Tree} {ids : List Nat} {fuel : Nat}
    (hR : Repr h t ids) (hf : size t ≤ fuel) :
    (forEach fuel h).map (keysOf h) = some ((toList t).map some) := by
  rw [forEach_spec hR hf]; simp [keysOf_ids hR]

/-- backward traversal visits exactly the reverse of `toList t` and terminates -/
theorem forEachRev_keys {h : Heap} {t : Tree} {ids : List Nat} {fuel : Nat}
    (hR : Repr h t ids) (hf : size t ≤ fuel) :
    (forEachRev fuel h).map (keysOf h) = some ((toList t).reverse.map some) := by
  rw [forEachRev_spec hR hf]; simp [keysOf_reverse, keysOf_ids hR]

theorem min_key {h : Heap} {t : Tree} {ids : List Nat} {fuel : Nat}
    (hR : Repr h t ids) (hf : size t ≤ fuel) :
    min fuel h = some ids.head? ∧ ids.head?.bind (keyAt h) = (toList t).head? := by
  refine ⟨min_spec hR hf, ?_⟩
  have hk := congrArg List.head? (keyAt_ids hR)
  simp only [List.head?_map] at hk
  exact opt_bind_of_map hk

theorem max_key {h : Heap} {t : Tree} {ids : List Nat} {fuel : Nat}
    (hR : Repr h t ids) (hf : size t ≤ fuel) :
    max fuel h = some ids.getLast? ∧ ids.getLast?.bind (keyAt h) = (toList t).getLast? := by
  refine ⟨max_spec hR hf, ?_⟩
  have hk := congrArg List.getLast? (keyAt_ids hR)
  simp only [List.getLast?_map] at hk
  exact opt_bind_of_map hk

end Ivy.AvlPtr
