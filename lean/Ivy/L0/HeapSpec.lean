import Ivy.L0.Heap
/-! Invariant and observation functions used by the C05 theorems. -/
namespace Ivy.Heap

/-- timer `t` is on the heap (registered and not on an expired batch) -/
def onHeap (s : Store) (t : Tid) : Prop := ∃ i : Nat, 1 ≤ i ∧ s.idx[t]? = some (i : Int)

/-- `a` does not expire after `b` -/
def TS.le (a b : TS) : Prop := a.gt b = false

structure HeapInv (s : Store) : Prop where
  /-- radix-tree capacity bookkeeping -/
  size_eq   : s.slot.size = cap s.depth
  num_lt    : s.num < s.slot.size
  shrunk    : s.depth > 0 → cap (s.depth - 1) ≤ s.num
  exp_idx   : s.exp.size = s.idx.size
  /-- slots 1..num are occupied by distinct live timers whose back index is the slot number -/
  occupied  : ∀ i, 1 ≤ i → i ≤ s.num → ∃ t, s.slot[i]? = some (some t) ∧ s.idx[t]? = some (i : Int)
  /-- vacated slots are NULL (what `push_down`'s `p[1] &&` test relies on) -/
  tail_null : ∀ i, s.num < i → i < s.slot.size → s.slot[i]? = some none
  /-- back indices point at the right slot -/
  back      : ∀ (t : Nat) (i : Nat), 1 ≤ i → s.idx[t]? = some (i : Int) → i ≤ s.num ∧ s.slot[i]? = some (some t)
  /-- index fields are ≥ −1 -/
  idx_ge    : ∀ (t : Nat) (v : Int), s.idx[t]? = some v → -1 ≤ v
  /-- heap order: no parent expires after its child -/
  order     : ∀ i a b, 2 ≤ i → i ≤ s.num → s.slot[i / 2]? = some (some a) → s.slot[i]? = some (some b) →
                (expOf s a).le (expOf s b)

end Ivy.Heap
