import Ivy.L0.TimeArith
/-!
Lemmas about `Ivy/L0/TimeArith.lean`.  All statements quantify over unbounded `Int` seconds;
`Ts.norm` (0 ≤ nsec < 10^9) is the only hypothesis unless a no-overflow statement needs
`SecBound` (|sec| < 2^62).  The property theorems proper are in `Ivy/Props/C04time.lean`.
-/
namespace Ivy.TimeArith

/-! ## `timespec_gt` -/

theorem tsGt_eq (a b : Ts) :
    tsGt a b = true ↔ (a.sec > b.sec ∨ (a.sec = b.sec ∧ a.nsec > b.nsec)) := by
  simp [tsGt]

theorem tsGt_iff_toNs {a b : Ts} (ha : a.norm) (hb : b.norm) :
    tsGt a b = true ↔ toNs b < toNs a := by
  rw [tsGt_eq]; unfold Ts.norm at ha hb; unfold toNs; omega

theorem tsGt_false_iff_toNs {a b : Ts} (ha : a.norm) (hb : b.norm) :
    tsGt a b = false ↔ toNs a ≤ toNs b := by
  have h := tsGt_iff_toNs ha hb
  cases hg : tsGt a b
  · simp [hg] at h; simp; omega
  · simp [hg] at h; simp; omega

theorem toNs_inj {a b : Ts} (ha : a.norm) (hb : b.norm) (h : toNs a = toNs b) : a = b := by
  unfold Ts.norm at ha hb; unfold toNs at h
  cases a; cases b; simp at *; omega

theorem due_iff_toNs {now exp : Ts} (hn : now.norm) (he : exp.norm) :
    due now exp = true ↔ toNs exp ≤ toNs now := by
  unfold due
  rw [← tsGt_false_iff_toNs he hn]
  cases tsGt exp now <;> simp

/-! ## `to_relative` -/

theorem toRelative_cases (now abs : Ts) :
    (tsGt abs now = false ∧ toRelative now abs = ⟨0, 0⟩) ∨
    (tsGt abs now = true ∧ abs.nsec - now.nsec < 0 ∧
      toRelative now abs = ⟨abs.sec - now.sec - 1, abs.nsec - now.nsec + 1000000000⟩) ∨
    (tsGt abs now = true ∧ ¬ abs.nsec - now.nsec < 0 ∧
      toRelative now abs = ⟨abs.sec - now.sec, abs.nsec - now.nsec⟩) := by
  unfold toRelative
  cases hg : tsGt abs now
  · simp
  · by_cases hb : abs.nsec - now.nsec < 0 <;> simp [hb]

theorem toRelative_norm {now abs : Ts} (hn : now.norm) (ha : abs.norm) :
    (toRelative now abs).norm := by
  unfold Ts.norm at *
  rcases toRelative_cases now abs with ⟨_, h⟩ | ⟨_, hb, h⟩ | ⟨_, hb, h⟩ <;> rw [h] <;> simp <;> omega

theorem toRelative_toNs {now abs : Ts} (hn : now.norm) (ha : abs.norm) :
    toNs (toRelative now abs) = max 0 (toNs abs - toNs now) := by
  rcases toRelative_cases now abs with ⟨hg, h⟩ | ⟨hg, hb, h⟩ | ⟨hg, hb, h⟩
  · have := (tsGt_false_iff_toNs ha hn).1 hg
    rw [h]; simp [toNs] at *; omega
  · have := (tsGt_iff_toNs ha hn).1 hg
    rw [h]; simp [toNs] at *; omega
  · have := (tsGt_iff_toNs ha hn).1 hg
    rw [h]; simp [toNs] at *; omega

theorem toRelative_sec_nonneg {now abs : Ts} (hn : now.norm) (ha : abs.norm) :
    0 ≤ (toRelative now abs).sec := by
  have h1 := toRelative_norm hn ha
  have h2 := toRelative_toNs hn ha
  unfold Ts.norm at h1; unfold toNs at h2; omega

theorem toRelative_zero_iff_due {now abs : Ts} (hn : now.norm) (ha : abs.norm) :
    toRelative now abs = ⟨0, 0⟩ ↔ due now abs = true := by
  rw [due_iff_toNs hn ha]
  have h2 := toRelative_toNs hn ha
  constructor
  · intro h; rw [h] at h2; simp [toNs] at h2; simp [toNs]; omega
  · intro h
    apply toNs_inj (toRelative_norm hn ha) (by unfold Ts.norm; simp)
    rw [h2]; simp [toNs] at *; omega

/-! ## `to_msec` -/

/-- the remaining time in ns, clamped at 0 -/
def remaining (now abs : Ts) : Int := max 0 (toNs abs - toNs now)

/-- what `to_msec` returns, in terms of the remaining time only -/
theorem toMsec_spec {now abs : Ts} (hn : now.norm) (ha : abs.norm) :
    toMsec now (some abs) =
      if remaining now abs < 86400 * 1000000000 then (remaining now abs + 999999) / 1000000
      else 86400000 := by
  have h1 := toRelative_norm hn ha
  have h2 := toRelative_toNs hn ha
  have h3 := toRelative_sec_nonneg hn ha
  unfold Ts.norm at h1
  unfold toMsec remaining
  simp only
  rw [Int.tdiv_eq_ediv_of_nonneg (by omega)]
  rw [← h2]
  unfold toNs
  generalize (toRelative now abs).sec = s at *
  generalize (toRelative now abs).nsec = n at *
  by_cases hs : s < 86400
  · rw [if_pos hs, if_pos (by omega)]; omega
  · rw [if_neg hs, if_neg (by omega)]

theorem remaining_nonneg (now abs : Ts) : 0 ≤ remaining now abs := by unfold remaining; omega

theorem toMsec_range {now abs : Ts} (hn : now.norm) (ha : abs.norm) :
    0 ≤ toMsec now (some abs) ∧ toMsec now (some abs) ≤ 86400000 := by
  rw [toMsec_spec hn ha]
  have := remaining_nonneg now abs
  split <;> omega

/-! ## the clock cache -/

/-- the cache invariant: a valid cache holds the value of the most recent clock read -/
def Clock.Inv (src : Nat → Ts) (c : Clock) : Prop :=
  c.timeValid = true → 0 < c.reads ∧ c.time = src (c.reads - 1)

theorem validate_valid (src : Nat → Ts) (c : Clock) : (validate src c).timeValid = true := by
  unfold validate; cases h : c.timeValid <;> simp [h]

theorem validate_of_valid (src : Nat → Ts) {c : Clock} (h : c.timeValid = true) :
    validate src c = c := by
  unfold validate; simp [h]

theorem validate_of_invalid (src : Nat → Ts) {c : Clock} (h : c.timeValid = false) :
    validate src c = { timeValid := true, time := src c.reads, reads := c.reads + 1 } := by
  unfold validate; simp [h]

theorem validate_idem (src : Nat → Ts) (c : Clock) :
    validate src (validate src c) = validate src c :=
  validate_of_valid src (validate_valid src c)

theorem validate_reads (src : Nat → Ts) (c : Clock) :
    (validate src c).reads = c.reads + (if c.timeValid then 0 else 1) := by
  unfold validate; cases h : c.timeValid <;> simp

theorem validate_inv (src : Nat → Ts) {c : Clock} (hi : c.Inv src) : (validate src c).Inv src := by
  unfold Clock.Inv validate at *
  cases h : c.timeValid
  · simp
  · simpa [h] using hi

theorem invalidate_inv (src : Nat → Ts) (c : Clock) : (invalidate c).Inv src := by
  unfold Clock.Inv invalidate; simp

theorem cstep_cases (src : Nat → Ts) (c : Clock) (op : COp) :
    cstep src c op = c ∨ cstep src c op = validate src c ∨
      (op = .invalidate ∧ cstep src c op = invalidate c) := by
  cases op with
  | validate => right; left; rfl
  | invalidate => right; right; exact ⟨rfl, rfl⟩
  | rel a => cases a <;> simp [cstep, toRelativeC]
  | msec a => cases a <;> simp [cstep, toMsecC]
  | runTimers a => cases a <;> simp [cstep, runTimersC]

theorem cstep_inv (src : Nat → Ts) {c : Clock} (hi : c.Inv src) (op : COp) :
    (cstep src c op).Inv src := by
  rcases cstep_cases src c op with h | h | ⟨_, h⟩ <;> rw [h]
  · exact hi
  · exact validate_inv src hi
  · exact invalidate_inv src c

theorem crun_inv (src : Nat → Ts) {c : Clock} (hi : c.Inv src) (ops : List COp) :
    (crun src c ops).Inv src := by
  unfold crun
  induction ops generalizing c with
  | nil => exact hi
  | cons op ops ih => exact ih (cstep_inv src hi op)

/-- number of `invalidate` calls in a sequence -/
def invalidations : List COp → Nat
  | [] => 0
  | op :: ops => (if op = .invalidate then 1 else 0) + invalidations ops

/-- 1 if the next use has to read the clock, 0 otherwise -/
def Clock.pending (c : Clock) : Nat := if c.timeValid then 0 else 1

theorem validate_reads' (src : Nat → Ts) (c : Clock) :
    (validate src c).reads = c.reads + c.pending := by
  rw [validate_reads]; rfl

/-- the budget of clock reads: one per invalidation, plus one if the cache starts invalid.
`reads + pending` never grows except by an invalidation. -/
theorem cstep_budget (src : Nat → Ts) (c : Clock) (op : COp) :
    (cstep src c op).reads + (cstep src c op).pending ≤
      c.reads + c.pending + invalidations [op] := by
  rcases cstep_cases src c op with h | h | ⟨ho, h⟩ <;> rw [h]
  · omega
  · rw [validate_reads']; simp [Clock.pending, validate_valid]
  · subst ho; unfold invalidate Clock.pending invalidations; cases c.timeValid <;> simp [invalidations]

theorem crun_budget (src : Nat → Ts) (c : Clock) (ops : List COp) :
    (crun src c ops).reads + (crun src c ops).pending ≤
      c.reads + c.pending + invalidations ops := by
  unfold crun
  induction ops generalizing c with
  | nil => simp [invalidations]
  | cons op ops ih =>
    have h1 := cstep_budget src c op
    have h2 := ih (cstep src c op)
    simp only [List.foldl_cons]
    simp only [invalidations] at h1 ⊢
    omega

theorem cstep_reads_mono (src : Nat → Ts) (c : Clock) (op : COp) :
    c.reads ≤ (cstep src c op).reads := by
  rcases cstep_cases src c op with h | h | ⟨_, h⟩ <;> rw [h]
  · omega
  · rw [validate_reads]; omega
  · unfold invalidate; simp

theorem crun_reads_mono (src : Nat → Ts) (c : Clock) (ops : List COp) :
    c.reads ≤ (crun src c ops).reads := by
  unfold crun
  induction ops generalizing c with
  | nil => simp
  | cons op ops ih =>
    have := cstep_reads_mono src c op
    have := ih (cstep src c op)
    simp only [List.foldl_cons]; omega

/-- while the cache is valid and nothing invalidates it, no call changes it at all -/
theorem crun_valid_noinval (src : Nat → Ts) {c : Clock} (hv : c.timeValid = true)
    (ops : List COp) (hn : ∀ op ∈ ops, op ≠ .invalidate) : crun src c ops = c := by
  unfold crun
  induction ops with
  | nil => rfl
  | cons op ops ih =>
    simp only [List.foldl_cons]
    have hstep : cstep src c op = c := by
      rcases cstep_cases src c op with h | h | ⟨ho, _⟩
      · exact h
      · rw [h, validate_of_valid src hv]
      · exact absurd ho (hn op (by simp))
    rw [hstep]
    exact ih (fun o ho => hn o (by simp [ho]))

end Ivy.TimeArith
