import Ivy.Generated.Consts
/-
Model of the timer store of /repo/src/iv_timer.c: a 1-based binary min-heap of
timer pointers kept in a radix tree ("rat") of fan-out 2^IV_TIMER_SPLIT_BITS.

What is mirrored:
* `timespec_gt`                       → `TS.gt`
* `struct iv_timer_.index`            → `Store.idx` (−1 unregistered, 0 on the expired batch, ≥1 heap slot)
* the leaves of the radix tree        → `Store.slot`, a flat array whose size is the
  tree's capacity `2^((rat_depth+1)*bits)`; growing appends empty slots, removing a
  level truncates (that is what freeing `child[1..]` of the root does); a lookup
  beyond the capacity is a fault (`none`) — the C code would alias another slot
* `iv_timer_get_node`'s growth test   → `grow`
* `pull_up`, `push_down` (incl. the `p[1] != NULL` test that relies on vacated
  slots being NULL), `iv_timer_register`, `iv_timer_unregister` (incl. the
  shrink test `num_timers == 1 << (rat_depth*bits)`), and the two loops of
  `iv_run_timers` (`collect` = first loop, `popExpired` = one iteration of the second).
Pointer structure of the interior radix nodes is not modelled.
-/
namespace Ivy.Heap
open Ivy.Generated

structure TS where
  sec : Int
  nsec : Int
deriving DecidableEq, Repr, Inhabited

/-- `timespec_gt` -/
def TS.gt (a b : TS) : Bool :=
  decide (a.sec > b.sec) || (decide (a.sec = b.sec) && decide (a.nsec > b.nsec))

abbrev Tid := Nat

structure Store where
  exp   : Array TS            -- timer id ↦ expires (user field)
  idx   : Array Int           -- timer id ↦ index field
  slot  : Array (Option Tid)  -- flat view of the radix tree; slot 0 is never used by the heap
  num   : Nat                 -- num_timers
  depth : Nat                 -- rat_depth
deriving Repr

def bits : Nat := IV_TIMER_SPLIT_BITS
def cap (depth : Nat) : Nat := 2 ^ ((depth + 1) * bits)

/-- `iv_timer_init` for a population of `n` timer structs, each `IV_TIMER_INIT`ed. -/
def Store.init (n : Nat) : Store :=
  { exp := Array.replicate n ⟨0, 0⟩, idx := Array.replicate n (-1),
    slot := Array.replicate (cap 0) none, num := 0, depth := 0 }

/-- growth part of `iv_timer_get_node` -/
def grow (s : Store) (index : Nat) : Store :=
  if index >>> ((s.depth + 1) * bits) != 0 then
    { s with depth := s.depth + 1,
             slot := s.slot ++ Array.replicate (cap (s.depth + 1) - cap s.depth) none }
  else s

/-- `iv_timer_radix_tree_remove_level` -/
def removeLevel (s : Store) : Store :=
  { s with depth := s.depth - 1, slot := s.slot.extract 0 (cap (s.depth - 1)) }

/-- read `*iv_timer_get_node(index)`; outer `none` = outside the tree -/
def getSlot (s : Store) (i : Nat) : Option (Option Tid) := s.slot[i]?

def expOf (s : Store) (t : Tid) : TS := s.exp.getD t ⟨0, 0⟩

/-- `timer_ptr_gt` on two occupied slots -/
def gtT (s : Store) (a b : Tid) : Bool := (expOf s a).gt (expOf s b)

/-- swap slots `i` and `j` holding `a` and `b`, fixing the back indices as the C does. -/
def swapSlots (s : Store) (i j : Nat) (a b : Tid) : Store :=
  { s with slot := (s.slot.setIfInBounds i (some b)).setIfInBounds j (some a),
           idx := (s.idx.setIfInBounds b (i : Int)).setIfInBounds a (j : Int) }

/-- `pull_up(st, index, i)`; `none` = NULL dereference. -/
def pullUp (s : Store) (index : Nat) : Option Store :=
  if _h : index ≤ 1 then some s
  else
    let parent := index / 2
    match getSlot s parent, getSlot s index with
    | some (some p), some (some c) =>
      if !gtT s p c then some s
      else pullUp (swapSlots s index parent c p) parent
    | _, _ => none
termination_by index
decreasing_by omega

/-- `push_down(st, index, i)` -/
def pushDown (s : Store) (index : Nat) : Option Store :=
  if _hz : index = 0 then none else
  match getSlot s index with
  | some (some cur) =>
    if 2 * index ≤ s.num then
      match getSlot s (2 * index), getSlot s (2 * index + 1) with
      | some (some l), some r? =>
        -- imin/index_min after the first test
        let (imin, tmin) := if gtT s cur l then (2 * index, l) else (index, cur)
        -- second test: `p[1] && timer_ptr_gt(*imin, p[1])`
        let (imin, tmin) :=
          match r? with
          | some r => if gtT s tmin r then (2 * index + 1, r) else (imin, tmin)
          | none => (imin, tmin)
        if imin = index then some s
        else if imin ≤ index then none
        else pushDown (swapSlots s index imin cur tmin) imin
      | _, _ => none
    else some s
  | _ => none
termination_by s.num + 1 - index
decreasing_by
  simp only [swapSlots]
  omega

inductive Res where
  | ok (s : Store)
  | fatal (s : Store) (msg : String)     -- iv_fatal: the call aborts
  | fault                                 -- NULL dereference / out-of-tree access

/-- `iv_timer_register` of timer `t` with `expires := e`. -/
def register (s : Store) (t : Tid) (e : TS) : Res :=
  if s.idx.getD t (-1) != -1 then .fatal s "iv_timer_register: called with timer still on the heap"
  else
    let s := { s with exp := s.exp.setIfInBounds t e }
    let index := s.num + 1
    let s := { s with num := index }
    let s := grow s index
    if index < s.slot.size then
      let s := { s with slot := s.slot.setIfInBounds index (some t),
                        idx := s.idx.setIfInBounds t (index : Int) }
      match pullUp s index with
      | some s => .ok s
      | none => .fault
    else .fault

/-- the heap branch of `iv_timer_unregister` (`t->index ≥ 1`), without the final `index = −1` -/
def removeAt (s : Store) (t : Tid) (i : Nat) : Res :=
  if i > s.num then .fatal s "iv_timer_unregister: timer index > num_timers"
  else match getSlot s i, getSlot s s.num with
    | some p, some m =>
      if p != some t then .fatal s "iv_timer_unregister: unregistered timer index belonging to other timer"
      else
        -- *p = *m; (*p)->index = t->index; *m = NULL
        let s := { s with slot := (s.slot.setIfInBounds i m).setIfInBounds s.num none }
        match m with
        | none => .fault
        | some mt =>
          let s := { s with idx := s.idx.setIfInBounds mt (i : Int) }
          let s := if s.depth > 0 ∧ s.num = 1 <<< (s.depth * bits) then removeLevel s else s
          let s := { s with num := s.num - 1 }
          if i != s.num + 1 then
            match pullUp s i with
            | none => .fault
            | some s =>
              -- push_down(st, (*p)->index, p): p is still slot i
              match pushDown s i with
              | none => .fault
              | some s => .ok s
          else .ok s
    | _, _ => .fault

/-- `iv_timer_unregister`; `batch` is the expired list of a running `iv_run_timers`. -/
def unregister (s : Store) (batch : List Tid) (t : Tid) : Res × List Tid :=
  let i := s.idx.getD t (-1)
  if i == -1 then (.fatal s "iv_timer_unregister: called with timer not on the heap", batch)
  else if i == 0 then
    (.ok { s with idx := s.idx.setIfInBounds t (-1) }, batch.erase t)
  else
    match removeAt s t i.toNat with
    | .ok s => (.ok { s with idx := s.idx.setIfInBounds t (-1) }, batch)
    | r => (r, batch)

/-- first loop of `iv_run_timers`: move every timer with `¬ expires > now` to the batch. -/
def collect (s : Store) (now : TS) (fuel : Nat) (acc : List Tid) : Res × List Tid :=
  match fuel with
  | 0 => (.ok s, acc)
  | fuel + 1 =>
    if s.num = 0 then (.ok s, acc)
    else match getSlot s 1 with
      | some (some t) =>
        if s.idx.getD t (-1) != 1 then (.fatal s "iv_run_timers: root timer has heap index", acc)
        else if (expOf s t).gt now then (.ok s, acc)
        else
          match removeAt s t 1 with
          | .ok s => collect { s with idx := s.idx.setIfInBounds t 0 } now fuel (acc ++ [t])
          | r => (r, acc)
      | _ => (.fault, acc)

/-- `iv_run_timers`, first half. Fuel = `num_timers` suffices (each round removes one). -/
def runCollect (s : Store) (now : TS) : Res × List Tid := collect s now s.num []

/-- one iteration of the second loop: pop the head of the batch, mark it −1; the caller then runs the handler. -/
def popExpired (s : Store) (batch : List Tid) : Option (Store × Tid × List Tid) :=
  match batch with
  | [] => none
  | t :: rest => some ({ s with idx := s.idx.setIfInBounds t (-1) }, t, rest)

/-- `iv_get_soonest_timeout` -/
def soonest (s : Store) : Option TS :=
  if s.num = 0 then none else
  match getSlot s 1 with
  | some (some t) => some (expOf s t)
  | _ => none

end Ivy.Heap
