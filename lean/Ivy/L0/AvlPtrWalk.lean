import Ivy.L0.AvlPtrRot
/-!
`rebalance_node` and `rebalance_path` at pointer level refine `Avl.rebalanceNode` and the
zipper walk `up` (`AvlPtrCtx.lean`), including the early stop; the fuel needed is the
length of the path to the root.
-/
set_option linter.unusedSimpArgs false
set_option linter.unusedVariables false
namespace Ivy.AvlPtr
open Ivy.Avl (Tree toList size)
open Ivy.Avl.Tree

theorem balance_own {m : Mem} {root par : Option Nat} {i : Nat} {l r : Tree} {k : Int} {h : Nat}
    {ids : List Nat} (ho : Own m (some i) par (node l k h r) ids) :
    balance ⟨m, root⟩ (some i) = some ((Avl.height r : Int) - (Avl.height l : Int)) := by
  obtain ⟨_, lp, rp, il, ir, e, hm, hl, hr, _⟩ := ho
  cases e
  simp [balance, hm, own_height hl, own_height hr]

theorem rebalanceNode_spec {m : Mem} {root gp : Option Nat} {ref : Ref} {i : Nat}
    {X X' : Tree} {I : List Nat}
    (ho : Own m (some i) gp X I) (nd : I.Nodup)
    (hr : deref ⟨m, root⟩ ref = some (some i))
    (hX : Avl.rebalanceNode X = some X') :
    ∃ j m2, rebalanceNode ⟨m, root⟩ ref = store ⟨m2, root⟩ ref (some j) ∧
      (∀ n, n ∉ I → m2 n = m n) ∧ Own m2 (some j) gp X' I := by
  cases X with
  | nil => simp [Avl.rebalanceNode] at hX
  | node l k h r =>
    have hbal := balance_own (root := root) ho
    have ho0 := ho
    obtain ⟨_, lp, rp, il, ir, e, hm, hl, hr', hI⟩ := ho
    cases e
    have hb0 : Avl.balance (node l k h r) = (Avl.height r : Int) - (Avl.height l : Int) := rfl
    simp only [Avl.rebalanceNode, hb0] at hX
    by_cases h2 : ((Avl.height r : Int) - (Avl.height l : Int)) = -2
    · rw [if_pos (by simp [h2])] at hX
      cases l with
      | nil => simp [Avl.rotR, Avl.rotLR] at hX
      | node a kb hb c =>
        have hl0 := hl
        obtain ⟨b, ap, cp, ia, ic, rfl, hmb, hoa, hoc, hil⟩ := hl
        have hbl := balance_own (root := root) hl0
        have hb1 : Avl.balance (node a kb hb c) = (Avl.height c : Int) - (Avl.height a : Int) := rfl
        rw [hb1] at hX
        by_cases hle : ((Avl.height c : Int) - (Avl.height a : Int)) ≤ 0
        · rw [if_pos hle] at hX
          simp only [Avl.rotR, Option.some.injEq] at hX
          subst hX
          obtain ⟨j, m2, e1, e2, e3⟩ := rotateRight_spec ho0 nd hr
          refine ⟨j, m2, ?_, e2, e3⟩
          rw [← e1]
          simp only [Avl.Proofs.height_node] at h2 hle hbal hbl
          simp [rebalanceNode, hr, hbal, h2, hm, hbl, hle]
        · rw [if_neg hle] at hX
          cases c with
          | nil => simp [Avl.rotLR] at hX
          | node cl kc hc cr =>
            simp only [Avl.rotLR, Option.some.injEq] at hX
            subst hX
            obtain ⟨j, m2, e1, e2, e3⟩ := rotateLeftRight_spec ho0 nd hr
            refine ⟨j, m2, ?_, e2, e3⟩
            rw [← e1]
            simp only [Avl.Proofs.height_node] at h2 hle hbal hbl
            simp [rebalanceNode, hr, hbal, h2, hm, hbl, hle]
    · rw [if_neg (by simpa using h2)] at hX
      by_cases h3 : ((Avl.height r : Int) - (Avl.height l : Int)) = 2
      · rw [if_pos (by simp [h3])] at hX
        cases r with
        | nil => simp [Avl.rotL, Avl.rotRL] at hX
        | node c kd hd e =>
          have hr0 := hr'
          obtain ⟨d, cp, ep, ic, ie, rfl, hmd, hoc, hoe, hir⟩ := hr'
          have hbr := balance_own (root := root) hr0
          have hb1 : Avl.balance (node c kd hd e) = (Avl.height e : Int) - (Avl.height c : Int) := rfl
          rw [hb1] at hX
          by_cases hlt : ((Avl.height e : Int) - (Avl.height c : Int)) < 0
          · rw [if_pos hlt] at hX
            cases c with
            | nil => simp [Avl.rotRL] at hX
            | node cl kc hc cr =>
              simp only [Avl.rotRL, Option.some.injEq] at hX
              subst hX
              obtain ⟨j, m2, e1, e2, e3⟩ := rotateRightLeft_spec ho0 nd hr
              refine ⟨j, m2, ?_, e2, e3⟩
              rw [← e1]
              simp only [Avl.Proofs.height_node] at h2 h3 hlt hbal hbr
              simp [rebalanceNode, hr, hbal, h2, h3, hm, hbr, hlt]
          · rw [if_neg hlt] at hX
            simp only [Avl.rotL, Option.some.injEq] at hX
            subst hX
            obtain ⟨j, m2, e1, e2, e3⟩ := rotateLeft_spec ho0 nd hr
            refine ⟨j, m2, ?_, e2, e3⟩
            rw [← e1]
            simp only [Avl.Proofs.height_node] at h2 h3 hlt hbal hbr
            simp [rebalanceNode, hr, hbal, h2, h3, hm, hbr, hlt]
      · rw [if_neg (by simpa using h3)] at hX
        simp only [Option.some.injEq] at hX
        subst hX
        refine ⟨i, m, ?_, fun _ _ => rfl, ho0⟩
        rw [store_noop hr]
        simp [rebalanceNode, hr, hbal, h2, h3]

theorem recalcHeight_own {m : Mem} {root lp rp par : Option Nat} {i : Nat} {k : Int} {h : Nat}
    {l r : Tree} {il ir : List Nat}
    (hm : m i = some ⟨k, lp, rp, par, h⟩) (hl : Own m lp (some i) l il)
    (hr : Own m rp (some i) r ir) :
    recalcHeight ⟨m, root⟩ i =
      some ⟨upd m i ⟨k, lp, rp, par, 1 + Max.max (Avl.height l) (Avl.height r)⟩, root⟩ := by
  simp [recalcHeight, hm, own_height hl, own_height hr, setHeight, Heap.set, max_if]

/-- the parent of the hole is not an address outside the context -/
theorem ownCtx_hp_not {m : Mem} {top : Option Nat} {c : List Frame} {hole hp : Option Nat}
    {pre post : List Nat} (h : OwnCtx m top none c hole hp pre post) {n : Nat}
    (hn : n ∉ pre ++ post) : hp ≠ some n := by
  cases c with
  | nil => obtain ⟨_, rfl, _, _⟩ := h; simp
  | cons f c =>
    obtain ⟨g, rfl, hg⟩ := ownCtx_hp_mem h (by simp)
    rintro e; cases e; exact hn hg

/-- One loop iteration of `rebalance_path` at node `i` whose subtree (after the child
was replaced) is `X`, giving `X'` = `rebalanceNode (mk ..)`. -/
theorem walk_step {m : Mem} {root gp : Option Nat} {c : List Frame} {i : Nat}
    {pre post I : List Nat} {k : Int} {h : Nat} {lp rp : Option Nat} {l r X' : Tree}
    {il ir : List Nat}
    (hc : OwnCtx m root none c (some i) gp pre post)
    (hm : m i = some ⟨k, lp, rp, gp, h⟩) (hl : Own m lp (some i) l il)
    (hr : Own m rp (some i) r ir) (hI : I = il ++ i :: ir)
    (nd : (pre ++ I ++ post).Nodup)
    (hX : Avl.rebalanceNode (Avl.mk l k r) = some X') :
    ∃ ref j m3 root3,
      (do let h1 ← recalcHeight ⟨m, root⟩ i
          let ref ← findReference h1 i
          let h2 ← rebalanceNode h1 ref
          some (ref, h2)) = some (ref, ⟨m3, root3⟩) ∧
      deref ⟨m3, root3⟩ ref = some (some j) ∧
      OwnCtx m3 root3 none c (some j) gp pre post ∧
      Own m3 (some j) gp X' I ∧
      (∀ n, n ∉ pre ++ I ++ post → m3 n = m n) := by
  subst hI
  have hi_l : i ∉ il := by grind
  have hi_r : i ∉ ir := by grind
  have hi_c : i ∉ pre ++ post := by grind
  obtain ⟨m1, hm1⟩ : ∃ m1, m1 = upd m i ⟨k, lp, rp, gp, 1 + Max.max (Avl.height l) (Avl.height r)⟩ :=
    ⟨_, rfl⟩
  have e1 : recalcHeight ⟨m, root⟩ i = some ⟨m1, root⟩ := by
    rw [hm1]; exact recalcHeight_own hm hl hr
  have hfr1 : ∀ n, n ≠ i → m1 n = m n := by intro n hn; simp [hm1, upd_ne, hn]
  have hl1 : Own m1 lp (some i) l il :=
    own_frame hl (fun n hn => hfr1 n (fun e => hi_l (e ▸ hn)))
  have hr1 : Own m1 rp (some i) r ir :=
    own_frame hr (fun n hn => hfr1 n (fun e => hi_r (e ▸ hn)))
  have ho1 : Own m1 (some i) gp (Avl.mk l k r) (il ++ i :: ir) :=
    ⟨i, lp, rp, il, ir, rfl, by simp [hm1], hl1, hr1, rfl⟩
  have hc1 : OwnCtx m1 root none c (some i) gp pre post :=
    ownCtx_frame hc (fun n hn => hfr1 n (fun e => hi_c (e ▸ hn)))
  obtain ⟨ref, e2, href⟩ := findReference_ctx hc1 ho1 nd
  have hd1 := deref_ctx hc1 href
  have ndI : (il ++ i :: ir).Nodup := by grind
  obtain ⟨j, m2, e3, hfr2, ho2⟩ := rebalanceNode_spec ho1 ndI hd1 hX
  have hc2 : OwnCtx m2 root none c (some i) gp pre post := by
    apply ownCtx_frame hc1
    intro n hn
    apply hfr2
    grind
  have ndc : (pre ++ post).Nodup := by grind
  obtain ⟨m3, root3, e4, hc3, hfr3⟩ := store_ctx hc2 href ndc (some j)
  have ho3 : Own m3 (some j) gp X' (il ++ i :: ir) := by
    apply own_frame ho2
    intro n hn
    apply hfr3
    apply ownCtx_hp_not hc2
    grind
  refine ⟨ref, j, m3, root3, ?_, deref_ctx hc3 href, hc3, ho3, ?_⟩
  · simp [e1, e2, e3, e4]
  · intro n hn
    have h1 : n ≠ i := by grind
    have h2 : n ∉ il ++ i :: ir := by grind
    have h3 : n ∉ pre ++ post := by grind
    rw [hfr3 n (ownCtx_hp_not hc2 h3), hfr2 n h2, hfr1 n h1]

theorem rebalancePath_none (fuel : Nat) (h : Heap) : rebalancePath fuel h none = some h := by
  cases fuel <;> rfl

/-- `rebalance_path` computes the functional walk `up`. -/
theorem walk_spec {c : List Frame} : ∀ {m : Mem} {root hole hp : Option Nat}
    {pre post ids : List Nat} {t T : Tree} {s : Bool} (fuel : Nat),
    OwnCtx m root none c hole hp pre post → Own m hole hp t ids →
    (pre ++ ids ++ post).Nodup → up false c t = some (T, s) → c.length ≤ fuel →
    ∃ m' root', rebalancePath fuel ⟨m, root⟩ hp = some ⟨m', root'⟩ ∧
      Own m' root' none T (pre ++ ids ++ post) ∧
      (∀ n, n ∉ pre ++ ids ++ post → m' n = m n) := by
  induction c with
  | nil =>
    intro m root hole hp pre post ids t T s fuel hc ht nd hup hf
    obtain ⟨rfl, rfl, rfl, rfl⟩ := hc
    simp only [up, Option.some.injEq, Prod.mk.injEq] at hup
    obtain ⟨rfl, _⟩ := hup
    exact ⟨m, hole, rebalancePath_none _ _, by simpa using ht, fun _ _ => rfl⟩
  | cons f c ih =>
    intro m root hole hp pre post ids t T s fuel hc ht nd hup hf
    cases fuel with
    | zero => simp at hf
    | succ fuel =>
    simp only [List.length_cons, Nat.add_le_add_iff_right] at hf
    cases f with
    | L k h sib =>
      obtain ⟨i, rp, gp, sids, post', rfl, hm, hs, hc', rfl⟩ := hc
      simp only [up, fixF, Avl.fix, Bool.false_eq_true, if_false] at hup
      cases hX : Avl.rebalanceNode (Avl.mk t k sib) with
      | none => simp [hX] at hup
      | some X' =>
        simp only [hX] at hup
        have nd' : (pre ++ (ids ++ i :: sids) ++ post').Nodup := by simpa using nd
        obtain ⟨ref, j, m3, root3, e1, hd3, hc3, ho3, hfr3⟩ :=
          walk_step hc' hm ht hs rfl nd' hX
        obtain ⟨l', k', h', r', lp', rp', il', ir', rfl, hmj, _, _, _⟩ := own_some ho3
        have e1' := e1
        simp only [Option.bind_eq_bind] at e1'
        by_cases hh : h = h'
        · subst hh
          simp only [Avl.height, beq_self_eq_true] at hup
          rw [up_true] at hup
          simp only [Option.some.injEq, Prod.mk.injEq] at hup
          obtain ⟨rfl, _⟩ := hup
          refine ⟨m3, root3, ?_, ?_, ?_⟩
          · simp only [rebalancePath, hm, Option.bind_eq_bind, Option.bind_some]
            cases h1 : recalcHeight ⟨m, root⟩ i with
            | none => simp [h1] at e1'
            | some hp1 =>
              simp only [h1, Option.bind_some] at e1' ⊢
              cases h2 : findReference hp1 i with
              | none => simp [h2] at e1'
              | some ref' =>
                simp only [h2, Option.bind_some] at e1' ⊢
                cases h3 : rebalanceNode hp1 ref' with
                | none => simp [h3] at e1'
                | some hp2 =>
                  simp only [h3, Option.bind_some, Option.some.injEq, Prod.mk.injEq] at e1' ⊢
                  obtain ⟨rfl, rfl⟩ := e1'
                  simp [hd3, hmj]
          · have := own_plug hc3 ho3
            simpa using this
          · intro n hn; apply hfr3; simpa using hn
        · have hne : (Avl.height (node l' k' h' r') == h) = false := by
            simp [Avl.height]; exact fun e => hh e.symm
          rw [hne] at hup
          obtain ⟨m', root', e5, ho', hfr'⟩ := ih fuel hc3 ho3 nd' hup hf
          refine ⟨m', root', ?_, by simpa using ho', ?_⟩
          · simp only [rebalancePath, hm, Option.bind_eq_bind, Option.bind_some]
            cases h1 : recalcHeight ⟨m, root⟩ i with
            | none => simp [h1] at e1'
            | some hp1 =>
              simp only [h1, Option.bind_some] at e1' ⊢
              cases h2 : findReference hp1 i with
              | none => simp [h2] at e1'
              | some ref' =>
                simp only [h2, Option.bind_some] at e1' ⊢
                cases h3 : rebalanceNode hp1 ref' with
                | none => simp [h3] at e1'
                | some hp2 =>
                  simp only [h3, Option.bind_some, Option.some.injEq, Prod.mk.injEq] at e1' ⊢
                  obtain ⟨rfl, rfl⟩ := e1'
                  simp [hd3, hmj, hh, e5]
          · intro n hn
            have hn' : n ∉ pre ++ (ids ++ i :: sids) ++ post' := by simpa using hn
            rw [hfr' n hn', hfr3 n hn']
    | R k h sib =>
      obtain ⟨i, lp, gp, sids, pre', rfl, hm, hs, hc', rfl⟩ := hc
      simp only [up, fixF, Avl.fix, Bool.false_eq_true, if_false] at hup
      cases hX : Avl.rebalanceNode (Avl.mk sib k t) with
      | none => simp [hX] at hup
      | some X' =>
        simp only [hX] at hup
        have nd' : (pre' ++ (sids ++ i :: ids) ++ post).Nodup := by simpa using nd
        obtain ⟨ref, j, m3, root3, e1, hd3, hc3, ho3, hfr3⟩ :=
          walk_step hc' hm hs ht rfl nd' hX
        obtain ⟨l', k', h', r', lp', rp', il', ir', rfl, hmj, _, _, _⟩ := own_some ho3
        have e1' := e1
        simp only [Option.bind_eq_bind] at e1'
        by_cases hh : h = h'
        · subst hh
          simp only [Avl.height, beq_self_eq_true] at hup
          rw [up_true] at hup
          simp only [Option.some.injEq, Prod.mk.injEq] at hup
          obtain ⟨rfl, _⟩ := hup
          refine ⟨m3, root3, ?_, ?_, ?_⟩
          · simp only [rebalancePath, hm, Option.bind_eq_bind, Option.bind_some]
            cases h1 : recalcHeight ⟨m, root⟩ i with
            | none => simp [h1] at e1'
            | some hp1 =>
              simp only [h1, Option.bind_some] at e1' ⊢
              cases h2 : findReference hp1 i with
              | none => simp [h2] at e1'
              | some ref' =>
                simp only [h2, Option.bind_some] at e1' ⊢
                cases h3 : rebalanceNode hp1 ref' with
                | none => simp [h3] at e1'
                | some hp2 =>
                  simp only [h3, Option.bind_some, Option.some.injEq, Prod.mk.injEq] at e1' ⊢
                  obtain ⟨rfl, rfl⟩ := e1'
                  simp [hd3, hmj]
          · have := own_plug hc3 ho3
            simpa using this
          · intro n hn; apply hfr3; simpa using hn
        · have hne : (Avl.height (node l' k' h' r') == h) = false := by
            simp [Avl.height]; exact fun e => hh e.symm
          rw [hne] at hup
          obtain ⟨m', root', e5, ho', hfr'⟩ := ih fuel hc3 ho3 nd' hup hf
          refine ⟨m', root', ?_, by simpa using ho', ?_⟩
          · simp only [rebalancePath, hm, Option.bind_eq_bind, Option.bind_some]
            cases h1 : recalcHeight ⟨m, root⟩ i with
            | none => simp [h1] at e1'
            | some hp1 =>
              simp only [h1, Option.bind_some] at e1' ⊢
              cases h2 : findReference hp1 i with
              | none => simp [h2] at e1'
              | some ref' =>
                simp only [h2, Option.bind_some] at e1' ⊢
                cases h3 : rebalanceNode hp1 ref' with
                | none => simp [h3] at e1'
                | some hp2 =>
                  simp only [h3, Option.bind_some, Option.some.injEq, Prod.mk.injEq] at e1' ⊢
                  obtain ⟨rfl, rfl⟩ := e1'
                  simp [hd3, hmj, hh, e5]
          · intro n hn
            have hn' : n ∉ pre' ++ (sids ++ i :: ids) ++ post := by simpa using hn
            rw [hfr' n hn', hfr3 n hn']

end Ivy.AvlPtr
