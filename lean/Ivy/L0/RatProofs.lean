import Ivy.L0.Rat
import Ivy.L0.HeapProofs
/-!
# The radix tree of iv_timer.c behaves as the flat array assumed by `Ivy/L0/Heap.lean`

Model: `Ivy/L0/Rat.lean`.  All tree statements are for an arbitrary `bits` (hence for every
`bits ≥ 1`; the few that need `1 ≤ bits` say so), every depth and every index.

* `flat s i` — the slot heap index `i` denotes (`none` = NULL / unallocated / beyond the capacity).
* `Shape` — uniform height, fan-out `2^bits`, leftmost path allocated (it ends in the embedded `first_leaf`).
* (a) `getNode_spec`, (b) `store_spec` / `store_flat`, (c) `removeLevel_flat` + `removeLevel_ledger`.
* `ptr_zero_iff` — only index 0 addresses the cell overlaying `timer_root`;
  `sibling_spec` — `push_down`'s `p[1]` is the slot of `2*index+1`.
* `Dense s m` — nodes are allocated left to right up to the high-water mark `m` (what the
  `break`-at-first-NULL free loops rely on); `Ledger` — `allocated + 1 = reach`.
  (e) `getNode_dense/ledger`, `removeLevel_ledger`, `freeAll_allocated`, `no_leak`.
* (d) `rat_refines_array` — simulation of slot-operation sequences (`Sim`, `Legal`), then
  `register_steps` / `removeAt_steps` / `unregister_steps` / `collect_steps`: the heap model's
  operations are such sequences, and `history_refines`: end-to-end for any valid client history.
-/
namespace Ivy.Rat.Proofs
open Ivy.Rat

/-! ## Arithmetic of digits -/

theorem fan_pos (bits : Nat) : 0 < fan bits := Nat.pow_pos (by omega)
theorem span_pos (bits h : Nat) : 0 < span bits h := Nat.pow_pos (by omega)
theorem span_zero (bits : Nat) : span bits 0 = fan bits := by simp [span, fan]
theorem span_succ (bits h : Nat) : span bits (h + 1) = span bits h * fan bits := by
  simp only [span, fan, ← Nat.pow_add]; congr 1; simp [Nat.add_mul]

theorem digit_eq (bits k i : Nat) : digit bits k i = i / 2 ^ (k * bits) % fan bits := by
  simp only [digit, fan, Nat.shiftRight_eq_div_pow, Nat.and_two_pow_sub_one_eq_mod]

theorem digit_lt (bits k i : Nat) : digit bits k i < fan bits := by
  rw [digit_eq]; exact Nat.mod_lt _ (fan_pos bits)

theorem digit_zero (bits i : Nat) : digit bits 0 i = i % span bits 0 := by
  simp [digit_eq, span_zero]

/-- the digit at level `h+1` is the quotient of the local index by the span of a child -/
theorem digit_succ (bits h i : Nat) : digit bits (h + 1) i = i % span bits (h + 1) / span bits h := by
  rw [digit_eq, span_succ, Nat.mod_mul_right_div_self]; rfl

theorem mod_span_succ (bits h i : Nat) : i % span bits (h + 1) % span bits h = i % span bits h := by
  rw [span_succ]; exact Nat.mod_mul_right_mod _ _ _

/-- two local indices agree iff their top digits and their child-local indices agree -/
theorem local_eq_iff (bits h i j : Nat) :
    j % span bits (h + 1) = i % span bits (h + 1) ↔
      digit bits (h + 1) j = digit bits (h + 1) i ∧ j % span bits h = i % span bits h := by
  rw [digit_succ, digit_succ, ← mod_span_succ bits h i, ← mod_span_succ bits h j]
  generalize j % span bits (h + 1) = x
  generalize i % span bits (h + 1) = y
  constructor
  · rintro rfl; exact ⟨rfl, rfl⟩
  · rintro ⟨h1, h2⟩
    rw [← Nat.div_add_mod x (span bits h), ← Nat.div_add_mod y (span bits h), h1, h2]

/-! ## Shape -/

/-- shape: uniform height `h`, every node has exactly `fan bits` children -/
def WF (bits : Nat) : Nat → Rat → Prop
  | 0, .leaf sl => sl.length = fan bits
  | h + 1, .node cs => cs.length = fan bits ∧ ∀ c, some c ∈ cs → WF bits h c
  | _, _ => False

/-- the leftmost path is allocated (its end is the embedded `first_leaf`) -/
def Spine : Nat → Rat → Prop
  | 0, _ => True
  | h + 1, .node cs => ∃ c, child cs 0 = some c ∧ Spine h c
  | _ + 1, .leaf _ => False

theorem child_set_self {cs : List (Option Rat)} {d : Nat} (x : Rat) (hd : d < cs.length) :
    child (cs.set d (some x)) d = some x := by
  simp [child, hd]

theorem child_set_ne {cs : List (Option Rat)} {d k : Nat} (x : Option Rat) (h : d ≠ k) :
    child (cs.set d x) k = child cs k := by
  simp [child, h]

theorem child_mem {cs : List (Option Rat)} {d : Nat} {c : Rat} (h : child cs d = some c) : some c ∈ cs := by
  unfold child at h
  cases h' : cs[d]? with
  | none => simp [h'] at h
  | some o =>
    simp [h'] at h
    subst h
    exact List.mem_of_getElem? h'

theorem child_replicate (n d : Nat) : child (List.replicate n (none : Option Rat)) d = none := by
  simp only [child, List.getElem?_replicate]
  split <;> rfl

theorem mem_set_some {cs : List (Option Rat)} {d : Nat} {x c : Rat} (h : some c ∈ cs.set d (some x)) :
    c = x ∨ some c ∈ cs := by
  rcases List.mem_or_eq_of_mem_set h with h | h
  · exact Or.inr h
  · exact Or.inl (by simpa using h)

theorem wf_alloc (bits h : Nat) : WF bits h (alloc bits h) := by
  cases h with
  | zero => simp [alloc, WF]
  | succ h =>
    simp only [alloc, WF, List.length_replicate, true_and]
    intro c hc
    simp [List.mem_replicate] at hc

theorem lookup_alloc (bits h j : Nat) : lookup bits h (alloc bits h) j = none := by
  cases h with
  | zero => simp only [alloc, lookup, List.getElem?_replicate]; split <;> rfl
  | succ h => simp [alloc, lookup, child_replicate]

theorem wf_child {bits h : Nat} {cs : List (Option Rat)} (hw : WF bits (h + 1) (.node cs)) {d : Nat} {c : Rat}
    (hc : child cs d = some c) : WF bits h c := hw.2 c (child_mem hc)

/-- the child the descent continues in is well shaped -/
theorem wf_getD {bits h : Nat} {cs : List (Option Rat)} (hw : WF bits (h + 1) (.node cs)) (d : Nat) :
    WF bits h ((child cs d).getD (alloc bits h)) := by
  cases hc : child cs d with
  | none => exact wf_alloc bits h
  | some c => exact wf_child hw hc

/-- looking up below a NULL child is the same as looking up in a freshly allocated node -/
theorem lookup_node_eq (bits h : Nat) (cs : List (Option Rat)) (j : Nat) :
    lookup bits (h + 1) (.node cs) j =
      lookup bits h ((child cs (digit bits (h + 1) j)).getD (alloc bits h)) j := by
  simp only [lookup]
  cases hc : child cs (digit bits (h + 1) j) with
  | none => simp [lookup_alloc]
  | some c => simp

/-! ## `descend`: lazy allocation keeps every slot, returns the right slot -/

theorem descend_wf (bits : Nat) : ∀ (h : Nat) (t : Rat) (i : Nat), WF bits h t → WF bits h (descend bits h t i).tree := by
  intro h
  induction h with
  | zero => intro t i hw; simpa [descend] using hw
  | succ h ih =>
    intro t i hw
    cases t with
    | leaf sl => simp [WF] at hw
    | node cs =>
      simp only [descend, WF, List.length_set]
      refine ⟨hw.1, fun c hc => ?_⟩
      rcases mem_set_some hc with rfl | hc
      · exact ih _ _ (wf_getD hw _)
      · exact hw.2 c hc

theorem descend_lookup (bits : Nat) : ∀ (h : Nat) (t : Rat) (i j : Nat), WF bits h t →
    lookup bits h (descend bits h t i).tree j = lookup bits h t j := by
  intro h
  induction h with
  | zero => intro t i j hw; simp [descend]
  | succ h ih =>
    intro t i j hw
    cases t with
    | leaf sl => simp [WF] at hw
    | node cs =>
      have hd : digit bits (h + 1) i < cs.length := by rw [hw.1]; exact digit_lt ..
      simp only [descend, lookup]
      by_cases hk : digit bits (h + 1) i = digit bits (h + 1) j
      · rw [← hk, child_set_self _ hd]
        simp only [ih _ _ _ (wf_getD hw _)]
        rw [hk, ← lookup_node_eq]; simp only [lookup]
      · rw [child_set_ne _ hk]

theorem descend_read (bits : Nat) : ∀ (h : Nat) (t : Rat) (i : Nat), WF bits h t →
    readPath (descend bits h t i).ptr (descend bits h t i).tree = some (lookup bits h t i) := by
  intro h
  induction h with
  | zero =>
    intro t i hw
    cases t with
    | node cs => simp [WF] at hw
    | leaf sl =>
      simp only [WF] at hw
      have : digit bits 0 i < sl.length := by rw [hw]; exact digit_lt ..
      simp [descend, readPath, lookup, this]
  | succ h ih =>
    intro t i hw
    cases t with
    | leaf sl => simp [WF] at hw
    | node cs =>
      have hd : digit bits (h + 1) i < cs.length := by rw [hw.1]; exact digit_lt ..
      simp only [descend, readPath, child_set_self _ hd]
      rw [ih _ _ (wf_getD hw _), ← lookup_node_eq]


/-! ## Writing through the returned pointer -/

theorem write_wf (bits : Nat) (v : Option Nat) : ∀ (h : Nat) (t : Rat) (p : Ptr), WF bits h t →
    WF bits h (writePath v p t) := by
  intro h
  induction h with
  | zero =>
    intro t p hw
    cases t with
    | node cs => simp [WF] at hw
    | leaf sl =>
      match p with
      | [] => simpa [writePath] using hw
      | [d] => simpa [writePath, WF] using hw
      | d :: e :: q => simpa [writePath] using hw
  | succ h ih =>
    intro t p hw
    cases t with
    | leaf sl => simp [WF] at hw
    | node cs =>
      match p with
      | [] => simpa [writePath] using hw
      | d :: q =>
        simp only [writePath]
        cases hc : child cs d with
        | none => simpa using hw
        | some c =>
          simp only [WF, List.length_set]
          refine ⟨hw.1, fun c' hc' => ?_⟩
          rcases mem_set_some hc' with rfl | hc'
          · exact ih _ _ (wf_child hw hc)
          · exact hw.2 c' hc'

theorem write_lookup (bits : Nat) (v : Option Nat) : ∀ (h : Nat) (t : Rat) (i j : Nat), WF bits h t →
    lookup bits h (writePath v (descend bits h t i).ptr (descend bits h t i).tree) j =
      if j % span bits h = i % span bits h then v else lookup bits h t j := by
  intro h
  induction h with
  | zero =>
    intro t i j hw
    cases t with
    | node cs => simp [WF] at hw
    | leaf sl =>
      simp only [WF] at hw
      have hi : digit bits 0 i < sl.length := by rw [hw]; exact digit_lt ..
      simp only [descend, writePath, lookup, List.getElem?_set, ← digit_zero]
      by_cases hk : digit bits 0 j = digit bits 0 i
      · simp [hk, hi]
      · have hk' : ¬ digit bits 0 i = digit bits 0 j := fun h => hk h.symm
        simp [hk, hk']
  | succ h ih =>
    intro t i j hw
    cases t with
    | leaf sl => simp [WF] at hw
    | node cs =>
      have hd : digit bits (h + 1) i < cs.length := by rw [hw.1]; exact digit_lt ..
      simp only [descend, writePath, child_set_self _ hd, List.set_set, local_eq_iff]
      by_cases hk : digit bits (h + 1) j = digit bits (h + 1) i
      · simp only [lookup, hk, child_set_self _ hd, true_and]
        rw [ih _ _ _ (wf_getD hw _), ← hk, ← lookup_node_eq]
        simp only [lookup]
      · have hk' : ¬ digit bits (h + 1) i = digit bits (h + 1) j := fun h => hk h.symm
        simp only [lookup, hk, false_and, if_false, child_set_ne _ hk']

theorem write_read (bits : Nat) (v : Option Nat) : ∀ (h : Nat) (t : Rat) (i : Nat), WF bits h t →
    readPath (descend bits h t i).ptr (writePath v (descend bits h t i).ptr (descend bits h t i).tree) = some v := by
  intro h
  induction h with
  | zero =>
    intro t i hw
    cases t with
    | node cs => simp [WF] at hw
    | leaf sl =>
      simp only [WF] at hw
      have hi : digit bits 0 i < sl.length := by rw [hw]; exact digit_lt ..
      simp [descend, writePath, readPath, hi]
  | succ h ih =>
    intro t i hw
    cases t with
    | leaf sl => simp [WF] at hw
    | node cs =>
      have hd : digit bits (h + 1) i < cs.length := by rw [hw.1]; exact digit_lt ..
      simp only [descend, writePath, child_set_self _ hd, List.set_set, readPath]
      exact ih _ _ (wf_getD hw _)


/-! ## The leftmost path stays allocated -/

theorem descend_spine (bits : Nat) : ∀ (h : Nat) (t : Rat) (i : Nat), WF bits h t → Spine h t →
    Spine h (descend bits h t i).tree := by
  intro h
  induction h with
  | zero => intro t i _ _; simp [Spine]
  | succ h ih =>
    intro t i hw hs
    cases t with
    | leaf sl => simp [WF] at hw
    | node cs =>
      have hd : digit bits (h + 1) i < cs.length := by rw [hw.1]; exact digit_lt ..
      obtain ⟨c, hc, hsc⟩ := hs
      simp only [descend, Spine]
      by_cases hk : digit bits (h + 1) i = 0
      · rw [hk] at hd ⊢
        rw [child_set_self _ hd, hc]
        exact ⟨_, rfl, ih _ _ (wf_child hw hc) hsc⟩
      · rw [child_set_ne _ hk]; exact ⟨c, hc, hsc⟩

theorem write_spine (v : Option Nat) : ∀ (h : Nat) (t : Rat) (p : Ptr), Spine h t → Spine h (writePath v p t) := by
  intro h
  induction h with
  | zero => intro t p _; simp [Spine]
  | succ h ih =>
    intro t p hs
    cases t with
    | leaf sl => simp [Spine] at hs
    | node cs =>
      match p with
      | [] => simpa [writePath] using hs
      | d :: q =>
        obtain ⟨c, hc, hsc⟩ := hs
        simp only [writePath]
        cases hd : child cs d with
        | none => exact ⟨c, hc, hsc⟩
        | some c' =>
          simp only [Spine]
          by_cases hk : d = 0
          · subst hk
            rw [hc] at hd; cases hd
            have : 0 < cs.length := by
              cases cs with
              | nil => simp [child] at hc
              | cons _ _ => simp
            rw [child_set_self _ this]
            exact ⟨_, rfl, ih _ _ hsc⟩
          · rw [child_set_ne _ hk]; exact ⟨c, hc, hsc⟩

/-! ## State level: `flat`, and theorems (a) and (b) -/

/-- the shape invariant of a tree state -/
structure Shape (bits : Nat) (s : RatState) : Prop where
  wf    : WF bits s.depth s.root
  spine : Spine s.depth s.root

/-- the slot that heap index `i` denotes; `none` = NULL, not allocated, or beyond the capacity -/
def flat (bits : Nat) (s : RatState) (i : Nat) : Option Nat :=
  if i < span bits s.depth then lookup bits s.depth s.root i else none

theorem init_shape (bits : Nat) : Shape bits (RatState.init bits) :=
  ⟨wf_alloc bits 0, trivial⟩

theorem init_flat (bits i : Nat) : flat bits (RatState.init bits) i = none := by
  simp [flat, RatState.init, lookup_alloc]

/-- the C growth test `index >> ((rat_depth+1)*bits) != 0` means "beyond the capacity" -/
theorem grow_test (bits d i : Nat) : (i >>> ((d + 1) * bits) != 0) = decide (span bits d ≤ i) := by
  have hp : 0 < 2 ^ ((d + 1) * bits) := Nat.pow_pos (by omega)
  rw [Nat.shiftRight_eq_div_pow, span]
  by_cases h : 2 ^ ((d + 1) * bits) ≤ i
  · have : i / 2 ^ ((d + 1) * bits) ≠ 0 := by
      intro h0; rw [Nat.div_eq_zero_iff] at h0; omega
    simp [h, this]
  · have : i / 2 ^ ((d + 1) * bits) = 0 := Nat.div_eq_of_lt (by omega)
    simp [h, this]

theorem growRoot_depth (bits : Nat) (s : RatState) (i : Nat) :
    (growRoot bits s i).depth = if span bits s.depth ≤ i then s.depth + 1 else s.depth := by
  simp only [growRoot, grow_test, decide_eq_true_eq]
  split <;> rfl

theorem growRoot_shape {bits : Nat} {s : RatState} (i : Nat) (h : Shape bits s) : Shape bits (growRoot bits s i) := by
  simp only [growRoot, grow_test, decide_eq_true_eq]
  split
  · refine ⟨?_, ?_⟩
    · simp only [WF, List.length_cons, List.length_replicate, List.mem_cons, List.mem_replicate]
      refine ⟨by have := fan_pos bits; omega, fun c hc => ?_⟩
      rcases hc with hc | hc
      · cases hc; exact h.wf
      · simp at hc
    · exact ⟨s.root, by simp [child], h.spine⟩
  · exact h

theorem growRoot_flat {bits : Nat} (s : RatState) (i j : Nat) :
    flat bits (growRoot bits s i) j = flat bits s j := by
  simp only [growRoot, grow_test, decide_eq_true_eq]
  split
  · simp only [flat, lookup]
    have hS := span_pos bits s.depth
    by_cases hj : j < span bits (s.depth + 1)
    · have hdj : digit bits (s.depth + 1) j = j / span bits s.depth := by
        rw [digit_succ, Nat.mod_eq_of_lt hj]
      by_cases hj' : j < span bits s.depth
      · have : j / span bits s.depth = 0 := Nat.div_eq_of_lt hj'
        simp [hj, hj', hdj, this, child]
      · have : j / span bits s.depth ≠ 0 := by
          intro h0
          rw [Nat.div_eq_zero_iff] at h0
          omega
        obtain ⟨k, hk⟩ := Nat.exists_eq_succ_of_ne_zero this
        have hn : child (some s.root :: List.replicate (fan bits - 1) none) (k + 1) = none := by
          simp only [child, List.getElem?_cons_succ, List.getElem?_replicate]
          split <;> rfl
        simp only [hj, hj', if_true, if_false, hdj, hk, Nat.succ_eq_add_one, hn]
    · have : ¬ j < span bits s.depth := by
        rw [span_succ] at hj
        have := Nat.le_mul_of_pos_right (span bits s.depth) (fan_pos bits)
        omega
      simp [hj, this]
  · rfl


theorem flat_of_lt {bits : Nat} {s : RatState} {i : Nat} (h : i < span bits s.depth) :
    flat bits s i = lookup bits s.depth s.root i := by simp [flat, h]

theorem flat_of_ge {bits : Nat} {s : RatState} {i : Nat} (h : span bits s.depth ≤ i) :
    flat bits s i = none := by simp [flat]; omega

theorem growRoot_lt {bits : Nat} {s : RatState} {i : Nat} (hi : i < span bits (s.depth + 1)) :
    i < span bits (growRoot bits s i).depth := by
  rw [growRoot_depth]; split <;> omega

theorem getNode_depth (bits : Nat) (s : RatState) (i : Nat) :
    (getNode bits s i).1.depth = if span bits s.depth ≤ i then s.depth + 1 else s.depth := by
  simp only [getNode, growRoot_depth]

/-- **(a)** `iv_timer_get_node(st, i)` for an index at most one level beyond the current capacity:
the tree stays well shaped, afterwards `i` is within the capacity (the depth grew by one iff `i` was
beyond it), the returned pointer is valid and points at the slot of `i`, and no slot changes: growth
and lazy allocation keep every stored slot, and new slots read NULL (`flat s j = none` for `j`
beyond the old capacity). -/
theorem getNode_spec {bits : Nat} {s : RatState} (i : Nat) (hs : Shape bits s)
    (hi : i < span bits (s.depth + 1)) :
    Shape bits (getNode bits s i).1 ∧
    (getNode bits s i).1.depth = (if span bits s.depth ≤ i then s.depth + 1 else s.depth) ∧
    i < span bits (getNode bits s i).1.depth ∧
    readSlot (getNode bits s i).1 (getNode bits s i).2 = some (flat bits s i) ∧
    ∀ j, flat bits (getNode bits s i).1 j = flat bits s j := by
  have hg := growRoot_shape i hs
  have hlt := growRoot_lt hi
  refine ⟨⟨descend_wf _ _ _ _ hg.wf, descend_spine _ _ _ _ hg.wf hg.spine⟩, getNode_depth .., hlt, ?_, ?_⟩
  · simp only [readSlot, getNode]
    rw [descend_read _ _ _ _ hg.wf, ← growRoot_flat s i i, flat_of_lt hlt]
  · intro j
    rw [← growRoot_flat s i j]
    simp only [flat, getNode, descend_lookup _ _ _ _ _ hg.wf]

/-- **(b)** write-then-read: `*iv_timer_get_node(st, i) = v` updates slot `i` and nothing else
(also when the call grows the tree). -/
theorem store_spec {bits : Nat} {s : RatState} (i : Nat) (v : Option Nat) (hs : Shape bits s)
    (hi : i < span bits (s.depth + 1)) :
    Shape bits (store bits s i v) ∧
    (store bits s i v).depth = (if span bits s.depth ≤ i then s.depth + 1 else s.depth) ∧
    (store bits s i v).allocated = (getNode bits s i).1.allocated ∧
    readSlot (store bits s i v) (getNode bits s i).2 = some v ∧
    ∀ j, flat bits (store bits s i v) j = if j = i then v else flat bits s j := by
  have hg := growRoot_shape i hs
  have hlt := growRoot_lt hi
  have hn := (getNode_spec i hs hi).1
  refine ⟨⟨write_wf _ _ _ _ _ hn.wf, write_spine _ _ _ _ hn.spine⟩, getNode_depth .., rfl, ?_, ?_⟩
  · simp only [readSlot, store, writeSlot, getNode]
    exact write_read _ _ _ _ _ hg.wf
  · intro j
    rw [← growRoot_flat s i j]
    simp only [flat, store, writeSlot, getNode]
    by_cases hj : j < span bits (growRoot bits s i).depth
    · simp only [hj, if_true]
      rw [write_lookup _ _ _ _ _ _ hg.wf, Nat.mod_eq_of_lt hj, Nat.mod_eq_of_lt hlt]
    · have : j ≠ i := by omega
      simp [hj, this]

/-- in-capacity form of (b): no growth, `flat` is updated at `i` -/
theorem store_flat {bits : Nat} {s : RatState} (i : Nat) (v : Option Nat) (hs : Shape bits s)
    (hi : i < span bits s.depth) :
    (store bits s i v).depth = s.depth ∧
    ∀ j, flat bits (store bits s i v) j = if j = i then v else flat bits s j := by
  have hlt : i < span bits (s.depth + 1) := by
    have := Nat.le_mul_of_pos_right (span bits s.depth) (fan_pos bits)
    rw [span_succ]; omega
  obtain ⟨_, hd, _, _, hf⟩ := store_spec i v hs hlt
  refine ⟨?_, hf⟩
  rw [hd, if_neg (by omega)]

/-! ## The `first_leaf` overlay: only index 0 addresses cell 0 of the leftmost leaf -/

theorem descend_ptr_zero (bits : Nat) : ∀ (h : Nat) (t : Rat) (i : Nat), WF bits h t →
    ((descend bits h t i).ptr = List.replicate (h + 1) 0 ↔ i % span bits h = 0) := by
  intro h
  induction h with
  | zero => intro t i _; simp [descend, digit_zero]
  | succ h ih =>
    intro t i hw
    cases t with
    | leaf sl => simp [WF] at hw
    | node cs =>
      simp only [descend, List.replicate_succ (n := h + 1), List.cons.injEq, ih _ _ (wf_getD hw _)]
      rw [digit_succ, ← mod_span_succ bits h i]
      generalize i % span bits (h + 1) = x
      have hS := span_pos bits h
      constructor
      · rintro ⟨h1, h2⟩
        rw [← Nat.div_add_mod x (span bits h), h1, h2]; simp
      · intro h0; subst h0; simp

/-- The cell that overlays `st->ratnode.timer_root` (cell 0 of the leftmost leaf, i.e. the all-zero
path) is addressed by `iv_timer_get_node` only for index 0, which the heap never uses. -/
theorem ptr_zero_iff {bits : Nat} {s : RatState} (i : Nat) (hs : Shape bits s) (hi : i < span bits (s.depth + 1)) :
    (getNode bits s i).2 = List.replicate ((getNode bits s i).1.depth + 1) 0 ↔ i = 0 := by
  have hg := growRoot_shape i hs
  have hlt := growRoot_lt hi
  simp only [getNode]
  rw [descend_ptr_zero _ _ _ _ hg.wf, Nat.mod_eq_of_lt hlt]


/-! ## (c), flat part: removing a level -/

/-- **(c)**, slots: `iv_timer_radix_tree_remove_level` under the C's shrink condition (every index from
`2^(rat_depth*bits)` on reads NULL) changes no slot; the depth drops by one. -/
theorem removeLevel_flat {bits : Nat} {s : RatState} (hs : Shape bits s) (hd : 0 < s.depth)
    (hnull : ∀ j, span bits (s.depth - 1) ≤ j → flat bits s j = none) :
    Shape bits (removeLevel s) ∧ (removeLevel s).depth = s.depth - 1 ∧
    ∀ j, flat bits (removeLevel s) j = flat bits s j := by
  obtain ⟨root, depth, al⟩ := s
  obtain ⟨hw, hsp⟩ := hs
  simp only at hw hsp hd hnull
  cases depth with
  | zero => omega
  | succ d =>
    cases root with
    | leaf sl => simp [WF] at hw
    | node cs =>
      obtain ⟨c0, hc0, hs0⟩ := hsp
      cases cs with
      | nil => simp [child] at hc0
      | cons x rest =>
        have hx : x = some c0 := by simpa [child] using hc0
        subst hx
        simp only [removeLevel]
        refine ⟨⟨hw.2 c0 (by simp), hs0⟩, rfl, fun j => ?_⟩
        by_cases hj : j < span bits d
        · have hj' : j < span bits (d + 1) := by
            have := Nat.le_mul_of_pos_right (span bits d) (fan_pos bits)
            rw [span_succ]; omega
          have hdj : digit bits (d + 1) j = 0 := by
            rw [digit_succ, Nat.mod_eq_of_lt hj']; exact Nat.div_eq_of_lt hj
          simp [flat, hj, hj', lookup, hdj, child]
        · rw [hnull j (by simpa using Nat.le_of_not_lt hj)]
          simp [flat, hj]

/-! ## Ledger: reachable nodes -/

theorem child_lt {cs : List (Option Rat)} {d : Nat} {c : Rat} (h : child cs d = some c) : d < cs.length := by
  unfold child at h
  cases h' : cs[d]? with
  | none => simp [h'] at h
  | some o => exact (List.getElem?_eq_some_iff.mp h').1

theorem sumChildren_set (f : Rat → Nat) (x : Rat) : ∀ (cs : List (Option Rat)) (d : Nat), d < cs.length →
    sumChildren f (cs.set d (some x)) + (child cs d).elim 0 f = sumChildren f cs + f x := by
  intro cs
  induction cs with
  | nil => intro d hd; simp at hd
  | cons y cs ih =>
    intro d hd
    cases d with
    | zero =>
      cases y <;> simp [sumChildren, child] <;> omega
    | succ d =>
      have := ih d (by simpa using hd)
      have hc : child (y :: cs) (d + 1) = child cs d := by simp [child]
      rw [hc]
      cases y <;> simp only [List.set_cons_succ, sumChildren] <;> omega

theorem sumChildren_replicate (f : Rat → Nat) (n : Nat) : sumChildren f (List.replicate n none) = 0 := by
  induction n with
  | zero => rfl
  | succ n ih => simpa [List.replicate_succ, sumChildren] using ih

theorem reach_alloc (bits h : Nat) : reach h (alloc bits h) = 1 := by
  cases h with
  | zero => rfl
  | succ h => simp [alloc, reach, sumChildren_replicate]

/-- lazy allocation adds exactly the allocated nodes to the reachable ones -/
theorem descend_reach (bits : Nat) : ∀ (h : Nat) (t : Rat) (i : Nat), WF bits h t →
    reach h (descend bits h t i).tree = reach h t + (descend bits h t i).allocs := by
  intro h
  induction h with
  | zero => intro t i _; simp [descend, reach]
  | succ h ih =>
    intro t i hw
    cases t with
    | leaf sl => simp [WF] at hw
    | node cs =>
      have hd : digit bits (h + 1) i < cs.length := by rw [hw.1]; exact digit_lt ..
      simp only [descend, reach]
      have h1 := sumChildren_set (reach h) (descend bits h ((child cs (digit bits (h + 1) i)).getD (alloc bits h)) i).tree cs _ hd
      have h2 := ih _ i (wf_getD hw (digit bits (h + 1) i))
      cases hc : child cs (digit bits (h + 1) i) with
      | none =>
        simp only [hc, Option.getD_none, Option.elim_none, Option.isSome_none] at h1 h2 ⊢
        rw [reach_alloc] at h2
        simp; omega
      | some c =>
        simp only [hc, Option.getD_some, Option.elim_some, Option.isSome_some] at h1 h2 ⊢
        simp; omega

theorem write_reach (v : Option Nat) : ∀ (h : Nat) (t : Rat) (p : Ptr), reach h (writePath v p t) = reach h t := by
  intro h
  induction h with
  | zero => intro t p; simp [reach]
  | succ h ih =>
    intro t p
    cases t with
    | leaf sl =>
      match p with
      | [] => simp [writePath]
      | [d] => simp [writePath, reach]
      | d :: e :: q => simp [writePath]
    | node cs =>
      match p with
      | [] => simp [writePath]
      | d :: q =>
        simp only [writePath]
        cases hc : child cs d with
        | none => rfl
        | some c =>
          have h1 := sumChildren_set (reach h) (writePath v q c) cs d (child_lt hc)
          simp only [hc, Option.elim_some, ih] at h1
          simp only [reach]; omega

/-! ## Density: nodes are allocated left to right -/

/-- `Filled h m t`: below `t` (height `h`) exactly the nodes whose index range meets `[0, m]` are
allocated.  This is what the `break` at the first NULL child in `iv_timer_free_ratnode` and
`iv_timer_radix_tree_remove_level` relies on; it holds because heap indices grow by one. -/
def Filled (bits : Nat) : Nat → Nat → Rat → Prop
  | 0, _, .leaf sl => sl.length = fan bits
  | h + 1, m, .node cs => cs.length = fan bits ∧ ∀ k, k < fan bits →
      (k < m / span bits h → ∃ c, child cs k = some c ∧ Filled bits h (span bits h - 1) c) ∧
      (k = m / span bits h → ∃ c, child cs k = some c ∧ Filled bits h (m % span bits h) c) ∧
      (m / span bits h < k → child cs k = none)
  | _, _, _ => False

theorem filled_wf (bits : Nat) : ∀ (h m : Nat) (t : Rat), Filled bits h m t → WF bits h t := by
  intro h
  induction h with
  | zero =>
    intro m t hf
    cases t with
    | node cs => simp [Filled] at hf
    | leaf sl => simpa [Filled, WF] using hf
  | succ h ih =>
    intro m t hf
    cases t with
    | leaf sl => simp [Filled] at hf
    | node cs =>
      obtain ⟨hlen, hk⟩ := hf
      refine ⟨hlen, fun c hc => ?_⟩
      obtain ⟨k, hk'⟩ := List.mem_iff_getElem?.mp hc
      have hlt : k < fan bits := by rw [← hlen]; exact (List.getElem?_eq_some_iff.mp hk').1
      have hck : child cs k = some c := by simp [child, hk']
      rcases Nat.lt_trichotomy k (m / span bits h) with h1 | h1 | h1
      · obtain ⟨c', hc', hf'⟩ := (hk k hlt).1 h1
        rw [hck] at hc'; cases hc'; exact ih _ _ hf'
      · obtain ⟨c', hc', hf'⟩ := (hk k hlt).2.1 h1
        rw [hck] at hc'; cases hc'; exact ih _ _ hf'
      · have := (hk k hlt).2.2 h1
        rw [hck] at this; cases this

theorem filled_spine (bits : Nat) : ∀ (h m : Nat) (t : Rat), Filled bits h m t → Spine h t := by
  intro h
  induction h with
  | zero => intro m t _; trivial
  | succ h ih =>
    intro m t hf
    cases t with
    | leaf sl => simp [Filled] at hf
    | node cs =>
      obtain ⟨_, hk⟩ := hf
      rcases Nat.eq_zero_or_pos (m / span bits h) with h0 | h0
      · obtain ⟨c, hc, hf'⟩ := (hk 0 (fan_pos bits)).2.1 h0.symm
        exact ⟨c, hc, ih _ _ hf'⟩
      · obtain ⟨c, hc, hf'⟩ := (hk 0 (fan_pos bits)).1 h0
        exact ⟨c, hc, ih _ _ hf'⟩


theorem filled_alloc_descend (bits : Nat) : ∀ (h i : Nat), i % span bits h = 0 →
    Filled bits h 0 (descend bits h (alloc bits h) i).tree := by
  intro h
  induction h with
  | zero => intro i _; simp [descend, alloc, Filled]
  | succ h ih =>
    intro i hi
    have hd : digit bits (h + 1) i = 0 := by rw [digit_succ, hi]; simp
    have hi' : i % span bits h = 0 := by rw [← mod_span_succ, hi]; simp
    have hf := fan_pos bits
    simp only [alloc, descend, hd, child_replicate, Option.getD_none, Filled, List.length_set,
      List.length_replicate, Nat.zero_div, Nat.zero_mod, true_and]
    intro k hk
    refine ⟨fun h => by omega, fun h0 => ?_, fun h0 => ?_⟩
    · subst h0
      rw [child_set_self _ (by simpa using hf)]
      exact ⟨_, rfl, ih i hi'⟩
    · rw [child_set_ne _ (by omega), child_replicate]

/-- a descent at most one past the high-water mark `m` keeps the tree dense -/
theorem descend_filled (bits : Nat) : ∀ (h m : Nat) (t : Rat) (i : Nat), Filled bits h m t → m < span bits h →
    i % span bits h ≤ m + 1 → Filled bits h (max m (i % span bits h)) (descend bits h t i).tree := by
  intro h
  induction h with
  | zero =>
    intro m t i hf _ _
    cases t with
    | node cs => simp [Filled] at hf
    | leaf sl => simpa [descend, Filled] using hf
  | succ h ih =>
    intro m t i hf hm hxm
    cases t with
    | leaf sl => simp [Filled] at hf
    | node cs =>
      obtain ⟨hlen, hk⟩ := hf
      have hS := span_pos bits h
      have hx : i % span bits (h + 1) < span bits (h + 1) := Nat.mod_lt _ (span_pos ..)
      have hiS : i % span bits h = i % span bits (h + 1) % span bits h := (mod_span_succ ..).symm
      have hdig : digit bits (h + 1) i = i % span bits (h + 1) / span bits h := digit_succ ..
      have hdlt : digit bits (h + 1) i < cs.length := by rw [hlen]; exact digit_lt ..
      simp only [descend, Filled, List.length_set]
      refine ⟨hlen, ?_⟩
      rw [span_succ] at hm hx
      generalize i % span bits (h + 1) = x at *
      generalize hSdef : span bits h = S at *
      generalize digit bits (h + 1) i = d at *
      subst hdig
      have ex := Nat.div_add_mod x S
      have em := Nat.div_add_mod m S
      have lx := Nat.mod_lt x hS
      have lm := Nat.mod_lt m hS
      rcases Nat.lt_trichotomy (x / S) (m / S) with hc | hc | hc
      · -- into a full child
        have h1 : S * (x / S + 1) ≤ S * (m / S) := Nat.mul_le_mul_left S hc
        rw [Nat.mul_add] at h1
        have hmax : max m x = m := Nat.max_eq_left (by omega)
        rw [hmax]
        intro k hkf
        by_cases hkd : k = x / S
        · subst hkd
          obtain ⟨c, hcc, hfc⟩ := (hk _ hkf).1 hc
          refine ⟨fun _ => ?_, fun h0 => by omega, fun h0 => by omega⟩
          rw [child_set_self _ hdlt, hcc]
          refine ⟨_, rfl, ?_⟩
          have := ih (S - 1) c i hfc (by omega) (by omega)
          rwa [Nat.max_eq_left (by omega)] at this
        · rw [child_set_ne _ (fun h => hkd h.symm)]; exact hk k hkf
      · -- into the child holding the high-water mark
        have hq : max m x / S = m / S := by
          rw [Nat.max_def]; split
          · exact hc
          · rfl
        rw [hc] at ex
        have hr : max m x % S = max (m % S) (x % S) := by
          rcases Nat.le_total m x with h | h
          · rw [Nat.max_eq_right h, Nat.max_eq_right (by omega)]
          · rw [Nat.max_eq_left h, Nat.max_eq_left (by omega)]
        rw [hq, hr]
        intro k hkf
        by_cases hkd : k = x / S
        · subst hkd
          obtain ⟨c, hcc, hfc⟩ := (hk _ hkf).2.1 hc
          refine ⟨fun h0 => by omega, fun _ => ?_, fun h0 => by omega⟩
          rw [child_set_self _ hdlt, hcc]
          refine ⟨_, rfl, ?_⟩
          have := ih (m % S) c i hfc lm (by omega)
          rwa [hiS] at this
        · rw [child_set_ne _ (fun h => hkd h.symm)]
          exact ⟨(hk k hkf).1, fun h0 => by omega, (hk k hkf).2.2⟩
      · -- one past the high-water mark, into a NULL child
        have h1 : S * (m / S + 1) ≤ S * (x / S) := Nat.mul_le_mul_left S hc
        rw [Nat.mul_add] at h1
        have h2 : S * (x / S) = S * (m / S + 1) := by rw [Nat.mul_add]; omega
        have hd1 : x / S = m / S + 1 := Nat.eq_of_mul_eq_mul_left hS h2
        have hx0 : x % S = 0 := by omega
        have hmS : m % S = S - 1 := by omega
        have hmax : max m x = x := Nat.max_eq_right (by omega)
        rw [hmax, hx0]
        intro k hkf
        by_cases hkd : k = x / S
        · subst hkd
          have hnone := (hk _ hkf).2.2 hc
          refine ⟨fun h0 => by omega, fun _ => ?_, fun h0 => by omega⟩
          rw [child_set_self _ hdlt, hnone]
          exact ⟨_, rfl, filled_alloc_descend bits h i (by rw [hSdef]; omega)⟩
        · rw [child_set_ne _ (fun h => hkd h.symm)]
          refine ⟨fun h0 => ?_, fun h0 => by omega, fun h0 => (hk k hkf).2.2 (by omega)⟩
          rcases Nat.lt_or_ge k (m / S) with h3 | h3
          · exact (hk k hkf).1 h3
          · have := (hk k hkf).2.1 (by omega)
            rwa [hmS] at this


theorem write_filled (bits : Nat) (v : Option Nat) : ∀ (h m : Nat) (t : Rat) (p : Ptr), Filled bits h m t →
    Filled bits h m (writePath v p t) := by
  intro h
  induction h with
  | zero =>
    intro m t p hf
    cases t with
    | node cs => simp [Filled] at hf
    | leaf sl =>
      match p with
      | [] => simpa [writePath] using hf
      | [d] => simpa [writePath, Filled] using hf
      | d :: e :: q => simpa [writePath] using hf
  | succ h ih =>
    intro m t p hf
    cases t with
    | leaf sl => simp [Filled] at hf
    | node cs =>
      match p with
      | [] => simpa [writePath] using hf
      | d :: q =>
        simp only [writePath]
        cases hc : child cs d with
        | none => exact hf
        | some c =>
          obtain ⟨hlen, hk⟩ := hf
          simp only [Filled, List.length_set]
          refine ⟨hlen, fun k hkf => ?_⟩
          by_cases hkd : k = d
          · subst hkd
            rw [child_set_self _ (child_lt hc)]
            refine ⟨fun h0 => ?_, fun h0 => ?_, fun h0 => ?_⟩
            · obtain ⟨c', hc', hf'⟩ := (hk k hkf).1 h0
              rw [hc] at hc'; cases hc'; exact ⟨_, rfl, ih _ _ _ hf'⟩
            · obtain ⟨c', hc', hf'⟩ := (hk k hkf).2.1 h0
              rw [hc] at hc'; cases hc'; exact ⟨_, rfl, ih _ _ _ hf'⟩
            · have := (hk k hkf).2.2 h0
              rw [hc] at this; cases this
          · rw [child_set_ne _ (fun h => hkd h.symm)]; exact hk k hkf

/-- the non-NULL children form a prefix, each satisfying `P` -/
def PrefixAlloc (P : Rat → Prop) : List (Option Rat) → Prop
  | [] => True
  | some c :: cs => P c ∧ PrefixAlloc P cs
  | none :: cs => ∀ x, x ∈ cs → x = none

theorem sumChildren_all_none (f : Rat → Nat) : ∀ (cs : List (Option Rat)), (∀ x, x ∈ cs → x = none) →
    sumChildren f cs = 0 := by
  intro cs
  induction cs with
  | nil => intro _; rfl
  | cons y cs ih =>
    intro h
    have hy : y = none := h y (by simp)
    subst hy
    simpa [sumChildren] using ih (fun x hx => h x (by simp [hx]))

/-- on a prefix-allocated child array the C's `break`-at-NULL loop visits every child -/
theorem freeLoop_eq_sum (f g : Rat → Nat) : ∀ (cs : List (Option Rat)), PrefixAlloc (fun c => f c = g c) cs →
    freeLoop f cs = sumChildren g cs := by
  intro cs
  induction cs with
  | nil => intro _; rfl
  | cons y cs ih =>
    intro h
    cases y with
    | none => simp only [freeLoop, sumChildren]; exact (sumChildren_all_none g cs h).symm
    | some c => simp only [freeLoop, sumChildren, h.1, ih h.2]

theorem prefixAlloc_of_index (P : Rat → Prop) : ∀ (cs : List (Option Rat)) (n : Nat),
    (∀ k, k < n → ∃ c, child cs k = some c ∧ P c) →
    (∀ k, n ≤ k → child cs k = none) → PrefixAlloc P cs := by
  intro cs
  induction cs with
  | nil => intro _ _ _; trivial
  | cons y cs ih =>
    intro n h1 h2
    cases n with
    | zero =>
      have hy : y = none := by simpa [child] using h2 0 (Nat.le_refl _)
      subst hy
      intro x hx
      obtain ⟨k, hk⟩ := List.mem_iff_getElem?.mp hx
      have := h2 (k + 1) (by omega)
      simpa [child, hk] using this
    | succ n =>
      obtain ⟨c, hc, hP⟩ := h1 0 (by omega)
      have hy : y = some c := by simpa [child] using hc
      subst hy
      refine ⟨hP, ih n (fun k hk => ?_) (fun k hk => ?_)⟩
      · simpa [child] using h1 (k + 1) (by omega)
      · simpa [child] using h2 (k + 1) (by omega)

theorem child_none_of_ge {cs : List (Option Rat)} {k : Nat} (h : cs.length ≤ k) : child cs k = none := by
  simp [child, List.getElem?_eq_none h]

theorem filled_prefix {bits h m : Nat} {cs : List (Option Rat)} (P : Rat → Prop)
    (hf : Filled bits (h + 1) m (.node cs)) (hm : m < span bits (h + 1))
    (hP : ∀ m' c, m' < span bits h → Filled bits h m' c → P c) : PrefixAlloc P cs := by
  obtain ⟨hlen, hk⟩ := hf
  have hS := span_pos bits h
  have hq : m / span bits h < fan bits := by
    rw [span_succ, Nat.mul_comm] at hm; exact Nat.div_lt_of_lt_mul (by rwa [Nat.mul_comm] at hm)
  refine prefixAlloc_of_index P cs (m / span bits h + 1) (fun k hk1 => ?_) (fun k hk1 => ?_)
  · have hkf : k < fan bits := by omega
    rcases Nat.lt_or_ge k (m / span bits h) with h3 | h3
    · obtain ⟨c, hc, hfc⟩ := (hk k hkf).1 h3
      exact ⟨c, hc, hP _ c (by omega) hfc⟩
    · obtain ⟨c, hc, hfc⟩ := (hk k hkf).2.1 (by omega)
      exact ⟨c, hc, hP _ c (Nat.mod_lt _ hS) hfc⟩
  · rcases Nat.lt_or_ge k (fan bits) with h3 | h3
    · exact (hk k h3).2.2 (by omega)
    · exact child_none_of_ge (by omega)

/-- on a dense tree `iv_timer_free_ratnode` frees every reachable node -/
theorem free_eq_reach (bits : Nat) : ∀ (h m : Nat) (t : Rat), m < span bits h → Filled bits h m t →
    freeNode h t = reach h t := by
  intro h
  induction h with
  | zero => intro m t _ _; rfl
  | succ h ih =>
    intro m t hm hf
    cases t with
    | leaf sl => simp [Filled] at hf
    | node cs =>
      simp only [freeNode, reach]
      rw [freeLoop_eq_sum (freeNode h) (reach h) cs (filled_prefix _ hf hm (fun m' c hm' hc => ih m' c hm' hc))]
      omega


/-! ## State level: density and the allocation ledger, theorems (c) and (e) -/

/-- the tree is dense with high-water mark `m`: exactly the nodes meeting `[0, m]` are allocated -/
structure Dense (bits : Nat) (s : RatState) (m : Nat) : Prop where
  lt     : m < span bits s.depth
  filled : Filled bits s.depth m s.root

/-- the ledger: `allocated` counts every reachable node except the embedded first leaf -/
def Ledger (s : RatState) : Prop := s.allocated + 1 = reach s.depth s.root

theorem Dense.shape {bits : Nat} {s : RatState} {m : Nat} (h : Dense bits s m) : Shape bits s :=
  ⟨filled_wf _ _ _ _ h.filled, filled_spine _ _ _ _ h.filled⟩

theorem init_dense (bits : Nat) : Dense bits (RatState.init bits) 0 :=
  ⟨span_pos .., by simp [RatState.init, alloc, Filled]⟩

theorem init_ledger (bits : Nat) : Ledger (RatState.init bits) := rfl

theorem span_lt_succ (bits h : Nat) : span bits h ≤ span bits (h + 1) := by
  rw [span_succ]; exact Nat.le_mul_of_pos_right _ (fan_pos bits)

theorem growRoot_dense {bits : Nat} {s : RatState} {m : Nat} (i : Nat) (h : Dense bits s m) :
    Dense bits (growRoot bits s i) m := by
  simp only [growRoot, grow_test, decide_eq_true_eq]
  split
  · refine ⟨Nat.lt_of_lt_of_le h.lt (span_lt_succ ..), ?_⟩
    have hf := fan_pos bits
    simp only [Filled, List.length_cons, List.length_replicate, Nat.div_eq_of_lt h.lt, Nat.mod_eq_of_lt h.lt]
    refine ⟨by omega, fun k hk => ⟨fun h0 => by omega, fun h0 => ?_, fun h0 => ?_⟩⟩
    · subst h0; exact ⟨s.root, by simp [child], h.filled⟩
    · obtain ⟨k', rfl⟩ := Nat.exists_eq_succ_of_ne_zero (Nat.ne_of_gt h0)
      simp only [child, Nat.succ_eq_add_one, List.getElem?_cons_succ, List.getElem?_replicate]
      split <;> rfl
  · exact h

theorem growRoot_ledger {bits : Nat} {s : RatState} (i : Nat) (h : Ledger s) : Ledger (growRoot bits s i) := by
  simp only [growRoot]
  split
  · simp only [Ledger, reach, sumChildren, sumChildren_replicate] at h ⊢; omega
  · exact h

/-- **(e)**, density: `iv_timer_get_node` at an index at most one past the high-water mark keeps the
tree dense (the only way the C calls it: `index ≤ num_timers`, and `num_timers` grows by one). -/
theorem getNode_dense {bits : Nat} {s : RatState} {m : Nat} (i : Nat) (h : Dense bits s m)
    (him : i ≤ m + 1) (hi : i < span bits (s.depth + 1)) : Dense bits (getNode bits s i).1 (max m i) := by
  have hg := growRoot_dense i h
  have hlt := growRoot_lt hi
  refine ⟨?_, ?_⟩
  · have := hg.lt
    simp only [getNode]
    rw [Nat.max_def]; split <;> assumption
  · have := descend_filled bits _ m _ i hg.filled hg.lt (by rw [Nat.mod_eq_of_lt hlt]; exact him)
    rwa [Nat.mod_eq_of_lt hlt] at this

/-- **(e)**, ledger: growth and lazy allocation count exactly the nodes they make reachable. -/
theorem getNode_ledger {bits : Nat} {s : RatState} (i : Nat) (hs : Shape bits s) (h : Ledger s) :
    Ledger (getNode bits s i).1 := by
  have hg := growRoot_shape i hs
  have hl := growRoot_ledger (bits := bits) i h
  simp only [Ledger, getNode] at hl ⊢
  rw [descend_reach _ _ _ _ hg.wf]; omega

theorem store_dense {bits : Nat} {s : RatState} {m : Nat} (i : Nat) (v : Option Nat) (h : Dense bits s m)
    (him : i ≤ m + 1) (hi : i < span bits (s.depth + 1)) : Dense bits (store bits s i v) (max m i) := by
  have hn := getNode_dense i h him hi
  exact ⟨hn.lt, write_filled _ _ _ _ _ _ hn.filled⟩

theorem store_ledger {bits : Nat} {s : RatState} (i : Nat) (v : Option Nat) (hs : Shape bits s) (h : Ledger s) :
    Ledger (store bits s i v) := by
  have hn := getNode_ledger i hs h
  simp only [Ledger, store, writeSlot] at hn ⊢
  rw [write_reach]; exact hn

/-- the nodes `iv_timer_radix_tree_remove_level` discards: the old root and everything reachable
from its `child[1..]` -/
def discarded (s : RatState) : Nat :=
  match s.depth, s.root with
  | d + 1, .node (_ :: rest) => 1 + sumChildren (reach d) rest
  | _, _ => 0

theorem reach_pos (h : Nat) (t : Rat) : 0 < reach h t := by
  cases h with
  | zero => simp [reach]
  | succ h => cases t <;> simp [reach] <;> omega

/-- **(c)**, ledger: on a dense tree `iv_timer_radix_tree_remove_level` frees exactly the discarded
nodes (no more, no fewer), the ledger stays exact and the tree stays dense. -/
theorem removeLevel_ledger {bits : Nat} {s : RatState} {m : Nat} (h : Dense bits s m) (hl : Ledger s)
    (hd : 0 < s.depth) :
    removeLevelFreed s = discarded s ∧
    s.allocated = (removeLevel s).allocated + discarded s ∧
    Ledger (removeLevel s) ∧
    Dense bits (removeLevel s) (min m (span bits (s.depth - 1) - 1)) := by
  obtain ⟨root, depth, al⟩ := s
  obtain ⟨hm, hf⟩ := h
  simp only at hm hf hd
  cases depth with
  | zero => omega
  | succ d =>
    cases root with
    | leaf sl => simp [Filled] at hf
    | node cs =>
      have hpre := filled_prefix (fun c => freeNode d c = reach d c) hf hm
        (fun m' c hm' hc => free_eq_reach bits d m' c hm' hc)
      obtain ⟨c0, hc0, _⟩ := filled_spine _ _ _ _ hf
      cases cs with
      | nil => simp [child] at hc0
      | cons x rest =>
        have hx : x = some c0 := by simpa [child] using hc0
        subst hx
        have hfree : freeLoop (freeNode d) rest = sumChildren (reach d) rest := freeLoop_eq_sum _ _ _ hpre.2
        have hS := span_pos bits d
        have hr := reach_pos d c0
        simp only [Ledger, reach, sumChildren] at hl
        simp only [removeLevelFreed, discarded, removeLevel, hfree, Ledger, Nat.add_sub_cancel]
        refine ⟨by omega, by omega, by omega, ?_, ?_⟩
        · show min m (span bits d - 1) < span bits d
          rw [Nat.min_def]; split <;> omega
        · show Filled bits d (min m (span bits d - 1)) c0
          obtain ⟨_, hk⟩ := hf
          rcases Nat.lt_or_ge m (span bits d) with h1 | h1
          · obtain ⟨c, hc, hfc⟩ := (hk 0 (fan_pos bits)).2.1 (Nat.div_eq_of_lt h1).symm
            rw [hc0] at hc; cases hc
            rw [Nat.mod_eq_of_lt h1] at hfc
            rwa [Nat.min_eq_left (by omega)]
          · obtain ⟨c, hc, hfc⟩ := (hk 0 (fan_pos bits)).1 (Nat.div_pos h1 hS)
            rw [hc0] at hc; cases hc
            rwa [Nat.min_eq_right (by omega)]

theorem removeLevel_depth {bits : Nat} {s : RatState} (hs : Shape bits s) (hd : 0 < s.depth) :
    (removeLevel s).depth = s.depth - 1 := by
  obtain ⟨root, depth, al⟩ := s
  obtain ⟨hw, hsp⟩ := hs
  simp only at hw hsp hd
  cases depth with
  | zero => omega
  | succ d =>
    cases root with
    | leaf sl => simp [WF] at hw
    | node cs =>
      obtain ⟨c0, hc0, _⟩ := hsp
      cases cs with
      | nil => simp [child] at hc0
      | cons x rest =>
        have hx : x = some c0 := by simpa [child] using hc0
        subst hx; rfl

/-- **(e)** `iv_timer_deinit` frees every malloc'ed node: nothing stays allocated. -/
theorem freeAll_allocated {bits : Nat} {s : RatState} {m : Nat} (h : Dense bits s m) (hl : Ledger s) :
    (freeAll s).allocated = 0 ∧ (freeAll s).depth = 0 := by
  unfold freeAll
  generalize hn : s.depth = n
  induction n generalizing s m with
  | zero =>
    simp only [freeAllN]
    simp only [Ledger, hn, reach] at hl
    exact ⟨by omega, hn⟩
  | succ n ih =>
    simp only [freeAllN, hn, Nat.add_one_ne_zero, if_false]
    obtain ⟨_, _, hl', hd'⟩ := removeLevel_ledger h hl (by omega)
    exact ih hd' hl' (by rw [removeLevel_depth h.shape (by omega), hn]; rfl)


/-! ## `push_down`'s `p[1]`: pointer arithmetic inside a leaf -/

/-- `p + 1` -/
def bump : Ptr → Ptr
  | [] => []
  | [d] => [d + 1]
  | d :: e :: p => d :: bump (e :: p)

theorem succ_div_fan {bits i : Nat} (h : i % fan bits + 1 < fan bits) :
    (i + 1) / fan bits = i / fan bits ∧ (i + 1) % fan bits = i % fan bits + 1 := by
  have hf := fan_pos bits
  constructor
  · rw [Nat.add_div hf, Nat.div_eq_of_lt (show 1 < fan bits by omega),
      Nat.mod_eq_of_lt (show 1 < fan bits by omega), if_neg (by omega)]
    rfl
  · rw [Nat.add_mod, Nat.mod_eq_of_lt (show 1 < fan bits by omega), Nat.mod_eq_of_lt h]

theorem digit_succ_index {bits i : Nat} (k : Nat) (h : i % fan bits + 1 < fan bits) :
    digit bits (k + 1) (i + 1) = digit bits (k + 1) i := by
  rw [digit_eq, digit_eq]
  have : 2 ^ ((k + 1) * bits) = fan bits * 2 ^ (k * bits) := by
    rw [fan, ← Nat.pow_add]; congr 1; rw [Nat.add_mul]; omega
  rw [this, ← Nat.div_div_eq_div_mul, ← Nat.div_div_eq_div_mul, (succ_div_fan h).1]

theorem descend_ptr_length (bits : Nat) : ∀ (h : Nat) (t : Rat) (i : Nat), WF bits h t →
    (descend bits h t i).ptr.length = h + 1 := by
  intro h
  induction h with
  | zero => intro t i _; simp [descend]
  | succ h ih =>
    intro t i hw
    cases t with
    | leaf sl => simp [WF] at hw
    | node cs => simp [descend, ih _ _ (wf_getD hw _)]

theorem descend_bump (bits : Nat) : ∀ (h : Nat) (t : Rat) (i : Nat), WF bits h t →
    i % fan bits + 1 < fan bits →
    readPath (bump (descend bits h t i).ptr) (descend bits h t i).tree = some (lookup bits h t (i + 1)) := by
  intro h
  induction h with
  | zero =>
    intro t i hw hi
    cases t with
    | node cs => simp [WF] at hw
    | leaf sl =>
      simp only [WF] at hw
      have h0 : digit bits 0 i = i % fan bits := by rw [digit_zero, span_zero]
      have h1 : digit bits 0 (i + 1) = i % fan bits + 1 := by rw [digit_zero, span_zero, (succ_div_fan hi).2]
      simp [descend, bump, readPath, lookup, h0, h1, show i % fan bits + 1 < sl.length by omega]
  | succ h ih =>
    intro t i hw hi
    cases t with
    | leaf sl => simp [WF] at hw
    | node cs =>
      have hd : digit bits (h + 1) i < cs.length := by rw [hw.1]; exact digit_lt ..
      have hlen := descend_ptr_length bits h _ i (wf_getD hw (digit bits (h + 1) i))
      rw [lookup_node_eq, digit_succ_index h hi, ← ih _ i (wf_getD hw _) hi]
      simp only [descend]
      generalize (descend bits h ((child cs (digit bits (h + 1) i)).getD (alloc bits h)) i) = w at *
      match hp : w.ptr with
      | [] => simp [hp] at hlen
      | e :: q => simp only [bump, readPath, child_set_self _ hd]

/-- `push_down` reads the right child as `p[1]`, where `p = iv_timer_get_node(st, 2*index)`: the
pointer next to the one returned for an index that is not the last of its leaf is the slot of the
next index. -/
theorem sibling_spec {bits : Nat} {s : RatState} (i : Nat) (hs : Shape bits s) (hi : i < span bits (s.depth + 1))
    (hl : i % fan bits + 1 < fan bits) :
    readSlot (getNode bits s i).1 (bump (getNode bits s i).2) = some (flat bits s (i + 1)) := by
  have hg := growRoot_shape i hs
  have hlt := growRoot_lt hi
  have hlt' : i + 1 < span bits (growRoot bits s i).depth := by
    generalize (growRoot bits s i).depth = d at hlt
    have hsp : span bits d = fan bits * 2 ^ (d * bits) := by
      rw [span, fan, ← Nat.pow_add]; congr 1; rw [Nat.add_mul]; omega
    rw [hsp] at hlt ⊢
    have hq : i / fan bits < 2 ^ (d * bits) := Nat.div_lt_of_lt_mul hlt
    have := Nat.div_add_mod i (fan bits)
    have h2 : fan bits * (i / fan bits + 1) ≤ fan bits * 2 ^ (d * bits) := Nat.mul_le_mul_left _ hq
    rw [Nat.mul_add] at h2
    omega
  simp only [readSlot, getNode]
  rw [descend_bump _ _ _ _ hg.wf hl, ← growRoot_flat s i (i + 1), flat_of_lt hlt']

/-- for an even index (the left child `2*index` of a heap node) and `bits ≥ 1` the condition holds -/
theorem even_not_last {bits : Nat} (hb : 1 ≤ bits) (k : Nat) : (2 * k) % fan bits + 1 < fan bits := by
  obtain ⟨b, rfl⟩ : ∃ b, bits = b + 1 := ⟨bits - 1, by omega⟩
  have : fan (b + 1) = 2 * 2 ^ b := by rw [fan, Nat.pow_succ, Nat.mul_comm]
  rw [this, Nat.mul_mod_mul_left]
  have := Nat.mod_lt k (Nat.pow_pos (n := b) (show 0 < 2 by omega))
  omega


/-! ## (d) Refinement: the tree simulates the flat array of `Ivy/L0/Heap.lean` -/

/-- the part of `Ivy.Heap.Store` that stands for the radix tree: the slot array and `rat_depth` -/
structure Arr where
  slot  : Array (Option Nat)
  depth : Nat

/-- `Ivy.Heap.grow` on the tree part, for an arbitrary `bits` -/
def Arr.grow (bits : Nat) (a : Arr) (index : Nat) : Arr :=
  if index >>> ((a.depth + 1) * bits) != 0 then
    { depth := a.depth + 1,
      slot := a.slot ++ Array.replicate (span bits (a.depth + 1) - span bits a.depth) none }
  else a

/-- `slot.setIfInBounds` -/
def Arr.set (a : Arr) (i : Nat) (v : Option Nat) : Arr := { a with slot := a.slot.setIfInBounds i v }

/-- `Ivy.Heap.removeLevel` on the tree part -/
def Arr.removeLevel (bits : Nat) (a : Arr) : Arr :=
  { depth := a.depth - 1, slot := a.slot.extract 0 (span bits (a.depth - 1)) }

def Arr.ofStore (s : Ivy.Heap.Store) : Arr := ⟨s.slot, s.depth⟩

/-- the slot operations of the heap model -/
inductive SlotOp where
  | grow (index : Nat)               -- `Heap.grow`: the growth test of `iv_timer_get_node`
  | get (i : Nat)                    -- `Heap.getSlot`: read `*iv_timer_get_node(i)`
  | set (i : Nat) (v : Option Nat)   -- `slot.setIfInBounds i v`: `*iv_timer_get_node(i) = v`
  | removeLevel                      -- `Heap.removeLevel`

abbrev Obs := List (Option (Option Nat))

/-- one slot operation on the flat array; the observation is what a `get` reads -/
def stepA (bits : Nat) (a : Arr) : SlotOp → Arr × Obs
  | .grow i => (a.grow bits i, [])
  | .get i => (a, [a.slot[i]?])
  | .set i v => (a.set i v, [])
  | .removeLevel => (a.removeLevel bits, [])

/-- the same operation on the radix tree, by the model of the C functions -/
def stepR (bits : Nat) (r : RatState) : SlotOp → RatState × Obs
  | .grow i => ((getNode bits r i).1, [])
  | .get i => ((load bits r i).1, [(load bits r i).2])
  | .set i v => (store bits r i v, [])
  | .removeLevel => (Ivy.Rat.removeLevel r, [])

/-- how `Ivy.Heap.register` / `removeAt` use the operations: growth by at most one level, accesses
within the capacity, shrinking only when the upper part of the array is all NULL -/
def Legal (bits : Nat) (a : Arr) : SlotOp → Prop
  | .grow i => i < span bits (a.depth + 1)
  | .get i => i < span bits a.depth
  | .set i _ => i < span bits a.depth
  | .removeLevel => 0 < a.depth ∧
      ∀ j, j < a.slot.size → span bits (a.depth - 1) ≤ j → a.slot[j]? = some none

def runA (bits : Nat) : Arr → List SlotOp → Arr × Obs
  | a, [] => (a, [])
  | a, op :: ops => ((runA bits (stepA bits a op).1 ops).1, (stepA bits a op).2 ++ (runA bits (stepA bits a op).1 ops).2)

def runR (bits : Nat) : RatState → List SlotOp → RatState × Obs
  | r, [] => (r, [])
  | r, op :: ops => ((runR bits (stepR bits r op).1 ops).1, (stepR bits r op).2 ++ (runR bits (stepR bits r op).1 ops).2)

def LegalRun (bits : Nat) : Arr → List SlotOp → Prop
  | _, [] => True
  | a, op :: ops => Legal bits a op ∧ LegalRun bits (stepA bits a op).1 ops

instance (bits : Nat) (a : Arr) (op : SlotOp) : Decidable (Legal bits a op) := by
  cases op <;> simp only [Legal] <;> infer_instance

instance (bits : Nat) : ∀ (ops : List SlotOp) (a : Arr), Decidable (LegalRun bits a ops)
  | [], _ => isTrue trivial
  | op :: ops, a =>
    have := instDecidableLegalRun bits ops (stepA bits a op).1
    by simp only [LegalRun]; infer_instance

/-- the simulation relation: same depth, the array has the tree's capacity, and every index denotes
the same slot -/
structure Sim (bits : Nat) (a : Arr) (r : RatState) : Prop where
  shape : Shape bits r
  depth : r.depth = a.depth
  size  : a.slot.size = span bits a.depth
  slots : ∀ i, flat bits r i = a.slot[i]?.join

theorem init_sim (bits : Nat) : Sim bits ⟨Array.replicate (span bits 0) none, 0⟩ (RatState.init bits) := by
  refine ⟨init_shape bits, rfl, by simp, fun i => ?_⟩
  rw [init_flat]
  simp only [Array.getElem?_replicate]
  split <;> rfl

theorem step_sim {bits : Nat} {a : Arr} {r : RatState} (op : SlotOp) (h : Sim bits a r) (hl : Legal bits a op) :
    Sim bits (stepA bits a op).1 (stepR bits r op).1 ∧ (stepA bits a op).2 = (stepR bits r op).2 := by
  obtain ⟨hs, hd, hsz, hf⟩ := h
  cases op with
  | grow i =>
    simp only [Legal] at hl
    rw [← hd] at hl
    obtain ⟨hs', hd', _, _, hf'⟩ := getNode_spec i hs hl
    refine ⟨⟨hs', ?_, ?_, fun j => ?_⟩, rfl⟩
    · simp only [stepA, stepR, Arr.grow, grow_test, decide_eq_true_eq, hd', hd]
      split <;> rfl
    · have := span_lt_succ bits a.depth
      simp only [stepA, Arr.grow, grow_test, decide_eq_true_eq]
      split
      · simp only [Array.size_append, Array.size_replicate]; omega
      · exact hsz
    · simp only [stepA, stepR, hf', hf, Arr.grow, grow_test, decide_eq_true_eq]
      split
      · by_cases hj : j < a.slot.size
        · rw [Array.getElem?_append_left hj]
        · rw [Array.getElem?_append_right (by omega), Array.getElem?_replicate,
            Array.getElem?_eq_none (by omega)]
          split <;> rfl
      · rfl
  | get i =>
    simp only [Legal] at hl
    have hl' : i < span bits (r.depth + 1) := by
      have := span_lt_succ bits r.depth; rw [hd]; rw [hd] at this; omega
    obtain ⟨hs', hd', _, hrd, hf'⟩ := getNode_spec i hs hl'
    rw [if_neg (by rw [hd]; omega)] at hd'
    refine ⟨⟨hs', hd'.trans hd, hsz, fun j => (hf' j).trans (hf j)⟩, ?_⟩
    simp only [stepA, stepR, load, hrd, hf]
    rw [Array.getElem?_eq_getElem (by omega)]; rfl
  | set i v =>
    simp only [Legal] at hl
    obtain ⟨hd', hf'⟩ := store_flat i v hs (by rw [hd]; exact hl)
    have hn := (store_spec i v hs (by
      have := span_lt_succ bits r.depth; rw [hd]; rw [hd] at this; omega)).1
    refine ⟨⟨hn, hd'.trans hd, by simpa [stepA, Arr.set] using hsz, fun j => ?_⟩, rfl⟩
    simp only [stepA, stepR, hf', hf, Arr.set, Array.getElem?_setIfInBounds]
    by_cases hji : j = i
    · subst hji; simp [show j < a.slot.size by omega]
    · have hij : ¬ i = j := fun h => hji h.symm
      simp [hji, hij]
  | removeLevel =>
    obtain ⟨hpos, hnull⟩ := hl
    have hnull' : ∀ j, span bits (r.depth - 1) ≤ j → flat bits r j = none := by
      intro j hj
      rw [hf]
      by_cases hjs : j < a.slot.size
      · rw [hnull j hjs (by rw [← hd]; exact hj)]; rfl
      · rw [Array.getElem?_eq_none (by omega)]; rfl
    obtain ⟨hs', hd', hf'⟩ := removeLevel_flat hs (by omega) hnull'
    have hle := span_lt_succ bits (a.depth - 1)
    rw [show a.depth - 1 + 1 = a.depth by omega] at hle
    refine ⟨⟨hs', by simp [stepA, stepR, Arr.removeLevel, hd', hd], ?_, fun j => ?_⟩, rfl⟩
    · simp only [stepA, Arr.removeLevel, Array.size_extract]; omega
    · simp only [stepA, stepR, hf', hf, Arr.removeLevel, Array.getElem?_extract]
      by_cases hj : j < span bits (a.depth - 1)
      · rw [if_pos (by omega)]; simp
      · rw [if_neg (by omega)]
        by_cases hjs : j < a.slot.size
        · rw [hnull j hjs (by omega)]; rfl
        · rw [Array.getElem?_eq_none (by omega)]

/-- **(d)** `rat_refines_array`: any sequence of the heap model's slot operations, used as
`Ivy.Heap.register` / `removeAt` use them (`Legal`), run on the radix tree by the models of
`iv_timer_get_node` / `iv_timer_radix_tree_remove_level`, reads exactly what the flat array reads,
and ends in a tree that still denotes the array. -/
theorem rat_refines_array (bits : Nat) : ∀ (ops : List SlotOp) (a : Arr) (r : RatState), Sim bits a r →
    LegalRun bits a ops →
    Sim bits (runA bits a ops).1 (runR bits r ops).1 ∧ (runA bits a ops).2 = (runR bits r ops).2 := by
  intro ops
  induction ops with
  | nil => intro a r h _; exact ⟨h, rfl⟩
  | cons op ops ih =>
    intro a r h hl
    obtain ⟨h1, o1⟩ := step_sim op h hl.1
    obtain ⟨h2, o2⟩ := ih _ _ h1 hl.2
    exact ⟨h2, by simp only [runA, runR, o1, o2]⟩


/-! ## (e) No leak over any register / unregister history -/

/-- the tree calls of `iv_timer_register` / `iv_timer_unregister`, with `num_timers` -/
inductive Call where
  | register (v : Nat)                  -- `index = ++num_timers; *iv_timer_get_node(index) = t`
  | access (i : Nat) (v : Option Nat)   -- `*iv_timer_get_node(i) = v` with `i ≤ num_timers` (`*p = *m`, swaps)
  | peek (i : Nat)                      -- `iv_timer_get_node(i)` with `i ≤ num_timers`, no write
  | unregisterLast                      -- `*m = NULL`; the shrink test; `num_timers--`

structure TState where
  rat : RatState
  num : Nat

def call (bits : Nat) (s : TState) : Call → TState
  | .register v => ⟨store bits s.rat (s.num + 1) (some v), s.num + 1⟩
  | .access i v => ⟨store bits s.rat i v, s.num⟩
  | .peek i => ⟨(getNode bits s.rat i).1, s.num⟩
  | .unregisterLast =>
    let r := store bits s.rat s.num none
    ⟨if r.depth > 0 ∧ s.num = 1 <<< (r.depth * bits) then removeLevel r else r, s.num - 1⟩

def CallOk (s : TState) : Call → Prop
  | .register _ => True
  | .access i _ => i ≤ s.num
  | .peek i => i ≤ s.num
  | .unregisterLast => 1 ≤ s.num

def calls (bits : Nat) : TState → List Call → TState
  | s, [] => s
  | s, c :: cs => calls bits (call bits s c) cs

def CallsOk (bits : Nat) : TState → List Call → Prop
  | _, [] => True
  | s, c :: cs => CallOk s c ∧ CallsOk bits (call bits s c) cs

instance (s : TState) (c : Call) : Decidable (CallOk s c) := by
  cases c <;> simp only [CallOk] <;> infer_instance

instance (bits : Nat) : ∀ (cs : List Call) (s : TState), Decidable (CallsOk bits s cs)
  | [], _ => isTrue trivial
  | c :: cs, s =>
    have := instDecidableCallsOk bits cs (call bits s c)
    by simp only [CallsOk]; infer_instance

/-- invariant of the call pattern: `num_timers` is within the capacity, the tree is dense up to a
high-water mark `≥ num_timers`, and the ledger is exact -/
structure Track (bits : Nat) (s : TState) : Prop where
  num_lt : s.num < span bits s.rat.depth
  dense  : ∃ m, s.num ≤ m ∧ Dense bits s.rat m
  ledger : Ledger s.rat

theorem init_track (bits : Nat) : Track bits ⟨RatState.init bits, 0⟩ :=
  ⟨span_pos .., ⟨0, Nat.le_refl _, init_dense bits⟩, init_ledger bits⟩

theorem two_span_le (bits h : Nat) (hb : 1 ≤ bits) : 2 * span bits h ≤ span bits (h + 1) := by
  rw [span_succ, Nat.mul_comm]
  refine Nat.mul_le_mul_left _ ?_
  have : 2 ^ 1 ≤ 2 ^ bits := Nat.pow_le_pow_right (by omega) hb
  simpa [fan] using this

theorem one_shiftLeft_eq_span (bits d : Nat) (hd : 0 < d) : 1 <<< (d * bits) = span bits (d - 1) := by
  rw [Nat.one_shiftLeft, span, show d - 1 + 1 = d by omega]

theorem call_track {bits : Nat} (hb : 1 ≤ bits) {s : TState} (c : Call) (h : Track bits s) (hc : CallOk s c) :
    Track bits (call bits s c) := by
  obtain ⟨hn, ⟨m, hm, hd⟩, hl⟩ := h
  have h2 := two_span_le bits s.rat.depth hb
  have hS := span_pos bits s.rat.depth
  cases c with
  | register v =>
    have hi : s.num + 1 < span bits (s.rat.depth + 1) := by omega
    obtain ⟨_, _, hlt, _, _⟩ := getNode_spec (s.num + 1) hd.shape hi
    refine ⟨?_, ⟨max m (s.num + 1), Nat.le_max_right .., store_dense _ _ hd (by omega) hi⟩,
      store_ledger _ _ hd.shape hl⟩
    simpa [call, (store_spec (s.num + 1) (some v) hd.shape hi).2.1, getNode_depth] using hlt
  | access i v =>
    simp only [CallOk] at hc
    have hi : i < span bits (s.rat.depth + 1) := by omega
    have hd' := store_dense i v hd (by omega) hi
    rw [Nat.max_eq_left (by omega)] at hd'
    refine ⟨?_, ⟨m, hm, hd'⟩, store_ledger _ _ hd.shape hl⟩
    simp only [call, (store_flat i v hd.shape (by omega)).1]; exact hn
  | peek i =>
    simp only [CallOk] at hc
    have hi : i < span bits (s.rat.depth + 1) := by omega
    have hd' := getNode_dense i hd (by omega) hi
    rw [Nat.max_eq_left (by omega)] at hd'
    refine ⟨?_, ⟨m, hm, hd'⟩, getNode_ledger _ hd.shape hl⟩
    simp only [call, getNode_depth, if_neg (show ¬ span bits s.rat.depth ≤ i by omega)]; exact hn
  | unregisterLast =>
    simp only [CallOk] at hc
    have hi : s.num < span bits (s.rat.depth + 1) := by omega
    have hd' := store_dense s.num none hd (by omega) hi
    rw [Nat.max_eq_left hm] at hd'
    have hl' := store_ledger (bits := bits) s.num none hd.shape hl
    have hdep := (store_flat s.num none hd.shape hn).1
    simp only [call]
    split
    · rename_i hsh
      obtain ⟨hpos, hnum⟩ := hsh
      rw [one_shiftLeft_eq_span _ _ hpos] at hnum
      obtain ⟨_, _, hl'', hd''⟩ := removeLevel_ledger hd' hl' hpos
      have hdd := removeLevel_depth hd'.shape hpos
      have hS' := span_pos bits ((store bits s.rat s.num none).depth - 1)
      rw [Nat.min_eq_right (by omega)] at hd''
      exact ⟨by simp only [hdd]; omega, ⟨_, by simp only; omega, hd''⟩, hl''⟩
    · exact ⟨by simp only [hdep]; omega, ⟨m, by simp only; omega, hd'⟩, hl'⟩

theorem calls_track {bits : Nat} (hb : 1 ≤ bits) : ∀ (cs : List Call) (s : TState), Track bits s →
    CallsOk bits s cs → Track bits (calls bits s cs) := by
  intro cs
  induction cs with
  | nil => intro s h _; exact h
  | cons c cs ih => intro s h hc; exact ih _ (call_track hb c h hc.1) hc.2

/-- **(e)** no leak: after any history of register / unregister tree calls (growth, shrinking and
regrowth included) `allocated` is exactly the number of reachable malloc'ed nodes, and
`iv_timer_deinit` brings it to 0. -/
theorem no_leak {bits : Nat} (hb : 1 ≤ bits) (cs : List Call) (hc : CallsOk bits ⟨RatState.init bits, 0⟩ cs) :
    let s := calls bits ⟨RatState.init bits, 0⟩ cs
    s.rat.allocated + 1 = reach s.rat.depth s.rat.root ∧ (freeAll s.rat).allocated = 0 := by
  have h := calls_track hb cs _ (init_track bits) hc
  obtain ⟨m, _, hd⟩ := h.dense
  exact ⟨h.ledger, (freeAll_allocated hd h.ledger).1⟩


/-! ## (d), continued: `Ivy.Heap.register` and `Ivy.Heap.removeAt` are such operation sequences -/

/-- `c` is reached from `a` by a legal sequence of slot operations -/
inductive Steps (bits : Nat) : Arr → Arr → Prop where
  | refl (a : Arr) : Steps bits a a
  | step {a c : Arr} (op : SlotOp) : Legal bits a op → Steps bits (stepA bits a op).1 c → Steps bits a c

theorem Steps.trans {bits : Nat} {a b c : Arr} (h1 : Steps bits a b) (h2 : Steps bits b c) : Steps bits a c := by
  induction h1 with
  | refl => exact h2
  | step op hl _ ih => exact .step op hl (ih h2)

theorem Steps.one {bits : Nat} {a : Arr} (op : SlotOp) (hl : Legal bits a op) : Steps bits a (stepA bits a op).1 :=
  .step op hl (.refl _)

theorem Steps.exists_ops {bits : Nat} {a c : Arr} (h : Steps bits a c) :
    ∃ ops, LegalRun bits a ops ∧ (runA bits a ops).1 = c := by
  induction h with
  | refl a => exact ⟨[], trivial, rfl⟩
  | step op hl _ ih =>
    obtain ⟨ops, h1, h2⟩ := ih
    exact ⟨op :: ops, ⟨hl, h1⟩, h2⟩

/-- a legal sequence on the array side is matched by the tree -/
theorem Steps.sim {bits : Nat} {a c : Arr} {r : RatState} (h : Steps bits a c) (hs : Sim bits a r) :
    ∃ ops, LegalRun bits a ops ∧ (runA bits a ops).1 = c ∧ Sim bits c (runR bits r ops).1 ∧
      (runA bits a ops).2 = (runR bits r ops).2 := by
  obtain ⟨ops, h1, h2⟩ := h.exists_ops
  obtain ⟨h3, h4⟩ := rat_refines_array bits ops a r hs h1
  exact ⟨ops, h1, h2, h2 ▸ h3, h4⟩

open Ivy.Heap in
theorem ofStore_grow (s : Store) (i : Nat) :
    Arr.ofStore (Heap.grow s i) = Arr.grow Heap.bits (Arr.ofStore s) i := by
  by_cases h : (i >>> ((s.depth + 1) * Heap.bits) != 0) = true
  · rw [Heap.grow, Arr.grow, if_pos h, if_pos (by exact h)]; rfl
  · rw [Heap.grow, Arr.grow, if_neg h, if_neg (by exact h)]

theorem ofStore_removeLevel (s : Heap.Store) :
    Arr.ofStore (Heap.removeLevel s) = Arr.removeLevel Heap.bits (Arr.ofStore s) := rfl

theorem ofStore_swap (s : Heap.Store) (i j a b : Nat) :
    Arr.ofStore (Heap.swapSlots s i j a b) = ((Arr.ofStore s).set i (some b)).set j (some a) := rfl

theorem getSlot_eq (s : Heap.Store) (i : Nat) : Heap.getSlot s i = (Arr.ofStore s).slot[i]? := rfl

theorem cap_eq_span (d : Nat) : Heap.cap d = span Heap.bits d := rfl

theorem heap_bits_pos : 1 ≤ Heap.bits := by decide

/-- the array keeps the tree's capacity as its size -/
def Sized (s : Heap.Store) : Prop := s.slot.size = Heap.cap s.depth

theorem lt_size_of_getSlot {s : Heap.Store} {i : Nat} {v : Option Nat} (h : Heap.getSlot s i = some v) :
    i < s.slot.size := by
  unfold Heap.getSlot at h
  exact (Array.getElem?_eq_some_iff.mp h).1

/-- a swap of two in-tree slots is two legal writes (after the two reads that found them) -/
theorem swap_steps {s : Heap.Store} (hsz : Sized s) {i j : Nat} (a b : Nat) (hi : i < s.slot.size)
    (hj : j < s.slot.size) :
    Steps Heap.bits (Arr.ofStore s) (Arr.ofStore (Heap.swapSlots s i j a b)) ∧ Sized (Heap.swapSlots s i j a b) := by
  refine ⟨?_, by simpa [Sized, Heap.swapSlots] using hsz⟩
  rw [ofStore_swap]
  refine .step (.get j) ?_ (.step (.get i) ?_ (.step (.set i (some b)) ?_ (.step (.set j (some a)) ?_ (.refl _))))
  · show j < span Heap.bits s.depth; rw [← cap_eq_span, ← hsz]; exact hj
  · show i < span Heap.bits s.depth; rw [← cap_eq_span, ← hsz]; exact hi
  · show i < span Heap.bits s.depth; rw [← cap_eq_span, ← hsz]; exact hi
  · show j < span Heap.bits s.depth; rw [← cap_eq_span, ← hsz]; exact hj

theorem pullUp_steps : ∀ (i : Nat) (s s' : Heap.Store), Sized s → Heap.pullUp s i = some s' →
    Steps Heap.bits (Arr.ofStore s) (Arr.ofStore s') ∧ Sized s' ∧ s'.num = s.num := by
  intro i
  induction i using Nat.strongRecOn with
  | _ i ih =>
    intro s s' hsz h
    rw [Heap.pullUp] at h
    split at h
    · cases h; exact ⟨.refl _, hsz, rfl⟩
    · dsimp only at h
      split at h
      · rename_i p c hp hc
        split at h
        · cases h; exact ⟨.refl _, hsz, rfl⟩
        · obtain ⟨h1, h2⟩ := swap_steps hsz c p (lt_size_of_getSlot hc) (lt_size_of_getSlot hp)
          obtain ⟨h3, h4, h5⟩ := ih (i / 2) (by omega) _ _ h2 h
          exact ⟨h1.trans h3, h4, h5⟩
      · cases h

theorem pushDown_steps : ∀ (n i : Nat) (s s' : Heap.Store), s.num + 1 - i = n → Sized s → Heap.pushDown s i = some s' →
    Steps Heap.bits (Arr.ofStore s) (Arr.ofStore s') ∧ Sized s' ∧ s'.num = s.num := by
  intro n
  induction n using Nat.strongRecOn with
  | _ n ih =>
    intro i s s' hn hsz h
    rw [Heap.pushDown] at h
    split at h
    · cases h
    · split at h
      · rename_i cur hcur
        split at h
        · rename_i h2
          -- the common tail: swap with `imin ∈ {i, 2i, 2i+1}` and recurse
          have tail : ∀ (imin tmin : Nat), (imin = i ∨ imin = 2 * i ∨ imin = 2 * i + 1) →
              2 * i + 1 < s.slot.size →
              (if imin = i then some s else if imin ≤ i then none
                else Heap.pushDown (Heap.swapSlots s i imin cur tmin) imin) = some s' →
              Steps Heap.bits (Arr.ofStore s) (Arr.ofStore s') ∧ Sized s' ∧ s'.num = s.num := by
            intro imin tmin himin hlt h
            split at h
            · cases h; exact ⟨.refl _, hsz, rfl⟩
            · split at h
              · cases h
              · obtain ⟨h1, h2'⟩ := swap_steps hsz (i := i) (j := imin) cur tmin (by omega) (by omega)
                obtain ⟨h3, h4, h5⟩ := ih ((Heap.swapSlots s i imin cur tmin).num + 1 - imin)
                  (by show s.num + 1 - imin < n; omega) imin _ s' rfl h2' h
                exact ⟨h1.trans h3, h4, h5⟩
          split at h
          · rename_i l r? hl hr
            have hlt := lt_size_of_getSlot hr
            dsimp only at h
            split at h
            · refine tail _ _ ?_ hlt h
              (repeat' split) <;> first | (dsimp only; omega) | omega
            · refine tail _ _ ?_ hlt h
              (repeat' split) <;> first | (dsimp only; omega) | omega
          · cases h
        · cases h; exact ⟨.refl _, hsz, rfl⟩
      · cases h

theorem grow_sized {s : Heap.Store} (i : Nat) (h : Sized s) : Sized (Heap.grow s i) := by
  unfold Heap.grow
  split
  · have := span_lt_succ Heap.bits s.depth
    simp only [Sized, Array.size_append, Array.size_replicate, cap_eq_span] at h ⊢
    omega
  · exact h

theorem register_core {s0 s' : Heap.Store} {t : Nat} (hsz0 : Sized s0) (hn : s0.num ≤ s0.slot.size)
    (hlt : s0.num < (Heap.grow s0 s0.num).slot.size)
    (hp : Heap.pullUp { Heap.grow s0 s0.num with
            idx := (Heap.grow s0 s0.num).idx.setIfInBounds t (s0.num : Int),
            slot := (Heap.grow s0 s0.num).slot.setIfInBounds s0.num (some t) } s0.num = some s') :
    Steps Heap.bits (Arr.ofStore s0) (Arr.ofStore s') ∧ Sized s' := by
  have hg := grow_sized s0.num hsz0
  obtain ⟨h1, h2, _⟩ := pullUp_steps _ _ _ (by simpa [Sized] using hg) hp
  refine ⟨?_, h2⟩
  refine .step (.grow s0.num) ?_ (.step (.set s0.num (some t)) ?_ ?_)
  · have := two_span_le Heap.bits s0.depth heap_bits_pos
    have hc : s0.slot.size = span Heap.bits s0.depth := hsz0
    have := span_pos Heap.bits s0.depth
    show s0.num < span Heap.bits (s0.depth + 1)
    omega
  · show s0.num < span Heap.bits (Arr.grow Heap.bits (Arr.ofStore s0) s0.num).depth
    rw [← ofStore_grow, ← cap_eq_span]
    exact hg ▸ hlt
  · simp only [stepA, ← ofStore_grow]
    exact h1

/-- `Ivy.Heap.register` touches the slot array only by a legal sequence of slot operations:
`grow (num+1)`, `set (num+1) t`, then the reads and writes of `pull_up`. -/
theorem register_steps {s s' : Heap.Store} {t : Nat} {e : Heap.TS} (hsz : Sized s) (hn : s.num < s.slot.size)
    (h : Heap.register s t e = .ok s') :
    Steps Heap.bits (Arr.ofStore s) (Arr.ofStore s') ∧ Sized s' := by
  unfold Heap.register at h
  split at h
  · cases h
  · dsimp only at h
    split at h
    · rename_i hlt
      split at h
      · rename_i s'' hp
        cases h
        exact register_core (s0 := { exp := s.exp.setIfInBounds t e, idx := s.idx, slot := s.slot, num := s.num + 1, depth := s.depth }) hsz (by show s.num + 1 ≤ s.slot.size; omega) hlt hp
      · cases h
    · cases h

/-- the slot part of `removeAt` up to `pull_up` (`Heap.Proofs.cut`): two reads, `*p = *m`, `*m = NULL`, and
the shrink exactly when `num_timers == 1 << (rat_depth*bits)`, at which point the upper part of the
array is all NULL (`HeapInv.tail_null` and the slot just cleared) -/
theorem cut_steps {s : Heap.Store} {i : Nat} (mt : Nat) (hinv : Heap.HeapInv s) (hi : i ≤ s.num) :
    Steps Heap.bits (Arr.ofStore s) (Arr.ofStore (Heap.Proofs.cut s i mt)) ∧ Sized (Heap.Proofs.cut s i mt) := by
  have hsz : s.slot.size = span Heap.bits s.depth := hinv.size_eq
  have hn := hinv.num_lt
  have h4 : Steps Heap.bits (Arr.ofStore s)
      (((Arr.ofStore s).set i (some mt)).set s.num none) := by
    refine .step (.get i) ?_ (.step (.get s.num) ?_ (.step (.set i (some mt)) ?_ (.step (.set s.num none) ?_ (.refl _))))
    · show i < span Heap.bits s.depth; omega
    · show s.num < span Heap.bits s.depth; omega
    · show i < span Heap.bits s.depth; omega
    · show s.num < span Heap.bits s.depth; omega
  unfold Heap.Proofs.cut
  dsimp only
  split
  · rename_i hc
    obtain ⟨hpos, hnum⟩ := hc
    rw [one_shiftLeft_eq_span _ _ hpos] at hnum
    have hle := span_lt_succ Heap.bits (s.depth - 1)
    rw [show s.depth - 1 + 1 = s.depth by omega] at hle
    refine ⟨h4.trans (.step .removeLevel ⟨hpos, fun j hj2 hj1 => ?_⟩ (.refl _)), ?_⟩
    · show ((s.slot.setIfInBounds i (some mt)).setIfInBounds s.num none)[j]? = some none
      have hj1' : s.num ≤ j := by rw [hnum]; exact hj1
      have hj2' : j < s.slot.size := by simpa [Arr.set, Arr.ofStore] using hj2
      rw [Array.getElem?_setIfInBounds]
      split
      · simp [hn]
      · rw [Array.getElem?_setIfInBounds, if_neg (by omega)]
        exact hinv.tail_null j (by omega) hj2'
    · show (Array.extract _ 0 _).size = span Heap.bits (s.depth - 1)
      simp only [Array.size_extract, Array.size_setIfInBounds, cap_eq_span]; omega
  · exact ⟨h4, by simpa [Sized, cap_eq_span] using hsz⟩

/-- `Ivy.Heap.removeAt` (the heap branch of `iv_timer_unregister`) touches the slot array only by a
legal sequence of slot operations. -/
theorem removeAt_steps {s s' : Heap.Store} {t i : Nat} (hinv : Heap.HeapInv s)
    (h : Heap.removeAt s t i = .ok s') :
    Steps Heap.bits (Arr.ofStore s) (Arr.ofStore s') ∧ Sized s' := by
  have h0 := h
  unfold Heap.removeAt at h
  split at h
  · cases h
  · rename_i hi
    split at h
    · rename_i p m hp hm
      split at h
      · cases h
      · rename_i hpt
        dsimp only at h
        split at h
        · cases h
        · rename_i mt
          have hpt' : p = some t := by simpa using hpt
          subst hpt'
          rw [Heap.Proofs.removeAt_eq s t i mt (by omega) hp hm] at h0
          obtain ⟨c1, c2⟩ := cut_steps mt hinv (Nat.le_of_not_gt hi)
          split at h0
          · split at h0
            · cases h0
            · rename_i s1 hpu
              split at h0
              · cases h0
              · rename_i s2 hpd
                cases h0
                obtain ⟨p1, p2, _⟩ := pullUp_steps _ _ _ c2 hpu
                obtain ⟨d1, d2, _⟩ := pushDown_steps _ _ _ _ rfl p2 hpd
                exact ⟨(c1.trans p1).trans d1, d2⟩
          · cases h0; exact ⟨c1, c2⟩
    · cases h

/-- `Ivy.Heap.unregister` likewise (the `index == 0` branch does not touch the tree) -/
theorem unregister_steps {s s' : Heap.Store} {batch : List Nat} {t : Nat} (hinv : Heap.HeapInv s)
    (h : (Heap.unregister s batch t).1 = .ok s') :
    Steps Heap.bits (Arr.ofStore s) (Arr.ofStore s') ∧ Sized s' := by
  unfold Heap.unregister at h
  dsimp only at h
  split at h
  · cases h
  · split at h
    · cases h; exact ⟨.refl _, hinv.size_eq⟩
    · split at h
      · rename_i s1 hr
        cases h
        exact removeAt_steps (s' := s1) hinv hr
      · rename_i r hne
        dsimp only at h
        exact absurd h (by intro h'; exact hne _ h')

/-- the first loop of `iv_run_timers` (`Ivy.Heap.collect`) is again a legal sequence of slot operations -/
theorem collect_steps (now : Heap.TS) : ∀ (fuel : Nat) (s s' : Heap.Store) (acc b : List Nat), Heap.HeapInv s →
    Heap.collect s now fuel acc = (.ok s', b) →
    Steps Heap.bits (Arr.ofStore s) (Arr.ofStore s') ∧ Sized s' := by
  intro fuel
  induction fuel with
  | zero =>
    intro s s' acc b hinv h
    simp only [Heap.collect] at h
    cases h; exact ⟨.refl _, hinv.size_eq⟩
  | succ fuel ih =>
    intro s s' acc b hinv h
    rw [Heap.collect] at h
    split at h
    · cases h; exact ⟨.refl _, hinv.size_eq⟩
    · split at h
      · rename_i t hroot
        split at h
        · cases h
        · rename_i hidx
          split at h
          · cases h; exact ⟨.refl _, hinv.size_eq⟩
          · split at h
            · rename_i s1 hr
              have ht : s.idx[t]? = some ((1 : Nat) : Int) := by
                have h1 : s.idx.getD t (-1) = 1 := by simpa using hidx
                rw [Array.getD_eq_getD_getElem?] at h1
                cases hx : s.idx[t]? with
                | none => rw [hx] at h1; simp at h1
                | some v => rw [hx] at h1; simp at h1; simp [h1]
              obtain ⟨s1', e1, hinv1, _⟩ := Heap.Proofs.remove_ok s t 1 0 hinv (Nat.le_refl _) ht (by omega) (by omega)
              rw [hr] at e1; cases e1
              obtain ⟨c1, _⟩ := removeAt_steps (s' := s1) hinv hr
              obtain ⟨c2, c3⟩ := ih _ _ _ _ hinv1 h
              exact ⟨c1.trans c2, c3⟩
            · rename_i r hne
              exact absurd (Prod.mk.inj h).1 (hne s')
      · cases h

theorem popExpired_slots {s s' : Heap.Store} {batch rest : List Nat} {t : Nat}
    (h : Heap.popExpired s batch = some (s', t, rest)) : Arr.ofStore s' = Arr.ofStore s := by
  cases batch with
  | nil => simp [Heap.popExpired] at h
  | cons x xs =>
    simp only [Heap.popExpired, Option.some.injEq, Prod.mk.injEq] at h
    obtain ⟨h1, _, _⟩ := h
    subst h1; rfl


/-- **(d)** at the level of the heap model: whenever the tree `r` denotes the slot array of a store
satisfying `HeapInv`, a successful `register` is matched by running the models of
`iv_timer_get_node` / `iv_timer_radix_tree_remove_level` on `r`: same reads, and the resulting tree
denotes the resulting array. -/
theorem register_refines {s s' : Heap.Store} {t : Nat} {e : Heap.TS} {r : RatState} (hinv : Heap.HeapInv s)
    (hs : Sim Heap.bits (Arr.ofStore s) r) (h : Heap.register s t e = .ok s') :
    ∃ ops, LegalRun Heap.bits (Arr.ofStore s) ops ∧ (runA Heap.bits (Arr.ofStore s) ops).1 = Arr.ofStore s' ∧
      Sim Heap.bits (Arr.ofStore s') (runR Heap.bits r ops).1 ∧
      (runA Heap.bits (Arr.ofStore s) ops).2 = (runR Heap.bits r ops).2 :=
  (register_steps hinv.size_eq hinv.num_lt h).1.sim hs

theorem unregister_refines {s s' : Heap.Store} {batch : List Nat} {t : Nat} {r : RatState} (hinv : Heap.HeapInv s)
    (hs : Sim Heap.bits (Arr.ofStore s) r) (h : (Heap.unregister s batch t).1 = .ok s') :
    ∃ ops, LegalRun Heap.bits (Arr.ofStore s) ops ∧ (runA Heap.bits (Arr.ofStore s) ops).1 = Arr.ofStore s' ∧
      Sim Heap.bits (Arr.ofStore s') (runR Heap.bits r ops).1 ∧
      (runA Heap.bits (Arr.ofStore s) ops).2 = (runR Heap.bits r ops).2 :=
  (unregister_steps hinv h).1.sim hs

/-- the initial store of the heap model is denoted by the initial tree -/
theorem init_store_sim (n : Nat) : Sim Heap.bits (Arr.ofStore (Heap.Store.init n)) (RatState.init Heap.bits) :=
  init_sim Heap.bits


theorem runR_append (bits : Nat) : ∀ (a b : List SlotOp) (r : RatState),
    (runR bits r (a ++ b)).1 = (runR bits (runR bits r a).1 b).1 := by
  intro a
  induction a with
  | nil => intro b r; rfl
  | cons op a ih => intro b r; simp only [List.cons_append, runR, ih]

/-- client-level operations of the heap model -/
inductive HeapOp where
  | register (t : Nat) (e : Heap.TS)
  | unregister (t : Nat)
  | runTimers (now : Heap.TS)       -- the first loop of `iv_run_timers`

/-- the precondition of the C05 theorems: register an unregistered timer, unregister one that is on the heap -/
def HeapOp.Valid (s : Heap.Store) : HeapOp → Prop
  | .register t _ => s.idx[t]? = some (-1)
  | .unregister t => Heap.onHeap s t
  | .runTimers _ => True

def HeapOp.apply (s : Heap.Store) : HeapOp → Heap.Res
  | .register t e => Heap.register s t e
  | .unregister t => (Heap.unregister s [] t).1
  | .runTimers now => (Heap.runCollect s now).1

/-- `s'` is reached from `s` by valid client operations, all of which return `.ok` -/
inductive History : Heap.Store → Heap.Store → Prop where
  | refl (s : Heap.Store) : History s s
  | step {s s1 s' : Heap.Store} (op : HeapOp) : op.Valid s → op.apply s = .ok s1 → History s1 s' → History s s'

theorem History.trans {a b c : Heap.Store} (h1 : History a b) (h2 : History b c) : History a c := by
  induction h1 with
  | refl _ => exact h2
  | step op hv ha _ ih => exact .step op hv ha (ih h2)

/-- **(d)**, end to end: along any history of valid `register` / `unregister` / `iv_run_timers` calls on the heap model
(any population: growth, shrinking and regrowth of the tree included), running the models of the C
tree functions on a tree that denotes the initial slot array yields a tree that denotes the final
slot array. -/
theorem history_refines {s s' : Heap.Store} (hh : History s s') : ∀ {r : RatState}, Heap.HeapInv s →
    Sim Heap.bits (Arr.ofStore s) r →
    Heap.HeapInv s' ∧ ∃ ops, Sim Heap.bits (Arr.ofStore s') (runR Heap.bits r ops).1 := by
  induction hh with
  | refl s => intro r hinv hs; exact ⟨hinv, [], hs⟩
  | @step s0 s1 s2 op hv ha _ ih =>
    intro r hinv hs
    cases op with
    | register t e =>
      obtain ⟨s1', e1, hinv1, _⟩ := Heap.Proofs.register_ok s0 t e hinv hv
      have ha' : Heap.register s0 t e = .ok s1 := ha
      rw [ha'] at e1; cases e1
      obtain ⟨ops1, _, _, hs1, _⟩ := register_refines hinv hs ha'
      obtain ⟨hinv2, ops2, hs2⟩ := ih hinv1 hs1
      exact ⟨hinv2, ops1 ++ ops2, by rw [runR_append]; exact hs2⟩
    | unregister t =>
      obtain ⟨s1', e1, hinv1, _⟩ := Heap.Proofs.unregister_ok s0 [] t hinv hv
      have ha' : (Heap.unregister s0 [] t).1 = .ok s1 := ha
      rw [e1] at ha'; cases ha'
      obtain ⟨ops1, _, _, hs1, _⟩ := unregister_refines (batch := []) hinv hs (by rw [e1])
      obtain ⟨hinv2, ops2, hs2⟩ := ih hinv1 hs1
      exact ⟨hinv2, ops1 ++ ops2, by rw [runR_append]; exact hs2⟩
    | runTimers now =>
      obtain ⟨s1', batch, e1, hinv1, _⟩ := Heap.Proofs.collect_sorted s0 now hinv
      have ha' : (Heap.runCollect s0 now).1 = .ok s1 := ha
      rw [e1] at ha'; cases ha'
      obtain ⟨ops1, _, _, hs1, _⟩ := (collect_steps now _ _ _ _ _ hinv e1).1.sim hs
      obtain ⟨hinv2, ops2, hs2⟩ := ih hinv1 hs1
      exact ⟨hinv2, ops1 ++ ops2, by rw [runR_append]; exact hs2⟩

end Ivy.Rat.Proofs
