import Ivy.L0.AvlPtr
import Ivy.L0.AvlPtrCtx
/-!
Abstraction relation between the heap model (`Ivy/L0/AvlPtr.lean`) and the functional
tree (`Ivy/L0/Avl.lean`), and its basic lemmas.

* `Own m p par t ids` : pointer `p` (whose node must have parent pointer `par`) is the
  root of a pointer structure that has exactly the shape, keys and stored heights of `t`,
  every node's `parent` field is its actual parent, and `ids` is the in-order list of
  the node addresses.
* `OwnCtx m top tp c hole hp pre post` : the same for a one-hole context `c`
  (`AvlPtrCtx.lean`); `hole` is the pointer stored in the hole slot, `hp` the address the
  hole's root must have as parent, `pre`/`post` the in-order addresses left/right of the hole.
* `Repr h t ids` : the whole heap `h` represents `t`; addresses are distinct.
-/
namespace Ivy.AvlPtr
open Ivy.Avl (Tree toList size)
open Ivy.Avl.Tree

def Own (m : Mem) : Option Nat → Option Nat → Tree → List Nat → Prop
  | p, _, .nil, ids => p = none ∧ ids = []
  | p, par, .node l k h r, ids =>
      ∃ i lp rp il ir, p = some i ∧ m i = some ⟨k, lp, rp, par, h⟩ ∧
        Own m lp (some i) l il ∧ Own m rp (some i) r ir ∧ ids = il ++ i :: ir

def OwnCtx (m : Mem) (top tp : Option Nat) :
    List Frame → Option Nat → Option Nat → List Nat → List Nat → Prop
  | [], hole, hp, pre, post => hole = top ∧ hp = tp ∧ pre = [] ∧ post = []
  | .L k h sib :: c, hole, hp, pre, post =>
      ∃ i rp gp sids post', hp = some i ∧ m i = some ⟨k, hole, rp, gp, h⟩ ∧
        Own m rp (some i) sib sids ∧ OwnCtx m top tp c (some i) gp pre post' ∧
        post = i :: sids ++ post'
  | .R k h sib :: c, hole, hp, pre, post =>
      ∃ i lp gp sids pre', hp = some i ∧ m i = some ⟨k, lp, hole, gp, h⟩ ∧
        Own m lp (some i) sib sids ∧ OwnCtx m top tp c (some i) gp pre' post ∧
        pre = pre' ++ sids ++ [i]

/-- The heap represents the functional tree `t`; `ids` = node addresses in order.
Parent pointers are consistent (root's parent is NULL) and addresses are distinct. -/
def Repr (h : Heap) (t : Tree) (ids : List Nat) : Prop :=
  Own h.mem h.root none t ids ∧ ids.Nodup

theorem own_nil {m : Mem} {p par : Option Nat} {ids : List Nat} :
    Own m p par nil ids ↔ p = none ∧ ids = [] := Iff.rfl

theorem own_node {m : Mem} {p par : Option Nat} {l r : Tree} {k : Int} {h : Nat} {ids : List Nat} :
    Own m p par (node l k h r) ids ↔
      ∃ i lp rp il ir, p = some i ∧ m i = some ⟨k, lp, rp, par, h⟩ ∧
        Own m lp (some i) l il ∧ Own m rp (some i) r ir ∧ ids = il ++ i :: ir := Iff.rfl

theorem own_frame {m m' : Mem} {p par : Option Nat} {t : Tree} {ids : List Nat}
    (h : Own m p par t ids) (hf : ∀ i ∈ ids, m' i = m i) : Own m' p par t ids := by
  induction t generalizing p par ids with
  | nil => exact h
  | node l k hh r ihl ihr =>
    obtain ⟨i, lp, rp, il, ir, rfl, hm, hl, hr, rfl⟩ := h
    refine ⟨i, lp, rp, il, ir, rfl, ?_, ihl hl ?_, ihr hr ?_, rfl⟩
    · rw [hf i (by simp)]; exact hm
    · intro j hj; exact hf j (by simp [hj])
    · intro j hj; exact hf j (by simp [hj])

theorem own_length {m : Mem} {p par : Option Nat} {t : Tree} {ids : List Nat}
    (h : Own m p par t ids) : ids.length = size t := by
  induction t generalizing p par ids with
  | nil => rw [h.2]; rfl
  | node l k hh r ihl ihr =>
    obtain ⟨i, lp, rp, il, ir, rfl, hm, hl, hr, rfl⟩ := h
    simp [size, ihl hl, ihr hr]; omega

theorem own_none {m : Mem} {par : Option Nat} {t : Tree} {ids : List Nat}
    (h : Own m none par t ids) : t = nil ∧ ids = [] := by
  cases t with
  | nil => exact ⟨rfl, h.2⟩
  | node l k hh r => obtain ⟨i, _, _, _, _, e, _⟩ := h; cases e

theorem own_some {m : Mem} {i : Nat} {par : Option Nat} {t : Tree} {ids : List Nat}
    (h : Own m (some i) par t ids) :
    ∃ l k hh r lp rp il ir, t = node l k hh r ∧ m i = some ⟨k, lp, rp, par, hh⟩ ∧
      Own m lp (some i) l il ∧ Own m rp (some i) r ir ∧ ids = il ++ i :: ir := by
  cases t with
  | nil => cases h.1
  | node l k hh r =>
    obtain ⟨j, lp, rp, il, ir, e, hm, hl, hr, rfl⟩ := h
    cases e
    exact ⟨l, k, hh, r, lp, rp, il, ir, rfl, hm, hl, hr, rfl⟩

theorem own_root_mem {m : Mem} {i : Nat} {par : Option Nat} {t : Tree} {ids : List Nat}
    (h : Own m (some i) par t ids) : i ∈ ids := by
  obtain ⟨_, _, _, _, _, _, _, _, _, _, _, _, rfl⟩ := own_some h
  simp

theorem own_height {m : Mem} {root p par : Option Nat} {t : Tree} {ids : List Nat}
    (h : Own m p par t ids) : height ⟨m, root⟩ p = some (Avl.height t) := by
  cases t with
  | nil => rw [h.1]; rfl
  | node l k hh r =>
    obtain ⟨i, lp, rp, il, ir, rfl, hm, _, _, _⟩ := h
    simp [height, hm, Avl.height]

/-- keys stored at the addresses, in order, are the in-order key list -/
theorem own_keys {m : Mem} {p par : Option Nat} {t : Tree} {ids : List Nat}
    (h : Own m p par t ids) :
    ids.map (fun i => (m i).map (·.key)) = (toList t).map some := by
  induction t generalizing p par ids with
  | nil => rw [h.2]; rfl
  | node l k hh r ihl ihr =>
    obtain ⟨i, lp, rp, il, ir, rfl, hm, hl, hr, rfl⟩ := h
    simp [toList, ihl hl, ihr hr, hm]

/-! ### re-parenting the root of a subtree -/

def reparent (m : Mem) (p : Option Nat) (par : Option Nat) : Mem :=
  match p with
  | none => m
  | some j =>
    match m j with
    | none => m
    | some n => upd m j { n with parent := par }

theorem own_reparent {m : Mem} {p par par' : Option Nat} {t : Tree} {ids : List Nat}
    (h : Own m p par t ids) (nd : ids.Nodup) : Own (reparent m p par') p par' t ids := by
  cases t with
  | nil => rw [h.1]; exact ⟨rfl, h.2⟩
  | node l k hh r =>
    obtain ⟨i, lp, rp, il, ir, rfl, hm, hl, hr, rfl⟩ := h
    have hi : i ∉ il ∧ i ∉ ir := by grind
    refine ⟨i, lp, rp, il, ir, rfl, by simp [reparent, hm, upd], ?_, ?_, rfl⟩
    · apply own_frame hl
      intro j hj
      have : j ≠ i := fun e => hi.1 (e ▸ hj)
      simp [reparent, hm, upd, this]
    · apply own_frame hr
      intro j hj
      have : j ≠ i := fun e => hi.2 (e ▸ hj)
      simp [reparent, hm, upd, this]

theorem setParentIf_own {m : Mem} {root p par par' : Option Nat} {t : Tree} {ids : List Nat}
    (h : Own m p par t ids) :
    setParentIf ⟨m, root⟩ p par' = some ⟨reparent m p par', root⟩ := by
  cases p with
  | none => rfl
  | some i =>
    obtain ⟨_, _, _, _, _, _, _, _, _, hm, _⟩ := own_some h
    simp [setParentIf, setParent, hm, reparent, Heap.set]

theorem reparent_other {m : Mem} {p par par' : Option Nat} {t : Tree} {ids : List Nat}
    (h : Own m p par t ids) {j : Nat} (hj : j ∉ ids) : reparent m p par' j = m j := by
  cases p with
  | none => rfl
  | some i =>
    have hi := own_root_mem h
    have : j ≠ i := fun e => hj (e ▸ hi)
    simp only [reparent]
    cases m i <;> simp [upd, this]

/-! ### contexts -/

theorem ownCtx_frame {m m' : Mem} {top tp : Option Nat} {c : List Frame} {hole hp : Option Nat}
    {pre post : List Nat} (h : OwnCtx m top tp c hole hp pre post)
    (hf : ∀ i ∈ pre ++ post, m' i = m i) : OwnCtx m' top tp c hole hp pre post := by
  induction c generalizing hole hp pre post with
  | nil => exact h
  | cons f c ih =>
    cases f with
    | L k hh sib =>
      obtain ⟨i, rp, gp, sids, post', rfl, hm, hs, hc, rfl⟩ := h
      refine ⟨i, rp, gp, sids, post', rfl, ?_, own_frame hs ?_, ih hc ?_, rfl⟩
      · rw [hf i (by simp)]; exact hm
      · intro j hj; exact hf j (by simp [hj])
      · intro j hj
        apply hf j
        grind
    | R k hh sib =>
      obtain ⟨i, lp, gp, sids, pre', rfl, hm, hs, hc, rfl⟩ := h
      refine ⟨i, lp, gp, sids, pre', rfl, ?_, own_frame hs ?_, ih hc ?_, rfl⟩
      · rw [hf i (by simp)]; exact hm
      · intro j hj; exact hf j (by simp [hj])
      · intro j hj
        apply hf j
        grind

/-- filling the hole -/
theorem own_plug {m : Mem} {top tp : Option Nat} {c : List Frame} {hole hp : Option Nat}
    {pre post ids : List Nat} {t : Tree}
    (hc : OwnCtx m top tp c hole hp pre post) (ht : Own m hole hp t ids) :
    Own m top tp (plug c t) (pre ++ ids ++ post) := by
  induction c generalizing hole hp pre post t ids with
  | nil =>
    obtain ⟨rfl, rfl, rfl, rfl⟩ := hc
    simpa using ht
  | cons f c ih =>
    cases f with
    | L k hh sib =>
      obtain ⟨i, rp, gp, sids, post', rfl, hm, hs, hc', rfl⟩ := hc
      have := ih hc' (t := node t k hh sib) ⟨i, hole, rp, ids, sids, rfl, hm, ht, hs, rfl⟩
      simpa [fill] using this
    | R k hh sib =>
      obtain ⟨i, lp, gp, sids, pre', rfl, hm, hs, hc', rfl⟩ := hc
      have := ih hc' (t := node sib k hh t) ⟨i, lp, hole, sids, ids, rfl, hm, hs, ht, rfl⟩
      simpa [fill] using this

/-- opening a hole -/
theorem own_unplug {m : Mem} {top tp : Option Nat} {c : List Frame} {t : Tree} {I : List Nat}
    (h : Own m top tp (plug c t) I) :
    ∃ hole hp pre post ids, OwnCtx m top tp c hole hp pre post ∧ Own m hole hp t ids ∧
      I = pre ++ ids ++ post := by
  induction c generalizing t with
  | nil => exact ⟨top, tp, [], [], I, ⟨rfl, rfl, rfl, rfl⟩, h, by simp⟩
  | cons f c ih =>
    obtain ⟨hole', hp', pre, post, ids', hc, ht, rfl⟩ := ih (t := fill f t) h
    cases f with
    | L k hh sib =>
      obtain ⟨i, lp, rp, il, ir, rfl, hm, hl, hr, rfl⟩ := ht
      exact ⟨lp, some i, pre, i :: ir ++ post, il,
        ⟨i, rp, hp', ir, post, rfl, hm, hr, hc, rfl⟩, hl, by simp⟩
    | R k hh sib =>
      obtain ⟨i, lp, rp, il, ir, rfl, hm, hl, hr, rfl⟩ := ht
      exact ⟨rp, some i, pre ++ il ++ [i], post, ir,
        ⟨i, lp, hp', il, pre, rfl, hm, hl, hc, rfl⟩, hr, by simp⟩

theorem ownCtx_append {m : Mem} {top tp mid mp : Option Nat} {c1 c2 : List Frame}
    {hole hp : Option Nat} {pre1 post1 pre2 post2 : List Nat}
    (h1 : OwnCtx m mid mp c1 hole hp pre1 post1) (h2 : OwnCtx m top tp c2 mid mp pre2 post2) :
    OwnCtx m top tp (c1 ++ c2) hole hp (pre2 ++ pre1) (post1 ++ post2) := by
  induction c1 generalizing hole hp pre1 post1 with
  | nil =>
    obtain ⟨rfl, rfl, rfl, rfl⟩ := h1
    simpa using h2
  | cons f c ih =>
    cases f with
    | L k hh sib =>
      obtain ⟨i, rp, gp, sids, post', rfl, hm, hs, hc, rfl⟩ := h1
      exact ⟨i, rp, gp, sids, post' ++ post2, rfl, hm, hs, ih hc, by simp⟩
    | R k hh sib =>
      obtain ⟨i, lp, gp, sids, pre', rfl, hm, hs, hc, rfl⟩ := h1
      exact ⟨i, lp, gp, sids, pre2 ++ pre', rfl, hm, hs, ih hc, by simp⟩

theorem ownCtx_split {m : Mem} {top tp : Option Nat} {c1 c2 : List Frame}
    {hole hp : Option Nat} {pre post : List Nat}
    (h : OwnCtx m top tp (c1 ++ c2) hole hp pre post) :
    ∃ mid mp pre1 post1 pre2 post2, OwnCtx m mid mp c1 hole hp pre1 post1 ∧
      OwnCtx m top tp c2 mid mp pre2 post2 ∧ pre = pre2 ++ pre1 ∧ post = post1 ++ post2 := by
  induction c1 generalizing hole hp pre post with
  | nil => exact ⟨hole, hp, [], [], pre, post, ⟨rfl, rfl, rfl, rfl⟩, h, by simp, by simp⟩
  | cons f c ih =>
    cases f with
    | L k hh sib =>
      obtain ⟨i, rp, gp, sids, post', rfl, hm, hs, hc, rfl⟩ := h
      obtain ⟨mid, mp, pre1, post1, pre2, post2, a, b, rfl, rfl⟩ := ih hc
      exact ⟨mid, mp, pre1, i :: sids ++ post1, pre2, post2,
        ⟨i, rp, gp, sids, post1, rfl, hm, hs, a, rfl⟩, b, rfl, by simp⟩
    | R k hh sib =>
      obtain ⟨i, lp, gp, sids, pre', rfl, hm, hs, hc, rfl⟩ := h
      obtain ⟨mid, mp, pre1, post1, pre2, post2, a, b, rfl, rfl⟩ := ih hc
      exact ⟨mid, mp, pre1 ++ sids ++ [i], post1, pre2, post2,
        ⟨i, lp, gp, sids, pre1, rfl, hm, hs, a, rfl⟩, b, by simp, rfl⟩

/-- the parent of the hole is one of the context's nodes -/
theorem ownCtx_hp_mem {m : Mem} {top tp : Option Nat} {c : List Frame} {hole hp : Option Nat}
    {pre post : List Nat} (h : OwnCtx m top tp c hole hp pre post) (hc : c ≠ []) :
    ∃ g, hp = some g ∧ g ∈ pre ++ post := by
  cases c with
  | nil => exact absurd rfl hc
  | cons f c =>
    cases f with
    | L k hh sib =>
      obtain ⟨i, rp, gp, sids, post', rfl, hm, hs, hc, rfl⟩ := h
      exact ⟨i, rfl, by simp⟩
    | R k hh sib =>
      obtain ⟨i, lp, gp, sids, pre', rfl, hm, hs, hc, rfl⟩ := h
      exact ⟨i, rfl, by simp⟩

/-- every node address of a represented tree sits at some position: context + node -/
theorem own_find {m : Mem} {top tp : Option Nat} {T : Tree} {I : List Nat}
    (h : Own m top tp T I) {a : Nat} (ha : a ∈ I) :
    ∃ c l k hh r par pre post il ir, T = plug c (node l k hh r) ∧
      OwnCtx m top tp c (some a) par pre post ∧
      Own m (some a) par (node l k hh r) (il ++ a :: ir) ∧
      I = pre ++ (il ++ a :: ir) ++ post := by
  induction T generalizing top tp I with
  | nil => rw [h.2] at ha; cases ha
  | node l k hh r ihl ihr =>
    have h0 := h
    obtain ⟨i, lp, rp, il, ir, rfl, hm, hl, hr, rfl⟩ := h
    simp only [List.mem_append, List.mem_cons] at ha
    rcases ha with ha | rfl | ha
    · obtain ⟨c, l', k', hh', r', par, pre, post, il', ir', e, hc, hn, rfl⟩ := ihl hl ha
      refine ⟨c ++ [.L k hh r], l', k', hh', r', par, [] ++ pre, post ++ (i :: ir ++ []), il', ir',
        ?_, ownCtx_append hc (c2 := [.L k hh r]) ⟨i, rp, tp, ir, [], rfl, hm, hr, ⟨rfl, rfl, rfl, rfl⟩, rfl⟩, hn, by simp⟩
      rw [plug_append, ← e]; rfl
    · exact ⟨[], l, k, hh, r, tp, [], [], il, ir, rfl, ⟨rfl, rfl, rfl, rfl⟩, h0, by simp⟩
    · obtain ⟨c, l', k', hh', r', par, pre, post, il', ir', e, hc, hn, rfl⟩ := ihr hr ha
      refine ⟨c ++ [.R k hh l], l', k', hh', r', par, ([] ++ il ++ [i]) ++ pre, post ++ [], il', ir',
        ?_, ownCtx_append hc (c2 := [.R k hh l]) ⟨i, lp, tp, il, [], rfl, hm, hl, ⟨rfl, rfl, rfl, rfl⟩, rfl⟩, hn, by simp⟩
      rw [plug_append, ← e]; rfl

/-! ### references (`struct iv_avl_node **`) -/

/-- `ref` is the address of the slot that holds the hole pointer of context `c` -/
def IsRef : List Frame → Option Nat → Ref → Prop
  | [], _, ref => ref = .root
  | .L .. :: _, hp, ref => ∃ g, hp = some g ∧ ref = .left g
  | .R .. :: _, hp, ref => ∃ g, hp = some g ∧ ref = .right g

def Ref.owner : Ref → Option Nat
  | .root => none
  | .left g => some g
  | .right g => some g

theorem isRef_owner {c : List Frame} {hp : Option Nat} {ref : Ref} (h : IsRef c hp ref) :
    ref.owner = none ∨ ref.owner = hp := by
  cases c with
  | nil => rw [h]; exact Or.inl rfl
  | cons f c =>
    cases f <;> (obtain ⟨g, rfl, rfl⟩ := h; exact Or.inr rfl)

theorem deref_ctx {m : Mem} {root : Option Nat} {c : List Frame} {hole hp : Option Nat}
    {pre post : List Nat} {ref : Ref}
    (hc : OwnCtx m root none c hole hp pre post) (hr : IsRef c hp ref) :
    deref ⟨m, root⟩ ref = some hole := by
  cases c with
  | nil => obtain ⟨rfl, _⟩ := hc; rw [hr]; rfl
  | cons f c =>
    cases f with
    | L k hh sib =>
      obtain ⟨i, rp, gp, sids, post', rfl, hm, hs, hc, rfl⟩ := hc
      obtain ⟨g, e, rfl⟩ := hr
      cases e
      simp [deref, hm]
    | R k hh sib =>
      obtain ⟨i, lp, gp, sids, pre', rfl, hm, hs, hc, rfl⟩ := hc
      obtain ⟨g, e, rfl⟩ := hr
      cases e
      simp [deref, hm]

/-- `find_reference` finds the slot of the hole's root node -/
theorem findReference_ctx {m : Mem} {root : Option Nat} {c : List Frame} {i : Nat}
    {hp : Option Nat} {pre post ids : List Nat} {t : Tree}
    (hc : OwnCtx m root none c (some i) hp pre post) (hi : Own m (some i) hp t ids)
    (nd : (pre ++ ids ++ post).Nodup) :
    ∃ ref, findReference ⟨m, root⟩ i = some ref ∧ IsRef c hp ref := by
  obtain ⟨l, k, hh, r, lp, rp, il, ir, rfl, hm, _, _, rfl⟩ := own_some hi
  cases c with
  | nil =>
    obtain ⟨_, rfl, _⟩ := hc
    exact ⟨.root, by simp [findReference, hm], rfl⟩
  | cons f c =>
    cases f with
    | L k' hh' sib =>
      obtain ⟨g, rp', gp, sids, post', rfl, hg, hs, hc, rfl⟩ := hc
      exact ⟨.left g, by simp [findReference, hm, hg], g, rfl, rfl⟩
    | R k' hh' sib =>
      obtain ⟨g, lp', gp, sids, pre', rfl, hg, hs, hc, rfl⟩ := hc
      refine ⟨.right g, ?_, g, rfl, rfl⟩
      have : lp' ≠ some i := by
        rintro rfl
        have h1 := own_root_mem hs
        grind
      simp [findReference, hm, hg, this]

/-- `*ref = v` re-targets the hole and touches only the hole's parent node -/
theorem store_ctx {m : Mem} {root : Option Nat} {c : List Frame} {hole hp : Option Nat}
    {pre post : List Nat} {ref : Ref}
    (hc : OwnCtx m root none c hole hp pre post) (hr : IsRef c hp ref)
    (nd : (pre ++ post).Nodup) (v : Option Nat) :
    ∃ m' root', store ⟨m, root⟩ ref v = some ⟨m', root'⟩ ∧
      OwnCtx m' root' none c v hp pre post ∧ (∀ j, hp ≠ some j → m' j = m j) := by
  cases c with
  | nil =>
    obtain ⟨rfl, rfl, rfl, rfl⟩ := hc
    rw [hr]
    exact ⟨m, v, rfl, ⟨rfl, rfl, rfl, rfl⟩, fun _ _ => rfl⟩
  | cons f c =>
    cases f with
    | L k hh sib =>
      obtain ⟨g, rp, gp, sids, post', rfl, hg, hs, hc, rfl⟩ := hc
      obtain ⟨g', e, rfl⟩ := hr
      cases e
      have hn : g ∉ sids ∧ g ∉ pre ++ post' := by grind
      refine ⟨upd m g ⟨k, v, rp, gp, hh⟩, root, by simp [store, hg, Heap.set], ?_, ?_⟩
      · refine ⟨g, rp, gp, sids, post', rfl, by simp [upd], own_frame hs ?_, ownCtx_frame hc ?_, rfl⟩
        · intro j hj
          have : j ≠ g := fun e => hn.1 (e ▸ hj)
          simp [upd, this]
        · intro j hj
          have : j ≠ g := fun e => hn.2 (e ▸ hj)
          simp [upd, this]
      · intro j hj
        have : j ≠ g := fun e => hj (e ▸ rfl)
        simp [upd, this]
    | R k hh sib =>
      obtain ⟨g, lp, gp, sids, pre', rfl, hg, hs, hc, rfl⟩ := hc
      obtain ⟨g', e, rfl⟩ := hr
      cases e
      have hn : g ∉ sids ∧ g ∉ pre' ++ post := by grind
      refine ⟨upd m g ⟨k, lp, v, gp, hh⟩, root, by simp [store, hg, Heap.set], ?_, ?_⟩
      · refine ⟨g, lp, gp, sids, pre', rfl, by simp [upd], own_frame hs ?_, ownCtx_frame hc ?_, rfl⟩
        · intro j hj
          have : j ≠ g := fun e => hn.1 (e ▸ hj)
          simp [upd, this]
        · intro j hj
          have : j ≠ g := fun e => hn.2 (e ▸ hj)
          simp [upd, this]
      · intro j hj
        have : j ≠ g := fun e => hj (e ▸ rfl)
        simp [upd, this]

end Ivy.AvlPtr
