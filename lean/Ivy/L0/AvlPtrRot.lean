import Ivy.L0.AvlPtrRepr
/-!
The four pointer-level rotations and `rebalance_node` refine the functional ones:
a subtree represented at `*ref` is replaced by a representation of the rotated
subtree, with the same in-order address list, all parent pointers (including the
re-hung inner subtrees `c`, `e` and the new subtree root) correct, and no memory
outside the subtree's own nodes touched except the final store through `ref`.
-/
set_option linter.unusedSimpArgs false
set_option linter.unusedVariables false
namespace Ivy.AvlPtr
open Ivy.Avl (Tree toList size)
open Ivy.Avl.Tree

@[simp] theorem upd_same (m : Mem) (i : Nat) (n : Node) : upd m i n i = some n := by simp [upd]
theorem upd_ne (m : Mem) {i j : Nat} (n : Node) (h : j ≠ i) : upd m i n j = m j := by simp [upd, h]

theorem max_if (a b : Nat) : (if a > b then a else b) = Max.max a b := by
  simp only [Nat.max_def]; split <;> split <;> omega

@[simp] theorem height_none (h : Heap) : height h none = some 0 := rfl
@[simp] theorem height_upd_same (m : Mem) (r : Option Nat) (i : Nat) (n : Node) :
    height ⟨upd m i n, r⟩ (some i) = some n.height := by simp [height]
theorem height_upd_ne (m : Mem) (r : Option Nat) (i : Nat) (n : Node) (p : Option Nat)
    (h : p ≠ some i) : height ⟨upd m i n, r⟩ p = height ⟨m, r⟩ p := by
  cases p with
  | none => rfl
  | some j => have : j ≠ i := fun e => h (e ▸ rfl); simp [height, upd, this]

theorem own_ne {m : Mem} {p par : Option Nat} {t : Tree} {ids : List Nat}
    (h : Own m p par t ids) {j : Nat} (hj : j ∉ ids) : p ≠ some j := by
  rintro rfl; exact hj (own_root_mem h)

/-- storing the value a slot already holds changes nothing -/
theorem store_noop {m : Mem} {root : Option Nat} {ref : Ref} {v : Option Nat}
    (hr : deref ⟨m, root⟩ ref = some v) : store ⟨m, root⟩ ref v = some ⟨m, root⟩ := by
  cases ref with
  | root => simp [deref] at hr; simp [store, hr]
  | left p =>
    simp only [deref] at hr
    cases hp : m p with
    | none => simp [hp] at hr
    | some n =>
      simp [hp] at hr
      have : upd m p { n with left := v } = m := by
        funext j
        by_cases hj : j = p
        · subst hj; subst hr; simp [hp]
        · simp [upd, hj]
      simp [store, hp, Heap.set, this]
  | right p =>
    simp only [deref] at hr
    cases hp : m p with
    | none => simp [hp] at hr
    | some n =>
      simp [hp] at hr
      have : upd m p { n with right := v } = m := by
        funext j
        by_cases hj : j = p
        · subst hj; subst hr; simp [hp]
        · simp [upd, hj]
      simp [store, hp, Heap.set, this]

syntax "fr2 " ident ident : tactic
macro_rules
  | `(tactic| fr2 $b $d) => `(tactic| (intro j hj; have h1 : j ≠ $b := by grind
                                       have h2 : j ≠ $d := by grind
                                       simp [upd_ne, h1, h2]))
syntax "fr3 " ident ident ident : tactic
macro_rules
  | `(tactic| fr3 $b $d $c) => `(tactic| (intro j hj; have h1 : j ≠ $b := by grind
                                          have h2 : j ≠ $d := by grind
                                          have h3 : j ≠ $c := by grind
                                          simp [upd_ne, h1, h2, h3]))
syntax "fr4 " ident ident ident ident : tactic
macro_rules
  | `(tactic| fr4 $b $d $c $e) => `(tactic| (intro j hj; have h1 : j ≠ $b := by grind
                                             have h2 : j ≠ $d := by grind
                                             have h3 : j ≠ $c := by grind
                                             have h4 : j ≠ $e := by grind
                                             simp [upd_ne, h1, h2, h3, h4]))
syntax "fr5 " ident ident ident ident ident : tactic
macro_rules
  | `(tactic| fr5 $b $d $c $e $f) => `(tactic| (intro j hj; have h1 : j ≠ $b := by grind
                                                have h2 : j ≠ $d := by grind
                                                have h3 : j ≠ $c := by grind
                                                have h4 : j ≠ $e := by grind
                                                have h5 : j ≠ $f := by grind
                                                simp [upd_ne, h1, h2, h3, h4, h5]))

theorem rotateLeft_spec {m : Mem} {root gp : Option Nat} {ref : Ref} {b : Nat}
    {a c e : Tree} {kb kd : Int} {hb hd : Nat} {I : List Nat}
    (ho : Own m (some b) gp (node a kb hb (node c kd hd e)) I) (nd : I.Nodup)
    (hr : deref ⟨m, root⟩ ref = some (some b)) :
    ∃ d m2, rotateLeft ⟨m, root⟩ ref = store ⟨m2, root⟩ ref (some d) ∧
      (∀ n, n ∉ I → m2 n = m n) ∧
      Own m2 (some d) gp (Avl.mk (Avl.mk a kb c) kd e) I := by
  obtain ⟨_, ap, rp, ia, ir, e1, hmb, hoa, hor, rfl⟩ := ho
  cases e1
  obtain ⟨d, cp, ep, ic, ie, rfl, hmd, hoc, hoe, rfl⟩ := hor
  have hbd : b ≠ d := by grind
  have hdb : d ≠ b := by grind
  have hab := own_ne hoa (j := b) (by grind)
  have had := own_ne hoa (j := d) (by grind)
  have heb := own_ne hoe (j := b) (by grind)
  have hed := own_ne hoe (j := d) (by grind)
  have ha := own_height (root := root) hoa
  have he := own_height (root := root) hoe
  refine ⟨d, ?_⟩
  cases c with
  | nil =>
    obtain ⟨rfl, rfl⟩ := hoc
    simp [rotateLeft, hr, hmb, hmd, setRight, setLeft, setParent, setParentIf, Heap.set,
      recalcHeight, upd_ne, hbd, hdb, setHeight, height_upd_ne, hab, had, heb, hed, ha, he, max_if]
    refine ⟨_, rfl, ?_, ?_⟩
    · intro n _ h1 h2 _; simp [upd_ne, h1, h2]
    · refine ⟨d, some b, ep, ia ++ [b], ie, rfl, by simp [Avl.height, Avl.mk], ?_,
        own_frame hoe ?_, by simp⟩
      · refine ⟨b, ap, none, ia, [], rfl, by simp [upd_ne, hbd, Avl.height], own_frame hoa ?_,
          ⟨rfl, rfl⟩, rfl⟩
        fr2 b d
      · fr2 b d
  | node cl kc hc cr =>
    obtain ⟨c0, clp, crp, icl, icr, rfl, hmc, hocl, hocr, rfl⟩ := hoc
    have hbc : b ≠ c0 := by grind
    have hcb : c0 ≠ b := by grind
    have hdc : d ≠ c0 := by grind
    have hcd : c0 ≠ d := by grind
    have hac := own_ne hoa (j := c0) (by grind)
    have hec := own_ne hoe (j := c0) (by grind)
    simp [rotateLeft, hr, hmb, hmd, hmc, setRight, setLeft, setParent, setParentIf, Heap.set,
      recalcHeight, upd_ne, hbd, hdb, setHeight, height_upd_ne, hab, had, heb, hed, ha, he, max_if,
      hbc, hcb, hdc, hcd, hac, hec]
    refine ⟨_, rfl, ?_, ?_⟩
    · intro n _ h1 _ h2 _ h3 _; simp [upd_ne, h1, h2, h3]
    · refine ⟨d, some b, ep, ia ++ b :: (icl ++ c0 :: icr), ie, rfl,
        by simp [Avl.height, Avl.mk], ?_, own_frame hoe ?_, by simp⟩
      · refine ⟨b, ap, some c0, ia, icl ++ c0 :: icr, rfl, by simp [upd_ne, hbd, Avl.height],
          own_frame hoa ?_, ?_, rfl⟩
        · fr3 b d c0
        · refine ⟨c0, clp, crp, icl, icr, rfl, by simp [upd_ne, hcb, hcd], own_frame hocl ?_,
            own_frame hocr ?_, rfl⟩
          · fr3 b d c0
          · fr3 b d c0
      · fr3 b d c0

theorem rotateRight_spec {m : Mem} {root gp : Option Nat} {ref : Ref} {d : Nat}
    {a c e : Tree} {kb kd : Int} {hb hd : Nat} {I : List Nat}
    (ho : Own m (some d) gp (node (node a kb hb c) kd hd e) I) (nd : I.Nodup)
    (hr : deref ⟨m, root⟩ ref = some (some d)) :
    ∃ b m2, rotateRight ⟨m, root⟩ ref = store ⟨m2, root⟩ ref (some b) ∧
      (∀ n, n ∉ I → m2 n = m n) ∧
      Own m2 (some b) gp (Avl.mk a kb (Avl.mk c kd e)) I := by
  obtain ⟨_, lp, ep, il, ie, e1, hmd, hol, hoe, rfl⟩ := ho
  cases e1
  obtain ⟨b, ap, cp, ia, ic, rfl, hmb, hoa, hoc, rfl⟩ := hol
  have hbd : b ≠ d := by grind
  have hdb : d ≠ b := by grind
  have hab := own_ne hoa (j := b) (by grind)
  have had := own_ne hoa (j := d) (by grind)
  have heb := own_ne hoe (j := b) (by grind)
  have hed := own_ne hoe (j := d) (by grind)
  have ha := own_height (root := root) hoa
  have he := own_height (root := root) hoe
  refine ⟨b, ?_⟩
  cases c with
  | nil =>
    obtain ⟨rfl, rfl⟩ := hoc
    simp [rotateRight, hr, hmb, hmd, setRight, setLeft, setParent, setParentIf, Heap.set,
      recalcHeight, upd_ne, hbd, hdb, setHeight, height_upd_ne, hab, had, heb, hed, ha, he, max_if]
    refine ⟨_, rfl, ?_, ?_⟩
    · intro n _ h1 h2 _; simp [upd_ne, h1, h2]
    · refine ⟨b, ap, some d, ia, d :: ie, rfl, by simp [upd_ne, hbd, Avl.height, Avl.mk],
        own_frame hoa ?_, ?_, by simp⟩
      · fr2 b d
      · refine ⟨d, none, ep, [], ie, rfl, by simp [upd_ne, hdb, Avl.height], ⟨rfl, rfl⟩,
          own_frame hoe ?_, rfl⟩
        fr2 b d
  | node cl kc hc cr =>
    obtain ⟨c0, clp, crp, icl, icr, rfl, hmc, hocl, hocr, rfl⟩ := hoc
    have hbc : b ≠ c0 := by grind
    have hcb : c0 ≠ b := by grind
    have hdc : d ≠ c0 := by grind
    have hcd : c0 ≠ d := by grind
    have hac := own_ne hoa (j := c0) (by grind)
    have hec := own_ne hoe (j := c0) (by grind)
    simp [rotateRight, hr, hmb, hmd, hmc, setRight, setLeft, setParent, setParentIf, Heap.set,
      recalcHeight, upd_ne, hbd, hdb, setHeight, height_upd_ne, hab, had, heb, hed, ha, he, max_if,
      hbc, hcb, hdc, hcd, hac, hec]
    refine ⟨_, rfl, ?_, ?_⟩
    · intro n _ h1 _ h2 _ h3 _; simp [upd_ne, h1, h2, h3]
    · refine ⟨b, ap, some d, ia, (icl ++ c0 :: icr) ++ d :: ie, rfl,
        by simp [upd_ne, hbd, Avl.height, Avl.mk], own_frame hoa ?_, ?_, by simp⟩
      · fr3 b d c0
      · refine ⟨d, some c0, ep, icl ++ c0 :: icr, ie, rfl, by simp [upd_ne, hdb, Avl.height],
          ?_, own_frame hoe ?_, rfl⟩
        · refine ⟨c0, clp, crp, icl, icr, rfl, by simp [upd_ne, hcb, hcd], own_frame hocl ?_,
            own_frame hocr ?_, rfl⟩
          · fr3 b d c0
          · fr3 b d c0
        · fr3 b d c0

theorem nodup_mid {l1 l2 : List Nat} {x : Nat} (nd : (l1 ++ x :: l2).Nodup) : x ∉ l1 ++ l2 := by
  grind

theorem rotateLeftRight_spec {m : Mem} {root gp : Option Nat} {ref : Ref} {f : Nat}
    {a c e g : Tree} {kb kd kf : Int} {hb hd hf : Nat} {I : List Nat}
    (ho : Own m (some f) gp (node (node a kb hb (node c kd hd e)) kf hf g) I) (nd : I.Nodup)
    (hr : deref ⟨m, root⟩ ref = some (some f)) :
    ∃ d m2, rotateLeftRight ⟨m, root⟩ ref = store ⟨m2, root⟩ ref (some d) ∧
      (∀ n, n ∉ I → m2 n = m n) ∧
      Own m2 (some d) gp (Avl.mk (Avl.mk a kb c) kd (Avl.mk e kf g)) I := by
  obtain ⟨_, lp, gq, il, ig, e1, hmf, hol, hog, rfl⟩ := ho
  cases e1
  obtain ⟨b, ap, rp, ia, ir, rfl, hmb, hoa, hor, rfl⟩ := hol
  obtain ⟨d, cp, ep, ic, ie, rfl, hmd, hoc, hoe, rfl⟩ := hor
  have ha := own_height (root := root) hoa
  have hg := own_height (root := root) hog
  refine ⟨d, ?_⟩
  cases c with
  | nil =>
    obtain ⟨rfl, rfl⟩ := hoc
    cases e with
    | nil =>
      obtain ⟨rfl, rfl⟩ := hoe
      have Hf : f ∉ (ia ++ b :: [d]) ++ (ig) := nodup_mid (by simpa using nd)
      simp only [List.mem_append, List.mem_cons, not_or, List.not_mem_nil, not_false_eq_true, and_true, true_and] at Hf
      have Hb : b ∉ (ia) ++ (d :: f :: ig) := nodup_mid (by simpa using nd)
      simp only [List.mem_append, List.mem_cons, not_or, List.not_mem_nil, not_false_eq_true, and_true, true_and] at Hb
      have Hd : d ∉ (ia ++ [b]) ++ (f :: ig) := nodup_mid (by simpa using nd)
      simp only [List.mem_append, List.mem_cons, not_or, List.not_mem_nil, not_false_eq_true, and_true, true_and] at Hd
      have o_ap_f := own_ne hoa (j := f) (by simp [Hf])
      have o_ap_b := own_ne hoa (j := b) (by simp [Hb])
      have o_ap_d := own_ne hoa (j := d) (by simp [Hd])
      have o_gq_f := own_ne hog (j := f) (by simp [Hf])
      have o_gq_b := own_ne hog (j := b) (by simp [Hb])
      have o_gq_d := own_ne hog (j := d) (by simp [Hd])
      simp [rotateLeftRight, hr, hmf, hmb, hmd, setRight, setLeft, setParent, setParentIf, Heap.set,
        recalcHeight, upd_ne, setHeight, height_upd_ne, max_if, ha, hg, Hf, Hb, Hd,
        o_ap_f, o_ap_b, o_ap_d, o_gq_f, o_gq_b, o_gq_d]
      refine ⟨_, rfl, ?_, ?_⟩
      · intro n; intros; simp [upd_ne, (by assumption : n ≠ f), (by assumption : n ≠ b), (by assumption : n ≠ d)]
      · refine ⟨d, some b, some f, ia ++ b :: ([]), ([]) ++ f :: ig, rfl,
          by simp [upd_ne, Hf, Hb, Hd, Avl.height, Avl.mk], ?_, ?_, by simp⟩
        · refine ⟨b, ap, none, ia, [], rfl, by simp [upd_ne, Hf, Hb, Hd, Avl.height],
            own_frame hoa ?_, ?_, rfl⟩
          · intro j hj
            have h0 : j ≠ f := by rintro rfl; exact absurd hj (by simp [Hf])
            have h1 : j ≠ b := by rintro rfl; exact absurd hj (by simp [Hb])
            have h2 : j ≠ d := by rintro rfl; exact absurd hj (by simp [Hd])
            simp [upd_ne, h0, h1, h2]
          · exact ⟨rfl, rfl⟩
        · refine ⟨f, none, gq, [], ig, rfl, by simp [upd_ne, Hf, Hb, Hd, Avl.height],
            ?_, own_frame hog ?_, rfl⟩
          · exact ⟨rfl, rfl⟩
          · intro j hj
            have h0 : j ≠ f := by rintro rfl; exact absurd hj (by simp [Hf])
            have h1 : j ≠ b := by rintro rfl; exact absurd hj (by simp [Hb])
            have h2 : j ≠ d := by rintro rfl; exact absurd hj (by simp [Hd])
            simp [upd_ne, h0, h1, h2]
    | node el ke he er =>
      obtain ⟨e0, elp, erp, iel, ier, rfl, hme, hoel, hoer, rfl⟩ := hoe
      have Hf : f ∉ (ia ++ b :: d :: iel ++ e0 :: ier) ++ (ig) := nodup_mid (by simpa using nd)
      simp only [List.mem_append, List.mem_cons, not_or, List.not_mem_nil, not_false_eq_true, and_true, true_and] at Hf
      have Hb : b ∉ (ia) ++ (d :: iel ++ e0 :: ier ++ f :: ig) := nodup_mid (by simpa using nd)
      simp only [List.mem_append, List.mem_cons, not_or, List.not_mem_nil, not_false_eq_true, and_true, true_and] at Hb
      have Hd : d ∉ (ia ++ [b]) ++ (iel ++ e0 :: ier ++ f :: ig) := nodup_mid (by simpa using nd)
      simp only [List.mem_append, List.mem_cons, not_or, List.not_mem_nil, not_false_eq_true, and_true, true_and] at Hd
      have He0 : e0 ∉ (ia ++ b :: d :: iel) ++ (ier ++ f :: ig) := nodup_mid (by simpa using nd)
      simp only [List.mem_append, List.mem_cons, not_or, List.not_mem_nil, not_false_eq_true, and_true, true_and] at He0
      have o_ap_f := own_ne hoa (j := f) (by simp [Hf])
      have o_ap_b := own_ne hoa (j := b) (by simp [Hb])
      have o_ap_d := own_ne hoa (j := d) (by simp [Hd])
      have o_ap_e0 := own_ne hoa (j := e0) (by simp [He0])
      have o_gq_f := own_ne hog (j := f) (by simp [Hf])
      have o_gq_b := own_ne hog (j := b) (by simp [Hb])
      have o_gq_d := own_ne hog (j := d) (by simp [Hd])
      have o_gq_e0 := own_ne hog (j := e0) (by simp [He0])
      simp [rotateLeftRight, hr, hmf, hmb, hmd, hme, setRight, setLeft, setParent, setParentIf, Heap.set,
        recalcHeight, upd_ne, setHeight, height_upd_ne, max_if, ha, hg, Hf, Hb, Hd, He0,
        o_ap_f, o_ap_b, o_ap_d, o_ap_e0, o_gq_f, o_gq_b, o_gq_d, o_gq_e0]
      refine ⟨_, rfl, ?_, ?_⟩
      · intro n; intros; simp [upd_ne, (by assumption : n ≠ f), (by assumption : n ≠ b), (by assumption : n ≠ d), (by assumption : n ≠ e0)]
      · refine ⟨d, some b, some f, ia ++ b :: ([]), (iel ++ e0 :: ier) ++ f :: ig, rfl,
          by simp [upd_ne, Hf, Hb, Hd, He0, Avl.height, Avl.mk], ?_, ?_, by simp⟩
        · refine ⟨b, ap, none, ia, [], rfl, by simp [upd_ne, Hf, Hb, Hd, He0, Avl.height],
            own_frame hoa ?_, ?_, rfl⟩
          · intro j hj
            have h0 : j ≠ f := by rintro rfl; exact absurd hj (by simp [Hf])
            have h1 : j ≠ b := by rintro rfl; exact absurd hj (by simp [Hb])
            have h2 : j ≠ d := by rintro rfl; exact absurd hj (by simp [Hd])
            have h3 : j ≠ e0 := by rintro rfl; exact absurd hj (by simp [He0])
            simp [upd_ne, h0, h1, h2, h3]
          · exact ⟨rfl, rfl⟩
        · refine ⟨f, some e0, gq, iel ++ e0 :: ier, ig, rfl, by simp [upd_ne, Hf, Hb, Hd, He0, Avl.height],
            ?_, own_frame hog ?_, rfl⟩
          · refine ⟨e0, elp, erp, iel, ier, rfl, by simp [upd_ne, Hf, Hb, Hd, He0],
              own_frame hoel ?_, own_frame hoer ?_, rfl⟩
            · intro j hj
              have h0 : j ≠ f := by rintro rfl; exact absurd hj (by simp [Hf])
              have h1 : j ≠ b := by rintro rfl; exact absurd hj (by simp [Hb])
              have h2 : j ≠ d := by rintro rfl; exact absurd hj (by simp [Hd])
              have h3 : j ≠ e0 := by rintro rfl; exact absurd hj (by simp [He0])
              simp [upd_ne, h0, h1, h2, h3]
            · intro j hj
              have h0 : j ≠ f := by rintro rfl; exact absurd hj (by simp [Hf])
              have h1 : j ≠ b := by rintro rfl; exact absurd hj (by simp [Hb])
              have h2 : j ≠ d := by rintro rfl; exact absurd hj (by simp [Hd])
              have h3 : j ≠ e0 := by rintro rfl; exact absurd hj (by simp [He0])
              simp [upd_ne, h0, h1, h2, h3]
          · intro j hj
            have h0 : j ≠ f := by rintro rfl; exact absurd hj (by simp [Hf])
            have h1 : j ≠ b := by rintro rfl; exact absurd hj (by simp [Hb])
            have h2 : j ≠ d := by rintro rfl; exact absurd hj (by simp [Hd])
            have h3 : j ≠ e0 := by rintro rfl; exact absurd hj (by simp [He0])
            simp [upd_ne, h0, h1, h2, h3]
  | node cl kc hc cr =>
    obtain ⟨c0, clp, crp, icl, icr, rfl, hmc, hocl, hocr, rfl⟩ := hoc
    cases e with
    | nil =>
      obtain ⟨rfl, rfl⟩ := hoe
      have Hf : f ∉ (ia ++ b :: icl ++ c0 :: icr ++ [d]) ++ (ig) := nodup_mid (by simpa using nd)
      simp only [List.mem_append, List.mem_cons, not_or, List.not_mem_nil, not_false_eq_true, and_true, true_and] at Hf
      have Hb : b ∉ (ia) ++ (icl ++ c0 :: icr ++ d :: f :: ig) := nodup_mid (by simpa using nd)
      simp only [List.mem_append, List.mem_cons, not_or, List.not_mem_nil, not_false_eq_true, and_true, true_and] at Hb
      have Hd : d ∉ (ia ++ b :: icl ++ c0 :: icr) ++ (f :: ig) := nodup_mid (by simpa using nd)
      simp only [List.mem_append, List.mem_cons, not_or, List.not_mem_nil, not_false_eq_true, and_true, true_and] at Hd
      have Hc0 : c0 ∉ (ia ++ b :: icl) ++ (icr ++ d :: f :: ig) := nodup_mid (by simpa using nd)
      simp only [List.mem_append, List.mem_cons, not_or, List.not_mem_nil, not_false_eq_true, and_true, true_and] at Hc0
      have o_ap_f := own_ne hoa (j := f) (by simp [Hf])
      have o_ap_b := own_ne hoa (j := b) (by simp [Hb])
      have o_ap_d := own_ne hoa (j := d) (by simp [Hd])
      have o_ap_c0 := own_ne hoa (j := c0) (by simp [Hc0])
      have o_gq_f := own_ne hog (j := f) (by simp [Hf])
      have o_gq_b := own_ne hog (j := b) (by simp [Hb])
      have o_gq_d := own_ne hog (j := d) (by simp [Hd])
      have o_gq_c0 := own_ne hog (j := c0) (by simp [Hc0])
      simp [rotateLeftRight, hr, hmf, hmb, hmd, hmc, setRight, setLeft, setParent, setParentIf, Heap.set,
        recalcHeight, upd_ne, setHeight, height_upd_ne, max_if, ha, hg, Hf, Hb, Hd, Hc0,
        o_ap_f, o_ap_b, o_ap_d, o_ap_c0, o_gq_f, o_gq_b, o_gq_d, o_gq_c0]
      refine ⟨_, rfl, ?_, ?_⟩
      · intro n; intros; simp [upd_ne, (by assumption : n ≠ f), (by assumption : n ≠ b), (by assumption : n ≠ d), (by assumption : n ≠ c0)]
      · refine ⟨d, some b, some f, ia ++ b :: (icl ++ c0 :: icr), ([]) ++ f :: ig, rfl,
          by simp [upd_ne, Hf, Hb, Hd, Hc0, Avl.height, Avl.mk], ?_, ?_, by simp⟩
        · refine ⟨b, ap, some c0, ia, icl ++ c0 :: icr, rfl, by simp [upd_ne, Hf, Hb, Hd, Hc0, Avl.height],
            own_frame hoa ?_, ?_, rfl⟩
          · intro j hj
            have h0 : j ≠ f := by rintro rfl; exact absurd hj (by simp [Hf])
            have h1 : j ≠ b := by rintro rfl; exact absurd hj (by simp [Hb])
            have h2 : j ≠ d := by rintro rfl; exact absurd hj (by simp [Hd])
            have h3 : j ≠ c0 := by rintro rfl; exact absurd hj (by simp [Hc0])
            simp [upd_ne, h0, h1, h2, h3]
          · refine ⟨c0, clp, crp, icl, icr, rfl, by simp [upd_ne, Hf, Hb, Hd, Hc0],
              own_frame hocl ?_, own_frame hocr ?_, rfl⟩
            · intro j hj
              have h0 : j ≠ f := by rintro rfl; exact absurd hj (by simp [Hf])
              have h1 : j ≠ b := by rintro rfl; exact absurd hj (by simp [Hb])
              have h2 : j ≠ d := by rintro rfl; exact absurd hj (by simp [Hd])
              have h3 : j ≠ c0 := by rintro rfl; exact absurd hj (by simp [Hc0])
              simp [upd_ne, h0, h1, h2, h3]
            · intro j hj
              have h0 : j ≠ f := by rintro rfl; exact absurd hj (by simp [Hf])
              have h1 : j ≠ b := by rintro rfl; exact absurd hj (by simp [Hb])
              have h2 : j ≠ d := by rintro rfl; exact absurd hj (by simp [Hd])
              have h3 : j ≠ c0 := by rintro rfl; exact absurd hj (by simp [Hc0])
              simp [upd_ne, h0, h1, h2, h3]
        · refine ⟨f, none, gq, [], ig, rfl, by simp [upd_ne, Hf, Hb, Hd, Hc0, Avl.height],
            ?_, own_frame hog ?_, rfl⟩
          · exact ⟨rfl, rfl⟩
          · intro j hj
            have h0 : j ≠ f := by rintro rfl; exact absurd hj (by simp [Hf])
            have h1 : j ≠ b := by rintro rfl; exact absurd hj (by simp [Hb])
            have h2 : j ≠ d := by rintro rfl; exact absurd hj (by simp [Hd])
            have h3 : j ≠ c0 := by rintro rfl; exact absurd hj (by simp [Hc0])
            simp [upd_ne, h0, h1, h2, h3]
    | node el ke he er =>
      obtain ⟨e0, elp, erp, iel, ier, rfl, hme, hoel, hoer, rfl⟩ := hoe
      have Hf : f ∉ (ia ++ b :: icl ++ c0 :: icr ++ d :: iel ++ e0 :: ier) ++ (ig) := nodup_mid (by simpa using nd)
      simp only [List.mem_append, List.mem_cons, not_or, List.not_mem_nil, not_false_eq_true, and_true, true_and] at Hf
      have Hb : b ∉ (ia) ++ (icl ++ c0 :: icr ++ d :: iel ++ e0 :: ier ++ f :: ig) := nodup_mid (by simpa using nd)
      simp only [List.mem_append, List.mem_cons, not_or, List.not_mem_nil, not_false_eq_true, and_true, true_and] at Hb
      have Hd : d ∉ (ia ++ b :: icl ++ c0 :: icr) ++ (iel ++ e0 :: ier ++ f :: ig) := nodup_mid (by simpa using nd)
      simp only [List.mem_append, List.mem_cons, not_or, List.not_mem_nil, not_false_eq_true, and_true, true_and] at Hd
      have Hc0 : c0 ∉ (ia ++ b :: icl) ++ (icr ++ d :: iel ++ e0 :: ier ++ f :: ig) := nodup_mid (by simpa using nd)
      simp only [List.mem_append, List.mem_cons, not_or, List.not_mem_nil, not_false_eq_true, and_true, true_and] at Hc0
      have He0 : e0 ∉ (ia ++ b :: icl ++ c0 :: icr ++ d :: iel) ++ (ier ++ f :: ig) := nodup_mid (by simpa using nd)
      simp only [List.mem_append, List.mem_cons, not_or, List.not_mem_nil, not_false_eq_true, and_true, true_and] at He0
      have o_ap_f := own_ne hoa (j := f) (by simp [Hf])
      have o_ap_b := own_ne hoa (j := b) (by simp [Hb])
      have o_ap_d := own_ne hoa (j := d) (by simp [Hd])
      have o_ap_c0 := own_ne hoa (j := c0) (by simp [Hc0])
      have o_ap_e0 := own_ne hoa (j := e0) (by simp [He0])
      have o_gq_f := own_ne hog (j := f) (by simp [Hf])
      have o_gq_b := own_ne hog (j := b) (by simp [Hb])
      have o_gq_d := own_ne hog (j := d) (by simp [Hd])
      have o_gq_c0 := own_ne hog (j := c0) (by simp [Hc0])
      have o_gq_e0 := own_ne hog (j := e0) (by simp [He0])
      simp [rotateLeftRight, hr, hmf, hmb, hmd, hmc, hme, setRight, setLeft, setParent, setParentIf, Heap.set,
        recalcHeight, upd_ne, setHeight, height_upd_ne, max_if, ha, hg, Hf, Hb, Hd, Hc0, He0,
        o_ap_f, o_ap_b, o_ap_d, o_ap_c0, o_ap_e0, o_gq_f, o_gq_b, o_gq_d, o_gq_c0, o_gq_e0]
      refine ⟨_, rfl, ?_, ?_⟩
      · intro n; intros; simp [upd_ne, (by assumption : n ≠ f), (by assumption : n ≠ b), (by assumption : n ≠ d), (by assumption : n ≠ c0), (by assumption : n ≠ e0)]
      · refine ⟨d, some b, some f, ia ++ b :: (icl ++ c0 :: icr), (iel ++ e0 :: ier) ++ f :: ig, rfl,
          by simp [upd_ne, Hf, Hb, Hd, Hc0, He0, Avl.height, Avl.mk], ?_, ?_, by simp⟩
        · refine ⟨b, ap, some c0, ia, icl ++ c0 :: icr, rfl, by simp [upd_ne, Hf, Hb, Hd, Hc0, He0, Avl.height],
            own_frame hoa ?_, ?_, rfl⟩
          · intro j hj
            have h0 : j ≠ f := by rintro rfl; exact absurd hj (by simp [Hf])
            have h1 : j ≠ b := by rintro rfl; exact absurd hj (by simp [Hb])
            have h2 : j ≠ d := by rintro rfl; exact absurd hj (by simp [Hd])
            have h3 : j ≠ c0 := by rintro rfl; exact absurd hj (by simp [Hc0])
            have h4 : j ≠ e0 := by rintro rfl; exact absurd hj (by simp [He0])
            simp [upd_ne, h0, h1, h2, h3, h4]
          · refine ⟨c0, clp, crp, icl, icr, rfl, by simp [upd_ne, Hf, Hb, Hd, Hc0, He0],
              own_frame hocl ?_, own_frame hocr ?_, rfl⟩
            · intro j hj
              have h0 : j ≠ f := by rintro rfl; exact absurd hj (by simp [Hf])
              have h1 : j ≠ b := by rintro rfl; exact absurd hj (by simp [Hb])
              have h2 : j ≠ d := by rintro rfl; exact absurd hj (by simp [Hd])
              have h3 : j ≠ c0 := by rintro rfl; exact absurd hj (by simp [Hc0])
              have h4 : j ≠ e0 := by rintro rfl; exact absurd hj (by simp [He0])
              simp [upd_ne, h0, h1, h2, h3, h4]
            · intro j hj
              have h0 : j ≠ f := by rintro rfl; exact absurd hj (by simp [Hf])
              have h1 : j ≠ b := by rintro rfl; exact absurd hj (by simp [Hb])
              have h2 : j ≠ d := by rintro rfl; exact absurd hj (by simp [Hd])
              have h3 : j ≠ c0 := by rintro rfl; exact absurd hj (by simp [Hc0])
              have h4 : j ≠ e0 := by rintro rfl; exact absurd hj (by simp [He0])
              simp [upd_ne, h0, h1, h2, h3, h4]
        · refine ⟨f, some e0, gq, iel ++ e0 :: ier, ig, rfl, by simp [upd_ne, Hf, Hb, Hd, Hc0, He0, Avl.height],
            ?_, own_frame hog ?_, rfl⟩
          · refine ⟨e0, elp, erp, iel, ier, rfl, by simp [upd_ne, Hf, Hb, Hd, Hc0, He0],
              own_frame hoel ?_, own_frame hoer ?_, rfl⟩
            · intro j hj
              have h0 : j ≠ f := by rintro rfl; exact absurd hj (by simp [Hf])
              have h1 : j ≠ b := by rintro rfl; exact absurd hj (by simp [Hb])
              have h2 : j ≠ d := by rintro rfl; exact absurd hj (by simp [Hd])
              have h3 : j ≠ c0 := by rintro rfl; exact absurd hj (by simp [Hc0])
              have h4 : j ≠ e0 := by rintro rfl; exact absurd hj (by simp [He0])
              simp [upd_ne, h0, h1, h2, h3, h4]
            · intro j hj
              have h0 : j ≠ f := by rintro rfl; exact absurd hj (by simp [Hf])
              have h1 : j ≠ b := by rintro rfl; exact absurd hj (by simp [Hb])
              have h2 : j ≠ d := by rintro rfl; exact absurd hj (by simp [Hd])
              have h3 : j ≠ c0 := by rintro rfl; exact absurd hj (by simp [Hc0])
              have h4 : j ≠ e0 := by rintro rfl; exact absurd hj (by simp [He0])
              simp [upd_ne, h0, h1, h2, h3, h4]
          · intro j hj
            have h0 : j ≠ f := by rintro rfl; exact absurd hj (by simp [Hf])
            have h1 : j ≠ b := by rintro rfl; exact absurd hj (by simp [Hb])
            have h2 : j ≠ d := by rintro rfl; exact absurd hj (by simp [Hd])
            have h3 : j ≠ c0 := by rintro rfl; exact absurd hj (by simp [Hc0])
            have h4 : j ≠ e0 := by rintro rfl; exact absurd hj (by simp [He0])
            simp [upd_ne, h0, h1, h2, h3, h4]

theorem rotateRightLeft_spec {m : Mem} {root gp : Option Nat} {ref : Ref} {b : Nat}
    {a c e g : Tree} {kb kd kf : Int} {hb hd hf : Nat} {I : List Nat}
    (ho : Own m (some b) gp (node a kb hb (node (node c kd hd e) kf hf g)) I) (nd : I.Nodup)
    (hr : deref ⟨m, root⟩ ref = some (some b)) :
    ∃ d m2, rotateRightLeft ⟨m, root⟩ ref = store ⟨m2, root⟩ ref (some d) ∧
      (∀ n, n ∉ I → m2 n = m n) ∧
      Own m2 (some d) gp (Avl.mk (Avl.mk a kb c) kd (Avl.mk e kf g)) I := by
  obtain ⟨_, ap, rp, ia, ir, e1, hmb, hoa, hor, rfl⟩ := ho
  cases e1
  obtain ⟨f, lp, gq, il, ig, rfl, hmf, hol, hog, rfl⟩ := hor
  obtain ⟨d, cp, ep, ic, ie, rfl, hmd, hoc, hoe, rfl⟩ := hol
  have ha := own_height (root := root) hoa
  have hg := own_height (root := root) hog
  refine ⟨d, ?_⟩
  cases c with
  | nil =>
    obtain ⟨rfl, rfl⟩ := hoc
    cases e with
    | nil =>
      obtain ⟨rfl, rfl⟩ := hoe
      have Hf : f ∉ (ia ++ b :: [d]) ++ (ig) := nodup_mid (by simpa using nd)
      simp only [List.mem_append, List.mem_cons, not_or, List.not_mem_nil, not_false_eq_true, and_true, true_and] at Hf
      have Hb : b ∉ (ia) ++ (d :: f :: ig) := nodup_mid (by simpa using nd)
      simp only [List.mem_append, List.mem_cons, not_or, List.not_mem_nil, not_false_eq_true, and_true, true_and] at Hb
      have Hd : d ∉ (ia ++ [b]) ++ (f :: ig) := nodup_mid (by simpa using nd)
      simp only [List.mem_append, List.mem_cons, not_or, List.not_mem_nil, not_false_eq_true, and_true, true_and] at Hd
      have o_ap_f := own_ne hoa (j := f) (by simp [Hf])
      have o_ap_b := own_ne hoa (j := b) (by simp [Hb])
      have o_ap_d := own_ne hoa (j := d) (by simp [Hd])
      have o_gq_f := own_ne hog (j := f) (by simp [Hf])
      have o_gq_b := own_ne hog (j := b) (by simp [Hb])
      have o_gq_d := own_ne hog (j := d) (by simp [Hd])
      simp [rotateRightLeft, hr, hmf, hmb, hmd, setRight, setLeft, setParent, setParentIf, Heap.set,
        recalcHeight, upd_ne, setHeight, height_upd_ne, max_if, ha, hg, Hf, Hb, Hd,
        o_ap_f, o_ap_b, o_ap_d, o_gq_f, o_gq_b, o_gq_d]
      refine ⟨_, rfl, ?_, ?_⟩
      · intro n; intros; simp [upd_ne, (by assumption : n ≠ f), (by assumption : n ≠ b), (by assumption : n ≠ d)]
      · refine ⟨d, some b, some f, ia ++ b :: ([]), ([]) ++ f :: ig, rfl,
          by simp [upd_ne, Hf, Hb, Hd, Avl.height, Avl.mk], ?_, ?_, by simp⟩
        · refine ⟨b, ap, none, ia, [], rfl, by simp [upd_ne, Hf, Hb, Hd, Avl.height],
            own_frame hoa ?_, ?_, rfl⟩
          · intro j hj
            have h0 : j ≠ f := by rintro rfl; exact absurd hj (by simp [Hf])
            have h1 : j ≠ b := by rintro rfl; exact absurd hj (by simp [Hb])
            have h2 : j ≠ d := by rintro rfl; exact absurd hj (by simp [Hd])
            simp [upd_ne, h0, h1, h2]
          · exact ⟨rfl, rfl⟩
        · refine ⟨f, none, gq, [], ig, rfl, by simp [upd_ne, Hf, Hb, Hd, Avl.height],
            ?_, own_frame hog ?_, rfl⟩
          · exact ⟨rfl, rfl⟩
          · intro j hj
            have h0 : j ≠ f := by rintro rfl; exact absurd hj (by simp [Hf])
            have h1 : j ≠ b := by rintro rfl; exact absurd hj (by simp [Hb])
            have h2 : j ≠ d := by rintro rfl; exact absurd hj (by simp [Hd])
            simp [upd_ne, h0, h1, h2]
    | node el ke he er =>
      obtain ⟨e0, elp, erp, iel, ier, rfl, hme, hoel, hoer, rfl⟩ := hoe
      have Hf : f ∉ (ia ++ b :: d :: iel ++ e0 :: ier) ++ (ig) := nodup_mid (by simpa using nd)
      simp only [List.mem_append, List.mem_cons, not_or, List.not_mem_nil, not_false_eq_true, and_true, true_and] at Hf
      have Hb : b ∉ (ia) ++ (d :: iel ++ e0 :: ier ++ f :: ig) := nodup_mid (by simpa using nd)
      simp only [List.mem_append, List.mem_cons, not_or, List.not_mem_nil, not_false_eq_true, and_true, true_and] at Hb
      have Hd : d ∉ (ia ++ [b]) ++ (iel ++ e0 :: ier ++ f :: ig) := nodup_mid (by simpa using nd)
      simp only [List.mem_append, List.mem_cons, not_or, List.not_mem_nil, not_false_eq_true, and_true, true_and] at Hd
      have He0 : e0 ∉ (ia ++ b :: d :: iel) ++ (ier ++ f :: ig) := nodup_mid (by simpa using nd)
      simp only [List.mem_append, List.mem_cons, not_or, List.not_mem_nil, not_false_eq_true, and_true, true_and] at He0
      have o_ap_f := own_ne hoa (j := f) (by simp [Hf])
      have o_ap_b := own_ne hoa (j := b) (by simp [Hb])
      have o_ap_d := own_ne hoa (j := d) (by simp [Hd])
      have o_ap_e0 := own_ne hoa (j := e0) (by simp [He0])
      have o_gq_f := own_ne hog (j := f) (by simp [Hf])
      have o_gq_b := own_ne hog (j := b) (by simp [Hb])
      have o_gq_d := own_ne hog (j := d) (by simp [Hd])
      have o_gq_e0 := own_ne hog (j := e0) (by simp [He0])
      simp [rotateRightLeft, hr, hmf, hmb, hmd, hme, setRight, setLeft, setParent, setParentIf, Heap.set,
        recalcHeight, upd_ne, setHeight, height_upd_ne, max_if, ha, hg, Hf, Hb, Hd, He0,
        o_ap_f, o_ap_b, o_ap_d, o_ap_e0, o_gq_f, o_gq_b, o_gq_d, o_gq_e0]
      refine ⟨_, rfl, ?_, ?_⟩
      · intro n; intros; simp [upd_ne, (by assumption : n ≠ f), (by assumption : n ≠ b), (by assumption : n ≠ d), (by assumption : n ≠ e0)]
      · refine ⟨d, some b, some f, ia ++ b :: ([]), (iel ++ e0 :: ier) ++ f :: ig, rfl,
          by simp [upd_ne, Hf, Hb, Hd, He0, Avl.height, Avl.mk], ?_, ?_, by simp⟩
        · refine ⟨b, ap, none, ia, [], rfl, by simp [upd_ne, Hf, Hb, Hd, He0, Avl.height],
            own_frame hoa ?_, ?_, rfl⟩
          · intro j hj
            have h0 : j ≠ f := by rintro rfl; exact absurd hj (by simp [Hf])
            have h1 : j ≠ b := by rintro rfl; exact absurd hj (by simp [Hb])
            have h2 : j ≠ d := by rintro rfl; exact absurd hj (by simp [Hd])
            have h3 : j ≠ e0 := by rintro rfl; exact absurd hj (by simp [He0])
            simp [upd_ne, h0, h1, h2, h3]
          · exact ⟨rfl, rfl⟩
        · refine ⟨f, some e0, gq, iel ++ e0 :: ier, ig, rfl, by simp [upd_ne, Hf, Hb, Hd, He0, Avl.height],
            ?_, own_frame hog ?_, rfl⟩
          · refine ⟨e0, elp, erp, iel, ier, rfl, by simp [upd_ne, Hf, Hb, Hd, He0],
              own_frame hoel ?_, own_frame hoer ?_, rfl⟩
            · intro j hj
              have h0 : j ≠ f := by rintro rfl; exact absurd hj (by simp [Hf])
              have h1 : j ≠ b := by rintro rfl; exact absurd hj (by simp [Hb])
              have h2 : j ≠ d := by rintro rfl; exact absurd hj (by simp [Hd])
              have h3 : j ≠ e0 := by rintro rfl; exact absurd hj (by simp [He0])
              simp [upd_ne, h0, h1, h2, h3]
            · intro j hj
              have h0 : j ≠ f := by rintro rfl; exact absurd hj (by simp [Hf])
              have h1 : j ≠ b := by rintro rfl; exact absurd hj (by simp [Hb])
              have h2 : j ≠ d := by rintro rfl; exact absurd hj (by simp [Hd])
              have h3 : j ≠ e0 := by rintro rfl; exact absurd hj (by simp [He0])
              simp [upd_ne, h0, h1, h2, h3]
          · intro j hj
            have h0 : j ≠ f := by rintro rfl; exact absurd hj (by simp [Hf])
            have h1 : j ≠ b := by rintro rfl; exact absurd hj (by simp [Hb])
            have h2 : j ≠ d := by rintro rfl; exact absurd hj (by simp [Hd])
            have h3 : j ≠ e0 := by rintro rfl; exact absurd hj (by simp [He0])
            simp [upd_ne, h0, h1, h2, h3]
  | node cl kc hc cr =>
    obtain ⟨c0, clp, crp, icl, icr, rfl, hmc, hocl, hocr, rfl⟩ := hoc
    cases e with
    | nil =>
      obtain ⟨rfl, rfl⟩ := hoe
      have Hf : f ∉ (ia ++ b :: icl ++ c0 :: icr ++ [d]) ++ (ig) := nodup_mid (by simpa using nd)
      simp only [List.mem_append, List.mem_cons, not_or, List.not_mem_nil, not_false_eq_true, and_true, true_and] at Hf
      have Hb : b ∉ (ia) ++ (icl ++ c0 :: icr ++ d :: f :: ig) := nodup_mid (by simpa using nd)
      simp only [List.mem_append, List.mem_cons, not_or, List.not_mem_nil, not_false_eq_true, and_true, true_and] at Hb
      have Hd : d ∉ (ia ++ b :: icl ++ c0 :: icr) ++ (f :: ig) := nodup_mid (by simpa using nd)
      simp only [List.mem_append, List.mem_cons, not_or, List.not_mem_nil, not_false_eq_true, and_true, true_and] at Hd
      have Hc0 : c0 ∉ (ia ++ b :: icl) ++ (icr ++ d :: f :: ig) := nodup_mid (by simpa using nd)
      simp only [List.mem_append, List.mem_cons, not_or, List.not_mem_nil, not_false_eq_true, and_true, true_and] at Hc0
      have o_ap_f := own_ne hoa (j := f) (by simp [Hf])
      have o_ap_b := own_ne hoa (j := b) (by simp [Hb])
      have o_ap_d := own_ne hoa (j := d) (by simp [Hd])
      have o_ap_c0 := own_ne hoa (j := c0) (by simp [Hc0])
      have o_gq_f := own_ne hog (j := f) (by simp [Hf])
      have o_gq_b := own_ne hog (j := b) (by simp [Hb])
      have o_gq_d := own_ne hog (j := d) (by simp [Hd])
      have o_gq_c0 := own_ne hog (j := c0) (by simp [Hc0])
      simp [rotateRightLeft, hr, hmf, hmb, hmd, hmc, setRight, setLeft, setParent, setParentIf, Heap.set,
        recalcHeight, upd_ne, setHeight, height_upd_ne, max_if, ha, hg, Hf, Hb, Hd, Hc0,
        o_ap_f, o_ap_b, o_ap_d, o_ap_c0, o_gq_f, o_gq_b, o_gq_d, o_gq_c0]
      refine ⟨_, rfl, ?_, ?_⟩
      · intro n; intros; simp [upd_ne, (by assumption : n ≠ f), (by assumption : n ≠ b), (by assumption : n ≠ d), (by assumption : n ≠ c0)]
      · refine ⟨d, some b, some f, ia ++ b :: (icl ++ c0 :: icr), ([]) ++ f :: ig, rfl,
          by simp [upd_ne, Hf, Hb, Hd, Hc0, Avl.height, Avl.mk], ?_, ?_, by simp⟩
        · refine ⟨b, ap, some c0, ia, icl ++ c0 :: icr, rfl, by simp [upd_ne, Hf, Hb, Hd, Hc0, Avl.height],
            own_frame hoa ?_, ?_, rfl⟩
          · intro j hj
            have h0 : j ≠ f := by rintro rfl; exact absurd hj (by simp [Hf])
            have h1 : j ≠ b := by rintro rfl; exact absurd hj (by simp [Hb])
            have h2 : j ≠ d := by rintro rfl; exact absurd hj (by simp [Hd])
            have h3 : j ≠ c0 := by rintro rfl; exact absurd hj (by simp [Hc0])
            simp [upd_ne, h0, h1, h2, h3]
          · refine ⟨c0, clp, crp, icl, icr, rfl, by simp [upd_ne, Hf, Hb, Hd, Hc0],
              own_frame hocl ?_, own_frame hocr ?_, rfl⟩
            · intro j hj
              have h0 : j ≠ f := by rintro rfl; exact absurd hj (by simp [Hf])
              have h1 : j ≠ b := by rintro rfl; exact absurd hj (by simp [Hb])
              have h2 : j ≠ d := by rintro rfl; exact absurd hj (by simp [Hd])
              have h3 : j ≠ c0 := by rintro rfl; exact absurd hj (by simp [Hc0])
              simp [upd_ne, h0, h1, h2, h3]
            · intro j hj
              have h0 : j ≠ f := by rintro rfl; exact absurd hj (by simp [Hf])
              have h1 : j ≠ b := by rintro rfl; exact absurd hj (by simp [Hb])
              have h2 : j ≠ d := by rintro rfl; exact absurd hj (by simp [Hd])
              have h3 : j ≠ c0 := by rintro rfl; exact absurd hj (by simp [Hc0])
              simp [upd_ne, h0, h1, h2, h3]
        · refine ⟨f, none, gq, [], ig, rfl, by simp [upd_ne, Hf, Hb, Hd, Hc0, Avl.height],
            ?_, own_frame hog ?_, rfl⟩
          · exact ⟨rfl, rfl⟩
          · intro j hj
            have h0 : j ≠ f := by rintro rfl; exact absurd hj (by simp [Hf])
            have h1 : j ≠ b := by rintro rfl; exact absurd hj (by simp [Hb])
            have h2 : j ≠ d := by rintro rfl; exact absurd hj (by simp [Hd])
            have h3 : j ≠ c0 := by rintro rfl; exact absurd hj (by simp [Hc0])
            simp [upd_ne, h0, h1, h2, h3]
    | node el ke he er =>
      obtain ⟨e0, elp, erp, iel, ier, rfl, hme, hoel, hoer, rfl⟩ := hoe
      have Hf : f ∉ (ia ++ b :: icl ++ c0 :: icr ++ d :: iel ++ e0 :: ier) ++ (ig) := nodup_mid (by simpa using nd)
      simp only [List.mem_append, List.mem_cons, not_or, List.not_mem_nil, not_false_eq_true, and_true, true_and] at Hf
      have Hb : b ∉ (ia) ++ (icl ++ c0 :: icr ++ d :: iel ++ e0 :: ier ++ f :: ig) := nodup_mid (by simpa using nd)
      simp only [List.mem_append, List.mem_cons, not_or, List.not_mem_nil, not_false_eq_true, and_true, true_and] at Hb
      have Hd : d ∉ (ia ++ b :: icl ++ c0 :: icr) ++ (iel ++ e0 :: ier ++ f :: ig) := nodup_mid (by simpa using nd)
      simp only [List.mem_append, List.mem_cons, not_or, List.not_mem_nil, not_false_eq_true, and_true, true_and] at Hd
      have Hc0 : c0 ∉ (ia ++ b :: icl) ++ (icr ++ d :: iel ++ e0 :: ier ++ f :: ig) := nodup_mid (by simpa using nd)
      simp only [List.mem_append, List.mem_cons, not_or, List.not_mem_nil, not_false_eq_true, and_true, true_and] at Hc0
      have He0 : e0 ∉ (ia ++ b :: icl ++ c0 :: icr ++ d :: iel) ++ (ier ++ f :: ig) := nodup_mid (by simpa using nd)
      simp only [List.mem_append, List.mem_cons, not_or, List.not_mem_nil, not_false_eq_true, and_true, true_and] at He0
      have o_ap_f := own_ne hoa (j := f) (by simp [Hf])
      have o_ap_b := own_ne hoa (j := b) (by simp [Hb])
      have o_ap_d := own_ne hoa (j := d) (by simp [Hd])
      have o_ap_c0 := own_ne hoa (j := c0) (by simp [Hc0])
      have o_ap_e0 := own_ne hoa (j := e0) (by simp [He0])
      have o_gq_f := own_ne hog (j := f) (by simp [Hf])
      have o_gq_b := own_ne hog (j := b) (by simp [Hb])
      have o_gq_d := own_ne hog (j := d) (by simp [Hd])
      have o_gq_c0 := own_ne hog (j := c0) (by simp [Hc0])
      have o_gq_e0 := own_ne hog (j := e0) (by simp [He0])
      simp [rotateRightLeft, hr, hmf, hmb, hmd, hmc, hme, setRight, setLeft, setParent, setParentIf, Heap.set,
        recalcHeight, upd_ne, setHeight, height_upd_ne, max_if, ha, hg, Hf, Hb, Hd, Hc0, He0,
        o_ap_f, o_ap_b, o_ap_d, o_ap_c0, o_ap_e0, o_gq_f, o_gq_b, o_gq_d, o_gq_c0, o_gq_e0]
      refine ⟨_, rfl, ?_, ?_⟩
      · intro n; intros; simp [upd_ne, (by assumption : n ≠ f), (by assumption : n ≠ b), (by assumption : n ≠ d), (by assumption : n ≠ c0), (by assumption : n ≠ e0)]
      · refine ⟨d, some b, some f, ia ++ b :: (icl ++ c0 :: icr), (iel ++ e0 :: ier) ++ f :: ig, rfl,
          by simp [upd_ne, Hf, Hb, Hd, Hc0, He0, Avl.height, Avl.mk], ?_, ?_, by simp⟩
        · refine ⟨b, ap, some c0, ia, icl ++ c0 :: icr, rfl, by simp [upd_ne, Hf, Hb, Hd, Hc0, He0, Avl.height],
            own_frame hoa ?_, ?_, rfl⟩
          · intro j hj
            have h0 : j ≠ f := by rintro rfl; exact absurd hj (by simp [Hf])
            have h1 : j ≠ b := by rintro rfl; exact absurd hj (by simp [Hb])
            have h2 : j ≠ d := by rintro rfl; exact absurd hj (by simp [Hd])
            have h3 : j ≠ c0 := by rintro rfl; exact absurd hj (by simp [Hc0])
            have h4 : j ≠ e0 := by rintro rfl; exact absurd hj (by simp [He0])
            simp [upd_ne, h0, h1, h2, h3, h4]
          · refine ⟨c0, clp, crp, icl, icr, rfl, by simp [upd_ne, Hf, Hb, Hd, Hc0, He0],
              own_frame hocl ?_, own_frame hocr ?_, rfl⟩
            · intro j hj
              have h0 : j ≠ f := by rintro rfl; exact absurd hj (by simp [Hf])
              have h1 : j ≠ b := by rintro rfl; exact absurd hj (by simp [Hb])
              have h2 : j ≠ d := by rintro rfl; exact absurd hj (by simp [Hd])
              have h3 : j ≠ c0 := by rintro rfl; exact absurd hj (by simp [Hc0])
              have h4 : j ≠ e0 := by rintro rfl; exact absurd hj (by simp [He0])
              simp [upd_ne, h0, h1, h2, h3, h4]
            · intro j hj
              have h0 : j ≠ f := by rintro rfl; exact absurd hj (by simp [Hf])
              have h1 : j ≠ b := by rintro rfl; exact absurd hj (by simp [Hb])
              have h2 : j ≠ d := by rintro rfl; exact absurd hj (by simp [Hd])
              have h3 : j ≠ c0 := by rintro rfl; exact absurd hj (by simp [Hc0])
              have h4 : j ≠ e0 := by rintro rfl; exact absurd hj (by simp [He0])
              simp [upd_ne, h0, h1, h2, h3, h4]
        · refine ⟨f, some e0, gq, iel ++ e0 :: ier, ig, rfl, by simp [upd_ne, Hf, Hb, Hd, Hc0, He0, Avl.height],
            ?_, own_frame hog ?_, rfl⟩
          · refine ⟨e0, elp, erp, iel, ier, rfl, by simp [upd_ne, Hf, Hb, Hd, Hc0, He0],
              own_frame hoel ?_, own_frame hoer ?_, rfl⟩
            · intro j hj
              have h0 : j ≠ f := by rintro rfl; exact absurd hj (by simp [Hf])
              have h1 : j ≠ b := by rintro rfl; exact absurd hj (by simp [Hb])
              have h2 : j ≠ d := by rintro rfl; exact absurd hj (by simp [Hd])
              have h3 : j ≠ c0 := by rintro rfl; exact absurd hj (by simp [Hc0])
              have h4 : j ≠ e0 := by rintro rfl; exact absurd hj (by simp [He0])
              simp [upd_ne, h0, h1, h2, h3, h4]
            · intro j hj
              have h0 : j ≠ f := by rintro rfl; exact absurd hj (by simp [Hf])
              have h1 : j ≠ b := by rintro rfl; exact absurd hj (by simp [Hb])
              have h2 : j ≠ d := by rintro rfl; exact absurd hj (by simp [Hd])
              have h3 : j ≠ c0 := by rintro rfl; exact absurd hj (by simp [Hc0])
              have h4 : j ≠ e0 := by rintro rfl; exact absurd hj (by simp [He0])
              simp [upd_ne, h0, h1, h2, h3, h4]
          · intro j hj
            have h0 : j ≠ f := by rintro rfl; exact absurd hj (by simp [Hf])
            have h1 : j ≠ b := by rintro rfl; exact absurd hj (by simp [Hb])
            have h2 : j ≠ d := by rintro rfl; exact absurd hj (by simp [Hd])
            have h3 : j ≠ c0 := by rintro rfl; exact absurd hj (by simp [Hc0])
            have h4 : j ≠ e0 := by rintro rfl; exact absurd hj (by simp [He0])
            simp [upd_ne, h0, h1, h2, h3, h4]

end Ivy.AvlPtr
