import Ivy.L0.AvlPtrDel
/-!
`iv_avl_tree_delete` refines `Avl.delete` (leaf case, left-victim case, right-victim case),
assembled from the pieces in `AvlPtrDel.lean` and the walk theorem.
-/
set_option linter.unusedSimpArgs false
set_option linter.unusedVariables false
namespace Ivy.AvlPtr
open Ivy.Avl (Tree toList size)
open Ivy.Avl.Tree

theorem delete_leaf_case {m : Mem} {root par : Option Nat} {c : List Frame} {a : Nat}
    {pre post : List Nat} {k : Int} {hh : Nat} {T : Tree} {s : Bool} {fuel : Nat}
    (hc : OwnCtx m root none c (some a) par pre post)
    (hma : m a = some ⟨k, none, none, par, hh⟩)
    (nd : (pre ++ ([] ++ a :: []) ++ post).Nodup)
    (hup : up false c nil = some (T, s)) (hf : c.length ≤ fuel) :
    ∃ m' root', delete fuel ⟨m, root⟩ a = some ⟨m', root'⟩ ∧
      Own m' root' none T (pre ++ post) ∧
      (∀ j, j ∉ pre ++ ([] ++ a :: []) ++ post → m' j = m j) := by
  have hoa : Own m (some a) par (node nil k hh nil) ([] ++ a :: []) :=
    ⟨a, none, none, [], [], rfl, hma, ⟨rfl, rfl⟩, ⟨rfl, rfl⟩, rfl⟩
  obtain ⟨ref, e1, href⟩ := findReference_ctx hc hoa nd
  have ndc : (pre ++ post).Nodup := by grind
  obtain ⟨m1, root1, e2, hc1, fr1⟩ := store_ctx hc href ndc none
  have ha_c : a ∉ pre ++ post := by grind
  have hm1a : m1 a = m a := fr1 a (ownCtx_hp_not hc ha_c)
  obtain ⟨m', root', e3, ho', fr'⟩ :=
    walk_spec (t := nil) (ids := []) fuel hc1 ⟨rfl, rfl⟩ (by simpa using ndc) hup hf
  refine ⟨m', root', ?_, by simpa using ho', ?_⟩
  · simp [delete, hma, deleteLeaf, replaceReference, e1, e2, hm1a, e3]
  · intro j hj
    have h1 : j ∉ pre ++ post := by grind
    rw [fr' j (by simpa using h1), fr1 j (ownCtx_hp_not hc h1)]


theorem listsL {pre preR vlids ir post : List Nat} {a v : Nat}
    (nd : (pre ++ ((preR ++ vlids ++ [v]) ++ a :: ir) ++ post).Nodup) :
    (pre ++ ((preR ++ vlids ++ []) ++ a :: ir) ++ post).Nodup ∧
    v ∉ pre ++ ((preR ++ vlids ++ []) ++ a :: ir) ++ post ∧
    (preR ++ vlids ++ []).Nodup ∧ ir.Nodup ∧
    ((pre ++ preR) ++ vlids ++ ([] ++ (v :: ir ++ post))).Nodup ∧
    (∀ j ∈ preR ++ vlids ++ [], j ∉ pre ++ post ∧ j ≠ v ∧ j ∉ ir) ∧
    (∀ j ∈ ir, j ∉ pre ++ post ∧ j ≠ v ∧ j ∉ preR ++ vlids ++ []) ∧
    (∀ j, j ∉ pre ++ ((preR ++ vlids ++ [v]) ++ a :: ir) ++ post →
      j ∉ (pre ++ preR) ++ vlids ++ ([] ++ (v :: ir ++ post)) ∧ j ∉ pre ++ post ∧ j ≠ v ∧
      j ∉ preR ++ vlids ++ [] ∧ j ∉ ir) := by
  simp only [List.append_nil, List.nil_append, List.nodup_append, List.nodup_cons,
    List.mem_append, List.mem_cons, List.nodup_nil, List.not_mem_nil] at nd ⊢
  refine ⟨?_, ?_, ?_, ?_, ?_, ?_, ?_, ?_⟩ <;> grind

theorem listsR {pre il vrids postL post : List Nat} {a v : Nat}
    (nd : (pre ++ (il ++ a :: (v :: vrids ++ postL)) ++ post).Nodup) :
    (pre ++ (il ++ a :: ([] ++ vrids ++ postL)) ++ post).Nodup ∧
    v ∉ pre ++ (il ++ a :: ([] ++ vrids ++ postL)) ++ post ∧
    ([] ++ vrids ++ postL).Nodup ∧ il.Nodup ∧
    (((pre ++ il ++ [v]) ++ []) ++ vrids ++ (postL ++ post)).Nodup ∧
    (∀ j ∈ [] ++ vrids ++ postL, j ∉ pre ++ post ∧ j ≠ v ∧ j ∉ il) ∧
    (∀ j ∈ il, j ∉ pre ++ post ∧ j ≠ v ∧ j ∉ [] ++ vrids ++ postL) ∧
    (∀ j, j ∉ pre ++ (il ++ a :: (v :: vrids ++ postL)) ++ post →
      j ∉ ((pre ++ il ++ [v]) ++ []) ++ vrids ++ (postL ++ post) ∧ j ∉ pre ++ post ∧ j ≠ v ∧
      j ∉ [] ++ vrids ++ postL ∧ j ∉ il) := by
  simp only [List.append_nil, List.nil_append, List.nodup_append, List.nodup_cons,
    List.mem_append, List.mem_cons, List.nodup_nil, List.not_mem_nil] at nd ⊢
  refine ⟨?_, ?_, ?_, ?_, ?_, ?_, ?_, ?_⟩ <;> grind

theorem delete_left_case {m : Mem} {root par rp : Option Nat} {c cR : List Frame} {a j0 : Nat}
    {pre post il ir : List Nat} {k mk : Int} {hh vh : Nat} {l r vl T : Tree} {s : Bool}
    {fuel : Nat}
    (hc : OwnCtx m root none c (some a) par pre post)
    (hma : m a = some ⟨k, some j0, rp, par, hh⟩)
    (hl : Own m (some j0) (some a) l il) (hr : Own m rp (some a) r ir)
    (nd : (pre ++ (il ++ a :: ir) ++ post).Nodup)
    (hp : plug cR (node vl mk vh nil) = l) (hR : AllR cR)
    (hgt : Avl.height l > Avl.height r)
    (hup : up false (cR ++ .L mk hh r :: c) vl = some (T, s))
    (hf1 : size l ≤ fuel) (hf2 : cR.length + 1 + c.length ≤ fuel) :
    ∃ m' root' A B, delete fuel ⟨m, root⟩ a = some ⟨m', root'⟩ ∧
      pre ++ (il ++ a :: ir) ++ post = A ++ a :: B ∧
      Own m' root' none T (A ++ B) ∧
      (∀ j, j ∉ pre ++ (il ++ a :: ir) ++ post → m' j = m j) := by
  obtain ⟨v, vp, vlp, mid, rp', m2, preR, vlids, eU, rfl, hmv2, hma2, hcR2, hvl2, hr2, hc2,
    hvp1, hvp2, frU⟩ := unlinkLeftMax_spec hc hma hl hr nd hp hR hf1
  have hL2 : Own m2 mid (some a) (plug cR vl) (preR ++ vlids ++ []) := own_plug hcR2 hvl2
  obtain ⟨nd2, hv2, ndH, ndir, ndW, FH, FI, FO⟩ := listsL nd
  obtain ⟨m6, root6, e6, hc6, hmv6, roots6, fr6⟩ :=
    replaceNode_spec (p := if vp = some a then some v else vp) hc2 hma2 hmv2 hL2 hr2 nd2 hv2
  have hmid : ∀ j, mid = some j → j ∈ preR ++ vlids ++ [] := by
    rintro j rfl; exact own_root_mem hL2
  have hrp' : ∀ j, rp' = some j → j ∈ ir := by
    rintro j rfl; exact own_root_mem hr2
  obtain ⟨hcR6, hvl6⟩ := ctx_hole_retop (m' := m6) (tp' := some v) hcR2 hvl2 ndH
    (fun j hj hne => fr6 j (FH j hj).1 (FH j hj).2.1 hne
      (fun e => (FH j hj).2.2 (hrp' j e)))
    (fun j n e hn => roots6 j n (Or.inl e) hn)
  have hr6 : Own m6 rp' (some v) r ir := own_retop hr2 ndir
    (fun j hj hne => fr6 j (FI j hj).1 (FI j hj).2.1
      (fun e => (FI j hj).2.2 (hmid j e)) hne)
    (fun j n e hn => roots6 j n (Or.inr e) hn)
  have hfull6 := ownCtx_append hcR6
    (show OwnCtx m6 root6 none (.L mk hh r :: c) mid (some v) pre (v :: ir ++ post) from
      ⟨v, rp', par, ir, post, rfl, hmv6, hr6, hc6, rfl⟩)
  have hpeq : (if vp = some a then some v else vp) = (if cR = [] then some v else vp) := by
    by_cases hcr : cR = []
    · simp [hcr, hvp1 hcr]
    · simp [hcr, hvp2 hcr]
  obtain ⟨m', root', e7, ho', fr'⟩ :=
    walk_spec fuel hfull6 hvl6 ndW hup (by simp; omega)
  rw [hpeq] at e6
  refine ⟨m', root', pre ++ preR ++ vlids ++ [v], ir ++ post, ?_, by simp, by simpa using ho', ?_⟩
  · have h1 := own_height (root := root) hl
    have h2 := own_height (root := root) hr
    simp only [delete, hma, deleteNonleaf_eq, h1, h2, Option.bind_eq_bind, Option.bind_some,
      hgt, if_true, eU, hmv2]
    simp only [reduceCtorEq, false_and, if_false, Option.bind_some, e6, hpeq, e7]
  · intro j hj
    obtain ⟨h1, h2, h3, h4, h5⟩ := FO j hj
    rw [fr' j h1, fr6 j h2 h3 (fun e => h4 (hmid j e)) (fun e => h5 (hrp' j e)), frU j hj]

theorem delete_right_case {m : Mem} {root par lp : Option Nat} {c cL : List Frame} {a j0 : Nat}
    {pre post il ir : List Nat} {k mk : Int} {hh vh : Nat} {l r vr T : Tree} {s : Bool}
    {fuel : Nat}
    (hc : OwnCtx m root none c (some a) par pre post)
    (hma : m a = some ⟨k, lp, some j0, par, hh⟩)
    (hl : Own m lp (some a) l il) (hr : Own m (some j0) (some a) r ir)
    (nd : (pre ++ (il ++ a :: ir) ++ post).Nodup)
    (hp : plug cL (node nil mk vh vr) = r) (hL : AllL cL)
    (hgt : ¬ Avl.height l > Avl.height r)
    (hup : up false (cL ++ .R mk hh l :: c) vr = some (T, s))
    (hf1 : size r ≤ fuel) (hf2 : cL.length + 1 + c.length ≤ fuel) :
    ∃ m' root' A B, delete fuel ⟨m, root⟩ a = some ⟨m', root'⟩ ∧
      pre ++ (il ++ a :: ir) ++ post = A ++ a :: B ∧
      Own m' root' none T (A ++ B) ∧
      (∀ j, j ∉ pre ++ (il ++ a :: ir) ++ post → m' j = m j) := by
  obtain ⟨v, vp, vrp, mid, lp', m2, postL, vrids, eU, rfl, hmv2, hma2, hcL2, hvr2, hl2, hc2,
    hvp1, hvp2, frU⟩ := unlinkRightMin_spec hc hma hl hr nd hp hL hf1
  have hR2 : Own m2 mid (some a) (plug cL vr) ([] ++ vrids ++ postL) := own_plug hcL2 hvr2
  obtain ⟨nd2, hv2, ndH, ndil, ndW, FH, FI, FO⟩ := listsR nd
  obtain ⟨m6, root6, e6, hc6, hmv6, roots6, fr6⟩ :=
    replaceNode_spec (p := if vp = some a then some v else vp) hc2 hma2 hmv2 hl2 hR2 nd2 hv2
  have hmid : ∀ j, mid = some j → j ∈ [] ++ vrids ++ postL := by
    rintro j rfl; exact own_root_mem hR2
  have hlp' : ∀ j, lp' = some j → j ∈ il := by
    rintro j rfl; exact own_root_mem hl2
  obtain ⟨hcL6, hvr6⟩ := ctx_hole_retop (m' := m6) (tp' := some v) hcL2 hvr2 ndH
    (fun j hj hne => fr6 j (FH j hj).1 (FH j hj).2.1
      (fun e => (FH j hj).2.2 (hlp' j e)) hne)
    (fun j n e hn => roots6 j n (Or.inr e) hn)
  have hl6 : Own m6 lp' (some v) l il := own_retop hl2 ndil
    (fun j hj hne => fr6 j (FI j hj).1 (FI j hj).2.1 hne
      (fun e => (FI j hj).2.2 (hmid j e)))
    (fun j n e hn => roots6 j n (Or.inl e) hn)
  have hfull6 := ownCtx_append hcL6
    (show OwnCtx m6 root6 none (.R mk hh l :: c) mid (some v) (pre ++ il ++ [v]) post from
      ⟨v, lp', par, il, pre, rfl, hmv6, hl6, hc6, rfl⟩)
  have hpeq : (if vp = some a then some v else vp) = (if cL = [] then some v else vp) := by
    by_cases hcr : cL = []
    · simp [hcr, hvp1 hcr]
    · simp [hcr, hvp2 hcr]
  obtain ⟨m', root', e7, ho', fr'⟩ :=
    walk_spec fuel hfull6 hvr6 ndW hup (by simp; omega)
  rw [hpeq] at e6
  refine ⟨m', root', pre ++ il, v :: vrids ++ postL ++ post, ?_, by simp, by simpa using ho', ?_⟩
  · have h1 := own_height (root := root) hl
    have h2 := own_height (root := root) hr
    simp only [delete, hma, deleteNonleaf_eq, h1, h2, Option.bind_eq_bind, Option.bind_some,
      hgt, if_false, eU, hmv2]
    simp only [reduceCtorEq, and_false, if_false, Option.bind_some, e6, hpeq, e7]
  · intro j hj
    obtain ⟨h1, h2, h3, h4, h5⟩ := FO j hj
    rw [fr' j h1, fr6 j h2 h3 (fun e => h5 (hlp' j e)) (fun e => h4 (hmid j e)), frU j hj]

end Ivy.AvlPtr
