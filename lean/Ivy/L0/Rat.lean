import Ivy.Generated.Consts
/-
Executable model of the radix tree ("rat") that backs the timer heap of
/repo/src/iv_timer.c.  `Ivy/L0/Heap.lean` models the tree as a flat array; this file
models the pointer structure itself, and `Ivy/L0/RatProofs.lean` proves that it behaves
as that flat array.

What is mirrored (all functions are parameterised by `bits` = IV_TIMER_SPLIT_BITS; the
instance used by the C is `Ivy.Generated.IV_TIMER_SPLIT_BITS`):
* `struct iv_timer_ratnode { void *child[1 << bits]; }`  → `Rat.node` (interior: children are
  node pointers, `none` = NULL) and `Rat.leaf` (height 0: children are timer pointers)
* `iv_timer_allocate_ratnode` (calloc: zero filled)        → `alloc`
* `iv_timer_get_node`                                      → `getNode`
    - growth test `index >> ((rat_depth+1)*bits) != 0`, new root with `child[0] = old root`
    - descent `for (i = rat_depth; i > 0; i--)` by the digit `(index >> (i*bits)) & (nodes-1)`,
      allocating a NULL child lazily                       → `descend`
    - the returned `struct iv_timer_ **`                   → `Ptr` = the path of child numbers
      from the root to the slot
* `*p` / `*p = v`                                          → `readSlot` / `writeSlot`
* `iv_timer_free_ratnode(node, depth)` including the `break` at the first NULL child
                                                           → `freeNode` (number of `free` calls)
* `iv_timer_radix_tree_remove_level`                       → `removeLevel`
* `iv_timer_deinit`                                        → `freeAll`

The `first_leaf` quirk: the depth-0 root is not malloc'ed, it is `st->ratnode.first_leaf`,
embedded in `struct iv_state`; it stays the leftmost leaf of the tree for ever
(`remove_level` never frees `child[0]`).  Its `child[0]` overlays `st->ratnode.timer_root`
(a union), i.e. heap index 0 aliases the root pointer.  In the model the leftmost leaf is an
ordinary `Rat.leaf` that is simply not counted in `allocated` (so `allocated` = number of
live malloc'ed nodes = reachable nodes − 1), and cell 0 of it is an ordinary cell;
`RatProofs.ptr_zero_iff` shows that only index 0 addresses that cell.
`iv_timer_deinit`'s final `timer_root = NULL` is not modelled (the embedded leaf stays).
-/
namespace Ivy.Rat

/-- `IV_TIMER_SPLIT_NODES` -/
def fan (bits : Nat) : Nat := 2 ^ bits

/-- `(index >> (k*bits)) & (IV_TIMER_SPLIT_NODES-1)` -/
def digit (bits k index : Nat) : Nat := (index >>> (k * bits)) &&& (fan bits - 1)

/-- number of slots below a node of height `h` (= `Ivy.Heap.cap h` for the generated `bits`) -/
def span (bits h : Nat) : Nat := 2 ^ ((h + 1) * bits)

inductive Rat where
  | leaf (slots : List (Option Nat))
  | node (children : List (Option Rat))
deriving Repr

/-- a "pointer into the tree": child numbers from the root down to the slot -/
abbrev Ptr := List Nat

structure RatState where
  root      : Rat
  depth     : Nat     -- rat_depth
  allocated : Nat     -- live malloc'ed nodes (the embedded first leaf is not counted)
deriving Repr

/-- `iv_timer_allocate_ratnode`, used at height `h` -/
def alloc (bits : Nat) : Nat → Rat
  | 0 => .leaf (List.replicate (fan bits) none)
  | _ + 1 => .node (List.replicate (fan bits) none)

/-- `iv_timer_init` -/
def RatState.init (bits : Nat) : RatState := { root := alloc bits 0, depth := 0, allocated := 0 }

/-- `child[d]`, NULL also when `d` is out of range (cannot happen: `d` is masked) -/
def child (cs : List (Option Rat)) (d : Nat) : Option Rat := cs[d]?.join

structure Walk where
  tree   : Rat      -- the subtree after lazy allocation
  allocs : Nat      -- number of `calloc`s
  ptr    : Ptr
deriving Repr

/-- the descent loop of `iv_timer_get_node` from a node of height `h` -/
def descend (bits : Nat) : Nat → Rat → Nat → Walk
  | 0, t, index => ⟨t, 0, [digit bits 0 index]⟩
  | h + 1, .node cs, index =>
    let d := digit bits (h + 1) index
    let c? := child cs d
    let w := descend bits h (c?.getD (alloc bits h)) index
    ⟨.node (cs.set d (some w.tree)), (if c?.isSome then 0 else 1) + w.allocs, d :: w.ptr⟩
  | _ + 1, t, _ => ⟨t, 0, []⟩          -- ill-shaped tree; excluded by `WF`

/-- growth part of `iv_timer_get_node` -/
def growRoot (bits : Nat) (s : RatState) (index : Nat) : RatState :=
  if index >>> ((s.depth + 1) * bits) != 0 then
    { root := .node (some s.root :: List.replicate (fan bits - 1) none),
      depth := s.depth + 1, allocated := s.allocated + 1 }
  else s

/-- `iv_timer_get_node` -/
def getNode (bits : Nat) (s : RatState) (index : Nat) : RatState × Ptr :=
  let s := growRoot bits s index
  let w := descend bits s.depth s.root index
  ({ root := w.tree, depth := s.depth, allocated := s.allocated + w.allocs }, w.ptr)

/-- `*p`; outer `none` = dangling pointer -/
def readPath : Ptr → Rat → Option (Option Nat)
  | [d], .leaf sl => sl[d]?
  | d :: p, .node cs =>
    match child cs d with
    | some c => readPath p c
    | none => none
  | _, _ => none

/-- `*p = v` (no effect through a dangling pointer) -/
def writePath (v : Option Nat) : Ptr → Rat → Rat
  | [d], .leaf sl => .leaf (sl.set d v)
  | d :: p, .node cs =>
    match child cs d with
    | some c => .node (cs.set d (some (writePath v p c)))
    | none => .node cs
  | _, t => t

def readSlot (s : RatState) (p : Ptr) : Option (Option Nat) := readPath p s.root
def writeSlot (s : RatState) (p : Ptr) (v : Option Nat) : RatState := { s with root := writePath v p s.root }

/-- `*iv_timer_get_node(st, index)` -/
def load (bits : Nat) (s : RatState) (index : Nat) : RatState × Option (Option Nat) :=
  let r := getNode bits s index
  (r.1, readSlot r.1 r.2)

/-- `*iv_timer_get_node(st, index) = v` -/
def store (bits : Nat) (s : RatState) (index : Nat) (v : Option Nat) : RatState :=
  let r := getNode bits s index
  writeSlot r.1 r.2 v

/-- the loop `for (...) { if (child[i] == NULL) break; f(child[i]); }` -/
def freeLoop (f : Rat → Nat) : List (Option Rat) → Nat
  | some c :: cs => f c + freeLoop f cs
  | _ => 0

/-- `iv_timer_free_ratnode(node, depth)`: number of `free` calls -/
def freeNode : Nat → Rat → Nat
  | 0, _ => 1
  | h + 1, .node cs => freeLoop (freeNode h) cs + 1
  | _ + 1, .leaf _ => 1

/-- number of `free` calls of `iv_timer_radix_tree_remove_level` -/
def removeLevelFreed (s : RatState) : Nat :=
  match s.depth, s.root with
  | d + 1, .node (_ :: rest) => freeLoop (freeNode d) rest + 1
  | _, _ => 0

/-- `iv_timer_radix_tree_remove_level` (a no-op on ill-shaped input, excluded by `WF`) -/
def removeLevel (s : RatState) : RatState :=
  match s.depth, s.root with
  | d + 1, .node (some c0 :: _) =>
    { root := c0, depth := d, allocated := s.allocated - removeLevelFreed s }
  | _, _ => s

/-- `iv_timer_deinit`'s loop, with fuel -/
def freeAllN : Nat → RatState → RatState
  | 0, s => s
  | n + 1, s => if s.depth = 0 then s else freeAllN n (removeLevel s)

/-- `iv_timer_deinit` -/
def freeAll (s : RatState) : RatState := freeAllN s.depth s

/-! The seeded bug "only child[1] freed on shrink", for the ledger counter-example. -/

def removeLevelFreedBuggy (s : RatState) : Nat :=
  match s.depth, s.root with
  | d + 1, .node (_ :: some c1 :: _) => freeNode d c1 + 1
  | _ + 1, .node _ => 1
  | _, _ => 0

def removeLevelBuggy (s : RatState) : RatState :=
  match s.depth, s.root with
  | d + 1, .node (some c0 :: _) =>
    { root := c0, depth := d, allocated := s.allocated - removeLevelFreedBuggy s }
  | _, _ => s

/-! Observation functions. -/

/-- the slot `index` denotes below a node of height `h` (`none` = NULL or not allocated) -/
def lookup (bits : Nat) : Nat → Rat → Nat → Option Nat
  | 0, .leaf sl, index => sl[digit bits 0 index]?.join
  | h + 1, .node cs, index =>
    match child cs (digit bits (h + 1) index) with
    | some c => lookup bits h c index
    | none => none
  | _, _, _ => none

def sumChildren (f : Rat → Nat) : List (Option Rat) → Nat
  | [] => 0
  | some c :: cs => f c + sumChildren f cs
  | none :: cs => sumChildren f cs

/-- number of nodes reachable from a node of height `h` (itself included) -/
def reach : Nat → Rat → Nat
  | 0, _ => 1
  | h + 1, .node cs => 1 + sumChildren (reach h) cs
  | _ + 1, .leaf _ => 1

/-- the generated instance -/
abbrev cbits : Nat := Ivy.Generated.IV_TIMER_SPLIT_BITS

end Ivy.Rat
