/-!
# Registration bookkeeping of the epoll back end (`/repo/src/iv_fd_epoll.c`) and the way
`/repo/src/iv_fd.c` drives it

Executable model, statement by statement.  Nothing here is proved; the theorems are in
`Ivy/L0/FdEpollProofs.lean` (helpers) and `Ivy/Props/C15epoll.lean` (properties).

* An `iv_fd` object is identified by a small number `o` (its address in C).  `Obj` holds the fields
  the epoll code reads or writes: `fd` (the descriptor number), the three handler pointers (only
  NULL / non-NULL matters), `registered` (the flag of iv_fd.c, here `reg`), `wanted_bands`,
  `registered_bands` and whether `list_notify` is linked in a list (`queued` =
  `!iv_list_empty(&fd->list_notify)`).
* `notify` is `st->u.epoll.notify`, in queue order.
* `kernel` is the interest list of the epoll instance: descriptor number ↦ `(events, data.ptr)`.
  `kernelCtl` is the ASSUMED semantics of epoll_ctl(2): ADD fails with EEXIST when the descriptor
  is present, MOD / DEL fail with ENOENT when it is absent, every op fails with EBADF when the
  descriptor is closed.  `closed` is the environment's set of closed descriptor numbers: an input.
* `live` is ghost state: the objects whose `reg` flag is set (so that "descriptor number already
  used by a registered object" is decidable).  No C statement corresponds to it.
* `fatal` records that `iv_fatal` was reached in `iv_fd_epoll_flush_one`.
-/
namespace Ivy.L0.FdEpoll

abbrev MASKIN : Nat := 1
abbrev MASKOUT : Nat := 2
abbrev MASKERR : Nat := 4
abbrev EPOLLIN : Nat := 1
abbrev EPOLLOUT : Nat := 4
abbrev EPOLLERR : Nat := 8
abbrev EPOLLHUP : Nat := 16
abbrev ENOENT : Nat := 2
abbrev EBADF : Nat := 9
abbrev EEXIST : Nat := 17

structure Obj where
  fd : Nat := 0
  hin : Bool := false
  hout : Bool := false
  herr : Bool := false
  reg : Bool := false
  wanted : Nat := 0
  registered : Nat := 0
  queued : Bool := false
deriving DecidableEq, Repr

inductive CtlOp | add | mod | del
deriving DecidableEq, Repr

/-- one epoll_ctl call: `err = 0` is return value 0, otherwise return value -1 with that errno -/
structure Ctl where
  op : CtlOp
  fd : Nat
  mask : Nat
  data : Nat
  err : Nat
deriving DecidableEq, Repr

abbrev Kernel := Nat → Option (Nat × Nat)

structure State where
  objs : Nat → Obj
  notify : List Nat
  kernel : Kernel
  closed : Nat → Bool
  live : List Nat
  fatal : Bool

def init : State := ⟨fun _ => {}, [], fun _ => none, fun _ => false, [], false⟩

def upd {α : Type} (f : Nat → α) (k : Nat) (v : α) : Nat → α := fun i => if i = k then v else f i

/-- unlink `o` from a list in which it occurs at most once (no-op when it is not there) -/
def lrem (l : List Nat) (o : Nat) : List Nat := l.filter (fun x => x != o)

/-! ## the kernel (assumption) -/

def kernelCtl (k : Kernel) (closed : Nat → Bool) (op : CtlOp) (fd mask data : Nat) : Kernel × Nat :=
  if closed fd then (k, EBADF) else
  match op, k fd with
  | .add, some _ => (k, EEXIST)
  | .add, none => (upd k fd (some (mask, data)), 0)
  | .mod, none => (k, ENOENT)
  | .mod, some _ => (upd k fd (some (mask, data)), 0)
  | .del, none => (k, ENOENT)
  | .del, some _ => (upd k fd none, 0)

/-! ## iv_fd_epoll.c -/

/-- `bits_to_poll_mask` -/
def bitsToPollMask (bits : Nat) : Nat :=
  (if bits &&& MASKIN ≠ 0 then EPOLLIN else 0) ||| (if bits &&& MASKOUT ≠ 0 then EPOLLOUT else 0)

/-- `iv_list_del_init(&fd->list_notify)` -/
def delInitNotify (s : State) (o : Nat) : State :=
  { s with notify := lrem s.notify o, objs := upd s.objs o { s.objs o with queued := false } }

/-- the choice of `op` in `__iv_fd_epoll_flush_one` -/
def chooseOp (registered wanted : Nat) : CtlOp :=
  if registered = 0 ∧ wanted ≠ 0 then .add
  else if registered ≠ 0 ∧ wanted = 0 then .del
  else .mod

def ctlErr : Option Ctl → Nat
  | none => 0
  | some c => c.err

/-- `__iv_fd_epoll_flush_one`; the C return value is `0` when `ctlErr` of the second component is
0 and `-1` (errno = that number) otherwise -/
def flushOneRaw (s : State) (o : Nat) : State × Option Ctl :=
  let s := delInitNotify s o
  let f := s.objs o
  if f.registered = f.wanted then (s, none) else
  let op := chooseOp f.registered f.wanted
  let mask := bitsToPollMask f.wanted
  let r := kernelCtl s.kernel s.closed op f.fd mask o
  let s := { s with kernel := r.1 }
  let s := if r.2 = 0 then { s with objs := upd s.objs o { f with registered := f.wanted } } else s
  (s, some ⟨op, f.fd, mask, o, r.2⟩)

/-- `iv_fd_epoll_flush_one` -/
def flushOne (s : State) (o : Nat) : State × Option Ctl :=
  let r := flushOneRaw s o
  if ctlErr r.2 ≠ 0 then ({ r.1 with fatal := true }, r.2) else r

/-- the loop of `iv_fd_epoll_flush_pending` with fuel (every round unlinks the first entry, so
`notify.length` rounds are enough: `flushPending_notify`) -/
def flushLoop : Nat → State → State × List Ctl
  | 0, s => (s, [])
  | n + 1, s =>
    match s.notify with
    | [] => (s, [])
    | o :: _ =>
      let r := flushOne s o
      if r.1.fatal then (r.1, r.2.toList) else
      let r' := flushLoop n r.1
      (r'.1, r.2.toList ++ r'.2)

/-- `iv_fd_epoll_flush_pending` -/
def flushPending (s : State) : State × List Ctl := flushLoop s.notify.length s

/-- `iv_fd_epoll_notify_fd` -/
def notifyFd (s : State) (o : Nat) : State :=
  let s := delInitNotify s o
  let f := s.objs o
  if f.registered ≠ f.wanted then
    { s with notify := s.notify ++ [o], objs := upd s.objs o { f with queued := true } }
  else s

/-- `iv_fd_epoll_notify_fd_sync` -/
def notifySync (s : State) (o : Nat) : State × Option Ctl := flushOneRaw s o

/-- `iv_fd_epoll_unregister_fd` -/
def unregisterFd (s : State) (o : Nat) : State × Option Ctl :=
  if (s.objs o).queued then flushOne s o else (s, none)

/-! ## iv_fd.c -/

/-- the value computed by `recompute_wanted_flags` -/
def wantedOf (f : Obj) : Nat :=
  if f.reg then
    (if f.hin then MASKIN else 0) ||| (if f.hout then MASKOUT else 0) ||| (if f.herr then MASKERR else 0)
  else 0

def setObj (s : State) (o : Nat) (g : Obj → Obj) : State := { s with objs := upd s.objs o (g (s.objs o)) }

/-- `recompute_wanted_flags` -/
def recompute (s : State) (o : Nat) : State := setObj s o fun f => { f with wanted := wantedOf f }

/-- the static `notify_fd` of iv_fd.c -/
def coreNotifyFd (s : State) (o : Nat) : State := notifyFd (recompute s o) o

/-- the user stores `d` in `fd->fd`, then `iv_fd_register_prologue` (with `method->register_fd ==
NULL` for epoll).  `INIT_IV_LIST_HEAD(&fd->list_notify)` overwrites the node without unlinking
it: `notify` is not touched. -/
def prologue (s : State) (o d : Nat) : State :=
  { s with objs := upd s.objs o { s.objs o with fd := d, reg := true, registered := 0, queued := false },
           live := o :: s.live }

/-- `fd->registered = 0` -/
def clearReg (s : State) (o : Nat) : State :=
  { s with objs := upd s.objs o { s.objs o with reg := false }, live := lrem s.live o }

/-- `iv_fd_register` -/
def register (s : State) (o d : Nat) : State := coreNotifyFd (prologue s o d) o

/-- `iv_fd_register_try`: state, the epoll_ctl calls made, and 0 / the errno behind `ret` -/
def registerTry (s : State) (o d : Nat) : State × List Ctl × Nat :=
  let s := prologue s o d
  let s := recompute s o
  let orig := (s.objs o).wanted
  let s := if orig = 0 then setObj s o fun f => { f with wanted := MASKIN ||| MASKOUT } else s
  let r := notifySync s o
  if ctlErr r.2 ≠ 0 then
    let s := clearReg r.1 o
    let u := unregisterFd s o
    (u.1, r.2.toList ++ u.2.toList, ctlErr r.2)
  else
    let s := if orig = 0 then notifyFd (setObj r.1 o fun f => { f with wanted := 0 }) o else r.1
    (s, r.2.toList, 0)

/-- `iv_fd_unregister` -/
def unregister (s : State) (o : Nat) : State × List Ctl :=
  let s := clearReg s o
  let s := coreNotifyFd s o
  let u := unregisterFd s o
  (u.1, u.2.toList)

/-- the field assignment of `iv_fd_set_handler_in / _out / _err` -/
def setH (f : Obj) (band : Nat) (b : Bool) : Obj :=
  if band = MASKIN then { f with hin := b } else if band = MASKOUT then { f with hout := b }
  else { f with herr := b }

/-- `iv_fd_set_handler_in / _out / _err` on a registered object; on an object that is not
registered it is the user's plain assignment to the field before `iv_fd_register` -/
def setHandler (s : State) (o band : Nat) (b : Bool) : State :=
  let s := setObj s o fun f => setH f band b
  if (s.objs o).reg then coreNotifyFd s o else s

/-! ## the dispatch part of `iv_fd_epoll_poll` and the handler loop of `iv_fd_poll_and_run` -/

/-- `iv_fd_make_ready` on the `active` list, kept as (object, ready_bands) in list order -/
def makeReady (active : List (Nat × Nat)) (o bands : Nat) : List (Nat × Nat) :=
  if active.any (fun p => p.1 == o) then
    active.map fun p => if p.1 = o then (p.1, p.2 ||| bands) else p
  else active ++ [(o, bands)]

/-- the body of the `for` loop for one `struct epoll_event` with `data.ptr = o` -/
def dispatchOne (active : List (Nat × Nat)) (o ev : Nat) : List (Nat × Nat) :=
  let a := if ev &&& (EPOLLIN ||| EPOLLERR ||| EPOLLHUP) ≠ 0 then makeReady active o MASKIN else active
  let a := if ev &&& (EPOLLOUT ||| EPOLLERR ||| EPOLLHUP) ≠ 0 then makeReady a o MASKOUT else a
  if ev &&& (EPOLLERR ||| EPOLLHUP) ≠ 0 then makeReady a o MASKERR else a

/-- events `(data.ptr, events)` in batch order ↦ the active list -/
def dispatch (evs : List (Nat × Nat)) : List (Nat × Nat) :=
  evs.foldl (fun a e => dispatchOne a e.1 e.2) []

/-- the bands one event makes ready (closed form of `dispatchOne`, see `dispatch_eq`) -/
def readyBands (ev : Nat) : Nat :=
  (if ev &&& (EPOLLIN ||| EPOLLERR ||| EPOLLHUP) ≠ 0 then MASKIN else 0) |||
  (if ev &&& (EPOLLOUT ||| EPOLLERR ||| EPOLLHUP) ≠ 0 then MASKOUT else 0) |||
  (if ev &&& (EPOLLERR ||| EPOLLHUP) ≠ 0 then MASKERR else 0)

/-- what the kernel hands back for ready descriptors `(fdnum, events)`: the `data` stored in the
interest list; a descriptor that is not in the interest list cannot be reported -/
def kernelEvents (k : Kernel) (kev : List (Nat × Nat)) : List (Nat × Nat) :=
  kev.filterMap fun e => (k e.1).map fun md => (md.2, e.2)

/-- handler calls of `iv_fd_poll_and_run` for passive handlers (handlers that do not call back
into the library): err, in, out per object, in active-list order -/
def runHandlers (s : State) (active : List (Nat × Nat)) : List (Nat × Nat) :=
  active.flatMap fun p =>
    let f := s.objs p.1
    (if p.2 &&& MASKERR ≠ 0 ∧ f.herr then [(p.1, MASKERR)] else []) ++
    (if p.2 &&& MASKIN ≠ 0 ∧ f.hin then [(p.1, MASKIN)] else []) ++
    (if p.2 &&& MASKOUT ≠ 0 ∧ f.hout then [(p.1, MASKOUT)] else [])

/-! ## operation sequences -/

inductive Op
  | reg (o d : Nat)
  | regtry (o d : Nat)
  | unreg (o : Nat)
  | set (o band : Nat) (b : Bool)
  | flush (kev : List (Nat × Nat))
  | closefd (d : Nat)
  | openfd (d : Nat)
deriving DecidableEq, Repr

structure Out where
  ctls : List Ctl := []
  ret : Nat := 0
  ready : List (Nat × Nat) := []
  calls : List (Nat × Nat) := []
  skipped : Bool := false
deriving DecidableEq, Repr

/-- descriptor number `d` is not the `fd` of any registered object -/
def fdFree (s : State) (d : Nat) : Bool := s.live.all fun o => (s.objs o).fd != d

/-- events a kernel with interest list `k` can report: descriptor present, events non-zero and
within the requested mask plus ERR / HUP (always reported), each descriptor at most once -/
def eventsOk (k : Kernel) : List (Nat × Nat) → Bool
  | [] => true
  | e :: rest =>
    (match k e.1 with
     | none => false
     | some md => e.2 != 0 && (e.2 &&& (md.1 ||| EPOLLERR ||| EPOLLHUP)) == e.2) &&
    rest.all (fun e' => e'.1 != e.1) && eventsOk k rest

/-- The environment / API-contract hypothesis, decidable, per operation:
* `reg`: the object is not registered (else iv_fatal in the prologue), its descriptor is open and
  no other registered object uses the same descriptor number;
* `regtry`: the object is not registered, and either its descriptor number is free (open or
  closed: a closed one makes the call fail with EBADF) or the kernel has an entry for it (the call
  fails with EEXIST);
* `unreg`: the object is registered (else iv_fatal);
* `closefd`: descriptors stay open while registered;
* `flush`: the reported events are events the kernel can report after the flush. -/
def pre (s : State) : Op → Bool
  | .reg o d => !(s.objs o).reg && !s.closed d && fdFree s d
  | .regtry o d => !(s.objs o).reg && (fdFree s d || (s.kernel d).isSome)
  | .unreg o => (s.objs o).reg
  | .set _ band _ => band == MASKIN || band == MASKOUT || band == MASKERR
  | .flush kev => eventsOk (flushPending s).1.kernel kev
  | .closefd d => !s.closed d && fdFree s d
  | .openfd d => s.closed d

/-- the stricter hypothesis under which no epoll_ctl fails: `regtry` only on an open, free
descriptor number -/
def strict (s : State) : Op → Bool
  | .regtry _ d => !s.closed d && fdFree s d
  | _ => true

def step (s : State) : Op → State × Out
  | .reg o d => (register s o d, {})
  | .regtry o d => let r := registerTry s o d; (r.1, { ctls := r.2.1, ret := r.2.2 })
  | .unreg o => let r := unregister s o; (r.1, { ctls := r.2 })
  | .set o band b => (setHandler s o band b, {})
  | .flush kev =>
    let r := flushPending s
    let act := dispatch (kernelEvents r.1.kernel kev)
    (r.1, { ctls := r.2, ready := act, calls := runHandlers r.1 act })
  | .closefd d => ({ s with closed := upd s.closed d true, kernel := upd s.kernel d none }, {})
  | .openfd d => ({ s with closed := upd s.closed d false }, {})

/-- an operation outside the hypothesis is not executed (the harness prints `skip`) -/
def exec (s : State) (op : Op) : State × Out :=
  if s.fatal then (s, { skipped := true }) else
  if pre s op then step s op else (s, { skipped := true })

def run (s : State) : List Op → State
  | [] => s
  | op :: ops => run (exec s op).1 ops

/-- all epoll_ctl calls of a run -/
def runCtls (s : State) : List Op → List Ctl
  | [] => []
  | op :: ops => (exec s op).2.ctls ++ runCtls (exec s op).1 ops

/-! ## mutants (for the negative theorems) -/

/-- mutant 1: `registered_bands` is updated even when epoll_ctl failed -/
def flushOneRawM1 (s : State) (o : Nat) : State × Option Ctl :=
  let s := delInitNotify s o
  let f := s.objs o
  if f.registered = f.wanted then (s, none) else
  let op := chooseOp f.registered f.wanted
  let mask := bitsToPollMask f.wanted
  let r := kernelCtl s.kernel s.closed op f.fd mask o
  let s := { s with kernel := r.1, objs := upd s.objs o { f with registered := f.wanted } }
  (s, some ⟨op, f.fd, mask, o, r.2⟩)

/-- mutant 2: `iv_fd_unregister` without the flush in `iv_fd_epoll_unregister_fd` -/
def unregisterM2 (s : State) (o : Nat) : State × List Ctl :=
  let s := clearReg s o
  (coreNotifyFd s o, [])

end Ivy.L0.FdEpoll
