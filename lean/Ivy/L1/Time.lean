import Ivy.L0.Heap
/-! `timespec` arithmetic of /repo/src/iv_private.h (`to_relative`, `to_msec`) and `timespec_cmp` of iv_fd.c. -/
namespace Ivy.L1
open Ivy.Heap (TS)

/-- `to_relative` once `st->time` is valid: `abs − now` if `abs > now` else 0. -/
def toRelative (now abs : TS) : TS :=
  if abs.gt now then
    let sec := abs.sec - now.sec
    let nsec := abs.nsec - now.nsec
    if nsec < 0 then ⟨sec - 1, nsec + 1000000000⟩ else ⟨sec, nsec⟩
  else ⟨0, 0⟩

/-- `to_msec` (C `/` truncates toward zero; the operand is non-negative for normalised input) -/
def toMsec (now abs : TS) : Int :=
  let rel := toRelative now abs
  if rel.sec < 86400 then 1000 * rel.sec + (rel.nsec + 999999).tdiv 1000000 else 86400000

/-- `timespec_cmp(a, b)` with `a = NULL` meaning +∞ (returns 1). -/
def tsCmp (a : Option TS) (b : TS) : Int :=
  match a with
  | none => 1
  | some a =>
    if a.sec < b.sec then -1 else if a.sec > b.sec then 1
    else if a.nsec < b.nsec then -1 else if a.nsec > b.nsec then 1 else 0

def TS.toNs (t : TS) : Int := t.sec * 1000000000 + t.nsec
def TS.norm (t : TS) : Prop := 0 ≤ t.nsec ∧ t.nsec < 1000000000

end Ivy.L1
