import Ivy.L1.ProofsC04
import Ivy.L1.ProofsReach
import Ivy.Mon.C07
import Ivy.Mon.TmoContract
/-!
# C07 (timeout clause) — the timeout-progress oracle `Mon.C07.tmoVerdict` is sound for the L1 machine

`tmoVerdict` rejects (a) a wait with a finite non-zero timeout that returns the empty result and is followed by
another wait before any callback, and (b) a third consecutive empty zero-timeout poll without a callback.

## The timeout contract (`ctrStep`, `tmoContract`)

A monitor over the trace with state `CSt`:
* `last`  — the last clock value the loop read (`Input.time t`), in ns (`0` before the first reading: the
            machine starts with `time = ⟨0,0⟩`);
* `pend`  — while a wait with timeout `.ns v` / `.ms v`, `v > 0`, is in progress: `last + v` (resp.
            `last + v·10⁶`), the instant at which that timeout runs out, measured from the clock value the
            machine computed the timeout from (the machine computes every timeout from its cached `time`, which
            is the last `Input.time`);
* `due`   — set to `pend` when that wait is answered with `Input.wret (.events [])`.
The only requirement: the FIRST `Input.time t` after such an answer satisfies `due ≤ ns t`.  Nothing is required
after `EINTR`, `ENOSYS`, a non-empty result, an unbounded wait, or a zero-timeout poll.  (Monotonicity of the
clock is already part of `envOk`; the proof does not use it.)

## Scope restriction (`noDayCap`)

`to_msec` caps a millisecond timeout at 86 400 000 ms (24 h).  With a timer further away than that, the `poll` /
`epoll_wait` primitives legitimately wake up after 24 h with nothing due and wait again: `tmoVerdict` rejects
that trace (`Ivy.Props.C07tmo.day_cap_rejected`).  `noDayCap evs` says that no `Out.wait _ (.ms v) …` with
`v ≥ 86 400 000` occurs in the trace.

## The corrected oracle (`tmoStepC`, `tmoCapVerdict`)

`tmoStepC` is `Mon.C07.tmoStep` with one change (the proposed edit): for `Out.wait _ (.ms v) …` the flag `sleep` is
`v > 0 ∧ v < 86 400 000` instead of `v > 0`.  The two coincide on every record that is not a millisecond wait at the
cap (`tmoStepC_eq`, `tmoFold_eq`).  All the work is done for `tmoStepC`; the statements about `tmoStep` follow on
traces that satisfy `noDayCap`.

## Result

`tmo_run`: from any state related to the oracle state by `Inv`, every continuation that keeps the contract is
accepted.  `Inv` says: (`clock`) the contract's `last` is the machine's cached `time`; (`owed`) after a sleep came
back empty the machine is on the straight path `dispatchNext → mainTop → clock_gettime → collect → popTimer` and some
timer on the heap expires at or before the contract's `due`, so `collect` finds it (`OwedAt`); (`zs`) after an empty
zero-timeout poll no user code runs until the next callback, the task list is empty when the next timeout is
computed, and either the heap is empty, or the clock was read after the poll and nothing is due at that value, or
kernel-timer mode persists — so the next timeout is not zero (`ZAt`), except once through the `ppoll → poll` fallback
after `ENOSYS`, which reads the clock again.  Hence `zeros ≤ 2` (`tmo_cap_bound`, `tmo_bound`) and `zeros ≤ 1` on
traces without `ENOSYS` (`tmo_cap_bound_one`, `tmo_bound_one`; the parameter `fb` of `Inv`).
The machine invariant of `ProofsC04` (`Good`: heap invariant, normalised non-negative clock and expiries) is carried
along; it is only lost when the machine dies on `iv_fatal` / a fault, after which nothing is emitted.
-/
namespace Ivy.L1.ProofsC07tmo
open Ivy.L1 Ivy.Heap Ivy.L1.ProofsC04
open Ivy.Mon.C04 (M ns)
open Ivy.Mon.C07 (TmoSt tmoStep tmoVerdict tmoStepC tmoCapVerdict)

set_option linter.unusedSimpArgs false
set_option linter.unusedVariables false

/-- no millisecond wait at (or beyond) the 24 h cap of `to_msec` -/
def capOk : Ev → Bool
  | .out (.wait _ (.ms v) ..) => decide (v < 86400000)
  | _ => true

def noDayCap (evs : List Ev) : Bool := evs.all capOk

/-- on a record that is not a millisecond wait at the cap the two oracles agree -/
theorem tmoStepC_eq (m : TmoSt) (e : Ev) (h : capOk e = true) : tmoStepC m e = tmoStep m e := by
  unfold tmoStepC
  split
  · next v _ _ _ =>
    simp only [capOk, decide_eq_true_eq] at h
    simp [tmoStep, h]
  · rfl

theorem tmoFold_eq (evs : List Ev) : ∀ m : TmoSt, evs.all capOk = true →
    evs.foldlM tmoStepC m = evs.foldlM tmoStep m := by
  induction evs with
  | nil => intro m _; rfl
  | cons e r ih =>
    intro m h
    simp only [List.all_cons, Bool.and_eq_true] at h
    rw [List.foldlM_cons, List.foldlM_cons, tmoStepC_eq m e h.1]
    cases tmoStep m e with
    | error x => rfl
    | ok m1 => exact ih m1 h.2

/-! ## the C04 monitor only dies on `iv_fatal` / fault, and only a clock reading changes its clock -/

theorem mstep_alive {μ μ' : M} {e : Ev} (h : mstep μ e = .ok μ')
    (he : ∀ o, e = .out o → ProofsReach.isBad o = false) : μ'.dead = μ.dead := by
  cases hd : μ.dead with
  | true =>
    rw [mstep_dead hd] at h
    cases h; exact hd
  | false =>
    rw [← hd]
    unfold mstep Ivy.Mon.C04.step at h
    simp only [hd, Bool.false_eq_true, if_false] at h
    repeat' split at h
    all_goals first
      | (cases h; first | rfl | exact hd.symm)
      | (simp at h; done)
      | (exfalso; simp [ProofsReach.isBad] at he; done)
      | skip

theorem mstep_clock {μ μ' : M} {e : Ev} (h : mstep μ e = .ok μ')
    (he : ∀ t, e ≠ .inp (.time t)) : μ'.clock = μ.clock := by
  cases hd : μ.dead with
  | true =>
    rw [mstep_dead hd] at h
    cases h; rfl
  | false =>
    unfold mstep Ivy.Mon.C04.step at h
    simp only [hd, Bool.false_eq_true, if_false] at h
    repeat' split at h
    all_goals first
      | (cases h; rfl)
      | (simp at h; done)
      | (exfalso; simp at he; done)
      | skip

theorem fold_alive_clock (evs : List Ev) : ∀ (μ μ' : M), evs.foldlM mstep μ = .ok μ' →
    (∀ o, Ev.out o ∈ evs → ProofsReach.isBad o = false) → (∀ t, Ev.inp (.time t) ∉ evs) →
    μ'.dead = μ.dead ∧ μ'.clock = μ.clock := by
  induction evs with
  | nil => intro μ μ' h _ _; cases h; exact ⟨rfl, rfl⟩
  | cons e r ih =>
    intro μ μ' h hb ht
    rw [List.foldlM_cons] at h
    cases hs : mstep μ e with
    | error x => rw [hs] at h; cases h
    | ok μ1 =>
      rw [hs] at h
      have h1 := mstep_alive hs (fun o ho => hb o (by rw [ho]; simp))
      have h1' := mstep_clock hs (fun t ht' => ht t (by rw [ht']; simp))
      have h2 := ih μ1 μ' h (fun o ho => hb o (by simp [ho])) (fun t ht' => ht t (by simp [ht']))
      exact ⟨h2.1.trans h1, h2.2.trans h1'⟩


theorem fold_alive (evs : List Ev) : ∀ (μ μ' : M), evs.foldlM mstep μ = .ok μ' →
    (∀ o, Ev.out o ∈ evs → ProofsReach.isBad o = false) → μ'.dead = μ.dead := by
  induction evs with
  | nil => intro μ μ' h _; cases h; rfl
  | cons e r ih =>
    intro μ μ' h hb
    rw [List.foldlM_cons] at h
    cases hs : mstep μ e with
    | error x => rw [hs] at h; cases h
    | ok μ2 =>
      rw [hs] at h
      have h1 := mstep_alive hs (fun o ho => hb o (by rw [ho]; simp))
      have h2 := ih μ2 μ' h (fun o ho => hb o (by simp [ho]))
      exact h2.trans h1

/-- the C04 machine invariant and the cached clock survive an internal step (unless the step kills the machine) -/
theorem good_internal {μ : M} {s : St} (g : Good μ s) (b : Block) (hpc : s.pc = .run b) :
    (internal s b).1.pc = .dead ∨ ∃ μ1, Good μ1 (internal s b).1 ∧ (internal s b).1.time = s.time := by
  cases hbad : (internal s b).2.any ProofsReach.isBad with
  | true =>
    left
    rw [ProofsReach.internal_dead s b hbad]
  | false =>
    right
    obtain ⟨μ1, hf, hr⟩ := internal_ok (Or.inr g) b hpc
    obtain ⟨b0, gb⟩ := g
    have hk := fold_alive_clock _ μ μ1 hf (fun o ho => by
      simp only [List.mem_map, Ev.out.injEq, exists_eq_right] at ho
      have := List.any_eq_false.1 hbad o ho
      simpa using this) (fun t ht => by simp at ht)
    rcases hr with hd | g1
    · rw [hk.1, gb.alive] at hd; cases hd
    · refine ⟨μ1, g1, ?_⟩
      obtain ⟨b1, gb1⟩ := g1
      rw [← gb1.clock, hk.2, gb.clock]

theorem good_input {μ : M} {s s' : St} {i : Input} {outs : List Out} (g : Good μ s) (henv : envOk s i = true)
    (hin : input s i = some (s', outs)) :
    (s'.pc = .dead ∧ s'.time = s.time) ∨ ∃ μ1, Good μ1 s' ∧ ((∀ t, i ≠ .time t) → s'.time = s.time) := by
  cases hbad : outs.any ProofsReach.isBad with
  | true =>
    left
    rw [ProofsReach.input_dead s i s' outs hin hbad]
    exact ⟨rfl, rfl⟩
  | false =>
    right
    obtain ⟨μ1, hf, hr⟩ := input_ok g i henv hin
    obtain ⟨b0, gb⟩ := g
    have hA : ∀ o, Ev.out o ∈ Ev.inp i :: outs.map Ev.out → ProofsReach.isBad o = false := by
      intro o ho
      simp only [List.mem_cons, reduceCtorEq, List.mem_map, Ev.out.injEq, exists_eq_right, false_or] at ho
      have := List.any_eq_false.1 hbad o ho
      simpa using this
    rcases hr with hd | g1
    · have := fold_alive _ μ μ1 hf hA
      rw [hd, gb.alive] at this; cases this
    · refine ⟨μ1, g1, fun hnt => ?_⟩
      have hk := fold_alive_clock _ μ μ1 hf hA (fun t ht => by
        simp only [List.mem_cons, Ev.inp.injEq, List.mem_map, reduceCtorEq, and_false, exists_false, or_false] at ht
        exact hnt t ht.symm)
      obtain ⟨b1, gb1⟩ := g1
      rw [← gb1.clock, hk.2, gb.clock]

/-! ## heap facts -/

/-- some timer on the heap expires at or before `d` (ns) -/
def Due (h : Store) (d : Int) : Prop := ∃ r, onHeap h r ∧ ns (expOf h r) ≤ d

theorem soonest_some {h : Store} (hi : HeapInv h) {a : TS} (hs : soonest h = some a) :
    ∃ r, onHeap h r ∧ expOf h r = a := by
  unfold soonest at hs
  split at hs
  · cases hs
  · next hn =>
    obtain ⟨r, hr, hir⟩ := hi.occupied 1 (Nat.le_refl _) (by omega)
    simp only [getSlot, hr] at hs
    cases hs
    exact ⟨r, ⟨1, Nat.le_refl _, hir⟩, rfl⟩

theorem soonest_none {h : Store} (hi : HeapInv h) (hs : soonest h = none) : h.num = 0 := by
  unfold soonest at hs
  split at hs
  · next hn => exact hn
  · next hn =>
    obtain ⟨r, hr, hir⟩ := hi.occupied 1 (Nat.le_refl _) (by omega)
    simp only [getSlot, hr] at hs
    cases hs

theorem num_pos_of_due {h : Store} (hi : HeapInv h) {d : Int} (hd : Due h d) : h.num ≠ 0 := by
  obtain ⟨r, hr, _⟩ := hd
  have := Ivy.Heap.Proofs.num_pos_of_onHeap hi hr
  omega

theorem no_onHeap_of_num {h : Store} (hi : HeapInv h) (hn : h.num = 0) (t : Nat) : ¬ onHeap h t := by
  intro ht
  have := Ivy.Heap.Proofs.num_pos_of_onHeap hi ht
  omega


/-! ## time arithmetic -/

theorem timeoutOf_none (s : St) : timeoutOf s none = .inf := rfl

theorem timeoutOf_some (s : St) (a : TS) :
    timeoutOf s (some a) = .ns (TS.toNs (toRelative s.time a)) ∨ timeoutOf s (some a) = .ms (toMsec s.time a) := by
  unfold timeoutOf
  simp only []
  repeat' split
  all_goals simp

theorem toMsec_eq (now a : TS) :
    toMsec now a = if (toRelative now a).sec < 86400 then
      1000 * (toRelative now a).sec + ((toRelative now a).nsec + 999999).tdiv 1000000 else 86400000 := rfl

/-- a non-zero nanosecond timeout ends exactly at the deadline it was computed from -/
theorem ns_deadline {now a : TS} (hn : NN now) (ha : Nm a) (hv : TS.toNs (toRelative now a) > 0) :
    ns a ≤ ns now + TS.toNs (toRelative now a) ∧ a ≠ ⟨0, 0⟩ := by
  rw [toRel_ns] at hv ⊢
  split at hv
  · next hg =>
    rw [if_pos hg]
    refine ⟨by omega, ?_⟩
    rintro rfl
    unfold NN at hn
    simp [TS.gt] at hg
    omega
  · omega

/-- a non-zero millisecond timeout below the 24 h cap ends at or after the deadline (rounded up) -/
theorem ms_deadline {now a : TS} (hn : NN now) (ha : Nm a) (hv : toMsec now a > 0) (hcap : toMsec now a < 86400000) :
    ns a ≤ ns now + toMsec now a * 1000000 ∧ a ≠ ⟨0, 0⟩ := by
  have hr := toRel_ns now a
  have hm := toRel_nm hn.nm ha
  rw [toMsec_eq] at hv hcap ⊢
  unfold Nm at hm
  simp only [TS.toNs] at hr
  split at hcap
  · next hlt =>
    rw [if_pos hlt] at hv ⊢
    have hq : ((toRelative now a).nsec + 999999).tdiv 1000000 = ((toRelative now a).nsec + 999999) / 1000000 :=
      Int.tdiv_eq_ediv_of_nonneg (by omega)
    rw [hq] at hv ⊢
    split at hr
    · next hg =>
      refine ⟨by omega, ?_⟩
      rintro rfl
      unfold NN at hn
      simp [TS.gt] at hg
      omega
    · next hg =>
      exfalso
      have : toRelative now a = ⟨0, 0⟩ := by
        unfold toRelative
        rw [if_neg hg]
      rw [this] at hv
      simp at hv
  · omega

/-- a deadline in the future gives a non-zero timeout for every primitive -/
theorem pos_of_gt {now a : TS} (hn : Nm now) (ha : Nm a) (hg : a.gt now = true) :
    TS.toNs (toRelative now a) > 0 ∧ toMsec now a > 0 := by
  have hr := toRel_ns now a
  have hm := toRel_nm hn ha
  rw [if_pos hg] at hr
  have hlt := (gt_iff_ns ha hn).1 hg
  refine ⟨by omega, ?_⟩
  rw [toMsec_eq]
  unfold Nm at hm
  simp only [TS.toNs] at hr
  split
  · have hq : ((toRelative now a).nsec + 999999).tdiv 1000000 = ((toRelative now a).nsec + 999999) / 1000000 :=
      Int.tdiv_eq_ediv_of_nonneg (by omega)
    rw [hq]
    omega
  · omega

/-! ## the invariant -/

/-- nothing on the heap is due at the (valid) cached clock value -/
def NoneDue (s : St) : Prop := s.timeValid = true ∧ ∀ t, onHeap s.heap t → (expOf s.heap t).gt s.time = true

/-- kernel-timer mode will be kept by the next `iv_fd_timeout_check` -/
def KM (s : St) : Prop :=
  s.method = .epollTimerfd ∧ s.lastAbsCount = 5 ∧ tsCmp (soonest s.heap) s.lastAbs ≥ 0

/-- the next timeout computed with an empty task list is not zero -/
def Calm (s : St) : Prop := s.heap.num = 0 ∨ NoneDue s ∨ KM s

/-- the arguments of the wait being prepared give a non-zero timeout -/
def WArgs (s : St) (abs : Option TS) (km : Bool) : Prop :=
  (km = true ∧ abs = none ∧ KM s) ∨
  (km = false ∧ ((abs = none ∧ s.heap.num = 0) ∨ ∃ a, abs = some a ∧ s.timeValid = true ∧ a.gt s.time = true))

def ZD (s : St) (rt : Bool) : Prop :=
  if rt = true then s.timeValid = false else s.tasks = [] ∧ (s.heap.num = 0 ∨ KM s)

/-- after a wait with a non-zero finite timeout returned empty: the loop is on its way to a timer callback -/
def OwedAt (s : St) (c : CSt) : Pc → Prop
  | .run .dispatchNext =>
    (∃ rest, s.stack = .poll [] true :: rest) ∧ s.timeValid = false ∧ ∃ d, c.due = some d ∧ Due s.heap d
  | .run (.mainTop rt) => rt = true ∧ s.timeValid = false ∧ ∃ d, c.due = some d ∧ Due s.heap d
  | .needTime .forTimers => ∃ d, c.due = some d ∧ Due s.heap d
  | .run .collect => Due s.heap (ns s.time)
  | .run .popTimer => ∃ t r rest, s.stack = .timers (t :: r) :: rest
  | _ => False

/-- after an empty zero-timeout poll, no callback since: no user code has run, and the loop cannot compute a zero
timeout again (except once through the `ppoll → poll` fallback, which re-reads the clock) -/
def ZAt (fb : Bool) (s : St) (m : TmoSt) : Pc → Prop
  | .run .dispatchNext => ∃ rt rest, s.stack = .poll [] rt :: rest ∧ ZD s rt
  | .run (.mainTop rt) => ZD s rt
  | .needTime .forTimers => True
  | .run .collect => s.timeValid = true
  | .run .popTimer => ∃ b rest, s.stack = .timers b :: rest ∧ (b = [] → NoneDue s)
  | .run .startTasks => Calm s
  | .run .popTask => (∃ b rest, s.stack = .tasks b :: rest) ∧ s.tasks = [] ∧ Calm s
  | .run .runEvents => (∃ b rest, s.stack = .tasks b :: rest) ∧ s.tasks = [] ∧ Calm s
  | .run .popEvent => ∃ e r rest, s.stack = .events (e :: r) :: rest
  | .run .resume => (∃ b rest, s.stack = .tasks b :: rest) ∧ s.tasks = [] ∧ Calm s
  | .run .exitCheck => s.tasks = [] ∧ Calm s
  | .run .prepWait => s.tasks = [] ∧ Calm s
  | .run (.flush abs km) => s.tasks = [] ∧ WArgs s abs km
  | .needTime (.forWait abs _) => fb = true ∧ s.method = .poll ∧ m.zeros ≤ 1 ∧ abs.isSome = true
  | .run (.wait abs km) =>
    (s.tasks = [] ∧ WArgs s abs km) ∨ (fb = true ∧ s.method = .poll ∧ m.zeros ≤ 1 ∧ abs.isSome = true)
  | .waiting abs km =>
    (s.tasks = [] ∧ WArgs s abs km ∧ m.zero = false) ∨
    (fb = true ∧ s.method = .poll ∧ m.zeros ≤ 1 ∧ abs.isSome = true)
  | _ => False

def ZInv (fb : Bool) (s : St) (m : TmoSt) : Prop := (m.zeros ≤ 1 ∨ s.method ≠ .ppoll) ∧ ZAt fb s m s.pc

/-- the bound on the oracle's counter: 2, and 1 when the `ppoll → poll` fallback is excluded (`fb = false`) -/
def Zb (fb : Bool) (n : Nat) : Prop := n ≤ 2 ∧ (fb = false → n ≤ 1)

theorem Zb.zero {fb : Bool} : Zb fb 0 := ⟨by omega, fun _ => by omega⟩

structure Inv (fb : Bool) (s : St) (c : CSt) (m : TmoSt) : Prop where
  clock : c.last = ns s.time
  zle : Zb fb m.zeros
  absR : ∀ abs km, waitArgs s.pc = some (abs, km) → ∀ a, abs = some a →
    a = ⟨0, 0⟩ ∨ ∃ r, onHeap s.heap r ∧ expOf s.heap r = a
  link : ∀ abs km, s.pc = .waiting abs km →
    (m.sleep = true → abs.isSome = true ∧ ∃ d, c.pend = some d ∧ Due s.heap d) ∧
    (m.zero = true → abs.isSome = true)
  owed : m.owed = true → OwedAt s c s.pc
  zs : m.owed = false → 1 ≤ m.zeros → ZInv fb s m

theorem inv_init {fb : Bool} (mt : Method) (n : Nat) (a b : Bool) : Inv fb (St.init mt n a b) {} {} := by
  refine ⟨rfl, Zb.zero, ?_, ?_, ?_, ?_⟩
  · intro abs km h; simp [St.init, waitArgs] at h
  · intro abs km h; simp [St.init] at h
  · intro h; cases h
  · intro _ h; simp at h

/-- a step after which neither phase is active -/
theorem Inv.normal {fb : Bool} {s' : St} {c' : CSt} {m' : TmoSt} (hw : waitArgs s'.pc = none) (hc : c'.last = ns s'.time)
    (h0 : m'.zeros = 0) (hf : m'.owed = false) : Inv fb s' c' m' := by
  refine ⟨hc, by rw [h0]; exact Zb.zero, ?_, ?_, ?_, ?_⟩
  · intro abs km h; rw [hw] at h; cases h
  · intro abs km h; rw [h] at hw; simp [waitArgs] at hw
  · intro h; rw [hf] at h; cases h
  · intro _ h; omega

/-- a silent step that stays outside the wait arguments -/
theorem Inv.quiet {fb : Bool} {s s' : St} {c : CSt} {m : TmoSt} (I : Inv fb s c m) (ht : s'.time = s.time)
    (hw : waitArgs s'.pc = none)
    (ho : m.owed = true → OwedAt s c s.pc → OwedAt s' c s'.pc)
    (hz : m.owed = false → 1 ≤ m.zeros → ZInv fb s m → ZInv fb s' m) : Inv fb s' c m := by
  refine ⟨by rw [ht]; exact I.clock, I.zle, ?_, ?_, fun h => ho h (I.owed h), fun h1 h2 => hz h1 h2 (I.zs h1 h2)⟩
  · intro abs km h; rw [hw] at h; cases h
  · intro abs km h; rw [h] at hw; simp [waitArgs] at hw

/-! ## what a step owes: the oracle accepts its records and the invariant holds afterwards -/

def Post (fb : Bool) (s' : St) (c : CSt) (m : TmoSt) (evs : List Ev) : Prop :=
  ∀ c', evs.foldlM ctrStep c = .ok c' →
    ∃ m', evs.foldlM tmoStepC m = .ok m' ∧ Zb fb m'.zeros ∧ (s'.pc = .dead ∨ Inv fb s' c' m')

variable {fb : Bool}

theorem Post.nil {s' : St} {c : CSt} {m : TmoSt} (h : s'.pc = .dead ∨ Inv fb s' c m) (hz : Zb fb m.zeros) : Post fb s' c m [] := by
  intro c' hc
  cases hc
  exact ⟨m, rfl, hz, h⟩

theorem Post.inv {s' : St} {c : CSt} {m : TmoSt} (h : Inv fb s' c m) : Post fb s' c m [] :=
  Post.nil (Or.inr h) h.zle

theorem fold1 {σ : Type} (f : σ → Ev → Except String σ) (a : σ) (e : Ev) : [e].foldlM f a = f a e := by
  simp [List.foldlM_cons]

theorem Post.dead {s' : St} {c : CSt} {m : TmoSt} {o : Out} (hz : Zb fb m.zeros) (hd : s'.pc = .dead)
    (ho : ProofsReach.isBad o = true) : Post fb s' c m [Ev.out o] := by
  intro c' hc
  refine ⟨m, ?_, hz, Or.inl hd⟩
  rw [fold1]
  cases o <;> simp [ProofsReach.isBad] at ho <;> rfl

theorem Post.cb {s' : St} {c : CSt} {m : TmoSt} (k : Cb) (hu : s'.pc = .user) (hc : c.last = ns s'.time) :
    Post fb s' c m [Ev.out (.cb k)] := by
  intro c' hc'
  rw [fold1] at hc'
  cases hc'
  refine ⟨{ m with owed := false, zeros := 0 }, by rw [fold1]; rfl, Zb.zero, Or.inr ?_⟩
  exact Inv.normal (by rw [hu]; rfl) hc rfl rfl

theorem Post.mainRet {s' : St} {c : CSt} {m : TmoSt} (hu : s'.pc = .user) (hc : c.last = ns s'.time) :
    Post fb s' c m [Ev.out .mainRet] := by
  intro c' hc'
  rw [fold1] at hc'
  cases hc'
  refine ⟨{}, by rw [fold1]; rfl, Zb.zero, Or.inr ?_⟩
  exact Inv.normal (by rw [hu]; rfl) hc rfl rfl


/-- a silent step from program point `p` to program point `q` outside the wait arguments -/
theorem Inv.step {s s' : St} {c : CSt} {m : TmoSt} (I : Inv fb s c m) {p q : Pc} (hp : s.pc = p) (hq : s'.pc = q)
    (ht : s'.time = s.time) (hw : waitArgs q = none)
    (ho : m.owed = true → OwedAt s c p → OwedAt s' c q)
    (hz : m.owed = false → 1 ≤ m.zeros → (m.zeros ≤ 1 ∨ s.method ≠ .ppoll) → ZAt fb s m p →
      (m.zeros ≤ 1 ∨ s'.method ≠ .ppoll) ∧ ZAt fb s' m q) : Inv fb s' c m := by
  refine I.quiet ht (by rw [hq]; exact hw) ?_ ?_
  · intro h1 h2; rw [hq]; rw [hp] at h2; exact ho h1 h2
  · intro h1 h2 h3
    unfold ZInv at h3 ⊢
    rw [hq]; rw [hp] at h3
    exact hz h1 h2 h3.1 h3.2

/-- a state outside both phases (the phases exclude program point `p`) -/
theorem Inv.idle {s : St} {c : CSt} {m : TmoSt} (I : Inv fb s c m) {p : Pc} (hp : s.pc = p)
    (h1 : OwedAt s c p → False) (h2 : ZAt fb s m p → False) : m.owed = false ∧ m.zeros = 0 := by
  have ho : m.owed = false := by
    cases h : m.owed with
    | false => rfl
    | true => exact (h1 (hp ▸ I.owed h)).elim
  refine ⟨ho, ?_⟩
  cases hz : m.zeros with
  | zero => rfl
  | succ n =>
    have := I.zs ho (by omega)
    unfold ZInv at this
    rw [hp] at this
    exact (h2 this.2).elim

/-! ## internal steps -/

theorem blk_mainTop {μ : M} {s : St} {c : CSt} {m : TmoSt} (g : Good μ s) (I : Inv fb s c m) (rt : Bool)
    (hpc : s.pc = .run (.mainTop rt)) :
    Post fb (internal s (.mainTop rt)).1 c m ((internal s (.mainTop rt)).2.map Ev.out) := by
  obtain ⟨b0, gb⟩ := g
  simp only [internal, goto]
  split
  · next hrt =>
    subst hrt
    split
    · next hn =>
      refine Post.inv (I.step hpc rfl rfl rfl (fun _ h => ?_) (fun _ _ hm h => ⟨hm, ?_⟩))
      · simp only [OwedAt] at h ⊢
        obtain ⟨_, _, d, _, hd⟩ := h
        exact num_pos_of_due gb.hinv hd hn
      · simp only [ZAt] at h ⊢
        exact Or.inl hn
    · split
      · next hn htv =>
        refine Post.inv (I.step hpc rfl rfl rfl (fun _ h => ?_) (fun _ _ hm h => ⟨hm, ?_⟩))
        · simp only [OwedAt] at h ⊢
          rw [h.2.1] at htv; cases htv
        · simp only [ZAt, ZD, if_true] at h ⊢
          rw [h] at htv; cases htv
      · next hn htv =>
        refine Post.inv (I.step hpc rfl rfl rfl (fun _ h => ?_) (fun _ _ hm h => ⟨hm, ?_⟩))
        · simp only [OwedAt] at h ⊢
          exact h.2.2
        · simp only [ZAt]
  · next hrt =>
    have hrt : rt = false := by simpa using hrt
    subst hrt
    refine Post.inv (I.step hpc rfl rfl rfl (fun _ h => ?_) (fun _ _ hm h => ⟨hm, ?_⟩))
    · simp only [OwedAt] at h
      cases h.1
    · simp only [ZAt, ZD, Bool.false_eq_true, if_false] at h ⊢
      rcases h.2 with h | h
      · exact Or.inl h
      · exact Or.inr (Or.inr h)

theorem le_of_ns {a b : TS} (ha : Nm a) (hb : Nm b) (h : ns a ≤ ns b) : a.le b := (le_iff_ns ha hb).2 h

theorem blk_collect {μ : M} {s : St} {c : CSt} {m : TmoSt} (g : Good μ s) (I : Inv fb s c m)
    (hpc : s.pc = .run .collect) :
    Post fb (internal s .collect).1 c m ((internal s .collect).2.map Ev.out) := by
  obtain ⟨b0, gb⟩ := g
  obtain ⟨h', batch, e, hinv', _, _, hmem, hon, _, hexp, _⟩ := Ivy.Heap.Proofs.collect_sorted s.heap s.time gb.hinv
  simp only [internal, e, goto]
  refine Post.inv (I.step hpc rfl rfl rfl (fun _ h => ?_) (fun _ _ hm h => ⟨hm, ?_⟩))
  · simp only [OwedAt] at h ⊢
    obtain ⟨r, hr, hle⟩ := h
    have : r ∈ batch := (hmem r).2 ⟨hr, le_of_ns (gb.expNN r (Or.inl hr)).nm gb.timeNN.nm hle⟩
    cases batch with
    | nil => cases this
    | cons t rest => exact ⟨t, rest, _, rfl⟩
  · simp only [ZAt] at h ⊢
    refine ⟨batch, _, rfl, fun _ => ⟨h, fun t ht => ?_⟩⟩
    have := (hon t).1 ht
    rw [hexp t]
    exact this.2

theorem blk_popTimer {μ : M} {s : St} {c : CSt} {m : TmoSt} (g : Good μ s) (I : Inv fb s c m)
    (hpc : s.pc = .run .popTimer) :
    Post fb (internal s .popTimer).1 c m ((internal s .popTimer).2.map Ev.out) := by
  simp only [internal, goto]
  split
  · next rest hst =>
    refine Post.inv (I.step hpc rfl rfl rfl (fun _ h => ?_) (fun _ _ hm h => ⟨hm, ?_⟩))
    · simp only [OwedAt] at h
      obtain ⟨t, r, rest', h⟩ := h
      rw [hst] at h; cases h
    · simp only [ZAt] at h ⊢
      obtain ⟨b, rest', h, hb⟩ := h
      rw [hst] at h; cases h
      exact Or.inr (Or.inl (hb rfl))
  · next t r rest hst =>
    split
    · exact Post.dead I.zle rfl rfl
    · exact Post.cb _ rfl I.clock
  · exact Post.dead I.zle rfl rfl

theorem blk_startTasks {μ : M} {s : St} {c : CSt} {m : TmoSt} (g : Good μ s) (I : Inv fb s c m)
    (hpc : s.pc = .run .startTasks) :
    Post fb (internal s .startTasks).1 c m ((internal s .startTasks).2.map Ev.out) := by
  simp only [internal, goto]
  refine Post.inv (I.step hpc rfl rfl rfl (fun _ h => ?_) (fun _ _ hm h => ⟨hm, ?_⟩))
  · simp only [OwedAt] at h
  · simp only [ZAt] at h ⊢
    exact ⟨⟨_, _, rfl⟩, trivial, h⟩

theorem blk_popTask {μ : M} {s : St} {c : CSt} {m : TmoSt} (g : Good μ s) (I : Inv fb s c m)
    (hpc : s.pc = .run .popTask) :
    Post fb (internal s .popTask).1 c m ((internal s .popTask).2.map Ev.out) := by
  simp only [internal, goto]
  split
  · next rest hst =>
    refine Post.inv (I.step hpc rfl rfl rfl (fun _ h => ?_) (fun _ _ hm h => ⟨hm, ?_⟩))
    · simp only [OwedAt] at h
    · simp only [ZAt] at h ⊢
      exact h.2
  · next k r rest hst =>
    split
    · exact Post.dead I.zle rfl rfl
    · split
      · refine Post.inv (I.step hpc rfl rfl rfl (fun _ h => ?_) (fun _ _ hm h => ⟨hm, ?_⟩))
        · simp only [OwedAt] at h
        · simp only [ZAt] at h ⊢
          exact ⟨⟨_, _, rfl⟩, h.2⟩
      · exact Post.cb _ rfl I.clock
  · exact Post.dead I.zle rfl rfl

theorem blk_runEvents {μ : M} {s : St} {c : CSt} {m : TmoSt} (g : Good μ s) (I : Inv fb s c m)
    (hpc : s.pc = .run .runEvents) :
    Post fb (internal s .runEvents).1 c m ((internal s .runEvents).2.map Ev.out) := by
  simp only [internal, goto]
  split
  · refine Post.inv (I.step hpc rfl rfl rfl (fun _ h => ?_) (fun _ _ hm h => ⟨hm, ?_⟩))
    · simp only [OwedAt] at h
    · simp only [ZAt] at h ⊢
      exact h
  · next hne =>
    refine Post.inv (I.step hpc rfl rfl rfl (fun _ h => ?_) (fun _ _ hm h => ⟨hm, ?_⟩))
    · simp only [OwedAt] at h
    · simp only [ZAt]
      cases hp : s.pending with
      | nil => rw [hp] at hne; simp at hne
      | cons e r => exact ⟨e, r, _, rfl⟩

theorem blk_popEvent {μ : M} {s : St} {c : CSt} {m : TmoSt} (g : Good μ s) (I : Inv fb s c m)
    (hpc : s.pc = .run .popEvent) :
    Post fb (internal s .popEvent).1 c m ((internal s .popEvent).2.map Ev.out) := by
  simp only [internal, goto]
  split
  · next rest hst =>
    refine Post.inv (I.step hpc rfl rfl rfl (fun _ h => ?_) (fun _ _ hm h => ⟨hm, ?_⟩))
    · simp only [OwedAt] at h
    · simp only [ZAt] at h
      obtain ⟨e, r, rest', h⟩ := h
      rw [hst] at h; cases h
  · split
    · exact Post.dead I.zle rfl rfl
    · exact Post.cb _ rfl I.clock
  · exact Post.dead I.zle rfl rfl

theorem blk_resume {μ : M} {s : St} {c : CSt} {m : TmoSt} (g : Good μ s) (I : Inv fb s c m)
    (hpc : s.pc = .run .resume) :
    Post fb (internal s .resume).1 c m ((internal s .resume).2.map Ev.out) := by
  simp only [internal, goto]
  split
  · refine Post.inv (I.step hpc rfl rfl rfl (fun _ h => ?_) (fun _ _ hm h => ⟨hm, ?_⟩))
    · simp only [OwedAt] at h
    · simp only [ZAt] at h ⊢
      exact h
  all_goals first
    | exact Post.dead I.zle rfl rfl
    | (next hst =>
        refine Post.inv (I.step hpc rfl rfl rfl (fun _ h => ?_) (fun _ _ hm h => ?_))
        · simp only [OwedAt] at h
        · simp only [ZAt] at h
          obtain ⟨⟨b, rest', h⟩, _⟩ := h
          rw [hst] at h; cases h)

theorem blk_exitCheck {μ : M} {s : St} {c : CSt} {m : TmoSt} (g : Good μ s) (I : Inv fb s c m)
    (hpc : s.pc = .run .exitCheck) :
    Post fb (internal s .exitCheck).1 c m ((internal s .exitCheck).2.map Ev.out) := by
  simp only [internal, goto]
  split
  · exact Post.mainRet rfl I.clock
  · refine Post.inv (I.step hpc rfl rfl rfl (fun _ h => ?_) (fun _ _ hm h => ⟨hm, ?_⟩))
    · simp only [OwedAt] at h
    · simp only [ZAt] at h ⊢
      exact h

theorem blk_dispatchNext {μ : M} {s : St} {c : CSt} {m : TmoSt} (g : Good μ s) (I : Inv fb s c m)
    (hpc : s.pc = .run .dispatchNext) :
    Post fb (internal s .dispatchNext).1 c m ((internal s .dispatchNext).2.map Ev.out) := by
  simp only [internal, goto]
  split
  · next rt rest hst =>
    refine Post.inv (I.step hpc rfl rfl rfl (fun _ h => ?_) (fun _ _ hm h => ⟨hm, ?_⟩))
    · simp only [OwedAt] at h ⊢
      obtain ⟨⟨rest', h1⟩, h2⟩ := h
      rw [hst] at h1; cases h1
      exact ⟨rfl, h2⟩
    · simp only [ZAt] at h ⊢
      obtain ⟨rt', rest', h1, h2⟩ := h
      rw [hst] at h1; cases h1
      exact h2
  · next f r rt rest hst =>
    refine Post.inv (I.step hpc rfl rfl rfl (fun _ h => ?_) (fun _ _ hm h => ?_))
    · simp only [OwedAt] at h
      obtain ⟨⟨rest', h1⟩, h2⟩ := h
      rw [hst] at h1; cases h1
    · simp only [ZAt] at h
      obtain ⟨rt', rest', h1, h2⟩ := h
      rw [hst] at h1; cases h1
  · exact Post.dead I.zle rfl rfl


theorem blk_fdStage {μ : M} {s : St} {c : CSt} {m : TmoSt} (g : Good μ s) (I : Inv fb s c m)
    (hpc : s.pc = .run .fdStage) :
    Post fb (internal s .fdStage).1 c m ((internal s .fdStage).2.map Ev.out) := by
  obtain ⟨hf, h0⟩ := I.idle hpc (by simp [OwedAt]) (by simp [ZAt])
  have key : ∀ s' : St, s'.time = s.time → waitArgs s'.pc = none → Inv fb s' c m :=
    fun s' h1 h2 => Inv.normal h2 (by rw [h1]; exact I.clock) h0 hf
  simp only [internal, goto, setTop]
  repeat' split
  all_goals first
    | exact Post.dead I.zle rfl rfl
    | exact Post.cb _ rfl I.clock
    | exact Post.inv (key _ rfl rfl)

/-! ### `iv_fd_timeout_check` -/

theorem tc_frame (s : St) (abs : Option TS) :
    (timeoutCheck s abs).1.heap = s.heap ∧ (timeoutCheck s abs).1.time = s.time ∧
    (timeoutCheck s abs).1.timeValid = s.timeValid ∧ (timeoutCheck s abs).1.tasks = s.tasks ∧
    ((timeoutCheck s abs).1.method = s.method ∨ (timeoutCheck s abs).1.method = .epoll) := by
  unfold timeoutCheck
  simp only []
  repeat' split
  all_goals simp

theorem tc_km (s : St) (abs : Option TS) (h1 : s.lastAbsCount = 5) (h2 : tsCmp abs s.lastAbs ≥ 0) :
    timeoutCheck s abs = (s, true) := by
  unfold timeoutCheck
  simp [h1, h2]

theorem tc_true (s : St) (abs : Option TS) (h : (timeoutCheck s abs).2 = true) :
    (timeoutCheck s abs).1.method = s.method ∧ (timeoutCheck s abs).1.lastAbsCount = 5 ∧
    tsCmp abs (timeoutCheck s abs).1.lastAbs ≥ 0 := by
  revert h
  unfold timeoutCheck
  simp only []
  repeat' split
  all_goals simp_all
  all_goals omega


/-- a silent step into (or inside) the program points that carry wait arguments, not the wait itself -/
theorem Inv.stepW {s s' : St} {c : CSt} {m : TmoSt} (I : Inv fb s c m) {p q : Pc} {abs : Option TS} {km : Bool}
    (hp : s.pc = p) (hq : s'.pc = q) (hqw : waitArgs q = some (abs, km)) (hnw : ∀ a k, q ≠ .waiting a k)
    (ht : s'.time = s.time)
    (hA : ∀ a, abs = some a → a = ⟨0, 0⟩ ∨ ∃ r, onHeap s'.heap r ∧ expOf s'.heap r = a)
    (ho : m.owed = true → OwedAt s c p → OwedAt s' c q)
    (hz : m.owed = false → 1 ≤ m.zeros → (m.zeros ≤ 1 ∨ s.method ≠ .ppoll) → ZAt fb s m p →
      (m.zeros ≤ 1 ∨ s'.method ≠ .ppoll) ∧ ZAt fb s' m q) : Inv fb s' c m := by
  refine ⟨by rw [ht]; exact I.clock, I.zle, ?_, ?_, ?_, ?_⟩
  · intro abs' km' h a ha
    rw [hq, hqw] at h
    cases h
    exact hA a ha
  · intro a k h; rw [hq] at h; exact absurd h (hnw a k)
  · intro h1; rw [hq]; exact ho h1 (hp ▸ I.owed h1)
  · intro h1 h2
    have h3 := I.zs h1 h2
    unfold ZInv at h3 ⊢
    rw [hq]; rw [hp] at h3
    exact hz h1 h2 h3.1 h3.2

theorem soonest_zero {h : Store} (hn : h.num = 0) : soonest h = none := by
  unfold soonest; rw [if_pos hn]

theorem blk_prepWait {μ : M} {s : St} {c : CSt} {m : TmoSt} (g : Good μ s) (I : Inv fb s c m)
    (hpc : s.pc = .run .prepWait) :
    Post fb (internal s .prepWait).1 c m ((internal s .prepWait).2.map Ev.out) := by
  obtain ⟨b0, gb⟩ := g
  -- the deadline handed on is the head of the heap, or zero
  have hA : ∀ a, (if (!s.tasks.isEmpty) = true then some (⟨0, 0⟩ : TS) else soonest s.heap) = some a →
      a = ⟨0, 0⟩ ∨ ∃ r, onHeap s.heap r ∧ expOf s.heap r = a := by
    intro a ha
    split at ha
    · cases ha; exact Or.inl rfl
    · exact Or.inr (soonest_some gb.hinv ha)
  -- in the calm phase the deadline is the head of the heap and it is not due
  have hW : ∀ s1 : St, s1.heap = s.heap → s1.time = s.time → s1.timeValid = s.timeValid →
      s.tasks = [] → (s.heap.num = 0 ∨ NoneDue s) →
      WArgs s1 (if (!s.tasks.isEmpty) = true then some (⟨0, 0⟩ : TS) else soonest s.heap) false := by
    intro s1 e1 e2 e3 htk hc
    rw [htk]
    simp only [List.isEmpty_nil, Bool.not_true, Bool.false_eq_true, if_false]
    refine Or.inr ⟨rfl, ?_⟩
    rcases hc with hn | ⟨htv, hnd⟩
    · exact Or.inl ⟨soonest_zero hn, by rw [e1]; exact hn⟩
    · cases hs : soonest s.heap with
      | none => exact Or.inl ⟨rfl, by rw [e1]; exact soonest_none gb.hinv hs⟩
      | some a =>
        obtain ⟨r, hr, hre⟩ := soonest_some gb.hinv hs
        refine Or.inr ⟨a, rfl, by rw [e3]; exact htv, ?_⟩
        rw [e2, ← hre]; exact hnd r hr
  simp only [internal, goto]
  split
  · next hm =>
    have hm : s.method = .epollTimerfd := by simpa using hm
    generalize habs : (if (!s.tasks.isEmpty) = true then some (⟨0, 0⟩ : TS) else soonest s.heap) = abs at hA hW
    obtain ⟨f1, f2, f3, f4, f5⟩ := tc_frame s abs
    have ht := tc_true s abs
    have hk := tc_km s abs
    generalize timeoutCheck s abs = r at f1 f2 f3 f4 f5 ht hk
    obtain ⟨s1, rr⟩ := r
    simp only at f1 f2 f3 f4 f5 ht hk ⊢
    have hmeth : m.zeros ≤ 1 ∨ s1.method ≠ .ppoll := by
      right
      rcases f5 with h | h <;> rw [h] <;> simp [hm]
    split
    · next hr =>
      subst hr
      obtain ⟨t1, t2, t3⟩ := ht rfl
      refine Post.inv (I.stepW hpc rfl rfl (by simp) f2 (fun a ha => by cases ha) (fun _ h => ?_)
        (fun _ _ _ h => ⟨hmeth, ?_⟩))
      · simp only [OwedAt] at h
      · simp only [ZAt] at h ⊢
        refine ⟨by rw [f4]; exact h.1, Or.inl ⟨rfl, rfl, by rw [t1]; exact hm, t2, ?_⟩⟩
        have hab : abs = soonest s.heap := by rw [← habs, h.1]; rfl
        show tsCmp (soonest s1.heap) s1.lastAbs ≥ 0
        rw [f1, ← hab]; exact t3
    · next hr =>
      have hr : rr = false := by simpa using hr
      subst hr
      refine Post.inv (I.stepW hpc rfl rfl (by simp) f2 (fun a ha => by rw [f1]; exact hA a ha) (fun _ h => ?_)
        (fun _ _ _ h => ⟨hmeth, ?_⟩))
      · simp only [OwedAt] at h
      · simp only [ZAt] at h ⊢
        refine ⟨by rw [f4]; exact h.1, ?_⟩
        rcases h.2 with hc | hc | hc
        · exact hW s1 f1 f2 f3 h.1 (Or.inl hc)
        · exact hW s1 f1 f2 f3 h.1 (Or.inr hc)
        · exfalso
          have := hk hc.2.1 (by rw [← habs, h.1]; simpa using hc.2.2)
          cases this
  · next hm =>
    refine Post.inv (I.stepW hpc rfl rfl (by simp) rfl hA (fun _ h => ?_) (fun _ _ hmm h => ⟨hmm, ?_⟩))
    · simp only [OwedAt] at h
    · simp only [ZAt] at h ⊢
      refine ⟨h.1, ?_⟩
      rcases h.2 with hc | hc | hc
      · exact hW _ rfl rfl rfl h.1 (Or.inl hc)
      · exact hW _ rfl rfl rfl h.1 (Or.inr hc)
      · exfalso; rw [hc.1] at hm; simp at hm

theorem flush_tasks (l : List FdId) : ∀ s : St, (l.foldl epollFlushOne s).tasks = s.tasks := by
  induction l with
  | nil => intro s; rfl
  | cons a as ih =>
    intro s
    rw [List.foldl_cons, ih]
    unfold epollFlushOne
    simp only []
    split <;> rfl

theorem KM.same {s s' : St} (h : Same s s') (k : KM s) : KM s' := by
  unfold KM at *
  rw [h.method, h.lastAbsCount, h.heap, h.lastAbs]
  exact k

theorem WArgs.same {s s' : St} {abs : Option TS} {km : Bool} (h : Same s s') (w : WArgs s abs km) : WArgs s' abs km := by
  unfold WArgs at *
  rw [h.heap, h.timeValid, h.time]
  rcases w with ⟨a, b, k⟩ | w
  · exact Or.inl ⟨a, b, k.same h⟩
  · exact Or.inr w

theorem blk_flush {μ : M} {s : St} {c : CSt} {m : TmoSt} (g : Good μ s) (I : Inv fb s c m)
    (abs : Option TS) (km : Bool) (hpc : s.pc = .run (.flush abs km)) :
    Post fb (internal s (.flush abs km)).1 c m ((internal s (.flush abs km)).2.map Ev.out) := by
  have hS : Same s (if s.method.isEpoll = true then List.foldl epollFlushOne s s.notify else s) := by
    split
    · exact same_foldl_flush _ _
    · exact Same.refl _
  have hT : (if s.method.isEpoll = true then List.foldl epollFlushOne s s.notify else s).tasks = s.tasks := by
    split
    · exact flush_tasks _ _
    · rfl
  simp only [internal, goto]
  generalize (if s.method.isEpoll = true then List.foldl epollFlushOne s s.notify else s) = s1 at hS hT
  have hA : ∀ a, abs = some a → a = ⟨0, 0⟩ ∨ ∃ r, onHeap s1.heap r ∧ expOf s1.heap r = a := by
    intro a ha
    rw [hS.heap]
    exact I.absR abs km (by rw [hpc]; rfl) a ha
  split
  · next hc =>
    simp only [Bool.and_eq_true, Bool.not_eq_true'] at hc
    refine Post.inv (I.stepW hpc rfl rfl (by simp) hS.time hA (fun _ h => ?_) (fun _ _ hmm h => ?_))
    · simp only [OwedAt] at h
    · simp only [ZAt] at h
      exfalso
      rcases h.2 with ⟨_, e, _⟩ | ⟨_, ⟨e, _⟩ | ⟨a, e, htv, _⟩⟩
      · rw [e] at hc; simp at hc
      · rw [e] at hc; simp at hc
      · rw [hS.timeValid, htv] at hc; simp at hc
  · refine Post.inv (I.stepW hpc rfl rfl (by simp) hS.time hA (fun _ h => ?_)
      (fun _ _ hmm h => ⟨by rw [hS.method]; exact hmm, ?_⟩))
    · simp only [OwedAt] at h
    · simp only [ZAt] at h ⊢
      exact Or.inl ⟨by rw [hT]; exact h.1, (h.2.same hS : WArgs s1 abs km)⟩


/-! ### the wait itself -/

def toPos : Timeout → Bool
  | .inf => false
  | .ns v => decide (v > 0)
  | .ms v => decide (v > 0) && decide (v < 86400000)

def toZero : Timeout → Bool
  | .inf => false
  | .ns v => decide (v = 0)
  | .ms v => decide (v = 0)

theorem tmo_wait {m : TmoSt} (hm : m.owed = false) (p : String) (to : Timeout) (i : List (FdId × Bands))
    (k : Option (Option TS)) (kk : Option Bool) :
    tmoStepC m (.out (.wait p to i k kk)) = .ok { m with sleep := toPos to, zero := toZero to } := by
  cases to <;> simp [tmoStepC, tmoStep, hm, toPos, toZero]

/-- what the timeout of a wait says about its deadline `a` -/
theorem timeout_facts {s : St} {a : TS} (hn : NN s.time) (ha : Nm a) :
    (toPos (timeoutOf s (some a)) = true →
      a ≠ ⟨0, 0⟩ ∧ ∃ d, toDeadline (ns s.time) (timeoutOf s (some a)) = some d ∧ ns a ≤ d) ∧
    (a.gt s.time = true → toZero (timeoutOf s (some a)) = false) := by
  rcases timeoutOf_some s a with e | e
  · rw [e]
    simp only [toPos, toZero, toDeadline, decide_eq_true_eq, decide_eq_false_iff_not]
    refine ⟨fun hv => ?_, fun hg => ?_⟩
    · obtain ⟨h1, h2⟩ := ns_deadline hn ha hv
      exact ⟨h2, _, by rw [if_pos hv], h1⟩
    · have := (pos_of_gt hn.nm ha hg).1
      omega
  · rw [e]
    simp only [toPos, toZero, toDeadline, Bool.and_eq_true, decide_eq_true_eq, decide_eq_false_iff_not]
    refine ⟨fun hv => ?_, fun hg => ?_⟩
    · obtain ⟨h1, h2⟩ := ms_deadline hn ha hv.1 hv.2
      exact ⟨h2, _, by rw [if_pos hv.1], h1⟩
    · have := (pos_of_gt hn.nm ha hg).2
      omega

theorem blk_wait {μ : M} {s : St} {c : CSt} {m : TmoSt} (g : Good μ s) (I : Inv fb s c m)
    (abs : Option TS) (km : Bool) (hpc : s.pc = .run (.wait abs km)) :
    Post fb (internal s (.wait abs km)).1 c m ((internal s (.wait abs km)).2.map Ev.out) := by
  obtain ⟨b0, gb⟩ := g
  have hf : m.owed = false := by
    cases h : m.owed with
    | false => rfl
    | true =>
      have := I.owed h
      rw [hpc] at this
      simp [OwedAt] at this
  simp only [internal, List.map_cons, List.map_nil]
  intro c' hc'
  rw [fold1] at hc'
  simp only [ctrStep, Except.ok.injEq] at hc'
  subst hc'
  refine ⟨{ m with sleep := toPos (timeoutOf s abs), zero := toZero (timeoutOf s abs) },
    by rw [fold1]; exact tmo_wait hf _ _ _ _ _, I.zle, Or.inr ?_⟩
  -- facts about the deadline
  have hfacts : ∀ a, abs = some a →
      (toPos (timeoutOf s abs) = true →
        a ≠ ⟨0, 0⟩ ∧ ∃ d, toDeadline (ns s.time) (timeoutOf s abs) = some d ∧ ns a ≤ d) ∧
      (a.gt s.time = true → toZero (timeoutOf s abs) = false) := by
    intro a ha
    subst ha
    have hw := gb.wait (some a) km (by rw [hpc]; rfl)
    unfold WaitOk at hw
    split at hw
    · cases hw.1
    · exact timeout_facts gb.timeNN hw.2.1
  refine ⟨I.clock, I.zle, ?_, ?_, ?_, ?_⟩
  · intro abs' km' h a ha
    simp only [waitArgs, Option.some.injEq, Prod.mk.injEq] at h
    obtain ⟨rfl, rfl⟩ := h
    exact I.absR _ _ (by rw [hpc]; rfl) a ha
  · intro abs' km' h
    simp only [Pc.waiting.injEq] at h
    obtain ⟨rfl, rfl⟩ := h
    simp only []
    cases habs : abs with
    | none => simp [timeoutOf_none, toPos, toZero]
    | some a =>
      refine ⟨fun hp => ⟨rfl, ?_⟩, fun _ => rfl⟩
      subst habs
      obtain ⟨hne, d, hd, hle⟩ := (hfacts a rfl).1 hp
      refine ⟨d, by rw [I.clock]; exact hd, ?_⟩
      rcases I.absR (some a) km (by rw [hpc]; rfl) a rfl with h0 | ⟨r, hr, hre⟩
      · exact absurd h0 hne
      · exact ⟨r, hr, by rw [hre]; exact hle⟩
  · intro h; rw [hf] at h; cases h
  · intro _ h1
    have hz := I.zs hf h1
    unfold ZInv at hz ⊢
    rw [hpc] at hz
    refine ⟨hz.1, ?_⟩
    simp only [ZAt] at hz ⊢
    rcases hz.2 with ⟨h2, h3⟩ | h2
    · refine Or.inl ⟨h2, h3, ?_⟩
      rcases h3 with ⟨_, e, _⟩ | ⟨_, ⟨e, _⟩ | ⟨a, e, _, hg⟩⟩
      · rw [e]; rfl
      · rw [e]; rfl
      · exact (hfacts a e).2 hg
    · exact Or.inr h2


theorem internal_post {μ : M} {s : St} {c : CSt} {m : TmoSt} (g : Good μ s) (I : Inv fb s c m) (b : Block)
    (hpc : s.pc = .run b) :
    Post fb (internal s b).1 c m ((internal s b).2.map Ev.out) := by
  cases b with
  | mainTop rt => exact blk_mainTop g I rt hpc
  | collect => exact blk_collect g I hpc
  | popTimer => exact blk_popTimer g I hpc
  | startTasks => exact blk_startTasks g I hpc
  | popTask => exact blk_popTask g I hpc
  | runEvents => exact blk_runEvents g I hpc
  | popEvent => exact blk_popEvent g I hpc
  | resume => exact blk_resume g I hpc
  | exitCheck => exact blk_exitCheck g I hpc
  | prepWait => exact blk_prepWait g I hpc
  | flush abs km => exact blk_flush g I abs km hpc
  | wait abs km => exact blk_wait g I abs km hpc
  | dispatchNext => exact blk_dispatchNext g I hpc
  | fdStage => exact blk_fdStage g I hpc

/-! ## inputs -/

/-- the shape of the outputs of an input step outside the wait -/
inductive Shape (s' : St) : List Out → Prop
  | dead (o : Out) : s'.pc = .dead → ProofsReach.isBad o = true → Shape s' [o]
  | nil : waitArgs s'.pc = none → Shape s' []
  | ret (v : Int) : waitArgs s'.pc = none → Shape s' [Out.ret v]
  | cb (k : Cb) : s'.pc = .user → Shape s' [Out.cb k]

theorem Post.idle {s' : St} {c : CSt} {m : TmoSt} {i : Input} {outs : List Out} (hf : m.owed = false)
    (h0 : m.zeros = 0) (hmi : tmoStepC m (.inp i) = .ok m) (hci : ctrStep c (.inp i) = .ok c)
    (hc : c.last = ns s'.time) (hsh : Shape s' outs) : Post fb s' c m (Ev.inp i :: outs.map Ev.out) := by
  intro c' hc'
  rw [List.foldlM_cons, hci] at hc'
  change (outs.map Ev.out).foldlM ctrStep c = .ok c' at hc'
  rw [List.foldlM_cons, hmi]
  change ∃ m', (outs.map Ev.out).foldlM tmoStepC m = .ok m' ∧ _
  cases hsh with
  | dead o hd hb => exact Post.dead (by rw [h0]; exact Zb.zero) hd hb c' hc'
  | nil hw => cases hc'; exact ⟨m, rfl, by rw [h0]; exact Zb.zero, Or.inr (Inv.normal hw hc h0 hf)⟩
  | ret v hw =>
    rw [List.map_cons, List.map_nil, fold1] at hc' ⊢
    cases hc'
    exact ⟨m, rfl, by rw [h0]; exact Zb.zero, Or.inr (Inv.normal hw hc h0 hf)⟩
  | cb k hu => exact Post.cb k hu hc c' hc'

theorem api_shape (s : St) (a : Api) (hpc : s.pc = .user) : Shape (api s a).1 (api s a).2 := by
  have hu : waitArgs s.pc = none := by rw [hpc]; rfl
  by_cases h1 : ∃ t e, a = .timerRegister t e
  · obtain ⟨t, e, rfl⟩ := h1
    simp only [api]
    split
    · exact Shape.ret 0 hu
    · exact Shape.dead _ rfl rfl
    · exact Shape.dead _ rfl rfl
  by_cases h2 : ∃ t, a = .timerUnregister t
  · obtain ⟨t, rfl⟩ := h2
    simp only [api]
    split
    · exact Shape.ret 0 hu
    · exact Shape.dead _ rfl rfl
    · exact Shape.dead _ rfl rfl
  by_cases h3 : a = .main
  · subst h3
    simp only [api]
    split
    · exact Shape.nil rfl
    · exact Shape.dead _ rfl rfl
  by_cases h4 : a = .validateNow
  · subst h4
    simp only [api]
    split
    · exact Shape.nil hu
    · exact Shape.nil rfl
  by_cases h5 : a = .invalidateNow
  · subst h5
    exact Shape.nil hu
  rcases api_same s a (fun t e h => h1 ⟨t, e, h⟩) (fun t h => h2 ⟨t, h⟩) h3 h4 h5 with ⟨msg, h⟩ | ⟨hs, ho⟩
  · rw [h]; exact Shape.dead _ rfl rfl
  · have hw : waitArgs (api s a).1.pc = none := by rw [hs.pc]; exact hu
    rcases ho with ho | ⟨v, ho⟩
    · rw [ho]; exact Shape.nil hw
    · rw [ho]; exact Shape.ret v hw


/-! ### the clock is read -/

theorem inp_time {μ : M} {s : St} {c : CSt} {m : TmoSt} (g : Good μ s) (I : Inv fb s c m) (k : TimeK) (t : TS)
    (hpc : s.pc = .needTime k) :
    Post fb (afterTime s t k).1 c m (Ev.inp (.time t) :: (afterTime s t k).2.map Ev.out) := by
  have houts : (afterTime s t k).2 = [] := by cases k <;> rfl
  have htime : (afterTime s t k).1.time = t := by cases k <;> rfl
  rw [houts]
  intro c' hc'
  rw [List.map_nil, fold1] at hc' ⊢
  refine ⟨m, rfl, I.zle, Or.inr ?_⟩
  -- the contract
  have hcl : c'.last = ns t ∧ (∀ d, c.due = some d → d ≤ ns t) := by
    simp only [ctrStep] at hc'
    split at hc'
    · next d hd =>
      split at hc'
      · next hle => cases hc'; exact ⟨rfl, fun d' h => by rw [hd] at h; cases h; exact hle⟩
      · cases hc'
    · next hd => cases hc'; exact ⟨rfl, fun d h => by rw [hd] at h; cases h⟩
  cases k with
  | forTimers =>
    refine ⟨by rw [htime]; exact hcl.1, I.zle, ?_, ?_, ?_, ?_⟩
    · intro abs km h; simp [afterTime, goto, waitArgs] at h
    · intro abs km h; simp [afterTime, goto] at h
    · intro ho
      have := I.owed ho
      rw [hpc] at this
      simp only [OwedAt] at this
      obtain ⟨d, hd, r, hr, hle⟩ := this
      show OwedAt _ c' (.run .collect)
      simp only [OwedAt]
      exact ⟨r, hr, Int.le_trans hle (hcl.2 d hd)⟩
    · intro hf h1
      have := I.zs hf h1
      unfold ZInv at this ⊢
      refine ⟨this.1, ?_⟩
      show ZAt fb _ m (.run .collect)
      simp only [ZAt]
      rfl
  | forWait abs km =>
    refine ⟨by rw [htime]; exact hcl.1, I.zle, ?_, ?_, ?_, ?_⟩
    · intro abs' km' h a ha
      simp only [afterTime, goto, waitArgs, Option.some.injEq, Prod.mk.injEq] at h
      obtain ⟨rfl, rfl⟩ := h
      exact I.absR _ _ (by rw [hpc]; rfl) a ha
    · intro abs' km' h; simp [afterTime, goto] at h
    · intro ho
      have := I.owed ho
      rw [hpc] at this
      simp only [OwedAt] at this
    · intro hf h1
      have := I.zs hf h1
      unfold ZInv at this ⊢
      rw [hpc] at this
      refine ⟨this.1, ?_⟩
      show ZAt fb _ m (.run (.wait abs km))
      simp only [ZAt] at this ⊢
      exact Or.inr this.2
  | forValidate =>
    obtain ⟨hf, h0⟩ := I.idle hpc (by simp [OwedAt]) (by simp [ZAt])
    exact Inv.normal rfl (by rw [htime]; exact hcl.1) h0 hf

/-! ### the wait returns -/

def wakeRt (s : St) (abs : Option TS) : Bool := if s.method == .epollTimerfd then abs.isSome else true

/-- the state after `EINTR` or an empty result -/
def wake (s : St) (abs : Option TS) (km : Bool) : St :=
  { s with timeValid := false, lastAbsCount := if km && wakeRt s abs then 0 else s.lastAbsCount,
           stack := .poll [] (wakeRt s abs) :: s.stack, pc := .run .dispatchNext }

theorem wake_eq (s : St) (abs : Option TS) (km : Bool) : afterWait s abs km .eintr = (wake s abs km, []) := by
  cases km <;> cases abs <;> cases h : (s.method == .epollTimerfd) <;> simp [afterWait, goto, wake, wakeRt, h]

theorem wake_eq' (s : St) (abs : Option TS) (km : Bool) : afterWait s abs km (.events []) = (wake s abs km, []) :=
  wake_eq s abs km

theorem wakeRt_some {s : St} {abs : Option TS} (h : abs.isSome = true) : wakeRt s abs = true := by
  unfold wakeRt; split <;> simp [h]

theorem zd_wake {s : St} {abs : Option TS} {km : Bool}
    (h : (s.tasks = [] ∧ WArgs s abs km) ∨ abs.isSome = true) : ZD (wake s abs km) (wakeRt s abs) := by
  have hsome : abs.isSome = true → ZD (wake s abs km) (wakeRt s abs) := by
    intro ha
    rw [wakeRt_some ha]
    unfold ZD
    rw [if_pos rfl]
    rfl
  rcases h with ⟨ht, ⟨rfl, rfl, hK⟩ | ⟨rfl, ⟨rfl, hn⟩ | ⟨a, rfl, _, _⟩⟩⟩ | ha
  · have hr : wakeRt s none = false := by simp [wakeRt, hK.1]
    rw [hr]
    unfold ZD
    rw [if_neg (by simp)]
    refine ⟨ht, Or.inr ⟨hK.1, ?_, hK.2.2⟩⟩
    show (if (true && wakeRt s none) = true then 0 else s.lastAbsCount) = 5
    rw [hr]
    exact hK.2.1
  · unfold ZD
    split
    · rfl
    · exact ⟨ht, Or.inl hn⟩
  · exact hsome rfl
  · exact hsome ha

theorem afterWait_events_shape (s : St) (abs : Option TS) (km : Bool) (l : List WItem) :
    (afterWait s abs km (.events l)).2 = [] ∧ waitArgs (afterWait s abs km (.events l)).1.pc = none := by
  rw [Ivy.L1.ProofsC02.afterWait_events]
  simp only [goto]
  generalize List.foldl Ivy.L1.ProofsC02.wfold _ l = r
  by_cases hr : r.2.2.2 = true <;> simp [hr, waitArgs]


theorem not_owed_waiting {s : St} {c : CSt} {m : TmoSt} (I : Inv fb s c m) {abs : Option TS} {km : Bool}
    (hpc : s.pc = .waiting abs km) : m.owed = false := by
  cases h : m.owed with
  | false => rfl
  | true =>
    have := I.owed h
    rw [hpc] at this
    simp [OwedAt] at this

theorem zat_waiting {s : St} {c : CSt} {m : TmoSt} (I : Inv fb s c m) {abs : Option TS} {km : Bool}
    (hpc : s.pc = .waiting abs km) (h1 : 1 ≤ m.zeros) :
    (m.zeros ≤ 1 ∨ s.method ≠ .ppoll) ∧
    ((s.tasks = [] ∧ WArgs s abs km ∧ m.zero = false) ∨
      (fb = true ∧ s.method = .poll ∧ m.zeros ≤ 1 ∧ abs.isSome = true)) := by
  have := I.zs (not_owed_waiting I hpc) h1
  unfold ZInv at this
  rw [hpc] at this
  simpa only [ZAt] using this

/-- `EINTR`, or an empty result of a wait that was neither a sleep nor a zero-timeout poll: the oracle does not move -/
theorem wake_plain {s : St} {c c' : CSt} {m : TmoSt} (I : Inv fb s c m) {abs : Option TS} {km : Bool}
    (hpc : s.pc = .waiting abs km) (hc : c'.last = c.last) : Inv fb (wake s abs km) c' m := by
  have hf := not_owed_waiting I hpc
  refine ⟨by rw [hc]; exact I.clock, I.zle, ?_, ?_, ?_, ?_⟩
  · intro a k h; simp [wake, waitArgs] at h
  · intro a k h; simp [wake] at h
  · intro h; rw [hf] at h; cases h
  · intro _ h1
    obtain ⟨z1, z2⟩ := zat_waiting I hpc h1
    refine ⟨z1, ?_⟩
    show ZAt fb _ m (.run .dispatchNext)
    simp only [ZAt]
    refine ⟨wakeRt s abs, s.stack, rfl, zd_wake ?_⟩
    rcases z2 with ⟨a, b, _⟩ | ⟨_, _, _, a⟩
    · exact Or.inl ⟨a, b⟩
    · exact Or.inr a

theorem inp_wret {μ : M} {s : St} {c : CSt} {m : TmoSt} (g : Good μ s) (I : Inv fb s c m) (abs : Option TS) (km : Bool)
    (r : WRes) (hpc : s.pc = .waiting abs km) (ht : (afterWait s abs km r).1.time = s.time)
    (hfb : fb = true ∨ r ≠ .enosys) :
    Post fb (afterWait s abs km r).1 c m (Ev.inp (.wret r) :: (afterWait s abs km r).2.map Ev.out) := by
  have hf := not_owed_waiting I hpc
  cases r with
  | eintr =>
    rw [wake_eq]
    intro c' hc'
    rw [List.map_nil, fold1] at hc' ⊢
    simp only [ctrStep, Except.ok.injEq] at hc'
    subst hc'
    exact ⟨m, rfl, I.zle, Or.inr (wake_plain I hpc rfl)⟩
  | events l =>
    cases l with
    | cons x l' =>
      obtain ⟨ho, hw⟩ := afterWait_events_shape s abs km (x :: l')
      rw [ho]
      intro c' hc'
      rw [List.map_nil, fold1] at hc' ⊢
      simp only [ctrStep, Except.ok.injEq] at hc'
      subst hc'
      refine ⟨{ m with owed := false, zeros := 0 }, rfl, Zb.zero, Or.inr ?_⟩
      exact Inv.normal hw (by rw [ht]; exact I.clock) rfl rfl
    | nil =>
      rw [wake_eq']
      intro c' hc'
      rw [List.map_nil, fold1] at hc' ⊢
      simp only [ctrStep, Except.ok.injEq, List.isEmpty_nil, if_true] at hc'
      subst hc'
      obtain ⟨lk1, lk2⟩ := I.link abs km hpc
      cases hs : m.sleep with
      | true =>
        -- the timeout of a sleep ran out: a timer is due at the next clock reading
        obtain ⟨habs, d, hd, hdue⟩ := lk1 hs
        refine ⟨{ m with owed := true }, by simp [tmoStepC, tmoStep, hs], I.zle, Or.inr ?_⟩
        refine ⟨I.clock, I.zle, ?_, ?_, ?_, ?_⟩
        · intro a k h; simp [wake, waitArgs] at h
        · intro a k h; simp [wake] at h
        · intro _
          show OwedAt _ _ (.run .dispatchNext)
          simp only [OwedAt]
          refine ⟨⟨s.stack, ?_⟩, rfl, d, hd, hdue⟩
          show Frame.poll [] (wakeRt s abs) :: s.stack = _
          rw [wakeRt_some habs]
        · intro h; cases h
      | false =>
        cases hz : m.zero with
        | false =>
          refine ⟨m, by simp [tmoStepC, tmoStep, hs, hz], I.zle, Or.inr (wake_plain I hpc rfl)⟩
        | true =>
          -- an empty zero-timeout poll
          have habs := lk2 hz
          have hle : m.zeros ≤ 1 ∧ (m.zeros = 1 → s.method ≠ .ppoll ∧ fb = true) := by
            by_cases h1 : 1 ≤ m.zeros
            · obtain ⟨_, z2⟩ := zat_waiting I hpc h1
              rcases z2 with ⟨_, _, hz0⟩ | ⟨hfb', hm, hle, _⟩
              · rw [hz] at hz0; cases hz0
              · exact ⟨hle, fun _ => ⟨by rw [hm]; simp, hfb'⟩⟩
            · exact ⟨by omega, fun h => by omega⟩
          have hng : ¬ m.zeros ≥ 2 := by omega
          have hzb : Zb fb (m.zeros + 1) := by
            refine ⟨by omega, fun hfalse => ?_⟩
            by_cases h0 : m.zeros = 0
            · omega
            · have := (hle.2 (by omega)).2
              rw [hfalse] at this; cases this
          refine ⟨{ m with zeros := m.zeros + 1 }, by simp [tmoStepC, tmoStep, hs, hz, hng], hzb, Or.inr ?_⟩
          refine ⟨I.clock, hzb, ?_, ?_, ?_, ?_⟩
          · intro a k h; simp [wake, waitArgs] at h
          · intro a k h; simp [wake] at h
          · intro h; rw [hf] at h; cases h
          · intro _ _
            refine ⟨?_, ?_⟩
            · by_cases h0 : m.zeros = 0
              · left; simp [h0]
              · right; exact (hle.2 (by omega)).1
            · show ZAt fb _ _ (.run .dispatchNext)
              simp only [ZAt]
              exact ⟨wakeRt s abs, s.stack, rfl, zd_wake (Or.inr habs)⟩
  | enosys =>
    have hfb : fb = true := hfb.resolve_right (by simp)
    have hA : ∀ a, abs = some a → a = ⟨0, 0⟩ ∨ ∃ r, onHeap s.heap r ∧ expOf s.heap r = a :=
      fun a ha => I.absR abs km (by rw [hpc]; rfl) a ha
    have hctr : ∀ c', ctrStep c (.inp (.wret .enosys)) = .ok c' → c'.last = c.last := by
      intro c' h
      simp only [ctrStep, Except.ok.injEq] at h
      subst h; rfl
    -- the invariant after a retry with the same arguments
    have retry : ∀ (s' : St) (c' : CSt) (q : Pc), s'.pc = q → waitArgs q = some (abs, km) →
        (∀ a k, q ≠ .waiting a k) → s'.time = s.time → s'.heap = s.heap → c'.last = c.last →
        (1 ≤ m.zeros → (m.zeros ≤ 1 ∨ s'.method ≠ .ppoll) ∧ ZAt fb s' m q) → Inv fb s' c' m := by
      intro s' c' q hq hqw hnw h1 h2 h3 h4
      refine ⟨by rw [h3, h1]; exact I.clock, I.zle, ?_, ?_, ?_, ?_⟩
      · intro abs' km' h a ha
        rw [hq, hqw] at h
        cases h
        rw [h2]; exact hA a ha
      · intro a k h; rw [hq] at h; exact absurd h (hnw a k)
      · intro h; rw [hf] at h; cases h
      · intro _ hz1
        unfold ZInv
        rw [hq]
        exact h4 hz1
    have fin : ∀ (s' : St) (q : Pc), s'.pc = q → waitArgs q = some (abs, km) →
        (∀ a k, q ≠ .waiting a k) → s'.time = s.time → s'.heap = s.heap →
        (1 ≤ m.zeros → (m.zeros ≤ 1 ∨ s'.method ≠ .ppoll) ∧ ZAt fb s' m q) →
        Post fb s' c m [Ev.inp (.wret .enosys)] := by
      intro s' q hq hqw hnw h1 h2 h4 c' hc'
      rw [fold1] at hc' ⊢
      exact ⟨m, rfl, I.zle, Or.inr (retry s' c' q hq hqw hnw h1 h2 (hctr c' hc') h4)⟩
    have dead : ∀ (s' : St) (msg : String), s'.pc = .dead →
        Post fb s' c m (Ev.inp (.wret .enosys) :: [Ev.out (.fatal msg)]) := by
      intro s' msg hd c' hc'
      refine ⟨m, rfl, I.zle, Or.inl hd⟩
    simp only [afterWait, goto, Ivy.L1.fatal]
    split
    · -- epoll with timerfd
      split
      · refine fin _ _ rfl rfl (by simp) rfl rfl (fun h1 => ?_)
        obtain ⟨z1, z2⟩ := zat_waiting I hpc h1
        refine ⟨z1, ?_⟩
        simp only [ZAt]
        rcases z2 with ⟨a, b, _⟩ | z2
        · exact Or.inl ⟨a, b⟩
        · exact Or.inr z2
      · exact dead _ _ rfl
    · split
      · refine fin _ _ rfl rfl (by simp) rfl rfl (fun h1 => ?_)
        obtain ⟨z1, z2⟩ := zat_waiting I hpc h1
        refine ⟨z1, ?_⟩
        simp only [ZAt]
        rcases z2 with ⟨a, b, _⟩ | z2
        · exact Or.inl ⟨a, b⟩
        · exact Or.inr z2
      · exact dead _ _ rfl
    · next hm =>
      -- ppoll falls back to poll and reads the clock again
      split
      · next habs =>
        refine fin _ _ rfl rfl (by simp) rfl rfl (fun h1 => ?_)
        obtain ⟨z1, z2⟩ := zat_waiting I hpc h1
        refine ⟨Or.inr (by simp), ?_⟩
        simp only [ZAt]
        refine ⟨hfb, trivial, ?_, habs⟩
        rcases z1 with z1 | z1
        · exact z1
        · exact absurd hm z1
      · next habs =>
        refine fin _ _ rfl rfl (by simp) rfl rfl (fun h1 => ?_)
        obtain ⟨z1, z2⟩ := zat_waiting I hpc h1
        refine ⟨Or.inr (by simp), ?_⟩
        simp only [ZAt]
        rcases z2 with ⟨a, b, _⟩ | ⟨_, _, _, z2⟩
        · refine Or.inl ⟨a, ?_⟩
          rcases b with ⟨_, _, hK⟩ | ⟨hk, ⟨ha, hn⟩ | ⟨a', ha, _⟩⟩
          · rw [hK.1] at hm; cases hm
          · exact Or.inr ⟨hk, Or.inl ⟨ha, hn⟩⟩
          · rw [ha] at habs; simp at habs
        · exact absurd z2 habs
    · exact dead _ _ rfl


/-- a step inside the wait that changes nothing the invariant reads (a foreign thread posts an event) -/
theorem inv_waiting_same {s s' : St} {c : CSt} {m : TmoSt} (I : Inv fb s c m) {abs : Option TS} {km : Bool}
    (hpc : s.pc = .waiting abs km) (hS : Same s s') (hT : s'.tasks = s.tasks) : Inv fb s' c m := by
  have hf := not_owed_waiting I hpc
  have hpc' : s'.pc = .waiting abs km := by rw [hS.pc]; exact hpc
  refine ⟨by rw [hS.time]; exact I.clock, I.zle, ?_, ?_, ?_, ?_⟩
  · intro a k h x hx
    rw [hS.heap]
    exact I.absR a k (by rw [← hS.pc]; exact h) x hx
  · intro a k h
    rw [hS.heap]
    exact I.link a k (by rw [← hS.pc]; exact h)
  · intro h; rw [hf] at h; cases h
  · intro _ h1
    obtain ⟨z1, z2⟩ := zat_waiting I hpc h1
    unfold ZInv
    rw [hpc', hS.method]
    refine ⟨z1, ?_⟩
    simp only [ZAt]
    rw [hT]
    rcases z2 with ⟨a, b, d⟩ | z2
    · exact Or.inl ⟨a, b.same hS, d⟩
    · exact Or.inr (by rw [hS.method]; exact z2)

theorem input_post {μ : M} {s s' : St} {c : CSt} {m : TmoSt} {outs : List Out} (g : Good μ s) (I : Inv fb s c m)
    (i : Input) (hin : input s i = some (s', outs)) (ht : (∀ t, i ≠ .time t) → s'.time = s.time)
    (hfb : fb = true ∨ i ≠ .wret .enosys) :
    Post fb s' c m (Ev.inp i :: outs.map Ev.out) := by
  unfold input at hin
  split at hin
  · -- api
    next a hpc =>
    obtain ⟨rfl, rfl⟩ := some_pair_inj hin
    obtain ⟨hf, h0⟩ := I.idle hpc (by simp [OwedAt]) (by simp [ZAt])
    exact Post.idle hf h0 rfl rfl (by rw [ht (by simp)]; exact I.clock) (api_shape s a hpc)
  · -- handlerEnd
    next hpc =>
    obtain ⟨hf, h0⟩ := I.idle hpc (by simp [OwedAt]) (by simp [ZAt])
    split at hin
    · cases hin
    all_goals first
      | (cases hin; done)
      | (obtain ⟨rfl, rfl⟩ := some_pair_inj hin
         exact Post.idle hf h0 rfl rfl I.clock (Shape.nil rfl))
  · -- free
    next k id hpc =>
    obtain ⟨rfl, rfl⟩ := some_pair_inj hin
    obtain ⟨hf, h0⟩ := I.idle hpc (by simp [OwedAt]) (by simp [ZAt])
    have hS := same_freeObj s k id
    exact Post.idle hf h0 rfl rfl (by rw [hS.time]; exact I.clock) (Shape.nil (by rw [hS.pc, hpc]; rfl))
  · -- init
    next k id hpc =>
    obtain ⟨rfl, rfl⟩ := some_pair_inj hin
    obtain ⟨hf, h0⟩ := I.idle hpc (by simp [OwedAt]) (by simp [ZAt])
    have hS := same_initObj s k id
    exact Post.idle hf h0 rfl rfl (by rw [hS.time]; exact I.clock) (Shape.nil (by rw [hS.pc, hpc]; rfl))
  · -- time
    next k t hpc =>
    obtain ⟨rfl, rfl⟩ := some_pair_inj hin
    exact inp_time g I k t hpc
  · -- wret
    next abs km r hpc =>
    obtain ⟨rfl, rfl⟩ := some_pair_inj hin
    exact inp_wret g I abs km r hpc (ht (by simp)) (hfb.imp id (fun h hr => h (by rw [hr])))
  · -- xpost
    next abs km e hpc =>
    have fin : ∀ s1 : St, Same s s1 → s1.tasks = s.tasks → Post fb s1 c m [Ev.inp (.xpost e)] := by
      intro s1 hS hT c' hc'
      rw [fold1] at hc' ⊢
      cases hc'
      exact ⟨m, rfl, I.zle, Or.inr (inv_waiting_same I hpc hS hT)⟩
    split at hin
    · obtain ⟨rfl, rfl⟩ := some_pair_inj hin
      exact fin _ (Same.refl _) rfl
    · cases hin
      refine fin _ ?_ ?_
      · simp only []
        split <;> same_rfl
      · simp only []
        split <;> rfl
  · -- rawRead
    next r okk hpc =>
    obtain ⟨hf, h0⟩ := I.idle hpc (by simp [OwedAt]) (by simp [ZAt])
    split at hin
    · obtain ⟨rfl, rfl⟩ := some_pair_inj hin
      exact Post.idle hf h0 rfl rfl I.clock (Shape.nil rfl)
    · split at hin
      · obtain ⟨rfl, rfl⟩ := some_pair_inj hin
        exact Post.idle hf h0 rfl rfl I.clock (Shape.nil rfl)
      · split at hin
        · obtain ⟨rfl, rfl⟩ := some_pair_inj hin
          exact Post.idle hf h0 rfl rfl I.clock (Shape.dead _ rfl rfl)
        · obtain ⟨rfl, rfl⟩ := some_pair_inj hin
          exact Post.idle hf h0 rfl rfl I.clock (Shape.cb _ rfl)
  · cases hin

/-! ## the trace theorem -/

theorem ctr_append {l1 l2 : List Ev} {c c' : CSt} (h : (l1 ++ l2).foldlM ctrStep c = .ok c') :
    ∃ c1, l1.foldlM ctrStep c = .ok c1 ∧ l2.foldlM ctrStep c1 = .ok c' := by
  rw [List.foldlM_append] at h
  cases h1 : l1.foldlM ctrStep c with
  | error x => rw [h1] at h; cases h
  | ok c1 => rw [h1] at h; exact ⟨c1, rfl, h⟩

theorem tmo_append {l1 l2 : List Ev} {m m1 m2 : TmoSt} (h1 : l1.foldlM tmoStepC m = .ok m1)
    (h2 : l2.foldlM tmoStepC m1 = .ok m2) : (l1 ++ l2).foldlM tmoStepC m = .ok m2 := by
  rw [List.foldlM_append, h1]; exact h2

theorem dead_exec {s s' : St} {evs : List Ev} (h : Exec s evs s') (hd : s.pc = .dead) : evs = [] := by
  cases h with
  | nil => rfl
  | internal hpc _ _ => rw [hd] at hpc; cases hpc
  | input _ hi _ => simp [input, hd] at hi

/-- no `ENOSYS` answer to a wait -/
def noEnosysEv : Ev → Bool
  | .inp (.wret .enosys) => false
  | _ => true

def noEnosys (evs : List Ev) : Bool := evs.all noEnosysEv

/-- the oracle accepts every continuation from a state related to it, as long as the environment keeps the
timeout contract; `fb = false` additionally assumes that no wait is answered with `ENOSYS` and gives the bound 1 -/
theorem tmo_run {s s' : St} {evs : List Ev} (h : Exec s evs s') :
    ∀ (c c' : CSt) (m : TmoSt), Zb fb m.zeros → (s.pc = .dead ∨ ∃ μ, Good μ s ∧ Inv fb s c m) →
      evs.foldlM ctrStep c = .ok c' → (fb = true ∨ noEnosys evs = true) →
      ∃ m', evs.foldlM tmoStepC m = .ok m' ∧ Zb fb m'.zeros := by
  induction h with
  | nil s => intro c c' m hz _ _ _; exact ⟨m, rfl, hz⟩
  | @internal s s1 s2 b outs evs hpc hi hrest ih =>
    intro c c' m hz hI hc hfb
    rcases hI with hd | ⟨μ, g, I⟩
    · rw [hd] at hpc; cases hpc
    obtain ⟨c1, hc1, hc2⟩ := ctr_append hc
    have hp := internal_post g I b hpc
    rw [hi] at hp
    obtain ⟨m1, hm1, hz1, hI1⟩ := hp c1 hc1
    have hI1' : s1.pc = .dead ∨ ∃ μ, Good μ s1 ∧ Inv fb s1 c1 m1 := by
      rcases hI1 with hd | I1
      · exact Or.inl hd
      · have := good_internal g b hpc
        rw [hi] at this
        rcases this with hd | ⟨μ1, g1, _⟩
        · exact Or.inl hd
        · exact Or.inr ⟨μ1, g1, I1⟩
    have hfb' : fb = true ∨ noEnosys evs = true := by
      rcases hfb with h | h
      · exact Or.inl h
      · right
        unfold noEnosys at h ⊢
        rw [List.all_append, Bool.and_eq_true] at h
        exact h.2
    obtain ⟨m2, hm2, hz2⟩ := ih c1 c' m1 hz1 hI1' hc2 hfb'
    exact ⟨m2, tmo_append hm1 hm2, hz2⟩
  | @input s s1 s2 i outs evs henv hi hrest ih =>
    intro c c' m hz hI hc hfb
    rcases hI with hd | ⟨μ, g, I⟩
    · simp [input, hd] at hi
    have hc' : ((Ev.inp i :: outs.map Ev.out) ++ evs).foldlM ctrStep c = .ok c' := by simpa using hc
    obtain ⟨c1, hc1, hc2⟩ := ctr_append hc'
    have hfbi : fb = true ∨ i ≠ .wret .enosys := by
      rcases hfb with h | h
      · exact Or.inl h
      · right
        rintro rfl
        simp [noEnosys, noEnosysEv] at h
    have hfb' : fb = true ∨ noEnosys evs = true := by
      rcases hfb with h | h
      · exact Or.inl h
      · right
        unfold noEnosys at h ⊢
        simp only [List.all_cons, List.all_append, Bool.and_eq_true] at h
        exact h.2.2
    rcases good_input g henv hi with hd | ⟨μ1, g1, ht⟩
    · -- the machine died: nothing follows
      have := dead_exec hrest hd.1
      subst this
      have hp := input_post g I i hi (fun _ => hd.2) hfbi
      obtain ⟨m1, hm1, hz1, _⟩ := hp c1 hc1
      exact ⟨m1, by simpa using hm1, hz1⟩
    · have hp := input_post g I i hi ht hfbi
      obtain ⟨m1, hm1, hz1, hI1⟩ := hp c1 hc1
      have hI1' : s1.pc = .dead ∨ ∃ μ, Good μ s1 ∧ Inv fb s1 c1 m1 := by
        rcases hI1 with hd | I1
        · exact Or.inl hd
        · exact Or.inr ⟨μ1, g1, I1⟩
      obtain ⟨m2, hm2, hz2⟩ := ih c1 c' m1 hz1 hI1' hc2 hfb'
      refine ⟨m2, ?_, hz2⟩
      have := tmo_append hm1 hm2
      simpa using this

theorem contract_ok {evs : List Ev} (hc : tmoContract evs = true) : ∃ c', evs.foldlM ctrStep {} = .ok c' := by
  unfold tmoContract monOk runMon at hc
  cases h : evs.foldlM ctrStep {} with
  | ok c' => exact ⟨c', rfl⟩
  | error x => rw [h] at hc; cases hc

/-- from an initial state: the corrected oracle accepts, and its counter of consecutive empty zero-timeout polls
never exceeds 2 -/
theorem tmo_cap_bound (mt : Method) (ntimers : Nat) (timerfdAvail pwait2 : Bool) (evs : List Ev) (s' : St)
    (h : Exec (St.init mt ntimers timerfdAvail pwait2) evs s') (hc : tmoContract evs = true) :
    ∃ m', runMon tmoStepC {} evs = .ok m' ∧ m'.zeros ≤ 2 := by
  obtain ⟨c', hc'⟩ := contract_ok hc
  obtain ⟨m', hm, hz⟩ := tmo_run (fb := true) h {} c' {} Zb.zero
    (Or.inr ⟨{}, good_init mt ntimers timerfdAvail pwait2, inv_init mt ntimers timerfdAvail pwait2⟩) hc' (Or.inl rfl)
  exact ⟨m', hm, hz.1⟩

/-- … and never exceeds 1 on traces on which no wait is answered with `ENOSYS` -/
theorem tmo_cap_bound_one (mt : Method) (ntimers : Nat) (timerfdAvail pwait2 : Bool) (evs : List Ev) (s' : St)
    (h : Exec (St.init mt ntimers timerfdAvail pwait2) evs s') (hc : tmoContract evs = true)
    (hne : noEnosys evs = true) : ∃ m', runMon tmoStepC {} evs = .ok m' ∧ m'.zeros ≤ 1 := by
  obtain ⟨c', hc'⟩ := contract_ok hc
  obtain ⟨m', hm, hz⟩ := tmo_run (fb := false) h {} c' {} Zb.zero
    (Or.inr ⟨{}, good_init mt ntimers timerfdAvail pwait2, inv_init mt ntimers timerfdAvail pwait2⟩) hc' (Or.inr hne)
  exact ⟨m', hm, hz.2 rfl⟩

theorem tmo_cap_accepts (mt : Method) (ntimers : Nat) (timerfdAvail pwait2 : Bool) (evs : List Ev) (s' : St)
    (h : Exec (St.init mt ntimers timerfdAvail pwait2) evs s') (hc : tmoContract evs = true) :
    tmoCapVerdict evs = none := by
  obtain ⟨m', hm, _⟩ := tmo_cap_bound mt ntimers timerfdAvail pwait2 evs s' h hc
  unfold tmoCapVerdict
  rw [hm]

/-- the oracle as it stands, on traces without a millisecond wait at the 24 h cap -/
theorem tmo_bound (mt : Method) (ntimers : Nat) (timerfdAvail pwait2 : Bool) (evs : List Ev) (s' : St)
    (h : Exec (St.init mt ntimers timerfdAvail pwait2) evs s') (hc : tmoContract evs = true)
    (hcap : noDayCap evs = true) : ∃ m', runMon tmoStep {} evs = .ok m' ∧ m'.zeros ≤ 2 := by
  obtain ⟨m', hm, hz⟩ := tmo_cap_bound mt ntimers timerfdAvail pwait2 evs s' h hc
  refine ⟨m', ?_, hz⟩
  unfold runMon at hm ⊢
  rw [← tmoFold_eq evs {} hcap]
  exact hm

theorem tmo_bound_one (mt : Method) (ntimers : Nat) (timerfdAvail pwait2 : Bool) (evs : List Ev) (s' : St)
    (h : Exec (St.init mt ntimers timerfdAvail pwait2) evs s') (hc : tmoContract evs = true)
    (hcap : noDayCap evs = true) (hne : noEnosys evs = true) :
    ∃ m', runMon tmoStep {} evs = .ok m' ∧ m'.zeros ≤ 1 := by
  obtain ⟨m', hm, hz⟩ := tmo_cap_bound_one mt ntimers timerfdAvail pwait2 evs s' h hc hne
  refine ⟨m', ?_, hz⟩
  unfold runMon at hm ⊢
  rw [← tmoFold_eq evs {} hcap]
  exact hm

theorem tmo_accepts (mt : Method) (ntimers : Nat) (timerfdAvail pwait2 : Bool) (evs : List Ev) (s' : St)
    (h : Exec (St.init mt ntimers timerfdAvail pwait2) evs s') (hc : tmoContract evs = true)
    (hcap : noDayCap evs = true) : tmoVerdict evs = none := by
  obtain ⟨m', hm, _⟩ := tmo_bound mt ntimers timerfdAvail pwait2 evs s' h hc hcap
  unfold tmoVerdict
  rw [hm]

end Ivy.L1.ProofsC07tmo
