import Ivy.Mon.C01
import Ivy.Props.C05
/-!
# C01 — proof that every trace of the L1 machine is accepted by the monitor `Ivy.Mon.C01`

Method: a relation `R μ s` between the monitor state and the machine state (the monitor is dead, or it
is live with no pending registration handshake, the machine invariant `Inv s` holds and the monitor's
`reg` list equals the machine's registered sets `Regd s`).  `R` holds initially, is preserved by every
internal block (`internal_spec`), every API call (`api_spec`) and every other input, and the monitor
never rejects along the way; `exec_ok` is the induction over `Exec`.

The invariant `Inv` ("every id the loop still holds denotes a registered, hence live, object"):
* `Shape`   program counter vs frame stack (no `control` fault; a descriptor frame at stage 0 only
            while `fdStage` is about to run);
* `TmInv`   heap invariant, the expired batch is duplicate free and its members have `idx = 0`,
            registered timers (`idx ≥ 0`) are live;
* `TkInv`   the task lists (global list and batch frames) are jointly duplicate free and hold live tasks;
* `EvInv`   pending / batch events are jointly duplicate free and registered; registered events are live;
* `FdLive`, `ActInv`, `HdInv`  registered descriptors are live, `active` lists are duplicate free and
            hold registered descriptors, `handled` denotes a registered descriptor and matches the
            descriptor frame;
* `EpInv`   (epoll) descriptors in the kernel interest set are registered (synchronous DEL);
* `PoInv`   (poll) `pfds` slots and `index` fields point at each other and hold registered descriptors;
* `RawInv`  the descriptor embedded in a raw event is registered iff the raw event is; the kick raw
            event is registered iff `useRaw` and `eventCount ≥ 1`.
-/
set_option linter.unusedSimpArgs false
set_option linter.unusedVariables false
namespace Ivy.L1.ProofsC01
open Ivy.L1 Ivy.Heap
open Ivy.Mon.C01 (M)

/-! Part A: definitions (views of the frame stack, invariant, relation) and monitor lemmas -/

/-! ## views of the frame stack -/

def frTimers : Frame → List Nat | .timers r => r | _ => []
def frTasks : Frame → List TaskId | .tasks r => r | _ => []
def frEvents : Frame → List EvId | .events b => b | _ => []
def frActive : Frame → List FdId | .poll a _ => a | _ => []
def frFd : Frame → List (FdId × Nat) | .fd c n => [(c, n)] | _ => []

def allTimers (st : List Frame) : List Nat := st.flatMap frTimers
def allTasks (st : List Frame) : List TaskId := st.flatMap frTasks
def allEvents (st : List Frame) : List EvId := st.flatMap frEvents
def allActive (st : List Frame) : List FdId := st.flatMap frActive
def allFd (st : List Frame) : List (FdId × Nat) := st.flatMap frFd

@[simp] theorem allTimers_nil : allTimers [] = [] := rfl
@[simp] theorem allTasks_nil : allTasks [] = [] := rfl
@[simp] theorem allEvents_nil : allEvents [] = [] := rfl
@[simp] theorem allActive_nil : allActive [] = [] := rfl
@[simp] theorem allFd_nil : allFd [] = [] := rfl
@[simp] theorem allTimers_cons (f : Frame) (st) : allTimers (f :: st) = frTimers f ++ allTimers st := by simp [allTimers]
@[simp] theorem allTasks_cons (f : Frame) (st) : allTasks (f :: st) = frTasks f ++ allTasks st := by simp [allTasks]
@[simp] theorem allEvents_cons (f : Frame) (st) : allEvents (f :: st) = frEvents f ++ allEvents st := by simp [allEvents]
@[simp] theorem allActive_cons (f : Frame) (st) : allActive (f :: st) = frActive f ++ allActive st := by simp [allActive]
@[simp] theorem allFd_cons (f : Frame) (st) : allFd (f :: st) = frFd f ++ allFd st := by simp [allFd]

/-! ## control shape: program counter vs frame stack -/

def Base (st : List Frame) : Prop :=
  (∃ r, st = [.tasks r]) ∨ (∃ a rt, st = [.poll a rt]) ∨ (∃ c n a rt, st = [.fd c n, .poll a rt] ∧ 1 ≤ n)

def UserSt (st : List Frame) : Prop :=
  st = [] ∨ (∃ r, st = [.timers r]) ∨ (∃ r, st = [.tasks r]) ∨
  (∃ c n a rt, st = [.fd c n, .poll a rt] ∧ 1 ≤ n) ∨ (∃ b rest, st = .events b :: rest ∧ Base rest)

def Shape (pc : Pc) (st : List Frame) (handled : Option FdId) : Prop :=
  match pc with
  | .user => UserSt st
  | .needTime .forValidate => UserSt st
  | .needTime _ => st = []
  | .waiting _ _ => st = []
  | .needRawRead r => ∃ n a rt, st = [.fd (rawFd r) n, .poll a rt] ∧ 1 ≤ n ∧ handled = some (rawFd r)
  | .run .popTimer => ∃ r, st = [.timers r]
  | .run .popTask => ∃ r, st = [.tasks r]
  | .run .runEvents => Base st
  | .run .resume => Base st
  | .run .popEvent => ∃ b rest, st = .events b :: rest ∧ Base rest
  | .run .dispatchNext => ∃ a rt, st = [.poll a rt]
  | .run .fdStage => ∃ c n a rt, st = [.fd c n, .poll a rt]
  | .run _ => st = []
  | .dead => True

/-! ## the invariant, bundle by bundle (each bundle reads a few projections of the state) -/

def TmInv (h : Store) (tl : Nat → Bool) (b : List Nat) : Prop :=
  HeapInv h ∧ b.Nodup ∧ (∀ t ∈ b, h.idx[t]? = some 0) ∧ (∀ t, 0 ≤ h.idx.getD t (-1) → tl t = true)

def TkInv (tasks fr : List TaskId) (tobjs : TaskId → TaskObj) : Prop :=
  (tasks ++ fr).Nodup ∧ (∀ k ∈ tasks ++ fr, (tobjs k).live = true) ∧ (tobjs 0).live = true

def EvInv (pending fr : List EvId) (evs : EvId → EvObj) : Prop :=
  (pending ++ fr).Nodup ∧ (∀ e ∈ pending ++ fr, (evs e).registered = true) ∧
  (∀ e, (evs e).registered = true → (evs e).live = true)

def FdLive (fds : FdId → FdObj) : Prop :=
  (∀ f, (fds f).registered = true → (fds f).live = true) ∧ (∀ f, 1000 ≤ f → (fds f).live = true)

def ActInv (fds : FdId → FdObj) (act : List FdId) : Prop :=
  act.Nodup ∧ ∀ f ∈ act, (fds f).registered = true

def HdInv (fds : FdId → FdObj) (handled : Option FdId) (fr : List (FdId × Nat)) : Prop :=
  (∀ c n, (c, n) ∈ fr → (n = 0 → handled = some c) ∧ (∀ x, handled = some x → x = c)) ∧
  (∀ x, handled = some x → (fds x).registered = true)

def EpInv (fds : FdId → FdObj) (kint : FdId → Option Bands) (notify : List FdId) : Prop :=
  (∀ f, kint f ≠ none → (fds f).registered = true) ∧
  (∀ f, (fds f).regBands.isZero = true → kint f = none) ∧
  notify.Nodup ∧ (∀ f ∈ notify, (fds f).registered = true)

def PoInv (fds : FdId → FdObj) (pfds : List (FdId × Bands)) : Prop :=
  (∀ f i, (fds f).index = some i → ∃ b, pfds[i]? = some (f, b)) ∧
  (∀ i f b, pfds[i]? = some (f, b) → (fds f).index = some i ∧ (fds f).registered = true)

def RawInv (fds : FdId → FdObj) (raws : RawId → RawObj) (useRaw : Bool) (eventCount : Int) : Prop :=
  (∀ r, (fds (rawFd r)).registered = (raws r).registered) ∧
  ((raws 0).registered = (useRaw && decide (1 ≤ eventCount))) ∧
  (∀ r, 1 ≤ r → (raws r).registered = true → (raws r).live = true)

/-- the projections of the state the invariant and the registered sets read -/
structure View where
  heap : Store
  tlive : Nat → Bool
  timers : List Nat
  tasks : List TaskId
  taskFr : List TaskId
  tobjs : TaskId → TaskObj
  pending : List EvId
  evFr : List EvId
  evs : EvId → EvObj
  fds : FdId → FdObj
  active : List FdId
  handled : Option FdId
  fdFr : List (FdId × Nat)
  isEpoll : Bool
  kint : FdId → Option Bands
  notify : List FdId
  pfds : List (FdId × Bands)
  raws : RawId → RawObj
  useRaw : Bool
  eventCount : Int

def view (s : St) : View :=
  { heap := s.heap, tlive := s.tlive, timers := allTimers s.stack, tasks := s.tasks, taskFr := allTasks s.stack,
    tobjs := s.tobjs, pending := s.pending, evFr := allEvents s.stack, evs := s.evs, fds := s.fds,
    active := allActive s.stack, handled := s.handled, fdFr := allFd s.stack, isEpoll := s.method.isEpoll,
    kint := s.kint, notify := s.notify, pfds := s.pfds, raws := s.raws, useRaw := s.useRaw,
    eventCount := s.eventCount }

structure VInv (v : View) : Prop where
  tm : TmInv v.heap v.tlive v.timers
  tk : TkInv v.tasks v.taskFr v.tobjs
  ev : EvInv v.pending v.evFr v.evs
  fl : FdLive v.fds
  act : ActInv v.fds v.active
  hd : HdInv v.fds v.handled v.fdFr
  ep : v.isEpoll = true → EpInv v.fds v.kint v.notify
  po : v.isEpoll = false → PoInv v.fds v.pfds
  raw : RawInv v.fds v.raws v.useRaw v.eventCount

/-- `VInv` without the raw-event link (which is broken between the two halves of a raw register) -/
structure VCore (v : View) : Prop where
  tm : TmInv v.heap v.tlive v.timers
  tk : TkInv v.tasks v.taskFr v.tobjs
  ev : EvInv v.pending v.evFr v.evs
  fl : FdLive v.fds
  act : ActInv v.fds v.active
  hd : HdInv v.fds v.handled v.fdFr
  ep : v.isEpoll = true → EpInv v.fds v.kint v.notify
  po : v.isEpoll = false → PoInv v.fds v.pfds

theorem VInv.core {v : View} (h : VInv v) : VCore v := ⟨h.tm, h.tk, h.ev, h.fl, h.act, h.hd, h.ep, h.po⟩
theorem VCore.toInv {v : View} (h : VCore v) (hr : RawInv v.fds v.raws v.useRaw v.eventCount) : VInv v :=
  ⟨h.tm, h.tk, h.ev, h.fl, h.act, h.hd, h.ep, h.po, hr⟩

def Inv (s : St) : Prop := Shape s.pc s.stack s.handled ∧ VInv (view s)

namespace Inv
variable {s s' : St}
theorem shape (h : Inv s) : Shape s.pc s.stack s.handled := h.1
theorem tm (h : Inv s) : TmInv s.heap s.tlive (allTimers s.stack) := h.2.tm
theorem tk (h : Inv s) : TkInv s.tasks (allTasks s.stack) s.tobjs := h.2.tk
theorem ev (h : Inv s) : EvInv s.pending (allEvents s.stack) s.evs := h.2.ev
theorem fl (h : Inv s) : FdLive s.fds := h.2.fl
theorem act (h : Inv s) : ActInv s.fds (allActive s.stack) := h.2.act
theorem hd (h : Inv s) : HdInv s.fds s.handled (allFd s.stack) := h.2.hd
theorem ep (h : Inv s) : s.method.isEpoll = true → EpInv s.fds s.kint s.notify := h.2.ep
theorem po (h : Inv s) : s.method.isEpoll = false → PoInv s.fds s.pfds := h.2.po
theorem raw (h : Inv s) : RawInv s.fds s.raws s.useRaw s.eventCount := h.2.raw

theorem mk' (shape : Shape s.pc s.stack s.handled)
    (tm : TmInv s.heap s.tlive (allTimers s.stack))
    (tk : TkInv s.tasks (allTasks s.stack) s.tobjs)
    (ev : EvInv s.pending (allEvents s.stack) s.evs)
    (fl : FdLive s.fds)
    (act : ActInv s.fds (allActive s.stack))
    (hd : HdInv s.fds s.handled (allFd s.stack))
    (ep : s.method.isEpoll = true → EpInv s.fds s.kint s.notify)
    (po : s.method.isEpoll = false → PoInv s.fds s.pfds)
    (raw : RawInv s.fds s.raws s.useRaw s.eventCount) : Inv s :=
  ⟨shape, ⟨tm, tk, ev, fl, act, hd, ep, po, raw⟩⟩

/-- a step that changes nothing the invariant reads (beyond the control shape) -/
theorem of_view (h : Inv s) (hs : Shape s'.pc s'.stack s'.handled) (hv : view s' = view s) : Inv s' :=
  ⟨hs, hv ▸ h.2⟩
end Inv

/-! ## what the monitor's `reg` must equal -/

def RegdV (v : View) (p : Nat × Nat) : Prop :=
  match p with
  | (0, f) => f < 1000 ∧ (v.fds f).registered = true
  | (1, t) => 0 ≤ v.heap.idx.getD t (-1)
  | (2, k) => 1 ≤ k ∧ k ∈ v.tasks ++ v.taskFr
  | (3, e) => (v.evs e).registered = true
  | (4, r) => 1 ≤ r ∧ (v.raws r).registered = true
  | _ => False

def Regd (s : St) (p : Nat × Nat) : Prop := RegdV (view s) p

theorem Regd_congr {s s' : St} (h : view s' = view s) (p : Nat × Nat) : Regd s' p ↔ Regd s p := by
  unfold Regd; rw [h]

@[simp] theorem Regd0 (s : St) (f : Nat) : Regd s (0, f) ↔ (f < 1000 ∧ (s.fds f).registered = true) := Iff.rfl
@[simp] theorem Regd1 (s : St) (t : Nat) : Regd s (1, t) ↔ 0 ≤ s.heap.idx.getD t (-1) := Iff.rfl
@[simp] theorem Regd2 (s : St) (k : Nat) : Regd s (2, k) ↔ (1 ≤ k ∧ k ∈ s.tasks ++ allTasks s.stack) := Iff.rfl
@[simp] theorem Regd3 (s : St) (e : Nat) : Regd s (3, e) ↔ (s.evs e).registered = true := Iff.rfl
@[simp] theorem Regd4 (s : St) (r : Nat) : Regd s (4, r) ↔ (1 ≤ r ∧ (s.raws r).registered = true) := Iff.rfl
theorem Regd5 (s : St) (k r : Nat) : ¬ Regd s (k + 5, r) := id

/-- case analysis on the kind of a registered-set member -/
theorem Regd_cases (P : Nat × Nat → Prop) (h0 : ∀ f, P (0, f)) (h1 : ∀ f, P (1, f)) (h2 : ∀ f, P (2, f))
    (h3 : ∀ f, P (3, f)) (h4 : ∀ f, P (4, f)) (h5 : ∀ k f, P (k + 5, f)) : ∀ p, P p
  | (0, f) => h0 f | (1, f) => h1 f | (2, f) => h2 f | (3, f) => h3 f | (4, f) => h4 f | (k + 5, f) => h5 k f

def RegOk (reg : List (Nat × Nat)) (s : St) : Prop := reg.Nodup ∧ ∀ p, p ∈ reg ↔ Regd s p

theorem RegOk.same {reg s s'} (h : RegOk reg s) (hs : ∀ p, Regd s' p ↔ Regd s p) : RegOk reg s' :=
  ⟨h.1, fun p => (h.2 p).trans (hs p).symm⟩

theorem RegOk.add {reg s s' p} (h : RegOk reg s) (hs : ∀ q, Regd s' q ↔ (q = p ∨ Regd s q)) :
    RegOk (reg.erase p ++ [p]) s' := by
  refine ⟨?_, fun q => ?_⟩
  · rw [List.nodup_append]
    refine ⟨h.1.erase p, by simp, ?_⟩
    intro a ha b hb
    simp at hb
    subst hb
    intro hab
    subst hab
    exact (List.Nodup.mem_erase_iff h.1).1 ha |>.1 rfl
  · rw [hs q, ← h.2 q]
    by_cases hq : q = p
    · simp [hq]
    · simp [hq, List.mem_erase_of_ne hq]

theorem RegOk.del {reg s s' p} (h : RegOk reg s) (hs : ∀ q, Regd s' q ↔ (q ≠ p ∧ Regd s q)) :
    RegOk (reg.erase p) s' := by
  refine ⟨h.1.erase p, fun q => ?_⟩
  rw [hs q, ← h.2 q, List.Nodup.mem_erase_iff h.1]

/-! ## the monitor on live states -/

abbrev mstep := Ivy.Mon.C01.step

def R (μ : M) (s : St) : Prop :=
  μ.dead = true ∨ ∃ reg, μ = ⟨reg, none, false⟩ ∧ Inv s ∧ RegOk reg s

theorem fold_dead (μ : M) (h : μ.dead = true) (evs : List Ev) : evs.foldlM mstep μ = .ok μ := by
  induction evs with
  | nil => rfl
  | cons e evs ih =>
    rw [List.foldlM_cons]
    have : mstep μ e = .ok μ := by simp [mstep, Ivy.Mon.C01.step, h]
    rw [this]
    exact ih

def isQuiet : Out → Bool
  | .ret _ | .wait .. | .mainRet => true
  | _ => false

def Quiet (outs : List Out) : Prop := ∀ o ∈ outs, isQuiet o = true

@[simp] theorem Quiet_nil : Quiet [] := by simp [Quiet]
@[simp] theorem Quiet_ret (v : Int) : Quiet [.ret v] := by simp [Quiet, isQuiet]

theorem step_quiet (reg : List (Nat × Nat)) (o : Out) (h : isQuiet o = true) :
    mstep ⟨reg, none, false⟩ (.out o) = .ok ⟨reg, none, false⟩ := by
  cases o <;> simp [isQuiet] at h <;> rfl

theorem fold_quiet (reg : List (Nat × Nat)) (outs : List Out) (h : Quiet outs) :
    (outs.map Ev.out).foldlM mstep ⟨reg, none, false⟩ = .ok ⟨reg, none, false⟩ := by
  induction outs with
  | nil => rfl
  | cons o outs ih =>
    rw [List.map_cons, List.foldlM_cons, step_quiet reg o (h o (by simp))]
    exact ih (fun o' ho' => h o' (by simp [ho']))

theorem step_fatal (reg : List (Nat × Nat)) (pd : Option (Nat × Nat)) (m : String) :
    mstep ⟨reg, pd, false⟩ (.out (.fatal m)) = .ok ⟨reg, pd, true⟩ := rfl

/-- key of a callback, as the monitor computes it -/
def cbKey : Cb → Nat × Nat × Bool
  | .fd f _ => (0, f, false) | .timer t => (1, t, true) | .task t => (2, t, true)
  | .event x => (3, x, false) | .raw r => (4, r, false)

theorem step_cb_internal (reg : List (Nat × Nat)) (f b : Nat) (h : 1000 ≤ f) :
    mstep ⟨reg, none, false⟩ (.out (.cb (.fd f b))) = .ok ⟨reg, none, false⟩ := by
  simp [mstep, Ivy.Mon.C01.step, h]

theorem step_cb (reg : List (Nat × Nat)) (c : Cb) (h : ((cbKey c).1, (cbKey c).2.1) ∈ reg) :
    mstep ⟨reg, none, false⟩ (.out (.cb c)) =
      .ok ⟨if (cbKey c).2.2 then reg.erase ((cbKey c).1, (cbKey c).2.1) else reg, none, false⟩ := by
  cases c <;> simp_all [mstep, Ivy.Mon.C01.step, cbKey]

inductive Cls
  | reg (p : Nat × Nat)
  | unreg (p : Nat × Nat)
  | other

def classify : Api → Cls
  | .fdRegister f .. => .reg (0, f)
  | .fdRegisterTry f .. => .reg (0, f)
  | .timerRegister t _ => .reg (1, t)
  | .taskRegister k => .reg (2, k)
  | .evRegister x _ => .reg (3, x)
  | .rawRegister r _ => .reg (4, r)
  | .fdUnregister f => .unreg (0, f)
  | .timerUnregister t => .unreg (1, t)
  | .taskUnregister k => .unreg (2, k)
  | .evUnregister x => .unreg (3, x)
  | .rawUnregister r => .unreg (4, r)
  | _ => .other

theorem step_api (reg : List (Nat × Nat)) (a : Api) :
    mstep ⟨reg, none, false⟩ (.inp (.api a)) = .ok (match classify a with
      | .reg p => ⟨reg, some p, false⟩
      | .unreg p => ⟨reg.erase p, none, false⟩
      | .other => ⟨reg, none, false⟩) := by
  cases a <;> rfl

theorem step_ret_pending (reg : List (Nat × Nat)) (p : Nat × Nat) (v : Int) :
    mstep ⟨reg, some p, false⟩ (.out (.ret v)) = .ok ⟨if v == 0 then reg.erase p ++ [p] else reg, none, false⟩ := rfl

theorem step_inp_other (reg : List (Nat × Nat)) (i : Input) (h : ∀ a, i ≠ .api a) :
    mstep ⟨reg, none, false⟩ (.inp i) = .ok ⟨reg, none, false⟩ := by
  cases i <;> first | rfl | (exfalso; exact h _ rfl)

/-! Part B: step specification and the internal blocks that do not touch the descriptor subsystem -/

/-- what one machine step (internal block, or a non-API input) may do, as far as the monitor is concerned -/
inductive ISpec (s s' : St) (outs : List Out) : Prop
  | quiet (hq : Quiet outs) (hI : Inv s') (hr : ∀ p, Regd s' p ↔ Regd s p)
  | cbInt (f b : Nat) (hf : 1000 ≤ f) (ho : outs = [.cb (.fd f b)]) (hI : Inv s') (hr : ∀ p, Regd s' p ↔ Regd s p)
  | cb (c : Cb) (ho : outs = [.cb c]) (hI : Inv s') (hin : Regd s ((cbKey c).1, (cbKey c).2.1))
      (hr : ∀ q, Regd s' q ↔ (if (cbKey c).2.2 = true then q ≠ ((cbKey c).1, (cbKey c).2.1) ∧ Regd s q else Regd s q))
  | fatal (m : String) (ho : outs = [.fatal m])

theorem ISpec.fold {s s' outs reg} (hreg : RegOk reg s) (h : ISpec s s' outs) :
    ∃ μ', (outs.map Ev.out).foldlM mstep ⟨reg, none, false⟩ = .ok μ' ∧ R μ' s' := by
  cases h with
  | quiet hq hI hr => exact ⟨_, fold_quiet reg outs hq, Or.inr ⟨reg, rfl, hI, hreg.same hr⟩⟩
  | cbInt f b hf ho hI hr =>
    subst ho
    refine ⟨⟨reg, none, false⟩, ?_, Or.inr ⟨reg, rfl, hI, hreg.same hr⟩⟩
    simp [step_cb_internal reg f b hf]
  | cb c ho hI hin hr =>
    subst ho
    have hmem := (hreg.2 _).2 hin
    refine ⟨_, by simp [step_cb reg c hmem]; rfl, Or.inr ⟨_, rfl, hI, ?_⟩⟩
    by_cases hone : (cbKey c).2.2 = true
    · simp only [hone, if_true] at hr ⊢
      exact hreg.del hr
    · simp only [hone, if_false] at hr ⊢
      simp only [Bool.false_eq_true, if_false]
      exact hreg.same hr
  | fatal m ho =>
    subst ho
    exact ⟨⟨reg, none, true⟩, rfl, Or.inl rfl⟩

theorem ISpec.same {s s' : St} {outs} (hq : Quiet outs) (hI : Inv s) (hs : Shape s'.pc s'.stack s'.handled)
    (hv : view s' = view s) : ISpec s s' outs :=
  .quiet hq (hI.of_view hs hv) (Regd_congr hv)

@[simp] theorem Quiet_wait (a b c d e) : Quiet [.wait a b c d e] := by simp [Quiet, isQuiet]
@[simp] theorem Quiet_mainRet : Quiet [.mainRet] := by simp [Quiet, isQuiet]

/-! ### blocks that only move the program counter -/

theorem int_mainTop {s s' outs rt} (hI : Inv s) (hpc : s.pc = .run (.mainTop rt))
    (h : internal s (.mainTop rt) = (s', outs)) : ISpec s s' outs := by
  have hsh := hI.shape
  rw [hpc] at hsh
  simp only [Shape] at hsh
  simp only [internal, goto] at h
  split at h
  · split at h
    · cases h; exact .same (by simp) hI (by simpa [Shape] using hsh) rfl
    · split at h
      · cases h; exact .same (by simp) hI (by simpa [Shape] using hsh) rfl
      · cases h; exact .same (by simp) hI (by simpa [Shape] using hsh) rfl
  · cases h; exact .same (by simp) hI (by simpa [Shape] using hsh) rfl

theorem int_resume {s s' outs} (hI : Inv s) (hpc : s.pc = .run .resume)
    (h : internal s .resume = (s', outs)) : ISpec s s' outs := by
  have hsh := hI.shape
  rw [hpc] at hsh
  simp only [Shape] at hsh
  simp only [internal, goto] at h
  rcases hsh with ⟨r, hst⟩ | ⟨a, rt, hst⟩ | ⟨c, n, a, rt, hst, hn⟩ <;> rw [hst] at h <;> simp only at h <;> cases h
  · exact .same (by simp) hI (by simp [Shape]) (by simp [view, hst])
  · exact .same (by simp) hI (by simp [Shape]) (by simp [view, hst])
  · exact .same (by simp) hI (by simp [Shape]) (by simp [view, hst])

theorem int_exitCheck {s s' outs} (hI : Inv s) (hpc : s.pc = .run .exitCheck)
    (h : internal s .exitCheck = (s', outs)) : ISpec s s' outs := by
  have hsh := hI.shape
  rw [hpc] at hsh
  simp only [Shape] at hsh
  simp only [internal, goto] at h
  split at h <;> cases h
  · exact .same (by simp) hI (by simp [Shape, UserSt, hsh]) rfl
  · exact .same (by simp) hI (by simpa [Shape] using hsh) rfl

theorem int_wait {s s' outs abs km} (hI : Inv s) (hpc : s.pc = .run (.wait abs km))
    (h : internal s (.wait abs km) = (s', outs)) : ISpec s s' outs := by
  have hsh := hI.shape
  rw [hpc] at hsh
  simp only [Shape] at hsh
  simp only [internal] at h
  cases h
  exact .same (by simp) hI (by simpa [Shape] using hsh) rfl

/-! ### tasks -/

theorem int_startTasks {s s' outs} (hI : Inv s) (hpc : s.pc = .run .startTasks)
    (h : internal s .startTasks = (s', outs)) : ISpec s s' outs := by
  have hsh := hI.shape
  rw [hpc] at hsh
  simp only [Shape] at hsh
  simp only [internal, goto] at h
  cases h
  have htk := hI.tk
  refine .quiet (by simp) ?_ (fun p => by simp [Regd, RegdV, view, hsh, frTasks])
  rw [hsh] at htk
  refine Inv.mk' (by simp [Shape, hsh]) (by simpa [hsh, frTimers] using hI.tm) ?_
    (by simpa [hsh, frEvents] using hI.ev) hI.fl (by simpa [hsh, frActive] using hI.act)
    (by simpa [hsh, frFd] using hI.hd) hI.ep hI.po hI.raw
  simpa [hsh, frTasks, TkInv] using htk



@[simp] theorem upd_same {α} (g : Nat → α) (k : Nat) (v : α) : upd g k v k = v := by simp [upd]
theorem upd_apply {α} (g : Nat → α) (k : Nat) (v : α) (i : Nat) : upd g k v i = if i = k then v else g i := rfl

theorem int_popTask {s s' outs} (hI : Inv s) (hpc : s.pc = .run .popTask)
    (h : internal s .popTask = (s', outs)) : ISpec s s' outs := by
  have hsh := hI.shape
  rw [hpc] at hsh
  simp only [Shape] at hsh
  obtain ⟨l, hst⟩ := hsh
  have htk := hI.tk
  simp only [hst, allTasks_cons, frTasks, allTasks_nil, List.append_nil, TkInv] at htk
  simp only [internal, goto, hst] at h
  cases l with
  | nil =>
    simp only at h
    cases h
    exact .same (by simp) hI (by simp [Shape]) (by simp [view, hst, frTasks, frTimers, frEvents, frActive, frFd])
  | cons k r =>
    simp only at h
    obtain ⟨hnd, hlv, h0⟩ := htk
    have hlive : (s.tobjs k).live = true := hlv k (by simp)
    have hk : k ∉ s.tasks ++ r := by
      intro hk
      have := List.nodup_append.1 hnd
      simp only [List.mem_append] at hk
      rcases hk with hk | hk
      · exact this.2.2 k hk k (by simp) rfl
      · exact (List.nodup_cons.1 this.2.1).1 hk
    have hnd' : (s.tasks ++ r).Nodup := by
      have := List.nodup_append.1 hnd
      refine List.nodup_append.2 ⟨this.1, (List.nodup_cons.1 this.2.1).2, fun a ha b hb => this.2.2 a ha b (by simp [hb])⟩
    have hI' : ∀ (o : TaskObj) (n : Int) (pc' : Pc), o.live = true → Shape pc' [.tasks r] s.handled →
        Inv { s with numobjs := n, tobjs := upd s.tobjs k o, stack := [.tasks r], pc := pc' } := by
      intro o n pc' ho hs
      refine Inv.mk' hs (by simpa [hst, frTimers] using hI.tm) ?_
        (by simpa [hst, frEvents] using hI.ev) hI.fl (by simpa [hst, frActive] using hI.act)
        (by simpa [hst, frFd] using hI.hd) hI.ep hI.po hI.raw
      refine ⟨by simpa [frTasks] using hnd', ?_, ?_⟩
      · intro j hj
        simp only [allTasks_cons, frTasks, allTasks_nil, List.append_nil] at hj
        have := hlv j (by simp only [List.mem_append, List.mem_cons] at hj ⊢; grind)
        show (upd s.tobjs k _ j).live = true
        simp only [upd_apply]; split <;> simp_all
      · show (upd s.tobjs k _ 0).live = true
        simp only [upd_apply]; split <;> simp_all
    split at h
    · next hdead => simp [hlive] at hdead
    split at h
    · next hk0 =>
      cases h
      refine .quiet (by simp) (hI' _ _ _ hlive (by simp [Shape, Base])) ?_
      apply Regd_cases <;> intro x <;> simp [Regd, RegdV, view, hst, frTasks]
      grind
    · next hk0 =>
      cases h
      refine .cb (.task k) rfl (hI' _ _ _ hlive (by simp [Shape, UserSt])) ?_ ?_
      · simp [cbKey, hst, frTasks]; exact Nat.pos_of_ne_zero hk0
      · apply Regd_cases <;> intro x <;> simp [Regd, RegdV, view, hst, frTasks, cbKey]
        grind

/-! Part C: events and timers blocks -/

theorem Regd_of {s s' : St} (h0 : ∀ f, (s'.fds f).registered = (s.fds f).registered)
    (h1 : s'.heap.idx = s.heap.idx) (h2 : s'.tasks ++ allTasks s'.stack = s.tasks ++ allTasks s.stack)
    (h3 : ∀ e, (s'.evs e).registered = (s.evs e).registered)
    (h4 : ∀ r, (s'.raws r).registered = (s.raws r).registered) : ∀ p, Regd s' p ↔ Regd s p := by
  apply Regd_cases <;> intro x <;> simp [Regd5, h0, h1, h2, h3, h4]

theorem Base.views {st : List Frame} (h : Base st) : allTimers st = [] ∧ allEvents st = [] := by
  rcases h with ⟨r, rfl⟩ | ⟨a, rt, rfl⟩ | ⟨c, n, a, rt, rfl, hn⟩ <;> simp [frTimers, frEvents]

theorem int_runEvents {s s' outs} (hI : Inv s) (hpc : s.pc = .run .runEvents)
    (h : internal s .runEvents = (s', outs)) : ISpec s s' outs := by
  have hsh := hI.shape
  rw [hpc] at hsh
  simp only [Shape] at hsh
  simp only [internal, goto] at h
  split at h
  · cases h
    exact .same (by simp) hI (by simpa [Shape] using hsh) rfl
  · cases h
    refine .quiet (by simp) ?_ (fun p => by simp [Regd, RegdV, view, frTasks])
    refine Inv.mk' (show ∃ b rest, _ ∧ _ from ⟨_, _, rfl, hsh⟩) (by simpa [frTimers] using hI.tm) (by simpa [frTasks] using hI.tk) ?_
      hI.fl (by simpa [frActive] using hI.act) (by simpa [frFd] using hI.hd) hI.ep hI.po hI.raw
    simpa [frEvents, EvInv] using hI.ev

theorem int_popEvent {s s' outs} (hI : Inv s) (hpc : s.pc = .run .popEvent)
    (h : internal s .popEvent = (s', outs)) : ISpec s s' outs := by
  have hsh := hI.shape
  rw [hpc] at hsh
  simp only [Shape] at hsh
  obtain ⟨b, rest, hst, hbase⟩ := hsh
  have hev := hI.ev
  simp only [hst, allEvents_cons, frEvents, EvInv] at hev
  simp only [internal, goto, hst] at h
  cases b with
  | nil =>
    simp only at h
    cases h
    exact .same (by simp) hI (by simpa [Shape] using hbase) (by simp [view, hst, frTasks, frTimers, frEvents, frActive, frFd])
  | cons e r =>
    simp only at h
    obtain ⟨hnd, hreg, hlv⟩ := hev
    have hlive : (s.evs e).live = true := hlv e (hreg e (by simp))
    split at h
    · next hdead => simp [hlive] at hdead
    cases h
    refine .cb (.event e) rfl ?_ (by simpa [cbKey] using hreg e (by simp)) ?_
    · refine Inv.mk' (show UserSt _ from Or.inr (Or.inr (Or.inr (Or.inr ⟨_, _, rfl, hbase⟩)))) (by simpa [hst, frTimers] using hI.tm)
        (by simpa [hst, frTasks] using hI.tk) ?_ hI.fl (by simpa [hst, frActive] using hI.act)
        (by simpa [hst, frFd] using hI.hd) hI.ep hI.po hI.raw
      refine ⟨?_, ?_, hlv⟩
      · simp only [allEvents_cons, frEvents]
        have : (s.pending ++ (r ++ allEvents rest)).Sublist (s.pending ++ (e :: r ++ allEvents rest)) := by
          simp
        exact hnd.sublist this
      · intro x hx
        apply hreg x
        simp only [allEvents_cons, frEvents, List.mem_append, List.mem_cons] at hx ⊢
        grind
    · intro q
      simp only [cbKey, Bool.false_eq_true, if_false]
      revert q
      apply Regd_of <;> first | (intro _; rfl) | rfl | simp [hst, frTasks]

/-! ### timers -/

theorem heapInv_unmark {h : Store} {t : Nat} (hh : HeapInv h) (ht : h.idx[t]? = some 0) :
    HeapInv { h with idx := h.idx.setIfInBounds t (-1) } := by
  have key : ∀ u (v : Int), (h.idx.setIfInBounds t (-1))[u]? = some v → (u = t ∧ v = -1) ∨ (u ≠ t ∧ h.idx[u]? = some v) := by
    intro u v hv
    rw [Array.getElem?_setIfInBounds] at hv
    split at hv
    · next heq =>
      subst heq
      split at hv <;> simp_all
    · next hne => exact Or.inr ⟨fun h => hne h.symm, hv⟩
  refine ⟨hh.size_eq, hh.num_lt, hh.shrunk, by simpa using hh.exp_idx, ?_, hh.tail_null, ?_, ?_, hh.order⟩
  · intro i h1 h2
    obtain ⟨t', hs, hi⟩ := hh.occupied i h1 h2
    refine ⟨t', hs, ?_⟩
    show (h.idx.setIfInBounds t (-1))[t']? = _
    rw [Array.getElem?_setIfInBounds]
    have : t ≠ t' := by
      rintro rfl
      rw [ht] at hi
      simp at hi
      omega
    simp [this, hi]
  · intro u i h1 hu
    rcases key u i hu with ⟨_, hv⟩ | ⟨_, hv⟩
    · omega
    · exact hh.back u i h1 hv
  · intro u v hu
    rcases key u v hu with ⟨_, hv⟩ | ⟨_, hv⟩
    · omega
    · exact hh.idx_ge u v hv

theorem getD_eq_of_getElem? {a : Array Int} {t : Nat} {v : Int} (h : a[t]? = some v) : a.getD t (-1) = v := by
  simp [Array.getD_eq_getD_getElem?, h]

theorem int_popTimer {s s' outs} (hI : Inv s) (hpc : s.pc = .run .popTimer)
    (h : internal s .popTimer = (s', outs)) : ISpec s s' outs := by
  have hsh := hI.shape
  rw [hpc] at hsh
  simp only [Shape] at hsh
  obtain ⟨l, hst⟩ := hsh
  have htm := hI.tm
  simp only [hst, allTimers_cons, frTimers, allTimers_nil, List.append_nil, TmInv] at htm
  simp only [internal, goto, hst] at h
  cases l with
  | nil =>
    simp only at h
    cases h
    exact .same (by simp) hI (by simp [Shape]) (by simp [view, hst, frTasks, frTimers, frEvents, frActive, frFd])
  | cons t r =>
    simp only at h
    obtain ⟨hh, hnd, hidx, hlv⟩ := htm
    have ht0 : s.heap.idx[t]? = some 0 := hidx t (by simp)
    have hlive : s.tlive t = true := hlv t (by rw [getD_eq_of_getElem? ht0]; omega)
    split at h
    · next hdead => simp [hlive] at hdead
    cases h
    have hget : ∀ u, (s.heap.idx.setIfInBounds t (-1)).getD u (-1) = if u = t then -1 else s.heap.idx.getD u (-1) := by
      intro u
      simp only [Array.getD_eq_getD_getElem?, Array.getElem?_setIfInBounds]
      by_cases hut : t = u
      · subst hut
        simp
        split <;> simp_all
      · have : ¬ u = t := fun h => hut h.symm
        simp [hut, this]
    refine .cb (.timer t) rfl ?_ (by simp [cbKey, getD_eq_of_getElem? ht0]) ?_
    · refine Inv.mk' (by simp [Shape, UserSt]) ?_ (by simpa [hst, frTasks] using hI.tk)
        (by simpa [hst, frEvents] using hI.ev) hI.fl (by simpa [hst, frActive] using hI.act)
        (by simpa [hst, frFd] using hI.hd) hI.ep hI.po hI.raw
      refine ⟨heapInv_unmark hh ht0, by simpa [frTimers] using (List.nodup_cons.1 hnd).2, ?_, ?_⟩
      · intro u hu
        simp only [allTimers_cons, frTimers, allTimers_nil, List.append_nil] at hu
        have hne : t ≠ u := by
          rintro rfl
          exact (List.nodup_cons.1 hnd).1 hu
        show (s.heap.idx.setIfInBounds t (-1))[u]? = _
        rw [Array.getElem?_setIfInBounds]
        simp [hne, hidx u (by simp [hu])]
      · intro u hu
        have := hget u
        simp only at hu
        rw [this] at hu
        split at hu
        · omega
        · exact hlv u hu
    · apply Regd_cases <;> intro x <;> simp [Regd, RegdV, view, hst, frTasks, cbKey]
      rw [← Array.getD_eq_getD_getElem?, ← Array.getD_eq_getD_getElem?, hget x]
      split
      · next hx => subst hx; simp
      · next hx => simp [hx]



theorem int_collect {s s' outs} (hI : Inv s) (hpc : s.pc = .run .collect)
    (h : internal s .collect = (s', outs)) : ISpec s s' outs := by
  have hsh := hI.shape
  rw [hpc] at hsh
  simp only [Shape] at hsh
  obtain ⟨hh, hnd, hidx, hlv⟩ := hI.tm
  obtain ⟨h', batch, hrun, hh', _, hbnd, hmem, hon, hb0, hexp, hrest⟩ :=
    Ivy.Props.C05.collect_sorted s.heap s.time hh
  simp only [internal, goto, hrun] at h
  cases h
  have key : ∀ t, (0 ≤ h'.idx.getD t (-1)) ↔ (0 ≤ s.heap.idx.getD t (-1)) := by
    intro t
    by_cases ht : onHeap s.heap t
    · obtain ⟨i, hi1, hi⟩ := ht
      rw [getD_eq_of_getElem? hi]
      cases hgt : (expOf s.heap t).gt s.time
      · have : t ∈ batch := (hmem t).2 ⟨⟨i, hi1, hi⟩, hgt⟩
        rw [getD_eq_of_getElem? (hb0 t this)]
        omega
      · obtain ⟨j, hj1, hj⟩ := (hon t).2 ⟨⟨i, hi1, hi⟩, hgt⟩
        rw [getD_eq_of_getElem? hj]
        omega
    · simp only [Array.getD_eq_getD_getElem?, hrest t ht]
  refine .quiet (by simp) ?_ ?_
  · refine Inv.mk' (by simp [Shape, hsh]) ?_ (by simpa [hsh, frTasks] using hI.tk)
      (by simpa [hsh, frEvents] using hI.ev) hI.fl (by simpa [hsh, frActive] using hI.act)
      (by simpa [hsh, frFd] using hI.hd) hI.ep hI.po hI.raw
    refine ⟨hh', by simpa [hsh, frTimers] using hbnd, ?_, ?_⟩
    · intro t ht
      simp only [hsh, allTimers_cons, frTimers, allTimers_nil, List.append_nil] at ht
      exact hb0 t ht
    · intro t ht
      exact hlv t ((key t).1 ht)
  · apply Regd_cases <;> intro x <;> simp [Regd, RegdV, view, hsh, frTasks]
    simpa [Array.getD_eq_getD_getElem?] using key x

/-! Part D: descriptor dispatch blocks -/

/-- `omega` does not look through the `abbrev`s `FdId`, `TaskId`, … of the machine -/
macro "c01_omega" : tactic =>
  `(tactic| first | omega | ((try simp only [FdId, TaskId, EvId, RawId, Tid] at *); omega))

macro "c01_regd_same" h:term : tactic =>
  `(tactic| (apply Regd_of <;> first | (intro _; rfl) | rfl | simp [frTasks, $h:term]))

theorem int_dispatchNext {s s' outs} (hI : Inv s) (hpc : s.pc = .run .dispatchNext)
    (h : internal s .dispatchNext = (s', outs)) : ISpec s s' outs := by
  have hsh := hI.shape
  rw [hpc] at hsh
  simp only [Shape] at hsh
  obtain ⟨l, rt, hst⟩ := hsh
  have hact := hI.act
  simp only [hst, allActive_cons, frActive, allActive_nil, List.append_nil, ActInv] at hact
  simp only [internal, goto, hst] at h
  cases l with
  | nil =>
    simp only at h
    cases h
    exact .same (by simp) hI (by simp [Shape]) (by simp [view, hst, frTasks, frTimers, frEvents, frActive, frFd])
  | cons f r =>
    simp only at h
    cases h
    refine .quiet (by simp) ?_ (by c01_regd_same hst)
    refine Inv.mk' (show ∃ c n a rt, _ from ⟨_, _, _, _, rfl⟩) (by simpa [hst, frTimers] using hI.tm)
      (by simpa [hst, frTasks] using hI.tk) (by simpa [hst, frEvents] using hI.ev) hI.fl ?_ ?_ hI.ep hI.po hI.raw
    · refine ⟨by simpa [frActive] using (List.nodup_cons.1 hact.1).2, ?_⟩
      intro g hg
      simp only [allActive_cons, frActive, allActive_nil, List.append_nil, List.nil_append] at hg
      exact hact.2 g (by simp [hg])
    · refine ⟨?_, ?_⟩
      · intro c n hcn
        simp only [allFd_cons, frFd, allFd_nil, List.append_nil, List.mem_cons, List.not_mem_nil, or_false,
          List.cons_append, List.nil_append, Prod.mk.injEq] at hcn
        obtain ⟨rfl, rfl⟩ := hcn
        exact ⟨fun _ => rfl, fun x hx => by simpa using hx.symm⟩
      · intro x hx
        have : f = x := by simpa using hx
        subst this
        exact hact.2 f (by simp)

theorem fdRaw_some {cur r : Nat} (h : fdRaw? cur = some r) : rawFd r = cur ∧ 1000 ≤ cur := by
  unfold fdRaw? at h
  split at h
  · simp at h; subst h; unfold rawFd; c01_omega
  · simp at h

theorem int_fdStage {s s' outs} (hI : Inv s) (hpc : s.pc = .run .fdStage)
    (h : internal s .fdStage = (s', outs)) : ISpec s s' outs := by
  have hsh := hI.shape
  rw [hpc] at hsh
  simp only [Shape] at hsh
  obtain ⟨cur, n, a, rt, hst⟩ := hsh
  have hhd := hI.hd
  simp only [hst, allFd_cons, frFd, allFd_nil, List.append_nil, HdInv, List.cons_append, List.nil_append,
    List.mem_cons, List.not_mem_nil, or_false, Prod.mk.injEq] at hhd
  obtain ⟨hfr, hreg⟩ := hhd
  obtain ⟨h0, hx⟩ := hfr cur n ⟨rfl, rfl⟩
  clear hfr
  -- invariant for a state that only moved the stage forward
  have hI' : ∀ (pc' : Pc) (m : Nat), 1 ≤ m → Shape pc' [.fd cur m, .poll a rt] s.handled →
      Inv { s with stack := [.fd cur m, .poll a rt], pc := pc' } := by
    intro pc' m hm hs
    refine Inv.mk' hs (by simpa [hst, frTimers] using hI.tm)
      (by simpa [hst, frTasks] using hI.tk) (by simpa [hst, frEvents] using hI.ev) hI.fl
      (by simpa [hst, frActive] using hI.act) ?_ hI.ep hI.po hI.raw
    refine ⟨?_, hreg⟩
    intro c k hck
    simp only [allFd_cons, frFd, allFd_nil, List.append_nil, List.mem_cons, List.not_mem_nil, or_false,
      List.cons_append, List.nil_append, Prod.mk.injEq] at hck
    obtain ⟨rfl, rfl⟩ := hck
    exact ⟨fun h => by omega, hx⟩
  simp only [internal, goto, hst, setTop, List.tail_cons] at h
  split at h
  · -- stage ≥ 3
    cases h
    refine .quiet (by simp) ?_ (by c01_regd_same hst)
    refine Inv.mk' (show ∃ a rt, _ from ⟨_, _, rfl⟩) (by simpa [hst, frTimers] using hI.tm)
      (by simpa [hst, frTasks] using hI.tk) (by simpa [hst, frEvents] using hI.ev) hI.fl
      (by simpa [hst, frActive] using hI.act) ?_ hI.ep hI.po hI.raw
    exact ⟨by simp [frFd], hreg⟩
  split at h
  · -- unregistered meanwhile: skip the band
    cases h
    exact .quiet (by simp) (hI' _ _ (by omega) (show ∃ c n a rt, _ from ⟨_, _, _, _, rfl⟩)) (by c01_regd_same hst)
  next hn3 hskip =>
  have hhandled : s.handled = some cur := by
    by_cases hn : n = 0
    · exact h0 hn
    · have hn1 : n ≥ 1 := by omega
      cases hh : s.handled with
      | none => simp [hh, hn1] at hskip
      | some x => rw [hx x hh]
  have hregc : (s.fds cur).registered = true := hreg cur hhandled
  have hlive : (s.fds cur).live = true := hI.fl.1 cur hregc
  split at h
  · next hdead => simp [hlive] at hdead
  have fin : ∀ (want : Bool),
      (if want = true then
        (match (if n = 1 then fdRaw? cur else none) with
          | some r => (({ s with stack := [.fd cur (n + 1), .poll a rt], pc := .needRawRead r } : St), ([] : List Out))
          | none => ({ s with stack := [.fd cur (n + 1), .poll a rt], pc := .user }, [Out.cb (.fd cur n)]))
       else ({ s with stack := [.fd cur (n + 1), .poll a rt], pc := .run .fdStage }, [])) = (s', outs) →
      ISpec s s' outs := by
    intro want h
    split at h
    · split at h
      · next r hr =>
        cases h
        have hn1 : n = 1 := by
          by_cases hn : n = 1
          · exact hn
          · simp [hn] at hr
        subst hn1
        simp only [if_true] at hr
        obtain ⟨hrf, _⟩ := fdRaw_some hr
        subst hrf
        exact .quiet (by simp) (hI' _ _ (by omega) (show ∃ n a rt, _ from ⟨_, _, _, rfl, by omega, hhandled⟩)) (by c01_regd_same hst)
      · next hr =>
        cases h
        have hInv := hI' .user (n + 1) (by omega)
          (show UserSt _ from Or.inr (Or.inr (Or.inr (Or.inl ⟨_, _, _, _, rfl, by omega⟩))))
        by_cases hc : 1000 ≤ cur
        · exact .cbInt cur n hc rfl hInv (by c01_regd_same hst)
        · refine .cb (.fd cur n) rfl hInv (by simp [cbKey, hregc]; c01_omega) ?_
          intro q
          simp only [cbKey, Bool.false_eq_true, if_false]
          revert q
          c01_regd_same hst
    · cases h
      exact .quiet (by simp) (hI' _ _ (by omega) (show ∃ c n a rt, _ from ⟨_, _, _, _, rfl⟩)) (by c01_regd_same hst)
  split at h <;> exact fin _ h

/-! Part E: the descriptor subsystem — primitives of iv_fd.c / iv_fd_epoll.c / iv_fd_poll.c -/

/-- the two descriptor tables agree on `registered` and `live` -/
def SimRL (fds fds' : FdId → FdObj) : Prop :=
  ∀ f, (fds' f).registered = (fds f).registered ∧ (fds' f).live = (fds f).live

theorem SimRL.refl (fds : FdId → FdObj) : SimRL fds fds := fun _ => ⟨rfl, rfl⟩
theorem SimRL.trans {a b c : FdId → FdObj} (h1 : SimRL a b) (h2 : SimRL b c) : SimRL a c :=
  fun f => ⟨(h2 f).1.trans (h1 f).1, (h2 f).2.trans (h1 f).2⟩

theorem FdLive.sim {fds fds'} (h : FdLive fds) (hs : SimRL fds fds') : FdLive fds' :=
  ⟨fun f hf => by rw [(hs f).2]; exact h.1 f (by rw [← (hs f).1]; exact hf), fun f hf => by rw [(hs f).2]; exact h.2 f hf⟩

theorem ActInv.sim {fds fds' act} (h : ActInv fds act) (hs : SimRL fds fds') : ActInv fds' act :=
  ⟨h.1, fun f hf => by rw [(hs f).1]; exact h.2 f hf⟩

theorem HdInv.sim {fds fds' hd fr} (h : HdInv fds hd fr) (hs : SimRL fds fds') : HdInv fds' hd fr :=
  ⟨h.1, fun f hf => by rw [(hs f).1]; exact h.2 f hf⟩

theorem RawInv.sim {fds fds' raws u c} (h : RawInv fds raws u c) (hs : SimRL fds fds') : RawInv fds' raws u c :=
  ⟨fun r => by rw [(hs _).1]; exact h.1 r, h.2.1, h.2.2⟩

/-- `s'` differs from `s` only inside the descriptor subsystem's private tables -/
def FdOnly (s s' : St) : Prop :=
  ∃ fds nt ki pf no nf, s' = { s with fds := fds, notify := nt, kint := ki, pfds := pf, numobjs := no, numfds := nf }

theorem FdOnly.refl (s : St) : FdOnly s s := ⟨s.fds, s.notify, s.kint, s.pfds, s.numobjs, s.numfds, rfl⟩
theorem FdOnly.trans {a b c : St} (h1 : FdOnly a b) (h2 : FdOnly b c) : FdOnly a c := by
  obtain ⟨f1, n1, k1, p1, a1, b1, rfl⟩ := h1
  obtain ⟨f2, n2, k2, p2, a2, b2, rfl⟩ := h2
  exact ⟨f2, n2, k2, p2, a2, b2, rfl⟩

/-- transfer of the invariant across a step that stays inside the descriptor subsystem -/
theorem VCore.fdOnly {s s' : St} (h : VCore (view s)) (hfo : FdOnly s s') (hsim : SimRL s.fds s'.fds)
    (hep : s.method.isEpoll = true → EpInv s'.fds s'.kint s'.notify)
    (hpo : s.method.isEpoll = false → PoInv s'.fds s'.pfds) : VCore (view s') := by
  obtain ⟨f1, n1, k1, p1, a1, b1, rfl⟩ := hfo
  exact ⟨h.tm, h.tk, h.ev, h.fl.sim hsim, h.act.sim hsim, h.hd.sim hsim, hep, hpo⟩

theorem VInv.fdOnly {s s' : St} (h : VInv (view s)) (hfo : FdOnly s s') (hsim : SimRL s.fds s'.fds)
    (hep : s.method.isEpoll = true → EpInv s'.fds s'.kint s'.notify)
    (hpo : s.method.isEpoll = false → PoInv s'.fds s'.pfds) : VInv (view s') := by
  have hc := h.core.fdOnly hfo hsim hep hpo
  obtain ⟨f1, n1, k1, p1, a1, b1, rfl⟩ := hfo
  exact hc.toInv (h.raw.sim hsim)

theorem Regd_fdOnly {s s' : St} (hfo : FdOnly s s') (hsim : SimRL s.fds s'.fds) : ∀ p, Regd s' p ↔ Regd s p := by
  obtain ⟨f1, n1, k1, p1, a1, b1, rfl⟩ := hfo
  apply Regd_of <;> first | (intro _; rfl) | rfl | skip
  intro f
  exact (hsim f).1

/-! ### epoll -/

theorem epollNotify_fdOnly (s : St) (f : Nat) : FdOnly s (epollNotify s f) :=
  ⟨s.fds, _, s.kint, s.pfds, s.numobjs, s.numfds, rfl⟩

theorem epollFlushOne_fdOnly (s : St) (f : Nat) : FdOnly s (epollFlushOne s f) := by
  unfold epollFlushOne
  simp only
  split
  · exact ⟨s.fds, _, s.kint, s.pfds, s.numobjs, s.numfds, rfl⟩
  · exact ⟨_, _, _, s.pfds, s.numobjs, s.numfds, rfl⟩

theorem epollFlushOne_sim (s : St) (f : Nat) : SimRL s.fds (epollFlushOne s f).fds := by
  unfold epollFlushOne
  simp only
  split
  · exact SimRL.refl _
  · intro g
    simp only [upd_apply]
    split
    · next h => subst h; exact ⟨rfl, rfl⟩
    · exact ⟨rfl, rfl⟩

theorem zero_isZero : (({} : Bands)).isZero = true := rfl

theorem bands_beq_false {a b : Bands} (h : ¬ (a == b) = true) : a ≠ b := by
  intro hab; subst hab; simp at h

/-- flushing a descriptor that is registered — or one that wants nothing — keeps the epoll bundle -/
theorem epollFlushOne_ep {s : St} {f : Nat} (h : EpInv s.fds s.kint s.notify)
    (hf : (s.fds f).registered = true ∨ (s.fds f).wanted.isZero = true) :
    EpInv (epollFlushOne s f).fds (epollFlushOne s f).kint (epollFlushOne s f).notify := by
  obtain ⟨k1, k2, n1, n2⟩ := h
  unfold epollFlushOne
  simp only
  split
  · exact ⟨k1, k2, n1.erase f, fun g hg => n2 g (List.mem_of_mem_erase hg)⟩
  · refine ⟨?_, ?_, n1.erase f, ?_⟩
    · intro g hg
      simp only [upd_apply] at hg ⊢
      split at hg
      · next hgf =>
        subst hgf
        simp only [if_true]
        rcases hf with hf | hf
        · exact hf
        · simp [hf] at hg
      · next hgf => simp only [hgf, if_false]; exact k1 g hg
    · intro g hg
      simp only [upd_apply] at hg ⊢
      split
      · next hgf =>
        subst hgf
        simp only [if_true] at hg
        simp [hg]
      · next hgf => simp only [hgf, if_false] at hg; exact k2 g hg
    · intro g hg
      have := n2 g (List.mem_of_mem_erase hg)
      simp only [upd_apply]
      split
      · next hgf => subst hgf; exact this
      · exact this

theorem epollFlushOne_notify (s : St) (f : Nat) : (epollFlushOne s f).notify = s.notify.erase f := by
  unfold epollFlushOne
  simp only
  split <;> rfl

theorem epollFlushOne_method (s : St) (f : Nat) : (epollFlushOne s f).method = s.method := by
  obtain ⟨_, _, _, _, _, _, h⟩ := epollFlushOne_fdOnly s f
  rw [h]

theorem flushAll_spec : ∀ (l : List Nat) (s : St), VInv (view s) → s.method.isEpoll = true →
    (∀ f ∈ l, (s.fds f).registered = true) →
    VInv (view (l.foldl epollFlushOne s)) ∧ FdOnly s (l.foldl epollFlushOne s) ∧
      SimRL s.fds (l.foldl epollFlushOne s).fds := by
  intro l
  induction l with
  | nil => intro s h _ _; exact ⟨h, FdOnly.refl s, SimRL.refl _⟩
  | cons f l ih =>
    intro s h hep hl
    simp only [List.foldl_cons]
    have h1 : VInv (view (epollFlushOne s f)) :=
      h.fdOnly (epollFlushOne_fdOnly s f) (epollFlushOne_sim s f)
        (fun _ => epollFlushOne_ep (h.ep hep) (Or.inl (hl f (by simp)))) (fun hc => by simp [view, hep] at hc)
    have hsim := epollFlushOne_sim s f
    obtain ⟨h2, h3, h4⟩ := ih (epollFlushOne s f) h1 (by rw [epollFlushOne_method]; exact hep)
      (fun g hg => by rw [(hsim g).1]; exact hl g (by simp [hg]))
    exact ⟨h2, (epollFlushOne_fdOnly s f).trans h3, hsim.trans h4⟩



theorem FdOnly.stack {s s' : St} (h : FdOnly s s') : s'.stack = s.stack := by obtain ⟨_, _, _, _, _, _, rfl⟩ := h; rfl
theorem FdOnly.handled {s s' : St} (h : FdOnly s s') : s'.handled = s.handled := by obtain ⟨_, _, _, _, _, _, rfl⟩ := h; rfl
theorem FdOnly.pc {s s' : St} (h : FdOnly s s') : s'.pc = s.pc := by obtain ⟨_, _, _, _, _, _, rfl⟩ := h; rfl
theorem FdOnly.method {s s' : St} (h : FdOnly s s') : s'.method = s.method := by obtain ⟨_, _, _, _, _, _, rfl⟩ := h; rfl

theorem int_flush {s s' outs abs km} (hI : Inv s) (hpc : s.pc = .run (.flush abs km))
    (h : internal s (.flush abs km) = (s', outs)) : ISpec s s' outs := by
  have hsh := hI.shape
  rw [hpc] at hsh
  simp only [Shape] at hsh
  have key : ∃ s1, (if s.method.isEpoll = true then s.notify.foldl epollFlushOne s else s) = s1 ∧
      VInv (view s1) ∧ FdOnly s s1 ∧ SimRL s.fds s1.fds := by
    split
    · next hep =>
      exact ⟨_, rfl, flushAll_spec s.notify s hI.2 hep (fun f hf => (hI.ep hep).2.2.2 f hf)⟩
    · exact ⟨_, rfl, hI.2, FdOnly.refl s, SimRL.refl _⟩
  obtain ⟨s1, hs1, hv, hfo, hsim⟩ := key
  simp only [internal, goto, hs1] at h
  have hst : s1.stack = [] := by rw [hfo.stack, hsh]
  split at h <;> cases h
  · exact .quiet (by simp) ⟨by simp [Shape, hst], hv⟩ (fun p => (Regd_congr (s := s1) rfl p).trans (Regd_fdOnly hfo hsim p))
  · exact .quiet (by simp) ⟨by simp [Shape, hst], hv⟩ (fun p => (Regd_congr (s := s1) rfl p).trans (Regd_fdOnly hfo hsim p))

theorem timeoutCheck_spec (s : St) (abs : Option TS) (hm : s.method = .epollTimerfd) :
    view (timeoutCheck s abs).1 = view s ∧ (timeoutCheck s abs).1.stack = s.stack ∧
    (timeoutCheck s abs).1.handled = s.handled := by
  unfold timeoutCheck
  simp only
  repeat' split
  all_goals simp [view, hm, Method.isEpoll]

theorem int_prepWait {s s' outs} (hI : Inv s) (hpc : s.pc = .run .prepWait)
    (h : internal s .prepWait = (s', outs)) : ISpec s s' outs := by
  have hsh := hI.shape
  rw [hpc] at hsh
  simp only [Shape] at hsh
  simp only [internal, goto] at h
  split at h
  · next hm =>
    have hm' : s.method = .epollTimerfd := by simpa using hm
    generalize habs : (if (!s.tasks.isEmpty) = true then some (⟨0, 0⟩ : TS) else soonest s.heap) = abs at h
    obtain ⟨hv, hst, hhd⟩ := timeoutCheck_spec s abs hm'
    generalize timeoutCheck s abs = res at h hv hst hhd
    obtain ⟨s1, r⟩ := res
    simp only at h hv hst hhd
    split at h <;> cases h
    · refine .quiet (by simp) ⟨by simp [Shape, hst, hsh], ?_⟩ (Regd_congr ?_)
      · show VInv (view s1); rw [hv]; exact hI.2
      · exact hv
    · refine .quiet (by simp) ⟨by simp [Shape, hst, hsh], ?_⟩ (Regd_congr ?_)
      · show VInv (view s1); rw [hv]; exact hI.2
      · exact hv
  · cases h
    exact .same (by simp) hI (by simpa [Shape] using hsh) rfl

/-! Part F: poll method bookkeeping (`pfds` / `index`) -/

/-- structural part of the poll bundle: `index` fields and `pfds` slots point at each other -/
def PoS (fds : FdId → FdObj) (pfds : List (FdId × Bands)) : Prop :=
  (∀ f i, (fds f).index = some i → ∃ b, pfds[i]? = some (f, b)) ∧
  (∀ i f b, pfds[i]? = some (f, b) → (fds f).index = some i)

theorem PoInv.toS {fds pfds} (h : PoInv fds pfds) : PoS fds pfds :=
  ⟨h.1, fun (i : Nat) f b hi => (h.2 i f b hi).1⟩

theorem PoInv.ofS {fds pfds} (h : PoS fds pfds) (hr : ∀ (i : Nat) (f : FdId) (b : Bands), pfds[i]? = some (f, b) → (fds f).registered = true) :
    PoInv fds pfds :=
  ⟨h.1, fun (i : Nat) f b hi => ⟨h.2 i f b hi, hr i f b hi⟩⟩

theorem lt_of_get {α} {l : List α} {i : Nat} {a : α} (h : l[i]? = some a) : i < l.length := by
  obtain ⟨h', _⟩ := List.getElem?_eq_some_iff.1 h
  exact h'

theorem pollNotify_fdOnly (s : St) (f : Nat) : FdOnly s (pollNotify s f) := by
  unfold pollNotify
  simp only
  repeat' split
  all_goals first | exact FdOnly.refl s | exact ⟨_, s.notify, s.kint, _, s.numobjs, s.numfds, rfl⟩

theorem pollNotify_sim (s : St) (f : Nat) : SimRL s.fds (pollNotify s f).fds := by
  unfold pollNotify
  simp only
  repeat' split
  all_goals first | exact SimRL.refl _ | (intro g; simp only [upd_apply]; repeat' split; all_goals simp_all)

theorem pollNotify_spec (s : St) (f : Nat) (hS : PoS s.fds s.pfds) :
    PoS (pollNotify s f).fds (pollNotify s f).pfds ∧
    (∀ (i : Nat) (g : Nat) (b : Bands), (pollNotify s f).pfds[i]? = some (g, b) →
      (g = f ∧ (s.fds f).wanted.isZero = false) ∨ (g ≠ f ∧ ∃ (j : Nat) (b' : Bands), s.pfds[j]? = some (g, b'))) := by
  obtain ⟨p1, p2⟩ := hS
  unfold pollNotify
  simp only
  split
  · next hidx =>
    split
    · next hw =>
      -- append
      have hw' : (s.fds f).wanted.isZero = false := by simpa using hw
      have hnf : ∀ (i : Nat) (b : Bands), s.pfds[i]? = some (f, b) → False := by
        intro i b hi
        have := p2 i f b hi
        rw [hidx] at this
        simp at this
      refine ⟨⟨?_, ?_⟩, ?_⟩
      · intro g i hg
        simp only [upd_apply] at hg
        split at hg
        · next hgf =>
          subst hgf
          simp only [Option.some.injEq] at hg
          subst hg
          exact ⟨(s.fds g).wanted, by simp⟩
        · obtain ⟨b, hb⟩ := p1 g i hg
          have : i < s.pfds.length := lt_of_get hb
          exact ⟨b, by rw [List.getElem?_append_left this]; exact hb⟩
      · intro i g b hi
        simp only [upd_apply]
        by_cases hlt : i < s.pfds.length
        · rw [List.getElem?_append_left hlt] at hi
          have hgf : g ≠ f := by rintro rfl; exact hnf i b hi
          simp only [hgf, if_false]
          exact p2 i g b hi
        · rw [List.getElem?_append_right (by omega)] at hi
          have : i - s.pfds.length = 0 := by
            have := lt_of_get hi
            simp at this
            omega
          rw [this] at hi
          simp only [List.getElem?_cons_zero, Option.some.injEq, Prod.mk.injEq] at hi
          obtain ⟨rfl, _⟩ := hi
          simp only [if_true]
          congr 1
          omega
      · intro i g b hi
        by_cases hlt : i < s.pfds.length
        · rw [List.getElem?_append_left hlt] at hi
          exact Or.inr ⟨by rintro rfl; exact hnf i b hi, i, b, hi⟩
        · rw [List.getElem?_append_right (by omega)] at hi
          have : i - s.pfds.length = 0 := by
            have := lt_of_get hi
            simp at this
            omega
          rw [this] at hi
          simp only [List.getElem?_cons_zero, Option.some.injEq, Prod.mk.injEq] at hi
          exact Or.inl ⟨hi.1.symm, hw'⟩
    · refine ⟨⟨p1, p2⟩, ?_⟩
      intro i g b hi
      refine Or.inr ⟨?_, i, b, hi⟩
      rintro rfl
      have := p2 i g b hi
      rw [hidx] at this
      simp at this
  · next i hidx =>
    obtain ⟨b0, hb0⟩ := p1 f i hidx
    have hilt : i < s.pfds.length := lt_of_get hb0
    have huniq : ∀ (j : Nat) (g : Nat) (b : Bands), s.pfds[j]? = some (g, b) → (j = i ↔ g = f) := by
      intro j g b hj
      constructor
      · rintro rfl
        rw [hb0] at hj
        simp at hj
        exact hj.1.symm
      · rintro rfl
        have := p2 j g b hj
        rw [hidx] at this
        simp at this
        exact this.symm
    split
    · next hw =>
      split
      · next hne =>
        have hne' : i ≠ s.pfds.length - 1 := by simpa using hne
        split
        · next lf lb hlast =>
          -- move the last slot into slot i
          have hlfidx := p2 _ lf lb hlast
          have hlf : lf ≠ f := by
            rintro rfl
            rw [hidx] at hlfidx
            simp at hlfidx
            omega
          refine ⟨⟨?_, ?_⟩, ?_⟩
          · intro g j hg
            simp only [upd_apply] at hg
            split at hg
            · simp at hg
            · next hgf =>
              split at hg
              · next hgl =>
                subst hgl
                simp only [Option.some.injEq] at hg
                subst hg
                refine ⟨lb, ?_⟩
                rw [List.getElem?_dropLast]
                simp
                exact ⟨by omega, by rw [List.getElem?_set_self hilt]⟩
              · next hgl =>
                obtain ⟨b, hb⟩ := p1 g j hg
                have hji : j ≠ i := fun h => hgf ((huniq j g b hb).1 h)
                have hjl : j ≠ s.pfds.length - 1 := by
                  rintro rfl
                  rw [hlast] at hb
                  simp at hb
                  exact hgl hb.1.symm
                have hjlt : j < s.pfds.length := lt_of_get hb
                refine ⟨b, ?_⟩
                rw [List.getElem?_dropLast]
                simp
                refine ⟨by omega, ?_⟩
                rw [List.getElem?_set_ne (by omega)]
                exact hb
          · intro j g b hj
            rw [List.getElem?_dropLast] at hj
            simp at hj
            obtain ⟨hjlt, hj⟩ := hj
            by_cases hji : j = i
            · subst hji
              rw [List.getElem?_set_self (by omega)] at hj
              simp at hj
              obtain ⟨rfl, rfl⟩ := hj
              simp [upd_apply, hlf]
            · rw [List.getElem?_set_ne (by omega)] at hj
              have hgf : g ≠ f := fun h => hji ((huniq j g b hj).2 h)
              have hgl : g ≠ lf := by
                rintro rfl
                have := p2 j g b hj
                rw [hlfidx] at this
                simp at this
                omega
              simp only [upd_apply, hgf, hgl, if_false]
              exact p2 j g b hj
          · intro j g b hj
            rw [List.getElem?_dropLast] at hj
            simp at hj
            obtain ⟨hjlt, hj⟩ := hj
            by_cases hji : j = i
            · subst hji
              rw [List.getElem?_set_self (by omega)] at hj
              simp at hj
              obtain ⟨rfl, rfl⟩ := hj
              exact Or.inr ⟨hlf, _, _, hlast⟩
            · rw [List.getElem?_set_ne (by omega)] at hj
              exact Or.inr ⟨fun h => hji ((huniq j g b hj).2 h), j, b, hj⟩
        · next hnone =>
          exfalso
          rw [List.getElem?_eq_none_iff] at hnone
          omega
      · next heq =>
        have heq' : i = s.pfds.length - 1 := by simpa using heq
        refine ⟨⟨?_, ?_⟩, ?_⟩
        · intro g j hg
          simp only [upd_apply] at hg
          split at hg
          · simp at hg
          · next hgf =>
            obtain ⟨b, hb⟩ := p1 g j hg
            have hji : j ≠ i := fun h => hgf ((huniq j g b hb).1 h)
            have hjlt : j < s.pfds.length := lt_of_get hb
            refine ⟨b, ?_⟩
            rw [List.getElem?_dropLast]
            simp
            exact ⟨by omega, hb⟩
        · intro j g b hj
          rw [List.getElem?_dropLast] at hj
          simp at hj
          obtain ⟨hjlt, hj⟩ := hj
          have hgf : g ≠ f := fun h => by have := (huniq j g b hj).2 h; omega
          simp only [upd_apply, hgf, if_false]
          exact p2 j g b hj
        · intro j g b hj
          rw [List.getElem?_dropLast] at hj
          simp at hj
          obtain ⟨hjlt, hj⟩ := hj
          exact Or.inr ⟨fun h => by have := (huniq j g b hj).2 h; omega, j, b, hj⟩
    · next hw =>
      have hw' : (s.fds f).wanted.isZero = false := by simpa using hw
      refine ⟨⟨?_, ?_⟩, ?_⟩
      · intro g j hg
        obtain ⟨b, hb⟩ := p1 g j hg
        by_cases hji : j = i
        · subst hji
          have := (huniq j g b hb).1 rfl
          subst this
          exact ⟨_, by rw [List.getElem?_set_self hilt]⟩
        · exact ⟨b, by rw [List.getElem?_set_ne (by omega)]; exact hb⟩
      · intro j g b hj
        by_cases hji : j = i
        · subst hji
          rw [List.getElem?_set_self hilt] at hj
          simp at hj
          obtain ⟨rfl, _⟩ := hj
          exact hidx
        · rw [List.getElem?_set_ne (by omega)] at hj
          exact p2 j g b hj
      · intro j g b hj
        by_cases hji : j = i
        · subst hji
          rw [List.getElem?_set_self hilt] at hj
          simp at hj
          exact Or.inl ⟨hj.1.symm, hw'⟩
        · rw [List.getElem?_set_ne (by omega)] at hj
          exact Or.inr ⟨fun h => hji ((huniq j g b hj).2 h), j, b, hj⟩

/-! Part G: `notify_fd`, register and unregister of a descriptor -/

theorem EpInv.congr {fds fds' : FdId → FdObj} {kint notify} (h : EpInv fds kint notify)
    (hr : ∀ g, (fds' g).registered = (fds g).registered ∧ (fds' g).regBands = (fds g).regBands) :
    EpInv fds' kint notify :=
  ⟨fun g hg => by rw [(hr g).1]; exact h.1 g hg, fun g hg => h.2.1 g (by rw [← (hr g).2]; exact hg), h.2.2.1,
   fun g hg => by rw [(hr g).1]; exact h.2.2.2 g hg⟩

theorem PoS.congr {fds fds' : FdId → FdObj} {pfds} (h : PoS fds pfds)
    (hr : ∀ g, (fds' g).index = (fds g).index) : PoS fds' pfds :=
  ⟨fun g i hg => h.1 g i (by rw [← hr g]; exact hg), fun i g b hi => by rw [hr g]; exact h.2 i g b hi⟩

theorem PoInv.congr {fds fds' : FdId → FdObj} {pfds} (h : PoInv fds pfds)
    (hr : ∀ g, (fds' g).registered = (fds g).registered ∧ (fds' g).index = (fds g).index) : PoInv fds' pfds :=
  ⟨fun g i hg => h.1 g i (by rw [← (hr g).2]; exact hg),
   fun i g b hi => by rw [(hr g).1, (hr g).2]; exact h.2 i g b hi⟩

theorem wantedOf_nonzero {o : FdObj} (h : (wantedOf o).isZero = false) : o.registered = true := by
  unfold wantedOf at h
  split at h
  · assumption
  · simp [zero_isZero] at h

/-- replacing the object of `f` by one that agrees on the bookkeeping fields -/
theorem upd_fields (fds : FdId → FdObj) (f : Nat) (o' : FdObj)
    (h : o'.registered = (fds f).registered ∧ o'.live = (fds f).live ∧ o'.regBands = (fds f).regBands ∧
      o'.index = (fds f).index) (g : Nat) :
    (upd fds f o' g).registered = (fds g).registered ∧ (upd fds f o' g).live = (fds g).live ∧
    (upd fds f o' g).regBands = (fds g).regBands ∧ (upd fds f o' g).index = (fds g).index := by
  simp only [upd_apply]
  split
  · next hg => subst hg; exact h
  · exact ⟨rfl, rfl, rfl, rfl⟩

/-- user code changed handler pointers / `wanted` of `f`: nothing the invariant reads moved -/
theorem VCore.setObj {s : St} (h : VCore (view s)) (f : Nat) (o' : FdObj)
    (ho : o'.registered = (s.fds f).registered ∧ o'.live = (s.fds f).live ∧ o'.regBands = (s.fds f).regBands ∧
      o'.index = (s.fds f).index) : VCore (view { s with fds := upd s.fds f o' }) := by
  have hu := upd_fields s.fds f o' ho
  refine h.fdOnly ⟨_, s.notify, s.kint, s.pfds, s.numobjs, s.numfds, rfl⟩ (fun g => ⟨(hu g).1, (hu g).2.1⟩) ?_ ?_
  · intro hep
    exact (h.ep hep).congr (fun g => ⟨(hu g).1, (hu g).2.2.1⟩)
  · intro hpo
    exact (h.po hpo).congr (fun g => ⟨(hu g).1, (hu g).2.2.2⟩)

theorem epollNotify_ep {s : St} {f : Nat} (h : EpInv s.fds s.kint s.notify) (hf : (s.fds f).registered = true) :
    EpInv (epollNotify s f).fds (epollNotify s f).kint (epollNotify s f).notify := by
  obtain ⟨k1, k2, n1, n2⟩ := h
  unfold epollNotify
  simp only
  refine ⟨k1, k2, ?_, ?_⟩
  · split
    · rw [List.nodup_append]
      refine ⟨n1.erase f, by simp, ?_⟩
      intro a ha b hb
      simp at hb
      subst hb
      rintro rfl
      exact ((List.Nodup.mem_erase_iff n1).1 ha).1 rfl
    · exact n1.erase f
  · intro g hg
    split at hg
    · simp only [List.mem_append, List.mem_cons, List.not_mem_nil, or_false] at hg
      rcases hg with hg | rfl
      · exact n2 g (List.mem_of_mem_erase hg)
      · exact hf
    · exact n2 g (List.mem_of_mem_erase hg)

theorem notifyFd_fdOnly (s : St) (f : Nat) : FdOnly s (notifyFd s f) := by
  unfold notifyFd
  simp only
  split
  · exact FdOnly.trans ⟨_, s.notify, s.kint, s.pfds, s.numobjs, s.numfds, rfl⟩ (epollNotify_fdOnly _ f)
  · exact FdOnly.trans ⟨_, s.notify, s.kint, s.pfds, s.numobjs, s.numfds, rfl⟩ (pollNotify_fdOnly _ f)

theorem notifyFd_sim (s : St) (f : Nat) : SimRL s.fds (notifyFd s f).fds := by
  have h0 : SimRL s.fds (upd s.fds f { (s.fds f) with wanted := wantedOf (s.fds f) }) := by
    intro g
    have := upd_fields s.fds f { (s.fds f) with wanted := wantedOf (s.fds f) } ⟨rfl, rfl, rfl, rfl⟩ g
    exact ⟨this.1, this.2.1⟩
  unfold notifyFd
  simp only
  split
  · exact h0
  · exact h0.trans (pollNotify_sim _ f)

theorem notifyFd_method (s : St) (f : Nat) : (notifyFd s f).method = s.method := (notifyFd_fdOnly s f).method

theorem notifyFd_epoll (s : St) (f : Nat) (hep : s.method.isEpoll = true) :
    notifyFd s f = epollNotify { s with fds := upd s.fds f { (s.fds f) with wanted := wantedOf (s.fds f) } } f := by
  unfold notifyFd; simp [hep]

theorem notifyFd_poll (s : St) (f : Nat) (hpo : s.method.isEpoll = false) :
    notifyFd s f = pollNotify { s with fds := upd s.fds f { (s.fds f) with wanted := wantedOf (s.fds f) } } f := by
  unfold notifyFd; simp [hpo]

/-- `notify_fd` on a registered descriptor keeps the invariant -/
theorem notifyFd_vcore {s : St} {f : Nat} (h : VCore (view s)) (hf : (s.fds f).registered = true) :
    VCore (view (notifyFd s f)) := by
  refine h.fdOnly (notifyFd_fdOnly s f) (notifyFd_sim s f) ?_ ?_
  · intro hep
    have h0 := h.setObj f { (s.fds f) with wanted := wantedOf (s.fds f) } ⟨rfl, rfl, rfl, rfl⟩
    rw [notifyFd_epoll s f hep]
    have hE : EpInv (upd s.fds f { (s.fds f) with wanted := wantedOf (s.fds f) }) s.kint s.notify := h0.ep hep
    exact epollNotify_ep (s := { s with fds := upd s.fds f { (s.fds f) with wanted := wantedOf (s.fds f) } }) hE (by simp [hf])
  · intro hpo
    have h0 := h.setObj f { (s.fds f) with wanted := wantedOf (s.fds f) } ⟨rfl, rfl, rfl, rfl⟩
    rw [notifyFd_poll s f hpo]
    have hP : PoInv (upd s.fds f { (s.fds f) with wanted := wantedOf (s.fds f) }) s.pfds := h0.po hpo
    obtain ⟨hS, hent⟩ := pollNotify_spec { s with fds := upd s.fds f { (s.fds f) with wanted := wantedOf (s.fds f) } } f hP.toS
    refine PoInv.ofS hS ?_
    intro i g b hi
    rw [(pollNotify_sim _ f g).1]
    rcases hent i g b hi with ⟨rfl, _⟩ | ⟨_, j, b', hj⟩
    · simp [hf]
    · exact (hP.2 j g b' hj).2

theorem RawInv_fdOnly {s s' : St} (hfo : FdOnly s s') (hsim : SimRL s.fds s'.fds)
    (h : RawInv s.fds s.raws s.useRaw s.eventCount) : RawInv s'.fds s'.raws s'.useRaw s'.eventCount := by
  obtain ⟨f1, n1, k1, p1, a1, b1, rfl⟩ := hfo
  exact h.sim hsim

theorem VInv.setObj {s : St} (h : VInv (view s)) (f : Nat) (o' : FdObj)
    (ho : o'.registered = (s.fds f).registered ∧ o'.live = (s.fds f).live ∧ o'.regBands = (s.fds f).regBands ∧
      o'.index = (s.fds f).index) : VInv (view { s with fds := upd s.fds f o' }) :=
  (h.core.setObj f o' ho).toInv (h.raw.sim (fun g => ⟨(upd_fields s.fds f o' ho g).1, (upd_fields s.fds f o' ho g).2.1⟩))

theorem notifyFd_vinv {s : St} {f : Nat} (h : VInv (view s)) (hf : (s.fds f).registered = true) :
    VInv (view (notifyFd s f)) :=
  (notifyFd_vcore h.core hf).toInv (RawInv_fdOnly (notifyFd_fdOnly s f) (notifyFd_sim s f) h.raw)

/-! Part H: `iv_fd_register` / `iv_fd_unregister` cores -/

/-- effect of registering `f` on the `registered` / `live` flags -/
def RegAt (f : Nat) (fds fds' : FdId → FdObj) : Prop :=
  ∀ g, (fds' g).registered = (if g = f then true else (fds g).registered) ∧ (fds' g).live = (fds g).live

def UnregAt (f : Nat) (fds fds' : FdId → FdObj) : Prop :=
  ∀ g, (fds' g).registered = (if g = f then false else (fds g).registered) ∧ (fds' g).live = (fds g).live

theorem RegAt.sim {f a b c} (h : RegAt f a b) (hs : SimRL b c) : RegAt f a c :=
  fun g => ⟨(hs g).1.trans (h g).1, (hs g).2.trans (h g).2⟩
theorem UnregAt.sim {f a b c} (h : UnregAt f a b) (hs : SimRL b c) : UnregAt f a c :=
  fun g => ⟨(hs g).1.trans (h g).1, (hs g).2.trans (h g).2⟩

theorem regPre {s : St} {f : Nat} (o0 : FdObj) (h : VCore (view s)) (hun : (s.fds f).registered = false)
    (h1 : o0.registered = true) (h2 : o0.regBands = {}) (h3 : o0.index = none) (h4 : o0.live = true)
    (h5 : (s.fds f).live = true) :
    VCore (view { s with fds := upd s.fds f o0, notify := s.notify.erase f }) ∧ RegAt f s.fds (upd s.fds f o0) := by
  have hra : RegAt f s.fds (upd s.fds f o0) := by
    intro g
    simp only [upd_apply]
    split
    · next hg => subst hg; simp [h1, h4, h5]
    · exact ⟨rfl, rfl⟩
  have mono : ∀ g, (s.fds g).registered = true → (upd s.fds f o0 g).registered = true := by
    intro g hg
    rw [(hra g).1]
    split <;> simp [hg]
  have hfl : FdLive s.fds := h.fl
  have hact : ActInv s.fds (allActive s.stack) := h.act
  have hhd : HdInv s.fds s.handled (allFd s.stack) := h.hd
  have hep0 : s.method.isEpoll = true → EpInv s.fds s.kint s.notify := h.ep
  have hpo0 : s.method.isEpoll = false → PoInv s.fds s.pfds := h.po
  refine ⟨⟨h.tm, h.tk, h.ev, ?_, ?_, ?_, ?_, ?_⟩, hra⟩
  · show FdLive (upd s.fds f o0)
    refine ⟨fun g hg => ?_, fun g hg => ?_⟩
    · rw [(hra g).2]
      by_cases hgf : g = f
      · subst hgf; exact h5
      · have := (hra g).1
        simp only [hgf, if_false] at this
        exact hfl.1 g (by rw [← this]; exact hg)
    · rw [(hra g).2]; exact hfl.2 g hg
  · exact ⟨hact.1, fun g hg => mono g (hact.2 g hg)⟩
  · exact ⟨hhd.1, fun g hg => mono g (hhd.2 g hg)⟩
  · intro hep
    obtain ⟨k1, k2, n1, n2⟩ := hep0 hep
    show EpInv (upd s.fds f o0) s.kint (s.notify.erase f)
    refine ⟨fun g hg => mono g (k1 g hg), ?_, n1.erase f, fun g hg => mono g (n2 g (List.mem_of_mem_erase hg))⟩
    intro g hg
    by_cases hgf : g = f
    · subst hgf
      cases hk : s.kint g with
      | none => rfl
      | some b =>
        have := k1 g (by simp [hk])
        simp [hun] at this
    · simp only [upd_apply, hgf, if_false] at hg
      exact k2 g hg
  · intro hpo
    obtain ⟨p1, p2⟩ := hpo0 hpo
    show PoInv (upd s.fds f o0) s.pfds
    refine ⟨?_, ?_⟩
    · intro g i hg
      by_cases hgf : g = f
      · subst hgf
        simp [h3] at hg
      · simp only [upd_apply, hgf, if_false] at hg
        exact p1 g i hg
    · intro i g b hi
      have := p2 i g b hi
      have hgf : g ≠ f := by
        rintro rfl
        simp [hun] at this
      simp only [upd_apply, hgf, if_false]
      exact this

theorem fdRegisterCore_spec {s : St} {f : Nat} {a b c : Bool} (h : VCore (view s))
    (hun : (s.fds f).registered = false) (hlive : (s.fds f).live = true) :
    VCore (view (fdRegisterCore s f a b c)) ∧ FdOnly s (fdRegisterCore s f a b c) ∧
      RegAt f s.fds (fdRegisterCore s f a b c).fds := by
  unfold fdRegisterCore
  simp only
  generalize ho : ({ (s.fds f) with hin := a, hout := b, herr := c, registered := true, ready := {}, regBands := {}, index := none } : FdObj) = o0
  have hpre := regPre o0 h hun (by subst ho; rfl) (by subst ho; rfl) (by subst ho; rfl) (by subst ho; exact hlive) hlive
  have hreg0 : (({ s with fds := upd s.fds f o0, notify := s.notify.erase f } : St).fds f).registered = true := by
    subst ho; simp
  have h1 := notifyFd_vcore hpre.1 hreg0
  have hfo := notifyFd_fdOnly { s with fds := upd s.fds f o0, notify := s.notify.erase f } f
  have hsim := notifyFd_sim { s with fds := upd s.fds f o0, notify := s.notify.erase f } f
  refine ⟨h1, ?_, hpre.2.sim hsim⟩
  refine FdOnly.trans ⟨_, _, s.kint, s.pfds, s.numobjs, s.numfds, rfl⟩ (FdOnly.trans hfo ?_)
  exact ⟨_, _, _, _, _, _, rfl⟩



/-! ### unregister -/

theorem epollFlushOne_ne {s : St} {f : Nat} (h : ((s.fds f).regBands == (s.fds f).wanted) = false) :
    epollFlushOne s f = { s with notify := s.notify.erase f, kint := upd s.kint f (if (s.fds f).wanted.isZero then none else some (epollMask (s.fds f).wanted)), fds := upd s.fds f { (s.fds f) with regBands := (s.fds f).wanted } } := by
  simp [epollFlushOne, h]


theorem unreg_ep {s : St} {f : Nat} (st' : List Frame) (hep : s.method.isEpoll = true)
    (hE : EpInv s.fds s.kint s.notify) (hreg : (s.fds f).registered = true) :
    let s0 : St := { s with fds := upd s.fds f { (s.fds f) with registered := false }, stack := st' }
    let s1 := notifyFd s0 f
    let s2 := if (s1.method.isEpoll && s1.notify.contains f) = true then epollFlushOne s1 f else s1
    EpInv s2.fds s2.kint s2.notify := by
  intro s0 s1 s2
  obtain ⟨k1, k2, n1, n2⟩ := hE
  have hs1 : s1 = epollNotify { s0 with fds := upd s0.fds f { (s0.fds f) with wanted := wantedOf (s0.fds f) } } f :=
    notifyFd_epoll s0 f hep
  have hw : wantedOf (s0.fds f) = {} := by simp [s0, wantedOf]
  rw [hw] at hs1
  have hm : s1.method.isEpoll = true := by rw [hs1]; exact hep
  have hnf : f ∉ s.notify.erase f := fun h => ((List.Nodup.mem_erase_iff n1).1 h).1 rfl
  by_cases hrb : (s.fds f).regBands = {}
  · -- nothing was registered with the kernel
    have hn : s1.notify = s.notify.erase f := by
      rw [hs1]; simp [epollNotify, s0, hrb]
    have hc : s1.notify.contains f = false := by rw [hn]; simpa using hnf
    have hs2 : s2 = s1 := by
      show (if (s1.method.isEpoll && s1.notify.contains f) = true then _ else _) = _
      rw [hc, Bool.and_false]; rfl
    rw [hs2]
    have hk : s1.kint = s.kint := by rw [hs1]; rfl
    have hf : ∀ g, (s1.fds g).registered = (if g = f then false else (s.fds g).registered) ∧
        (s1.fds g).regBands = (s.fds g).regBands := by
      intro g
      rw [hs1]
      simp only [epollNotify, s0, upd_apply]
      split
      · next hg => subst hg; simp
      · simp
    have hkf : s.kint f = none := k2 f (by rw [hrb]; rfl)
    rw [hn, hk]
    refine ⟨?_, ?_, n1.erase f, ?_⟩
    · intro g hg
      rw [(hf g).1]
      split
      · next hgf => subst hgf; exact absurd hkf hg
      · exact k1 g hg
    · intro g hg
      rw [(hf g).2] at hg
      exact k2 g hg
    · intro g hg
      rw [(hf g).1]
      have hgf : g ≠ f := fun h => hnf (h ▸ hg)
      simp only [hgf, if_false]
      exact n2 g (List.mem_of_mem_erase hg)
  · have hn : s1.notify = s.notify.erase f ++ [f] := by
      rw [hs1]; simp [epollNotify, s0, hrb]
    have hc : s1.notify.contains f = true := by rw [hn]; simp
    have hs2 : s2 = epollFlushOne s1 f := by
      show (if (s1.method.isEpoll && s1.notify.contains f) = true then _ else _) = _
      rw [hc, hm]; rfl
    rw [hs2]
    have hr1 : (s1.fds f).regBands = (s.fds f).regBands := by rw [hs1]; simp [epollNotify, s0]
    have hw1 : (s1.fds f).wanted = {} := by rw [hs1]; simp [epollNotify, s0]
    have hne : ((s1.fds f).regBands == (s1.fds f).wanted) = false := by
      rw [hr1, hw1]; simpa using hrb
    have hk1 : s1.kint = s.kint := by rw [hs1]; rfl
    have hf : ∀ g, ((epollFlushOne s1 f).fds g).registered = (if g = f then false else (s.fds g).registered) ∧
        (g ≠ f → ((epollFlushOne s1 f).fds g).regBands = (s.fds g).regBands) := by
      intro g
      rw [epollFlushOne_ne hne]
      simp only [upd_apply]
      rw [hs1]
      simp only [epollNotify, s0, upd_apply]
      split
      · next hg => subst hg; simp
      · simp
    have hk : ∀ g, (epollFlushOne s1 f).kint g = if g = f then none else s.kint g := by
      intro g
      rw [epollFlushOne_ne hne]
      simp only [upd_apply, hw1, zero_isZero, if_true, hk1]
    have hn2 : (epollFlushOne s1 f).notify = (s.notify.erase f ++ [f]).erase f := by
      rw [epollFlushOne_notify, hn]
    have hnd : (s.notify.erase f ++ [f]).Nodup := by
      rw [List.nodup_append]
      refine ⟨n1.erase f, by simp, ?_⟩
      intro a ha b hb
      simp at hb
      subst hb
      rintro rfl
      exact hnf ha
    rw [hn2]
    refine ⟨?_, ?_, hnd.erase f, ?_⟩
    · intro g hg
      rw [hk g] at hg
      rw [(hf g).1]
      split
      · next hgf => simp [hgf] at hg
      · next hgf => simp only [hgf, if_false] at hg; exact k1 g hg
    · intro g hg
      rw [hk g]
      split
      · rfl
      · next hgf => rw [(hf g).2 hgf] at hg; exact k2 g hg
    · intro g hg
      obtain ⟨hgf, hg'⟩ := (List.Nodup.mem_erase_iff hnd).1 hg
      rw [(hf g).1]
      simp only [hgf, if_false]
      simp only [List.mem_append, List.mem_cons, List.not_mem_nil, or_false] at hg'
      rcases hg' with hg' | hg'
      · exact n2 g (List.mem_of_mem_erase hg')
      · exact absurd hg' hgf



theorem unreg_po {s : St} {f : Nat} (st' : List Frame) (hpo : s.method.isEpoll = false)
    (hP : PoInv s.fds s.pfds) :
    PoInv (notifyFd { s with fds := upd s.fds f { (s.fds f) with registered := false }, stack := st' } f).fds
      (notifyFd { s with fds := upd s.fds f { (s.fds f) with registered := false }, stack := st' } f).pfds := by
  rw [notifyFd_poll { s with fds := upd s.fds f { (s.fds f) with registered := false }, stack := st' } f hpo]
  simp only [upd_same]
  have hw : wantedOf { (s.fds f) with registered := false } = {} := by simp [wantedOf]
  rw [hw]
  generalize hX : ({ s with fds := upd (upd s.fds f { (s.fds f) with registered := false }) f { ({ (s.fds f) with registered := false } : FdObj) with wanted := {} }, stack := st' } : St) = X
  have hXf : ∀ g, (X.fds g).index = (s.fds g).index ∧ (X.fds g).registered = (if g = f then false else (s.fds g).registered) := by
    intro g
    subst hX
    simp only [upd_apply]
    split
    · next hg => subst hg; simp
    · simp
  have hXp : X.pfds = s.pfds := by subst hX; rfl
  have hXw : (X.fds f).wanted = {} := by subst hX; simp
  have hS : PoS X.fds X.pfds := by
    rw [hXp]
    exact hP.toS.congr (fun g => (hXf g).1)
  obtain ⟨hS', hent⟩ := pollNotify_spec X f hS
  refine PoInv.ofS hS' ?_
  intro i g b hi
  rcases hent i g b hi with ⟨_, hz⟩ | ⟨hgf, j, b', hj⟩
  · rw [hXw] at hz
    simp [zero_isZero] at hz
  · rw [(pollNotify_sim X f g).1, (hXf g).2]
    simp only [hgf, if_false]
    rw [hXp] at hj
    exact (hP.2 j g b' hj).2

theorem allTimers_erase (st : List Frame) (f : Nat) : allTimers (st.map (eraseActive · f)) = allTimers st := by
  induction st with
  | nil => rfl
  | cons fr st ih =>
    rw [List.map_cons, allTimers_cons, allTimers_cons, ih]
    cases fr <;> rfl
theorem allTasks_erase (st : List Frame) (f : Nat) : allTasks (st.map (eraseActive · f)) = allTasks st := by
  induction st with
  | nil => rfl
  | cons fr st ih =>
    rw [List.map_cons, allTasks_cons, allTasks_cons, ih]
    cases fr <;> rfl
theorem allEvents_erase (st : List Frame) (f : Nat) : allEvents (st.map (eraseActive · f)) = allEvents st := by
  induction st with
  | nil => rfl
  | cons fr st ih =>
    rw [List.map_cons, allEvents_cons, allEvents_cons, ih]
    cases fr <;> rfl
theorem allFd_erase (st : List Frame) (f : Nat) : allFd (st.map (eraseActive · f)) = allFd st := by
  induction st with
  | nil => rfl
  | cons fr st ih =>
    rw [List.map_cons, allFd_cons, allFd_cons, ih]
    cases fr <;> rfl

theorem allActive_erase_sub (st : List Frame) (f : Nat) :
    (allActive (st.map (eraseActive · f))).Sublist (allActive st) := by
  induction st with
  | nil => simp
  | cons fr st ih =>
    rw [List.map_cons, allActive_cons, allActive_cons]
    refine List.Sublist.append ?_ ih
    cases fr <;> simp [eraseActive, frActive]
    exact List.erase_sublist

theorem allActive_erase_not_mem (st : List Frame) (f : Nat) (h : (allActive st).Nodup) :
    f ∉ allActive (st.map (eraseActive · f)) := by
  induction st with
  | nil => simp
  | cons fr st ih =>
    rw [List.map_cons, allActive_cons]
    rw [allActive_cons, List.nodup_append] at h
    rw [List.mem_append]
    rintro (hm | hm)
    · cases fr <;> simp [eraseActive, frActive] at hm h
      exact ((List.Nodup.mem_erase_iff h.1).1 hm).1 rfl
    · exact ih h.2.1 hm

theorem Base_erase {st : List Frame} (f : Nat) (h : Base st) : Base (st.map (eraseActive · f)) := by
  rcases h with ⟨r, rfl⟩ | ⟨a, rt, rfl⟩ | ⟨c, n, a, rt, rfl, hn⟩
  · exact Or.inl ⟨r, rfl⟩
  · exact Or.inr (Or.inl ⟨_, rt, rfl⟩)
  · exact Or.inr (Or.inr ⟨c, n, _, rt, rfl, hn⟩)

theorem UserSt_erase {st : List Frame} (f : Nat) (h : UserSt st) : UserSt (st.map (eraseActive · f)) := by
  rcases h with rfl | ⟨r, rfl⟩ | ⟨r, rfl⟩ | ⟨c, n, a, rt, rfl, hn⟩ | ⟨b, rest, rfl, hb⟩
  · exact Or.inl rfl
  · exact Or.inr (Or.inl ⟨r, rfl⟩)
  · exact Or.inr (Or.inr (Or.inl ⟨r, rfl⟩))
  · exact Or.inr (Or.inr (Or.inr (Or.inl ⟨c, n, _, rt, rfl, hn⟩)))
  · exact Or.inr (Or.inr (Or.inr (Or.inr ⟨b, _, rfl, Base_erase f hb⟩)))

theorem UserSt_fd_pos {st : List Frame} (h : UserSt st) : ∀ c n, (c, n) ∈ allFd st → 1 ≤ n := by
  intro c n hcn
  rcases h with rfl | ⟨r, rfl⟩ | ⟨r, rfl⟩ | ⟨c', n', a, rt, rfl, hn⟩ | ⟨b, rest, rfl, hb⟩
  · simp at hcn
  · simp [frFd] at hcn
  · simp [frFd] at hcn
  · simp [frFd] at hcn; omega
  · rcases hb with ⟨r, rfl⟩ | ⟨a, rt, rfl⟩ | ⟨c', n', a, rt, rfl, hn⟩
    · simp [frFd] at hcn
    · simp [frFd] at hcn
    · simp [frFd] at hcn; omega

/-- shape of the state after `iv_fd_unregister`'s body -/
def UnregForm (f : Nat) (s s' : St) : Prop :=
  ∃ fds nt ki pf no nf, s' = { s with fds := fds, notify := nt, kint := ki, pfds := pf, numobjs := no, numfds := nf, stack := s.stack.map (eraseActive · f), handled := if s.handled == some f then none else s.handled }

theorem fdUnregisterCore_spec {s : St} {f : Nat} (h : VCore (view s)) (hreg : (s.fds f).registered = true)
    (hpos : ∀ c n, (c, n) ∈ allFd s.stack → 1 ≤ n) :
    VCore (view (fdUnregisterCore s f)) ∧ UnregAt f s.fds (fdUnregisterCore s f).fds ∧
      UnregForm f s (fdUnregisterCore s f) := by
  have hfl : FdLive s.fds := h.fl
  have hact : ActInv s.fds (allActive s.stack) := h.act
  have hhd : HdInv s.fds s.handled (allFd s.stack) := h.hd
  have hep0 : s.method.isEpoll = true → EpInv s.fds s.kint s.notify := h.ep
  have hpo0 : s.method.isEpoll = false → PoInv s.fds s.pfds := h.po
  unfold fdUnregisterCore
  simp only
  generalize hs0 : ({ s with fds := upd s.fds f { (s.fds f) with registered := false }, stack := s.stack.map (eraseActive · f) } : St) = s0
  have hu0 : UnregAt f s.fds s0.fds := by
    subst hs0
    intro g
    simp only [upd_apply]
    split
    · next hg => subst hg; simp
    · simp
  -- the epoll / poll bundles of the middle state
  have hmidE : s.method.isEpoll = true → EpInv
      (if ((notifyFd s0 f).method.isEpoll && (notifyFd s0 f).notify.contains f) = true then epollFlushOne (notifyFd s0 f) f else notifyFd s0 f).fds
      (if ((notifyFd s0 f).method.isEpoll && (notifyFd s0 f).notify.contains f) = true then epollFlushOne (notifyFd s0 f) f else notifyFd s0 f).kint
      (if ((notifyFd s0 f).method.isEpoll && (notifyFd s0 f).notify.contains f) = true then epollFlushOne (notifyFd s0 f) f else notifyFd s0 f).notify := by
    intro hep
    subst hs0
    exact unreg_ep (s.stack.map (eraseActive · f)) hep (hep0 hep) hreg
  have hmidP : s.method.isEpoll = false → PoInv (notifyFd s0 f).fds (notifyFd s0 f).pfds := by
    intro hpo
    subst hs0
    exact unreg_po (s.stack.map (eraseActive · f)) hpo (hpo0 hpo)
  have hm1 : (notifyFd s0 f).method = s.method := by rw [notifyFd_method]; subst hs0; rfl
  have hfo : FdOnly s0 (if ((notifyFd s0 f).method.isEpoll && (notifyFd s0 f).notify.contains f) = true then epollFlushOne (notifyFd s0 f) f else notifyFd s0 f) := by
    split
    · exact (notifyFd_fdOnly s0 f).trans (epollFlushOne_fdOnly _ f)
    · exact notifyFd_fdOnly s0 f
  have hsim : SimRL s0.fds (if ((notifyFd s0 f).method.isEpoll && (notifyFd s0 f).notify.contains f) = true then epollFlushOne (notifyFd s0 f) f else notifyFd s0 f).fds := by
    split
    · exact (notifyFd_sim s0 f).trans (epollFlushOne_sim _ f)
    · exact notifyFd_sim s0 f
  have hmidP' : s.method.isEpoll = false → PoInv
      (if ((notifyFd s0 f).method.isEpoll && (notifyFd s0 f).notify.contains f) = true then epollFlushOne (notifyFd s0 f) f else notifyFd s0 f).fds
      (if ((notifyFd s0 f).method.isEpoll && (notifyFd s0 f).notify.contains f) = true then epollFlushOne (notifyFd s0 f) f else notifyFd s0 f).pfds := by
    intro hpo
    rw [hm1, hpo]
    simp only [Bool.false_and, Bool.false_eq_true, if_false]
    exact hmidP hpo
  generalize (if ((notifyFd s0 f).method.isEpoll && (notifyFd s0 f).notify.contains f) = true then epollFlushOne (notifyFd s0 f) f else notifyFd s0 f) = mid at hmidE hmidP' hfo hsim
  have hu : UnregAt f s.fds mid.fds := hu0.sim hsim
  obtain ⟨F, N, K, P, no, nf, rfl⟩ := hfo
  subst hs0
  refine ⟨⟨?_, ?_, ?_, ?_, ?_, ?_, hmidE, hmidP'⟩, hu, ⟨_, _, _, _, _, _, rfl⟩⟩
  · show TmInv s.heap s.tlive (allTimers (s.stack.map (eraseActive · f)))
    rw [allTimers_erase]; exact h.tm
  · show TkInv s.tasks (allTasks (s.stack.map (eraseActive · f))) s.tobjs
    rw [allTasks_erase]; exact h.tk
  · show EvInv s.pending (allEvents (s.stack.map (eraseActive · f))) s.evs
    rw [allEvents_erase]; exact h.ev
  · show FdLive F
    refine ⟨fun g hg => ?_, fun g hg => ?_⟩
    · rw [(hu g).2]
      have := (hu g).1
      rw [hg] at this
      split at this
      · simp at this
      · exact hfl.1 g this.symm
    · rw [(hu g).2]; exact hfl.2 g hg
  · show ActInv F (allActive (s.stack.map (eraseActive · f)))
    refine ⟨hact.1.sublist (allActive_erase_sub _ f), ?_⟩
    intro g hg
    have hgf : g ≠ f := fun hh => allActive_erase_not_mem s.stack f hact.1 (hh ▸ hg)
    rw [(hu g).1]
    simp only [hgf, if_false]
    exact hact.2 g ((allActive_erase_sub _ f).subset hg)
  · show HdInv F (if s.handled == some f then none else s.handled) (allFd (s.stack.map (eraseActive · f)))
    rw [allFd_erase]
    refine ⟨?_, ?_⟩
    · intro c n hcn
      have hn := hpos c n hcn
      refine ⟨fun h0 => by omega, ?_⟩
      intro x hx
      split at hx
      · simp at hx
      · exact (hhd.1 c n hcn).2 x hx
    · intro x hx
      split at hx
      · simp at hx
      · next hne =>
        have hxf : x ≠ f := by
          rintro rfl
          simp [hx] at hne
        rw [(hu x).1]
        simp only [hxf, if_false]
        exact hhd.2 x hx

/-! Part I: API calls — specification and the simple calls -/

/-- what an API call may do, as far as the monitor is concerned -/
def ApiSpec (a : Api) (s s' : St) (outs : List Out) : Prop :=
  (∃ m, outs = [.fatal m]) ∨
  (Inv s' ∧ match classify a with
    | .reg p => (outs = [.ret 0] ∧ ∀ q, Regd s' q ↔ (q = p ∨ Regd s q)) ∨
                (∃ v, v ≠ 0 ∧ outs = [.ret v] ∧ ∀ q, Regd s' q ↔ Regd s q)
    | .unreg p => Quiet outs ∧ ∀ q, Regd s' q ↔ (q ≠ p ∧ Regd s q)
    | .other => Quiet outs ∧ ∀ q, Regd s' q ↔ Regd s q)

theorem ApiSpec.fold {a s s' outs reg} (hreg : RegOk reg s) (h : ApiSpec a s s' outs) :
    ∃ μ', (Ev.inp (.api a) :: outs.map Ev.out).foldlM mstep ⟨reg, none, false⟩ = .ok μ' ∧ R μ' s' := by
  rw [List.foldlM_cons, step_api]
  simp only [bind, Except.bind]
  rcases h with ⟨m, rfl⟩ | ⟨hI, h⟩
  · cases classify a <;> exact ⟨_, rfl, Or.inl rfl⟩
  · cases hc : classify a with
    | reg p =>
      rw [hc] at h
      simp only at h ⊢
      rcases h with ⟨rfl, hr⟩ | ⟨v, hv, rfl, hr⟩
      · exact ⟨_, rfl, Or.inr ⟨_, rfl, hI, hreg.add hr⟩⟩
      · refine ⟨⟨reg, none, false⟩, ?_, Or.inr ⟨_, rfl, hI, hreg.same hr⟩⟩
        simp [List.foldlM, step_ret_pending, hv, bind, Except.bind, pure, Except.pure]
    | unreg p =>
      rw [hc] at h
      simp only at h ⊢
      exact ⟨_, fold_quiet _ outs h.1, Or.inr ⟨_, rfl, hI, hreg.del h.2⟩⟩
    | other =>
      rw [hc] at h
      simp only at h ⊢
      exact ⟨_, fold_quiet _ outs h.1, Or.inr ⟨_, rfl, hI, hreg.same h.2⟩⟩

theorem ApiSpec.other {a s s' outs} (hc : classify a = .other) (hq : Quiet outs) (hI : Inv s')
    (hr : ∀ q, Regd s' q ↔ Regd s q) : ApiSpec a s s' outs := by
  refine Or.inr ⟨hI, ?_⟩
  rw [hc]
  exact ⟨hq, hr⟩

theorem ApiSpec.fatal {a s s' m} : ApiSpec a s s' [.fatal m] := Or.inl ⟨m, rfl⟩

/-- an API call that changes nothing the invariant reads -/
theorem ApiSpec.same {a s s' outs} (hc : classify a = .other) (hq : Quiet outs) (hI : Inv s)
    (hs : Shape s'.pc s'.stack s'.handled) (hv : view s' = view s) : ApiSpec a s s' outs :=
  .other hc hq (hI.of_view hs hv) (Regd_congr hv)

theorem api_simple {s s' outs} (a : Api) (hI : Inv s) (hpc : s.pc = .user)
    (ha : a = .quit ∨ a = .invalidateNow ∨ a = .validateNow ∨ a = .main)
    (h : api s a = (s', outs)) : ApiSpec a s s' outs := by
  have hsh := hI.shape
  rw [hpc] at hsh
  simp only [Shape] at hsh
  rcases ha with rfl | rfl | rfl | rfl
  · simp only [api] at h
    cases h
    exact .same rfl (by simp) hI (by simpa [hpc, Shape] using hsh) rfl
  · simp only [api] at h
    cases h
    exact .same rfl (by simp) hI (by simpa [hpc, Shape] using hsh) rfl
  · simp only [api] at h
    split at h <;> cases h
    · exact .same rfl (by simp) hI (by simpa [hpc, Shape] using hsh) rfl
    · exact .same rfl (by simp) hI (by simpa [Shape] using hsh) rfl
  · simp only [api] at h
    split at h
    · next hst =>
      cases h
      exact .same rfl (by simp) hI (by simp [Shape, hst]) rfl
    · simp only [fatal] at h
      cases h
      exact .fatal

/-! ### generic lemmas about erasing an id from every frame -/

theorem flat_erase_same {α} (fr : Frame → List α) (e : Frame → Nat → Frame) (he : ∀ x k, fr (e x k) = fr x)
    (st : List Frame) (k : Nat) : (st.map (e · k)).flatMap fr = st.flatMap fr := by
  induction st with
  | nil => rfl
  | cons x st ih => simp only [List.map_cons, List.flatMap_cons, he, ih]

theorem flat_erase_sub (fr : Frame → List Nat) (e : Frame → Nat → Frame) (he : ∀ x k, fr (e x k) = (fr x).erase k)
    (st : List Frame) (k : Nat) : ((st.map (e · k)).flatMap fr).Sublist (st.flatMap fr) := by
  induction st with
  | nil => simp
  | cons x st ih =>
    simp only [List.map_cons, List.flatMap_cons, he]
    exact List.Sublist.append List.erase_sublist ih

theorem flat_erase_mem (fr : Frame → List Nat) (e : Frame → Nat → Frame) (he : ∀ x k, fr (e x k) = (fr x).erase k)
    (st : List Frame) (k : Nat) (hnd : (st.flatMap fr).Nodup) (y : Nat) :
    y ∈ (st.map (e · k)).flatMap fr ↔ (y ≠ k ∧ y ∈ st.flatMap fr) := by
  induction st with
  | nil => simp
  | cons x st ih =>
    simp only [List.map_cons, List.flatMap_cons, he, List.mem_append] at hnd ⊢
    rw [List.nodup_append] at hnd
    rw [ih hnd.2.1, List.Nodup.mem_erase_iff hnd.1]
    constructor
    · rintro (⟨h1, h2⟩ | ⟨h1, h2⟩)
      · exact ⟨h1, Or.inl h2⟩
      · exact ⟨h1, Or.inr h2⟩
    · rintro ⟨h1, h2 | h2⟩
      · exact Or.inl ⟨h1, h2⟩
      · exact Or.inr ⟨h1, h2⟩

theorem taskOnList_iff (s : St) (k : Nat) : taskOnList s k = true ↔ k ∈ s.tasks ++ allTasks s.stack := by
  unfold taskOnList allTasks
  simp only [Bool.or_eq_true, List.contains_eq_mem, decide_eq_true_eq, List.mem_append, List.any_eq_true,
    List.mem_flatMap]
  constructor
  · rintro (h | ⟨fr, hfr, h⟩)
    · exact Or.inl h
    · refine Or.inr ⟨fr, hfr, ?_⟩
      cases fr <;> simp [frTasks] at h ⊢
      exact h
  · rintro (h | ⟨fr, hfr, h⟩)
    · exact Or.inl h
    · refine Or.inr ⟨fr, hfr, ?_⟩
      cases fr <;> simp [frTasks] at h ⊢
      exact h

theorem evOnList_iff (s : St) (e : Nat) : evOnList s e = true ↔ e ∈ s.pending ++ allEvents s.stack := by
  unfold evOnList allEvents
  simp only [Bool.or_eq_true, List.contains_eq_mem, decide_eq_true_eq, List.mem_append, List.any_eq_true,
    List.mem_flatMap]
  constructor
  · rintro (h | ⟨fr, hfr, h⟩)
    · exact Or.inl h
    · refine Or.inr ⟨fr, hfr, ?_⟩
      cases fr <;> simp [frEvents] at h ⊢
      exact h
  · rintro (h | ⟨fr, hfr, h⟩)
    · exact Or.inl h
    · refine Or.inr ⟨fr, hfr, ?_⟩
      cases fr <;> simp [frEvents] at h ⊢
      exact h

/-! Part J: task API calls -/

/-- only the task lists (and the object counter) moved -/
theorem Inv.tasksChange {s : St} (hI : Inv s) (tk' : List TaskId) (st' : List Frame) (no' : Int)
    (hshape : Shape s.pc st' s.handled)
    (hviews : allTimers st' = allTimers s.stack ∧ allEvents st' = allEvents s.stack ∧
      allActive st' = allActive s.stack ∧ allFd st' = allFd s.stack)
    (htk : TkInv tk' (allTasks st') s.tobjs) : Inv { s with tasks := tk', stack := st', numobjs := no' } := by
  obtain ⟨h1, h2, h3, h4⟩ := hviews
  refine Inv.mk' hshape ?_ htk ?_ hI.fl ?_ ?_ hI.ep hI.po hI.raw
  · show TmInv s.heap s.tlive (allTimers st'); rw [h1]; exact hI.tm
  · show EvInv s.pending (allEvents st') s.evs; rw [h2]; exact hI.ev
  · show ActInv s.fds (allActive st'); rw [h3]; exact hI.act
  · show HdInv s.fds s.handled (allFd st'); rw [h4]; exact hI.hd

theorem taskRegisterCore_cases (s : St) (k : Nat) (hus : UserSt s.stack) :
    (taskRegisterCore s k = { s with numobjs := s.numobjs + 1, tasks := s.tasks ++ [k] }) ∨
    (∃ r, s.stack = [.tasks r] ∧
      taskRegisterCore s k = { s with numobjs := s.numobjs + 1, stack := [.tasks (r ++ [k])] }) ∨
    (∃ b r, s.stack = [.events b, .tasks r] ∧
      taskRegisterCore s k = { s with numobjs := s.numobjs + 1, stack := [.events b, .tasks (r ++ [k])] }) := by
  unfold taskRegisterCore
  simp only
  split
  · exact Or.inl rfl
  · next hc =>
    simp only [Bool.or_eq_true, Bool.not_eq_true', not_or, Bool.not_eq_false] at hc
    have hin := hc.1
    rcases hus with hst | ⟨r, hst⟩ | ⟨r, hst⟩ | ⟨c, n, a, rt, hst, hn⟩ | ⟨b, rest, hst, hb⟩
    · simp [inRunTasks, hst] at hin
    · simp [inRunTasks, hst] at hin
    · exact Or.inr (Or.inl ⟨r, hst, by simp [hst, appendTaskBatch]⟩)
    · simp [inRunTasks, hst] at hin
    · rcases hb with ⟨r, rfl⟩ | ⟨a, rt, rfl⟩ | ⟨c', n', a, rt, rfl, hn⟩
      · exact Or.inr (Or.inr ⟨b, r, hst, by simp [hst, appendTaskBatch]⟩)
      · simp [inRunTasks, hst] at hin
      · simp [inRunTasks, hst] at hin

theorem TkInv.add {tasks fr : List TaskId} {tobjs : TaskId → TaskObj} {tasks' fr' : List TaskId} {k : Nat}
    (h : TkInv tasks fr tobjs) (hk : k ∉ tasks ++ fr) (hlive : (tobjs k).live = true)
    (hperm : (tasks' ++ fr').Perm (k :: (tasks ++ fr))) : TkInv tasks' fr' tobjs := by
  refine ⟨hperm.nodup_iff.2 (List.nodup_cons.2 ⟨hk, h.1⟩), ?_, h.2.2⟩
  intro x hx
  have := hperm.mem_iff.1 hx
  rcases List.mem_cons.1 this with rfl | hx'
  · exact hlive
  · exact h.2.1 x hx'

/-- `iv_task_register` body: the task joins exactly one list -/
theorem taskRegisterCore_inv {s : St} {k : Nat} (hI : Inv s) (hpc : s.pc = .user)
    (hk : k ∉ s.tasks ++ allTasks s.stack) (hlive : (s.tobjs k).live = true) :
    Inv (taskRegisterCore s k) ∧
    (∀ x, x ∈ (taskRegisterCore s k).tasks ++ allTasks (taskRegisterCore s k).stack ↔
      (x = k ∨ x ∈ s.tasks ++ allTasks s.stack)) ∧
    (∀ f, ((taskRegisterCore s k).fds f).registered = (s.fds f).registered) ∧
    (taskRegisterCore s k).heap = s.heap ∧ (taskRegisterCore s k).evs = s.evs ∧
    (taskRegisterCore s k).raws = s.raws := by
  have hsh := hI.shape
  rw [hpc] at hsh
  simp only [Shape] at hsh
  have htk := hI.tk
  rcases taskRegisterCore_cases s k hsh with h | ⟨r, hst, h⟩ | ⟨b, r, hst, h⟩ <;> rw [h]
  · refine ⟨hI.tasksChange _ _ _ (by simpa [hpc, Shape] using hsh) ⟨rfl, rfl, rfl, rfl⟩ ?_, ?_, fun _ => rfl, rfl, rfl, rfl⟩
    · exact htk.add hk hlive (by simp)
    · intro x; simp only [List.mem_append, List.mem_cons, List.not_mem_nil, or_false]; grind
  · rw [hst] at htk hk
    refine ⟨hI.tasksChange _ _ _ (by simp [hpc, Shape, UserSt]) (by simp [hst, frTimers, frEvents, frActive, frFd]) ?_, ?_,
      fun _ => rfl, rfl, rfl, rfl⟩
    · refine htk.add hk hlive ?_
      simp [frTasks]
      rw [← List.append_assoc]
      exact List.perm_middle.trans (by simp)
    · intro x; simp [hst, frTasks]; grind
  · rw [hst] at htk hk
    refine ⟨hI.tasksChange _ _ _ ?_ (by simp [hst, frTimers, frEvents, frActive, frFd]) ?_, ?_,
      fun _ => rfl, rfl, rfl, rfl⟩
    · rw [hpc]
      exact Or.inr (Or.inr (Or.inr (Or.inr ⟨b, _, rfl, Or.inl ⟨_, rfl⟩⟩)))
    · refine htk.add hk hlive ?_
      simp [frTasks]
      rw [← List.append_assoc]
      exact List.perm_middle.trans (by simp)
    · intro x; simp [hst, frTasks]; grind

theorem api_taskRegister {s s' outs} (k : Nat) (hI : Inv s) (hpc : s.pc = .user)
    (henv : envOk s (.api (.taskRegister k)) = true)
    (h : api s (.taskRegister k) = (s', outs)) : ApiSpec (.taskRegister k) s s' outs := by
  simp only [envOk, apiOk, apiLive, Bool.and_eq_true, decide_eq_true_eq] at henv
  simp only [api] at h
  split at h
  · simp only [fatal] at h; cases h; exact .fatal
  · next hon =>
    simp only [ok] at h
    cases h
    have hk : k ∉ s.tasks ++ allTasks s.stack := fun hh => hon ((taskOnList_iff s k).2 hh)
    obtain ⟨hInv, hmem, hfd, hheap, hevs, hraws⟩ := taskRegisterCore_inv hI hpc hk henv.2
    refine Or.inr ⟨hInv, Or.inl ⟨rfl, ?_⟩⟩
    apply Regd_cases <;> intro x <;> simp [Regd5, hfd, hheap, hevs, hraws, -List.mem_append]
    rw [hmem x]
    constructor
    · rintro ⟨h1, rfl | h2⟩
      · exact Or.inl rfl
      · exact Or.inr ⟨h1, h2⟩
    · rintro (rfl | ⟨h1, h2⟩)
      · exact ⟨henv.1, Or.inl rfl⟩
      · exact ⟨h1, Or.inr h2⟩



/-- a frame transformer that keeps the kind of every frame (and descriptor frames untouched) -/
def KeepsKind (e : Frame → Frame) : Prop :=
  (∀ r, ∃ r', e (.timers r) = .timers r') ∧ (∀ r, ∃ r', e (.tasks r) = .tasks r') ∧
  (∀ a rt, ∃ a', e (.poll a rt) = .poll a' rt) ∧ (∀ c n, e (.fd c n) = .fd c n) ∧
  (∀ b, ∃ b', e (.events b) = .events b')

theorem Base_map {st : List Frame} {e : Frame → Frame} (he : KeepsKind e) (h : Base st) : Base (st.map e) := by
  obtain ⟨h1, h2, h3, h4, h5⟩ := he
  rcases h with ⟨r, rfl⟩ | ⟨a, rt, rfl⟩ | ⟨c, n, a, rt, rfl, hn⟩
  · obtain ⟨r', hr⟩ := h2 r
    exact Or.inl ⟨r', by simp [hr]⟩
  · obtain ⟨a', ha⟩ := h3 a rt
    exact Or.inr (Or.inl ⟨a', rt, by simp [ha]⟩)
  · obtain ⟨a', ha⟩ := h3 a rt
    exact Or.inr (Or.inr ⟨c, n, a', rt, by simp [ha, h4], hn⟩)

theorem UserSt_map {st : List Frame} {e : Frame → Frame} (he : KeepsKind e) (h : UserSt st) : UserSt (st.map e) := by
  have hb := @Base_map
  obtain ⟨h1, h2, h3, h4, h5⟩ := he
  rcases h with rfl | ⟨r, rfl⟩ | ⟨r, rfl⟩ | ⟨c, n, a, rt, rfl, hn⟩ | ⟨b, rest, rfl, hbase⟩
  · exact Or.inl rfl
  · obtain ⟨r', hr⟩ := h1 r
    exact Or.inr (Or.inl ⟨r', by simp [hr]⟩)
  · obtain ⟨r', hr⟩ := h2 r
    exact Or.inr (Or.inr (Or.inl ⟨r', by simp [hr]⟩))
  · obtain ⟨a', ha⟩ := h3 a rt
    exact Or.inr (Or.inr (Or.inr (Or.inl ⟨c, n, a', rt, by simp [ha, h4], hn⟩)))
  · obtain ⟨b', hb'⟩ := h5 b
    exact Or.inr (Or.inr (Or.inr (Or.inr ⟨b', _, by simp [hb'], hb ⟨h1, h2, h3, h4, h5⟩ hbase⟩)))

theorem keepsKind_eraseTask (k : Nat) : KeepsKind (eraseTask · k) :=
  ⟨fun r => ⟨r, rfl⟩, fun r => ⟨_, rfl⟩, fun a rt => ⟨a, rfl⟩, fun _ _ => rfl, fun b => ⟨b, rfl⟩⟩
theorem keepsKind_eraseEvent (k : Nat) : KeepsKind (eraseEvent · k) :=
  ⟨fun r => ⟨r, rfl⟩, fun r => ⟨r, rfl⟩, fun a rt => ⟨a, rfl⟩, fun _ _ => rfl, fun b => ⟨_, rfl⟩⟩
theorem keepsKind_setTimerBatch (b : List Nat) : KeepsKind (setTimerBatch · b) :=
  ⟨fun r => ⟨_, rfl⟩, fun r => ⟨r, rfl⟩, fun a rt => ⟨a, rfl⟩, fun _ _ => rfl, fun b => ⟨b, rfl⟩⟩

theorem api_taskUnregister {s s' outs} (k : Nat) (hI : Inv s) (hpc : s.pc = .user)
    (henv : envOk s (.api (.taskUnregister k)) = true)
    (h : api s (.taskUnregister k) = (s', outs)) : ApiSpec (.taskUnregister k) s s' outs := by
  simp only [envOk, apiOk, apiLive, Bool.and_eq_true, decide_eq_true_eq] at henv
  have hsh := hI.shape
  rw [hpc] at hsh
  simp only [Shape] at hsh
  simp only [api] at h
  split at h
  · simp only [fatal] at h; cases h; exact .fatal
  · simp only [ok, taskUnregisterCore] at h
    cases h
    obtain ⟨hnd, hlv, h0⟩ := hI.tk
    have hnd2 := List.nodup_append.1 hnd
    have hmemfr := flat_erase_mem frTasks eraseTask (fun x k => by cases x <;> simp [eraseTask, frTasks]) s.stack k hnd2.2.1
    have hsub := flat_erase_sub frTasks eraseTask (fun x k => by cases x <;> simp [eraseTask, frTasks]) s.stack k
    have hmem : ∀ x, x ∈ s.tasks.erase k ++ allTasks (s.stack.map (eraseTask · k)) ↔ (x ≠ k ∧ x ∈ s.tasks ++ allTasks s.stack) := by
      intro x
      simp only [List.mem_append, allTasks, hmemfr x, List.Nodup.mem_erase_iff hnd2.1]
      grind
    have hInv : Inv { s with numobjs := s.numobjs - 1, tasks := s.tasks.erase k, stack := s.stack.map (eraseTask · k) } := by
      refine hI.tasksChange _ _ _ ?_ ⟨?_, ?_, ?_, ?_⟩ ⟨?_, ?_, h0⟩
      · rw [hpc]; exact UserSt_map (keepsKind_eraseTask k) hsh
      · exact flat_erase_same frTimers eraseTask (fun x k => by cases x <;> rfl) s.stack k
      · exact flat_erase_same frEvents eraseTask (fun x k => by cases x <;> rfl) s.stack k
      · exact flat_erase_same frActive eraseTask (fun x k => by cases x <;> rfl) s.stack k
      · exact flat_erase_same frFd eraseTask (fun x k => by cases x <;> rfl) s.stack k
      · exact hnd.sublist (List.Sublist.append List.erase_sublist hsub)
      · intro x hx
        exact hlv x ((hmem x).1 hx).2
    refine Or.inr ⟨hInv, by simp, ?_⟩
    apply Regd_cases <;> intro x <;> simp [Regd5, -List.mem_append]
    rw [hmem x]
    grind

theorem api_taskInit {s s' outs} (k : Nat) (hI : Inv s) (hpc : s.pc = .user)
    (h : api s (.taskInit k) = (s', outs)) : ApiSpec (.taskInit k) s s' outs := by
  have hsh := hI.shape
  simp only [api] at h
  cases h
  have hlv : ∀ j, (upd s.tobjs k { (s.tobjs k) with epoch := s.taskEpoch } j).live = (s.tobjs j).live := by
    intro j
    simp only [upd_apply]
    split
    · next hj => subst hj; rfl
    · rfl
  refine .other rfl (by simp) ?_ (by c01_regd_same rfl)
  refine Inv.mk' hsh hI.tm ?_ hI.ev hI.fl hI.act hI.hd hI.ep hI.po hI.raw
  obtain ⟨hnd, hl, h0⟩ := hI.tk
  exact ⟨hnd, fun x hx => by rw [hlv]; exact hl x hx, by rw [hlv]; exact h0⟩

/-! Part K: timer API calls -/

theorem getD_unmark (idx : Array Int) (t u : Nat) :
    (idx.setIfInBounds t (-1)).getD u (-1) = if u = t then -1 else idx.getD u (-1) := by
  simp only [Array.getD_eq_getD_getElem?, Array.getElem?_setIfInBounds]
  by_cases hut : t = u
  · subst hut
    simp
    split <;> simp_all
  · have : ¬ u = t := fun h => hut h.symm
    simp [hut, this]

theorem nonneg_iff {h h' : Store} {u : Nat} (hi : HeapInv h) (hi' : HeapInv h') (hsz : h'.idx.size = h.idx.size)
    (hm : h'.idx[u]? = some (-1) ↔ h.idx[u]? = some (-1)) :
    0 ≤ h'.idx.getD u (-1) ↔ 0 ≤ h.idx.getD u (-1) := by
  simp only [Array.getD_eq_getD_getElem?]
  by_cases hu : u < h.idx.size
  · have hu' : u < h'.idx.size := by omega
    obtain ⟨v, hv⟩ : ∃ v, h.idx[u]? = some v := ⟨h.idx[u], by simp [hu]⟩
    obtain ⟨v', hv'⟩ : ∃ v', h'.idx[u]? = some v' := ⟨h'.idx[u], by simp [hu']⟩
    have g1 := hi.idx_ge u v hv
    have g2 := hi'.idx_ge u v' hv'
    rw [hv, hv'] at hm ⊢
    simp only [Option.some.injEq, Option.getD_some] at hm ⊢
    omega
  · have hu' : ¬ u < h'.idx.size := by omega
    simp [hu, hu']

theorem Inv.heapChange {s : St} (hI : Inv s) (h' : Store) (st' : List Frame) (no' : Int)
    (hshape : Shape s.pc st' s.handled)
    (hviews : allTasks st' = allTasks s.stack ∧ allEvents st' = allEvents s.stack ∧
      allActive st' = allActive s.stack ∧ allFd st' = allFd s.stack)
    (htm : TmInv h' s.tlive (allTimers st')) : Inv { s with heap := h', stack := st', numobjs := no' } := by
  obtain ⟨h1, h2, h3, h4⟩ := hviews
  refine Inv.mk' hshape htm ?_ ?_ hI.fl ?_ ?_ hI.ep hI.po hI.raw
  · show TkInv s.tasks (allTasks st') s.tobjs; rw [h1]; exact hI.tk
  · show EvInv s.pending (allEvents st') s.evs; rw [h2]; exact hI.ev
  · show ActInv s.fds (allActive st'); rw [h3]; exact hI.act
  · show HdInv s.fds s.handled (allFd st'); rw [h4]; exact hI.hd

theorem api_timerRegister {s s' outs} (t : Nat) (e : TS) (hI : Inv s) (hpc : s.pc = .user)
    (henv : envOk s (.api (.timerRegister t e)) = true)
    (h : api s (.timerRegister t e) = (s', outs)) : ApiSpec (.timerRegister t e) s s' outs := by
  simp only [envOk, apiOk, apiLive, Bool.and_eq_true, decide_eq_true_eq] at henv
  obtain ⟨⟨⟨⟨htsz, _⟩, _⟩, _⟩, htl⟩ := henv
  have hsh := hI.shape
  obtain ⟨hh, hnd, hidx, hlv⟩ := hI.tm
  simp only [api] at h
  by_cases hreg : s.heap.idx.getD t (-1) = -1
  · have ht : s.heap.idx[t]? = some (-1) := by
      have : s.heap.idx[t]? = some s.heap.idx[t] := by simp [htsz]
      rw [this]
      simp only [Array.getD_eq_getD_getElem?, this, Option.getD_some] at hreg
      rw [hreg]
    obtain ⟨h', hr, hh', hon, _, _, hsz, hoth⟩ := Ivy.Props.C05.register_ok s.heap t e hh ht
    rw [hr] at h
    simp only [ok] at h
    cases h
    have key : ∀ u, 0 ≤ h'.idx.getD u (-1) ↔ (u = t ∨ 0 ≤ s.heap.idx.getD u (-1)) := by
      intro u
      by_cases hut : u = t
      · subst hut
        obtain ⟨i, hi1, hi⟩ := hon
        rw [getD_eq_of_getElem? hi]
        exact iff_of_true (by omega) (Or.inl rfl)
      · rw [nonneg_iff hh hh' hsz (hoth u hut).1]
        simp [hut]
    refine Or.inr ⟨?_, Or.inl ⟨rfl, ?_⟩⟩
    · refine hI.heapChange h' s.stack _ hsh ⟨rfl, rfl, rfl, rfl⟩ ⟨hh', hnd, ?_, ?_⟩
      · intro u hu
        have hu0 := hidx u hu
        have hut : u ≠ t := by
          rintro rfl
          rw [ht] at hu0
          simp at hu0
        exact ((hoth u hut).2.1).2 hu0
      · intro u hu
        rcases (key u).1 hu with rfl | hu'
        · exact htl
        · exact hlv u hu'
    · apply Regd_cases <;> intro x <;> simp [Regd5]
      simpa [Array.getD_eq_getD_getElem?] using key x
  · have : Ivy.Heap.register s.heap t e = .fatal s.heap "iv_timer_register: called with timer still on the heap" := by
      unfold Ivy.Heap.register
      rw [if_pos]
      simpa using hreg
    rw [this] at h
    simp only [fatal] at h
    cases h
    exact .fatal



theorem flat_map_same {α} (fr : Frame → List α) (e : Frame → Frame) (he : ∀ x, fr (e x) = fr x)
    (st : List Frame) : (st.map e).flatMap fr = st.flatMap fr := by
  induction st with
  | nil => rfl
  | cons x st ih => simp only [List.map_cons, List.flatMap_cons, he, ih]

theorem timers_shape {s : St} (h : UserSt s.stack) :
    allTimers s.stack = timerBatch s ∧
    ∀ b', (b' = (timerBatch s).erase t ∨ b' = timerBatch s) →
      allTimers (s.stack.map (setTimerBatch · b')) = b' := by
  rcases h with hst | ⟨r, hst⟩ | ⟨r, hst⟩ | ⟨c, n, a, rt, hst, hn⟩ | ⟨b, rest, hst, hb⟩
  · simp [timerBatch, hst]
  · simp [timerBatch, hst, setTimerBatch, frTimers]
  · simp [timerBatch, hst, setTimerBatch, frTimers]
  · simp [timerBatch, hst, setTimerBatch, frTimers]
  · rcases hb with ⟨r, rfl⟩ | ⟨a, rt, rfl⟩ | ⟨c', n', a, rt, rfl, hn⟩ <;>
      simp [timerBatch, hst, setTimerBatch, frTimers]

theorem api_timerUnregister {s s' outs} (t : Nat) (hI : Inv s) (hpc : s.pc = .user)
    (henv : envOk s (.api (.timerUnregister t)) = true)
    (h : api s (.timerUnregister t) = (s', outs)) : ApiSpec (.timerUnregister t) s s' outs := by
  simp only [envOk, apiOk, apiLive, Bool.and_eq_true, decide_eq_true_eq] at henv
  obtain ⟨htsz, htl⟩ := henv
  have hsh := hI.shape
  have hus : UserSt s.stack := by rw [hpc] at hsh; exact hsh
  obtain ⟨hbatch, hnew⟩ := timers_shape (t := t) hus
  obtain ⟨hh, hnd, hidx, hlv⟩ := hI.tm
  rw [hbatch] at hnd hidx
  have hviews : ∀ b, allTasks (s.stack.map (setTimerBatch · b)) = allTasks s.stack ∧
      allEvents (s.stack.map (setTimerBatch · b)) = allEvents s.stack ∧
      allActive (s.stack.map (setTimerBatch · b)) = allActive s.stack ∧
      allFd (s.stack.map (setTimerBatch · b)) = allFd s.stack := fun b =>
    ⟨flat_map_same frTasks _ (fun x => by cases x <;> rfl) _, flat_map_same frEvents _ (fun x => by cases x <;> rfl) _,
     flat_map_same frActive _ (fun x => by cases x <;> rfl) _, flat_map_same frFd _ (fun x => by cases x <;> rfl) _⟩
  have hshape : ∀ b, Shape s.pc (s.stack.map (setTimerBatch · b)) s.handled := by
    intro b; rw [hpc]; exact UserSt_map (keepsKind_setTimerBatch b) hus
  have hti : s.heap.idx[t]? = some (s.heap.idx.getD t (-1)) := by
    simp [Array.getD_eq_getD_getElem?, htsz]
  have hge := hh.idx_ge t _ hti
  simp only [api] at h
  by_cases h1 : s.heap.idx.getD t (-1) = -1
  · have : Ivy.Heap.unregister s.heap (timerBatch s) t =
        (.fatal s.heap "iv_timer_unregister: called with timer not on the heap", timerBatch s) := by
      unfold Ivy.Heap.unregister
      simp only
      rw [if_pos]
      simpa using h1
    rw [this] at h
    simp only [fatal] at h
    cases h
    exact .fatal
  by_cases h0 : s.heap.idx.getD t (-1) = 0
  · have : Ivy.Heap.unregister s.heap (timerBatch s) t =
        (.ok { s.heap with idx := s.heap.idx.setIfInBounds t (-1) }, (timerBatch s).erase t) := by
      unfold Ivy.Heap.unregister
      simp only
      rw [if_neg (by simpa using h1), if_pos (by simpa using h0)]
    rw [this] at h
    simp only [ok] at h
    cases h
    have ht0 : s.heap.idx[t]? = some 0 := by rw [hti, h0]
    refine Or.inr ⟨?_, by simp, ?_⟩
    · refine hI.heapChange _ _ _ (hshape _) (hviews _) ?_
      rw [hnew _ (Or.inl rfl)]
      refine ⟨heapInv_unmark hh ht0, hnd.erase t, ?_, ?_⟩
      · intro u hu
        obtain ⟨hut, hu'⟩ := (List.Nodup.mem_erase_iff hnd).1 hu
        show (s.heap.idx.setIfInBounds t (-1))[u]? = _
        rw [Array.getElem?_setIfInBounds]
        simp [Ne.symm hut, hidx u hu']
      · intro u hu
        simp only [getD_unmark] at hu
        split at hu
        · omega
        · exact hlv u hu
    · apply Regd_cases <;> intro x <;> simp [Regd5, hviews]
      rw [← Array.getD_eq_getD_getElem?, ← Array.getD_eq_getD_getElem?, getD_unmark]
      split
      · next hx => simp [hx]
      · next hx => simp [hx]
  · have hon : onHeap s.heap t := ⟨(s.heap.idx.getD t (-1)).toNat, by omega, by rw [hti]; congr 1; omega⟩
    obtain ⟨h', hr, hh', ht', _, hsz, hoth⟩ := Ivy.Props.C05.unregister_ok s.heap (timerBatch s) t hh hon
    rw [hr] at h
    simp only [ok] at h
    cases h
    have key : ∀ u, 0 ≤ h'.idx.getD u (-1) ↔ (u ≠ t ∧ 0 ≤ s.heap.idx.getD u (-1)) := by
      intro u
      by_cases hut : u = t
      · subst hut
        rw [getD_eq_of_getElem? ht']
        simp
      · rw [nonneg_iff hh hh' hsz (hoth u hut).1]
        simp [hut]
    refine Or.inr ⟨?_, by simp, ?_⟩
    · refine hI.heapChange _ _ _ (hshape _) (hviews _) ?_
      rw [hnew _ (Or.inr rfl)]
      refine ⟨hh', hnd, ?_, ?_⟩
      · intro u hu
        have hu0 := hidx u hu
        have hut : u ≠ t := by
          rintro rfl
          rw [hti] at hu0
          exact h0 (Option.some.inj hu0)
        exact ((hoth u hut).2.1).2 hu0
      · intro u hu
        exact hlv u ((key u).1 hu).2
    · apply Regd_cases <;> intro x <;> simp [Regd5, hviews]
      simpa [Array.getD_eq_getD_getElem?] using key x

/-! Part L: descriptor API calls -/

theorem rawFd_ne {r f : Nat} (hf : f < 1000) : rawFd r ≠ f := by unfold rawFd; c01_omega

theorem RawInv.other {fds fds' : FdId → FdObj} {raws u c} (h : RawInv fds raws u c) (f : Nat) (hf : f < 1000)
    (hr : ∀ g, g ≠ f → (fds' g).registered = (fds g).registered) : RawInv fds' raws u c := by
  refine ⟨fun r => ?_, h.2.1, h.2.2⟩
  rw [hr (rawFd r) (rawFd_ne hf)]
  exact h.1 r

theorem epollFlushOne_vcore {s : St} {f : Nat} (h : VCore (view s)) (hep : s.method.isEpoll = true)
    (hf : (s.fds f).registered = true) : VCore (view (epollFlushOne s f)) :=
  h.fdOnly (epollFlushOne_fdOnly s f) (epollFlushOne_sim s f)
    (fun _ => epollFlushOne_ep (h.ep hep) (Or.inl hf)) (fun hc => by rw [hep] at hc; simp at hc)

theorem epollNotify_vcore {s : St} {f : Nat} (h : VCore (view s)) (hep : s.method.isEpoll = true)
    (hf : (s.fds f).registered = true) : VCore (view (epollNotify s f)) :=
  h.fdOnly (epollNotify_fdOnly s f) (SimRL.refl _)
    (fun _ => epollNotify_ep (h.ep hep) hf) (fun hc => by rw [hep] at hc; simp at hc)

theorem pollNotify_vcore {s : St} {f : Nat} (h : VCore (view s)) (hpo : s.method.isEpoll = false)
    (hf : (s.fds f).registered = true) : VCore (view (pollNotify s f)) := by
  refine h.fdOnly (pollNotify_fdOnly s f) (pollNotify_sim s f) (fun hc => by rw [hpo] at hc; simp at hc) ?_
  intro _
  have hP : PoInv s.fds s.pfds := h.po hpo
  obtain ⟨hS, hent⟩ := pollNotify_spec s f hP.toS
  refine PoInv.ofS hS ?_
  intro i g b hi
  rw [(pollNotify_sim s f g).1]
  rcases hent i g b hi with ⟨rfl, _⟩ | ⟨_, j, b', hj⟩
  · exact hf
  · exact (hP.2 j g b' hj).2

/-- bookkeeping for a chain of primitive steps that register `f`, starting from `s0` -/
def Good (f : Nat) (s0 s : St) : Prop := VCore (view s) ∧ FdOnly s0 s ∧ RegAt f s0.fds s.fds

theorem Good.reg {f s0 s} (h : Good f s0 s) : (s.fds f).registered = true := by
  have := (h.2.2 f).1
  simpa using this

theorem Good.method {f s0 s} (h : Good f s0 s) : s.method = s0.method := h.2.1.method

theorem Good.step {f : Nat} {s0 s s' : St} (hg : Good f s0 s) (hv : VCore (view s')) (hfo : FdOnly s s')
    (hsim : SimRL s.fds s'.fds) : Good f s0 s' :=
  ⟨hv, hg.2.1.trans hfo, hg.2.2.sim hsim⟩

theorem Good.flush {f s0 s} (hg : Good f s0 s) (hep : s0.method.isEpoll = true) : Good f s0 (epollFlushOne s f) :=
  hg.step (epollFlushOne_vcore hg.1 (by rw [hg.method]; exact hep) hg.reg) (epollFlushOne_fdOnly s f)
    (epollFlushOne_sim s f)

theorem Good.enotify {f s0 s} (hg : Good f s0 s) (hep : s0.method.isEpoll = true) : Good f s0 (epollNotify s f) :=
  hg.step (epollNotify_vcore hg.1 (by rw [hg.method]; exact hep) hg.reg) (epollNotify_fdOnly s f) (SimRL.refl _)

theorem Good.pnotify {f s0 s} (hg : Good f s0 s) (hpo : s0.method.isEpoll = false) : Good f s0 (pollNotify s f) :=
  hg.step (pollNotify_vcore hg.1 (by rw [hg.method]; exact hpo) hg.reg) (pollNotify_fdOnly s f)
    (pollNotify_sim s f)

theorem Good.setWanted {f s0 s} (hg : Good f s0 s) (w : Bands) :
    Good f s0 { s with fds := upd s.fds f { (s.fds f) with wanted := w } } := by
  have hu := upd_fields s.fds f { (s.fds f) with wanted := w } ⟨rfl, rfl, rfl, rfl⟩
  exact hg.step (hg.1.setObj f _ ⟨rfl, rfl, rfl, rfl⟩) ⟨_, s.notify, s.kint, s.pfds, s.numobjs, s.numfds, rfl⟩
    (fun g => ⟨(hu g).1, (hu g).2.1⟩)

theorem Good.counters {f s0 s} (hg : Good f s0 s) (a b : Int) : Good f s0 { s with numobjs := a, numfds := b } :=
  hg.step hg.1 ⟨s.fds, s.notify, s.kint, s.pfds, a, b, rfl⟩ (SimRL.refl _)

/-- a finished chain gives the API specification of a successful user-descriptor registration -/
theorem Good.finish {f : Nat} {s s' : St} (hg : Good f s s') (hI : Inv s) (hf : f < 1000) :
    Inv s' ∧ ∀ q, Regd s' q ↔ (q = (0, f) ∨ Regd s q) := by
  obtain ⟨hv, hfo, hra⟩ := hg
  have hsh := hI.shape
  have hraw := hI.raw
  obtain ⟨F, N, K, P, a, b, rfl⟩ := hfo
  refine ⟨⟨hsh, hv.toInv ?_⟩, ?_⟩
  · refine hraw.other f hf (fun g hg => ?_)
    have := (hra g).1
    simp only [hg, if_false] at this
    exact this
  · apply Regd_cases <;> intro x <;> simp [Regd5]
    rw [(hra x).1]
    split
    · next hx => subst hx; simp [hf]
    · next hx => simp [hx]

theorem api_fdRegister {s s' outs} (f : Nat) (a b c : Bool) (hI : Inv s) (hpc : s.pc = .user)
    (henv : envOk s (.api (.fdRegister f a b c)) = true)
    (h : api s (.fdRegister f a b c) = (s', outs)) : ApiSpec (.fdRegister f a b c) s s' outs := by
  simp only [envOk, apiOk, apiLive, Bool.and_eq_true, decide_eq_true_eq] at henv
  simp only [api] at h
  split at h
  · simp only [fatal] at h; cases h; exact .fatal
  · next hun =>
    simp only [ok] at h
    cases h
    obtain ⟨hv, hfo, hra⟩ := fdRegisterCore_spec (a := a) (b := b) (c := c) hI.2.core (by simpa using hun) henv.2
    obtain ⟨hInv, hr⟩ := Good.finish ⟨hv, hfo, hra⟩ hI (by c01_omega)
    exact Or.inr ⟨hInv, Or.inl ⟨rfl, hr⟩⟩



theorem pollNotify_method (s : St) (f : Nat) : (pollNotify s f).method = s.method := (pollNotify_fdOnly s f).method

/-- a failed `iv_fd_register_try`: the object is rewritten but stays unregistered -/
theorem unregPre {s : St} {f : Nat} (o0 : FdObj) (h : VCore (view s)) (hun : (s.fds f).registered = false)
    (h1 : o0.registered = false) (h2 : o0.regBands = {}) (h3 : o0.index = none) (h4 : o0.live = (s.fds f).live) :
    VCore (view { s with fds := upd s.fds f o0, notify := s.notify.erase f }) ∧ SimRL s.fds (upd s.fds f o0) := by
  have hsim : SimRL s.fds (upd s.fds f o0) := by
    intro g
    simp only [upd_apply]
    split
    · next hg => subst hg; simp [h1, h4, hun]
    · exact ⟨rfl, rfl⟩
  have hep0 : s.method.isEpoll = true → EpInv s.fds s.kint s.notify := h.ep
  have hpo0 : s.method.isEpoll = false → PoInv s.fds s.pfds := h.po
  refine ⟨h.fdOnly ⟨_, _, s.kint, s.pfds, s.numobjs, s.numfds, rfl⟩ hsim ?_ ?_, hsim⟩
  · intro hep
    obtain ⟨k1, k2, n1, n2⟩ := hep0 hep
    have hkf : s.kint f = none := by
      cases hk : s.kint f with
      | none => rfl
      | some b =>
        have := k1 f (by simp [hk])
        simp [hun] at this
    show EpInv (upd s.fds f o0) s.kint (s.notify.erase f)
    refine ⟨fun g hg => by rw [(hsim g).1]; exact k1 g hg, ?_, n1.erase f,
      fun g hg => by rw [(hsim g).1]; exact n2 g (List.mem_of_mem_erase hg)⟩
    intro g hg
    by_cases hgf : g = f
    · subst hgf; exact hkf
    · simp only [upd_apply, hgf, if_false] at hg
      exact k2 g hg
  · intro hpo
    obtain ⟨p1, p2⟩ := hpo0 hpo
    show PoInv (upd s.fds f o0) s.pfds
    refine ⟨?_, ?_⟩
    · intro g i hg
      by_cases hgf : g = f
      · subst hgf
        simp [h3] at hg
      · simp only [upd_apply, hgf, if_false] at hg
        exact p1 g i hg
    · intro i g b hi
      have := p2 i g b hi
      have hgf : g ≠ f := by
        rintro rfl
        simp [hun] at this
      simp only [upd_apply, hgf, if_false]
      exact this

theorem api_fdRegisterTry {s s' outs} (f : Nat) (a b c k : Bool) (hI : Inv s) (hpc : s.pc = .user)
    (henv : envOk s (.api (.fdRegisterTry f a b c k)) = true)
    (h : api s (.fdRegisterTry f a b c k) = (s', outs)) : ApiSpec (.fdRegisterTry f a b c k) s s' outs := by
  simp only [envOk, apiOk, apiLive, Bool.and_eq_true, decide_eq_true_eq] at henv
  have hf : f < 1000 := by c01_omega
  simp only [api] at h
  split at h
  · simp only [fatal] at h; cases h; exact .fatal
  next hun =>
  have hun' : (s.fds f).registered = false := by simpa using hun
  split at h
  · -- the kernel refused
    cases h
    generalize ho : ({ (s.fds f) with hin := a, hout := b, herr := c, registered := false, ready := {}, regBands := {}, index := none, wanted := if (a || b || c) = true then ⟨a, b, c⟩ else ⟨true, true, false⟩ } : FdObj) = o0
    obtain ⟨hv, hsim⟩ := unregPre o0 hI.2.core hun' (by subst ho; rfl) (by subst ho; rfl) (by subst ho; rfl) (by subst ho; rfl)
    refine Or.inr ⟨⟨hI.shape, hv.toInv (hI.raw.sim hsim)⟩, Or.inr ⟨-1, by decide, rfl, ?_⟩⟩
    apply Regd_of <;> first | (intro _; rfl) | rfl | skip
    intro g; exact (hsim g).1
  · -- success
    simp only [ok] at h
    generalize hw : (if (wantedOf ({ (s.fds f) with hin := a, hout := b, herr := c, registered := true, ready := {}, regBands := {}, index := none } : FdObj)).isZero = true then (⟨true, true, false⟩ : Bands) else wantedOf ({ (s.fds f) with hin := a, hout := b, herr := c, registered := true, ready := {}, regBands := {}, index := none } : FdObj)) = w at h
    generalize ho : ({ (s.fds f) with hin := a, hout := b, herr := c, registered := true, ready := {}, regBands := {}, index := none, wanted := w } : FdObj) = o0 at h
    obtain ⟨hv1, hra1⟩ := regPre o0 hI.2.core hun' (by subst ho; rfl) (by subst ho; rfl) (by subst ho; rfl)
      (by subst ho; exact henv.2) henv.2
    have g1 : Good f s { s with fds := upd s.fds f o0, notify := s.notify.erase f } :=
      ⟨hv1, ⟨_, _, s.kint, s.pfds, s.numobjs, s.numfds, rfl⟩, hra1⟩
    by_cases hep : s.method.isEpoll = true
    · simp only [hep, if_true] at h
      have g2 := g1.flush hep
      split at h
      · split at h
        · cases h
          obtain ⟨hInv, hr⟩ := (((g2.setWanted {}).enotify hep).counters _ _).finish hI hf
          exact Or.inr ⟨hInv, Or.inl ⟨rfl, hr⟩⟩
        · next hc =>
          exfalso
          simp only [epollFlushOne_method, hep] at hc
          exact hc trivial
      · cases h
        obtain ⟨hInv, hr⟩ := (g2.counters _ _).finish hI hf
        exact Or.inr ⟨hInv, Or.inl ⟨rfl, hr⟩⟩
    · have hpo : s.method.isEpoll = false := by simpa using hep
      simp only [hpo, Bool.false_eq_true, if_false] at h
      have g2 := g1.pnotify hpo
      split at h
      · split at h
        · next hc =>
          exfalso
          simp only [pollNotify_method, hpo] at hc
          exact absurd hc (by simp)
        · cases h
          obtain ⟨hInv, hr⟩ := (((g2.setWanted {}).pnotify hpo).counters _ _).finish hI hf
          exact Or.inr ⟨hInv, Or.inl ⟨rfl, hr⟩⟩
      · cases h
        obtain ⟨hInv, hr⟩ := (g2.counters _ _).finish hI hf
        exact Or.inr ⟨hInv, Or.inl ⟨rfl, hr⟩⟩



theorem keepsKind_eraseActive (k : Nat) : KeepsKind (eraseActive · k) :=
  ⟨fun r => ⟨r, rfl⟩, fun r => ⟨r, rfl⟩, fun a rt => ⟨_, rfl⟩, fun _ _ => rfl, fun b => ⟨b, rfl⟩⟩

/-- a finished unregistration of a user descriptor -/
theorem unreg_finish {f : Nat} {s s' : St} (hI : Inv s) (hpc : s.pc = .user) (hf : f < 1000)
    (hv : VCore (view s')) (hu : UnregAt f s.fds s'.fds) (hform : UnregForm f s s') :
    Inv s' ∧ ∀ q, Regd s' q ↔ (q ≠ (0, f) ∧ Regd s q) := by
  have hsh := hI.shape
  rw [hpc] at hsh
  have hraw := hI.raw
  obtain ⟨F, N, K, P, a, b, rfl⟩ := hform
  refine ⟨⟨?_, hv.toInv ?_⟩, ?_⟩
  · rw [hpc]
    exact UserSt_map (keepsKind_eraseActive f) hsh
  · refine hraw.other f hf (fun g hg => ?_)
    have := (hu g).1
    simp only [hg, if_false] at this
    exact this
  · apply Regd_cases <;> intro x <;> simp [Regd5, allTasks_erase]
    rw [(hu x).1]
    split
    · next hx => subst hx; simp
    · next hx => simp [hx]

theorem api_fdUnregister {s s' outs} (f : Nat) (hI : Inv s) (hpc : s.pc = .user)
    (henv : envOk s (.api (.fdUnregister f)) = true)
    (h : api s (.fdUnregister f) = (s', outs)) : ApiSpec (.fdUnregister f) s s' outs := by
  simp only [envOk, apiOk, apiLive, Bool.and_eq_true, decide_eq_true_eq] at henv
  have hf : f < 1000 := by c01_omega
  have hsh := hI.shape
  rw [hpc] at hsh
  simp only [api] at h
  split at h
  · simp only [fatal] at h; cases h; exact .fatal
  · next hreg =>
    simp only [ok] at h
    cases h
    obtain ⟨hv, hu, hform⟩ := fdUnregisterCore_spec hI.2.core (by simpa using hreg) (UserSt_fd_pos hsh)
    obtain ⟨hInv, hr⟩ := unreg_finish hI hpc hf hv hu hform
    exact Or.inr ⟨hInv, by simp, hr⟩

/-- `iv_fd_set_handler_*`: handler pointer changed, then `notify_fd` -/
theorem fdSet_spec {s : St} {f : Nat} (o' : FdObj) (hI : Inv s) (hreg : (s.fds f).registered = true)
    (ho : o'.registered = (s.fds f).registered ∧ o'.live = (s.fds f).live ∧ o'.regBands = (s.fds f).regBands ∧
      o'.index = (s.fds f).index) :
    Inv (notifyFd { s with fds := upd s.fds f o' } f) ∧
    ∀ q, Regd (notifyFd { s with fds := upd s.fds f o' } f) q ↔ Regd s q := by
  have hu := upd_fields s.fds f o' ho
  have hv0 : VInv (view { s with fds := upd s.fds f o' }) := hI.2.setObj f o' ho
  have hreg0 : (({ s with fds := upd s.fds f o' } : St).fds f).registered = true := by
    simp [ho.1, hreg]
  have hv1 := notifyFd_vinv hv0 hreg0
  have hfo : FdOnly s (notifyFd { s with fds := upd s.fds f o' } f) :=
    FdOnly.trans ⟨_, s.notify, s.kint, s.pfds, s.numobjs, s.numfds, rfl⟩ (notifyFd_fdOnly _ f)
  have hsim : SimRL s.fds (notifyFd { s with fds := upd s.fds f o' } f).fds :=
    SimRL.trans (fun g => ⟨(hu g).1, (hu g).2.1⟩) (notifyFd_sim _ f)
  refine ⟨⟨?_, hv1⟩, Regd_fdOnly hfo hsim⟩
  rw [hfo.pc, hfo.stack, hfo.handled]
  exact hI.shape

theorem api_fdSetIn {s s' outs} (f : Nat) (v : Bool) (hI : Inv s) (hpc : s.pc = .user)
    (h : api s (.fdSetIn f v) = (s', outs)) : ApiSpec (.fdSetIn f v) s s' outs := by
  simp only [api] at h
  split at h
  · simp only [fatal] at h; cases h; exact .fatal
  · next hreg =>
    simp only [ok] at h
    cases h
    obtain ⟨hInv, hr⟩ := fdSet_spec { (s.fds f) with hin := v } hI (by simpa using hreg) ⟨rfl, rfl, rfl, rfl⟩
    exact .other rfl (by simp) hInv hr

theorem api_fdSetOut {s s' outs} (f : Nat) (v : Bool) (hI : Inv s) (hpc : s.pc = .user)
    (h : api s (.fdSetOut f v) = (s', outs)) : ApiSpec (.fdSetOut f v) s s' outs := by
  simp only [api] at h
  split at h
  · simp only [fatal] at h; cases h; exact .fatal
  · next hreg =>
    simp only [ok] at h
    cases h
    obtain ⟨hInv, hr⟩ := fdSet_spec { (s.fds f) with hout := v } hI (by simpa using hreg) ⟨rfl, rfl, rfl, rfl⟩
    exact .other rfl (by simp) hInv hr

theorem api_fdSetErr {s s' outs} (f : Nat) (v : Bool) (hI : Inv s) (hpc : s.pc = .user)
    (h : api s (.fdSetErr f v) = (s', outs)) : ApiSpec (.fdSetErr f v) s s' outs := by
  simp only [api] at h
  split at h
  · simp only [fatal] at h; cases h; exact .fatal
  · next hreg =>
    simp only [ok] at h
    cases h
    obtain ⟨hInv, hr⟩ := fdSet_spec { (s.fds f) with herr := v } hI (by simpa using hreg) ⟨rfl, rfl, rfl, rfl⟩
    exact .other rfl (by simp) hInv hr

/-! Part M: raw events and events API calls -/

theorem rawFd_inj {a b : Nat} (h : rawFd a = rawFd b) : a = b := by unfold rawFd at h; c01_omega

theorem VCore.setRaws {s : St} (h : VCore (view s)) (x : RawId → RawObj) : VCore (view { s with raws := x }) :=
  ⟨h.tm, h.tk, h.ev, h.fl, h.act, h.hd, h.ep, h.po⟩

/-- `iv_event_raw_register` body -/
theorem rawRegisterCore_spec {s : St} {r : Nat} (h : VCore (view s))
    (hlink : (s.fds (rawFd r)).registered = (s.raws r).registered) (hun : (s.raws r).registered = false) :
    VCore (view (rawRegisterCore s r)) ∧ RegAt (rawFd r) s.fds (rawRegisterCore s r).fds ∧
    ∃ F N K P a b, rawRegisterCore s r = { s with fds := F, notify := N, kint := K, pfds := P, numobjs := a, numfds := b, raws := upd s.raws r { (s.raws r) with registered := true } } := by
  have hfl : FdLive s.fds := h.fl
  have hunf : (s.fds (rawFd r)).registered = false := by rw [hlink]; exact hun
  have hlv : (s.fds (rawFd r)).live = true := hfl.2 _ (by unfold rawFd; c01_omega)
  obtain ⟨hv, hfo, hra⟩ := fdRegisterCore_spec (a := true) (b := false) (c := false) h hunf hlv
  unfold rawRegisterCore
  simp only
  generalize fdRegisterCore s (rawFd r) true false false = s1 at hv hfo hra
  obtain ⟨F, N, K, P, a, b, rfl⟩ := hfo
  exact ⟨hv.setRaws _, hra, F, N, K, P, a, b, rfl⟩

theorem RawInv.regRaw {fds fds' : FdId → FdObj} {raws : RawId → RawObj} {u c} {r : Nat}
    (h : RawInv fds raws u c) (hra : RegAt (rawFd r) fds fds') (hr1 : 1 ≤ r) (hlive : (raws r).live = true) :
    RawInv fds' (upd raws r { (raws r) with registered := true }) u c := by
  refine ⟨fun r' => ?_, ?_, fun r' h1 hreg => ?_⟩
  · rw [(hra _).1]
    simp only [upd_apply]
    by_cases hrr : r' = r
    · subst hrr; simp
    · have : rawFd r' ≠ rawFd r := fun hh => hrr (rawFd_inj hh)
      simp only [this, hrr, if_false]
      exact h.1 r'
  · have : (0 : Nat) ≠ r := by omega
    simp only [upd_apply, this, if_false]
    exact h.2.1
  · simp only [upd_apply] at hreg ⊢
    split
    · next hrr => subst hrr; exact hlive
    · next hrr => simp only [hrr, if_false] at hreg; exact h.2.2 r' h1 hreg

theorem RawInv.regRaw0 {fds fds' : FdId → FdObj} {raws : RawId → RawObj} {u c} (c' : Int)
    (h : RawInv fds raws u c) (hra : RegAt (rawFd 0) fds fds') (hc' : 1 ≤ c') :
    RawInv fds' (upd raws 0 { (raws 0) with registered := true }) true c' := by
  refine ⟨fun r' => ?_, ?_, fun r' h1 hreg => ?_⟩
  · rw [(hra _).1]
    simp only [upd_apply]
    by_cases hrr : r' = 0
    · subst hrr; simp
    · have : rawFd r' ≠ rawFd 0 := fun hh => hrr (rawFd_inj hh)
      simp only [this, hrr, if_false]
      exact h.1 r'
  · simp [hc']
  · have : r' ≠ 0 := by c01_omega
    simp only [upd_apply, this, if_false] at hreg ⊢
    exact h.2.2 r' h1 hreg

theorem Regd_rawReg {s s' : St} {r : Nat} (hra : RegAt (rawFd r) s.fds s'.fds)
    (hheap : s'.heap = s.heap) (htk : s'.tasks ++ allTasks s'.stack = s.tasks ++ allTasks s.stack)
    (hevs : s'.evs = s.evs) (hraws : s'.raws = upd s.raws r { (s.raws r) with registered := true }) (hr1 : 1 ≤ r) :
    ∀ q, Regd s' q ↔ (q = (4, r) ∨ Regd s q) := by
  apply Regd_cases <;> intro x <;> simp [Regd5, hheap, htk, hevs, hraws]
  · rw [(hra x).1]
    intro hx
    have : x ≠ rawFd r := by unfold rawFd; c01_omega
    simp [this]
  · simp only [upd_apply]
    split
    · next hx => subst hx; simp [hr1]
    · next hx => simp [hx]

theorem api_rawRegister {s s' outs} (r : Nat) (okk : Bool) (hI : Inv s) (hpc : s.pc = .user)
    (henv : envOk s (.api (.rawRegister r okk)) = true)
    (h : api s (.rawRegister r okk) = (s', outs)) : ApiSpec (.rawRegister r okk) s s' outs := by
  simp only [envOk, apiOk, apiLive, Bool.and_eq_true, decide_eq_true_eq, Bool.not_eq_true'] at henv
  obtain ⟨⟨⟨hr1, _⟩, hun⟩, hlive⟩ := henv
  simp only [api] at h
  split at h
  · cases h
    refine Or.inr ⟨hI, Or.inr ⟨-1, by decide, rfl, fun _ => Iff.rfl⟩⟩
  · simp only [ok] at h
    cases h
    obtain ⟨hv, hra, F, N, K, P, a, b, heq⟩ := rawRegisterCore_spec hI.2.core (hI.raw.1 r) hun
    have hsh := hI.shape
    rw [heq] at hv hra ⊢
    have hraw := hI.raw.regRaw hra hr1 hlive
    refine Or.inr ⟨⟨hsh, hv.toInv hraw⟩, Or.inl ⟨rfl, Regd_rawReg hra rfl rfl rfl rfl hr1⟩⟩



/-- `iv_event_raw_unregister` body -/
theorem rawUnregisterCore_spec {s : St} {r : Nat} (h : VCore (view s))
    (hlink : (s.fds (rawFd r)).registered = (s.raws r).registered) (hreg : (s.raws r).registered = true)
    (hpos : ∀ c n, (c, n) ∈ allFd s.stack → 1 ≤ n) :
    VCore (view (rawUnregisterCore s r)) ∧ UnregAt (rawFd r) s.fds (rawUnregisterCore s r).fds ∧
    ∃ F N K P a b, rawUnregisterCore s r = { s with fds := F, notify := N, kint := K, pfds := P, numobjs := a, numfds := b, stack := s.stack.map (eraseActive · (rawFd r)), handled := if s.handled == some (rawFd r) then none else s.handled, raws := upd s.raws r { (s.raws r) with registered := false } } := by
  have hregf : (s.fds (rawFd r)).registered = true := by rw [hlink]; exact hreg
  obtain ⟨hv, hu, hform⟩ := fdUnregisterCore_spec h hregf hpos
  unfold rawUnregisterCore
  simp only
  generalize fdUnregisterCore s (rawFd r) = s1 at hv hu hform
  obtain ⟨F, N, K, P, a, b, rfl⟩ := hform
  exact ⟨hv.setRaws _, hu, F, N, K, P, a, b, rfl⟩

theorem RawInv.unregRaw {fds fds' : FdId → FdObj} {raws : RawId → RawObj} {u c} {r : Nat}
    (h : RawInv fds raws u c) (hu : UnregAt (rawFd r) fds fds') (hr1 : 1 ≤ r) :
    RawInv fds' (upd raws r { (raws r) with registered := false }) u c := by
  refine ⟨fun r' => ?_, ?_, fun r' h1 hreg => ?_⟩
  · rw [(hu _).1]
    simp only [upd_apply]
    by_cases hrr : r' = r
    · subst hrr; simp
    · have : rawFd r' ≠ rawFd r := fun hh => hrr (rawFd_inj hh)
      simp only [this, hrr, if_false]
      exact h.1 r'
  · have : (0 : Nat) ≠ r := by omega
    simp only [upd_apply, this, if_false]
    exact h.2.1
  · simp only [upd_apply] at hreg ⊢
    split
    · next hrr => subst hrr; simp at hreg
    · next hrr => simp only [hrr, if_false] at hreg; exact h.2.2 r' h1 hreg

theorem RawInv.unregRaw0 {fds fds' : FdId → FdObj} {raws : RawId → RawObj} {u c} (u' : Bool) (c' : Int)
    (h : RawInv fds raws u c) (hu : UnregAt (rawFd 0) fds fds') (hc' : (u' && decide (1 ≤ c')) = false) :
    RawInv fds' (upd raws 0 { (raws 0) with registered := false }) u' c' := by
  refine ⟨fun r' => ?_, ?_, fun r' h1 hreg => ?_⟩
  · rw [(hu _).1]
    simp only [upd_apply]
    by_cases hrr : r' = 0
    · subst hrr; simp
    · have : rawFd r' ≠ rawFd 0 := fun hh => hrr (rawFd_inj hh)
      simp only [this, hrr, if_false]
      exact h.1 r'
  · simp [hc']
  · have : r' ≠ 0 := by c01_omega
    simp only [upd_apply, this, if_false] at hreg ⊢
    exact h.2.2 r' h1 hreg

theorem api_rawUnregister {s s' outs} (r : Nat) (hI : Inv s) (hpc : s.pc = .user)
    (henv : envOk s (.api (.rawUnregister r)) = true)
    (h : api s (.rawUnregister r) = (s', outs)) : ApiSpec (.rawUnregister r) s s' outs := by
  simp only [envOk, apiOk, apiLive, Bool.and_eq_true, decide_eq_true_eq] at henv
  obtain ⟨⟨⟨hr1, _⟩, hreg⟩, hlive⟩ := henv
  have hsh := hI.shape
  rw [hpc] at hsh
  simp only [api] at h
  cases h
  obtain ⟨hv, hu, F, N, K, P, a, b, heq⟩ := rawUnregisterCore_spec hI.2.core (hI.raw.1 r) hreg (UserSt_fd_pos hsh)
  rw [heq] at hv hu ⊢
  have hraw := hI.raw.unregRaw hu hr1
  refine Or.inr ⟨⟨?_, hv.toInv hraw⟩, by simp, ?_⟩
  · rw [hpc]; exact UserSt_map (keepsKind_eraseActive _) hsh
  · apply Regd_cases <;> intro x <;> simp [Regd5, allTasks_erase]
    · rw [(hu x).1]
      intro hx
      have : x ≠ rawFd r := by unfold rawFd; c01_omega
      simp [this]
    · simp only [upd_apply]
      split
      · next hx => subst hx; simp
      · next hx => simp [hx]

/-! Part N: event API calls -/

def evRegRaw (s2 : St) (e : Nat) (rawOk : Bool) : St × List Out :=
  if rawOk then ok { (rawRegisterCore s2 0) with evs := upd (rawRegisterCore s2 0).evs e { ((rawRegisterCore s2 0).evs e) with registered := true } }
  else ({ s2 with eventCount := s2.eventCount - 1, numobjs := s2.numobjs - 1 }, [Out.ret (-1)])

theorem evRegister_eq (s : St) (e : Nat) (rawOk : Bool) :
    api s (.evRegister e rawOk) =
      if s.eventCount = 0 then
        if s.useRaw = true then evRegRaw { s with numobjs := s.numobjs + 1, eventCount := s.eventCount + 1 } e rawOk
        else if s.method.isEpoll = true then
          ok { s with numobjs := s.numobjs + 1 + 1, eventCount := s.eventCount + 1, kickReg := true, kickArmed := false, evs := upd s.evs e { (s.evs e) with registered := true } }
        else evRegRaw { s with numobjs := s.numobjs + 1, eventCount := s.eventCount + 1, useRaw := true } e rawOk
      else ok { s with numobjs := s.numobjs + 1, eventCount := s.eventCount + 1, evs := upd s.evs e { (s.evs e) with registered := true } } := by
  by_cases h1 : s.eventCount = 0 <;> by_cases h2 : s.useRaw = true <;> by_cases h3 : s.method.isEpoll = true <;>
    simp [api, evRegRaw, h1, h2, h3]

def evUnregMid (s : St) (e : Nat) : St :=
  { s with pending := s.pending.erase e, stack := s.stack.map (eraseEvent · e), evs := upd s.evs e { (s.evs e) with registered := false }, eventCount := s.eventCount - 1 }

theorem evUnregister_eq (s : St) (e : Nat) :
    api s (.evUnregister e) =
      if s.eventCount - 1 = 0 then
        if s.useRaw = true then ok { (rawUnregisterCore (evUnregMid s e) 0) with numobjs := (rawUnregisterCore (evUnregMid s e) 0).numobjs - 1 }
        else ok { (evUnregMid s e) with kickReg := false, kickArmed := false, numobjs := s.numobjs - 1 - 1 }
      else ok { (evUnregMid s e) with numobjs := s.numobjs - 1 } := by
  by_cases h1 : s.eventCount - 1 = 0 <;> by_cases h2 : s.useRaw = true <;>
    simp [api, evUnregMid, h1, h2]

theorem EvInv.setReg {p fr : List EvId} {evs : EvId → EvObj} {e : Nat} (h : EvInv p fr evs)
    (hlive : (evs e).live = true) : EvInv p fr (upd evs e { (evs e) with registered := true }) := by
  obtain ⟨hnd, hreg, hlv⟩ := h
  refine ⟨hnd, fun x hx => ?_, fun x hx => ?_⟩
  · simp only [upd_apply]
    split
    · rfl
    · exact hreg x hx
  · simp only [upd_apply] at hx ⊢
    split
    · next hxe => subst hxe; exact hlive
    · next hxe => simp only [hxe, if_false] at hx; exact hlv x hx

theorem Regd_evReg {s s' : St} {e : Nat} (hfds : ∀ f, f < 1000 → (s'.fds f).registered = (s.fds f).registered)
    (hheap : s'.heap = s.heap) (htk : s'.tasks ++ allTasks s'.stack = s.tasks ++ allTasks s.stack)
    (hevs : s'.evs = upd s.evs e { (s.evs e) with registered := true })
    (hraws : ∀ r, 1 ≤ r → (s'.raws r).registered = (s.raws r).registered) :
    ∀ q, Regd s' q ↔ (q = (3, e) ∨ Regd s q) := by
  apply Regd_cases <;> intro x <;> simp [Regd5, hheap, htk, hevs]
  · intro hx; rw [hfds x hx]
  · simp only [upd_apply]
    split
    · next hx => subst hx; simp
    · next hx => simp [hx]
  · intro hx; rw [hraws x hx]

/-- registration that does not touch the raw kick event -/
theorem evReg_plain {s : St} (hI : Inv s) (e : Nat) (hlive : (s.evs e).live = true) (a c' : Int) (k1 k2 u' : Bool)
    (hraw0 : (s.raws 0).registered = (u' && decide (1 ≤ c'))) :
    Inv { s with numobjs := a, eventCount := c', kickReg := k1, kickArmed := k2, useRaw := u', evs := upd s.evs e { (s.evs e) with registered := true } } ∧
    ∀ q, Regd { s with numobjs := a, eventCount := c', kickReg := k1, kickArmed := k2, useRaw := u', evs := upd s.evs e { (s.evs e) with registered := true } } q ↔ (q = (3, e) ∨ Regd s q) := by
  refine ⟨Inv.mk' hI.shape hI.tm hI.tk (hI.ev.setReg hlive) hI.fl hI.act hI.hd hI.ep hI.po ⟨hI.raw.1, hraw0, hI.raw.2.2⟩, ?_⟩
  exact Regd_evReg (fun _ _ => rfl) rfl rfl rfl (fun _ _ => rfl)

theorem VCore.setMisc {s : St} (h : VCore (view s)) (a c' : Int) (u' : Bool) :
    VCore (view { s with numobjs := a, eventCount := c', useRaw := u' }) :=
  ⟨h.tm, h.tk, h.ev, h.fl, h.act, h.hd, h.ep, h.po⟩

theorem evRegRaw_spec {s s' : St} {outs} (hI : Inv s) (e : Nat) (rawOk : Bool) (hlive : (s.evs e).live = true)
    (a : Int) (u' : Bool) (hu : u' = true) (hec : s.eventCount = 0)
    (h : evRegRaw { s with numobjs := a, eventCount := s.eventCount + 1, useRaw := u' } e rawOk = (s', outs)) :
    ApiSpec (.evRegister e rawOk) s s' outs := by
  have hraw := hI.raw
  have hun0 : (s.raws 0).registered = false := by
    rw [hraw.2.1, hec]; simp
  unfold evRegRaw at h
  split at h
  · -- the raw kick event registers
    simp only [ok] at h
    obtain ⟨hv, hra, F, N, K, P, a', b', heq⟩ :=
      rawRegisterCore_spec (s := { s with numobjs := a, eventCount := s.eventCount + 1, useRaw := u' }) (r := 0)
        (hI.2.core.setMisc _ _ _) (hraw.1 0) hun0
    rw [heq] at h hv hra
    cases h
    have hrawN : RawInv F (upd s.raws 0 { (s.raws 0) with registered := true }) u' (s.eventCount + 1) := by
      subst hu
      exact hraw.regRaw0 _ hra (by omega)
    refine Or.inr ⟨Inv.mk' hI.shape hv.tm hv.tk (hI.ev.setReg hlive) hv.fl hv.act hv.hd hv.ep hv.po hrawN,
      Or.inl ⟨rfl, ?_⟩⟩
    refine Regd_evReg (fun f hf => ?_) rfl rfl rfl (fun r hr => ?_)
    · have := (hra f).1
      have hne : f ≠ rawFd 0 := by unfold rawFd; c01_omega
      simp only [hne, if_false] at this
      exact this
    · have : r ≠ 0 := by c01_omega
      simp [upd_apply, this]
  · cases h
    refine Or.inr ⟨Inv.mk' hI.shape hI.tm hI.tk hI.ev hI.fl hI.act hI.hd hI.ep hI.po ⟨hraw.1, ?_, hraw.2.2⟩,
      Or.inr ⟨-1, by decide, rfl, ?_⟩⟩
    · show (s.raws 0).registered = (u' && decide (1 ≤ s.eventCount + 1 - 1))
      rw [hun0, hec]; simp
    · apply Regd_of <;> first | (intro _; rfl) | rfl

theorem api_evRegister {s s' outs} (e : Nat) (rawOk : Bool) (hI : Inv s) (hpc : s.pc = .user)
    (henv : envOk s (.api (.evRegister e rawOk)) = true)
    (h : api s (.evRegister e rawOk) = (s', outs)) : ApiSpec (.evRegister e rawOk) s s' outs := by
  simp only [envOk, apiOk, apiLive, Bool.and_eq_true, decide_eq_true_eq, Bool.not_eq_true'] at henv
  obtain ⟨hun, hlive⟩ := henv
  have hraw := hI.raw
  rw [evRegister_eq] at h
  split at h
  · next hec =>
    split at h
    · next hu =>
      exact evRegRaw_spec hI e rawOk hlive _ s.useRaw hu hec h
    · next hu =>
      split at h
      · simp only [ok] at h
        cases h
        obtain ⟨hInv, hr⟩ := evReg_plain hI e hlive (s.numobjs + 1 + 1) (s.eventCount + 1) true false s.useRaw
          (by rw [hraw.2.1]; simp [hu])
        exact Or.inr ⟨hInv, Or.inl ⟨rfl, hr⟩⟩
      · exact evRegRaw_spec hI e rawOk hlive _ true rfl hec h
  · next hec =>
    simp only [ok] at h
    cases h
    obtain ⟨hInv, hr⟩ := evReg_plain hI e hlive (s.numobjs + 1) (s.eventCount + 1) s.kickReg s.kickArmed s.useRaw
      (by
        rw [hraw.2.1]
        congr 1
        simp only [decide_eq_decide]
        omega)
    exact Or.inr ⟨hInv, Or.inl ⟨rfl, hr⟩⟩



theorem evUnreg_mid {s : St} (hI : Inv s) (hpc : s.pc = .user) (e : Nat) :
    Shape (evUnregMid s e).pc (evUnregMid s e).stack (evUnregMid s e).handled ∧ VCore (view (evUnregMid s e)) ∧
    allFd (evUnregMid s e).stack = allFd s.stack ∧
    allTasks (evUnregMid s e).stack = allTasks s.stack := by
  have hsh := hI.shape
  rw [hpc] at hsh
  have h1 : allTimers (s.stack.map (eraseEvent · e)) = allTimers s.stack :=
    flat_erase_same frTimers eraseEvent (fun x k => by cases x <;> rfl) s.stack e
  have h2 : allTasks (s.stack.map (eraseEvent · e)) = allTasks s.stack :=
    flat_erase_same frTasks eraseEvent (fun x k => by cases x <;> rfl) s.stack e
  have h3 : allActive (s.stack.map (eraseEvent · e)) = allActive s.stack :=
    flat_erase_same frActive eraseEvent (fun x k => by cases x <;> rfl) s.stack e
  have h4 : allFd (s.stack.map (eraseEvent · e)) = allFd s.stack :=
    flat_erase_same frFd eraseEvent (fun x k => by cases x <;> rfl) s.stack e
  refine ⟨?_, ⟨?_, ?_, ?_, hI.fl, ?_, ?_, hI.ep, hI.po⟩, h4, h2⟩
  · show Shape s.pc (s.stack.map (eraseEvent · e)) s.handled
    rw [hpc]; exact UserSt_map (keepsKind_eraseEvent e) hsh
  · show TmInv s.heap s.tlive (allTimers (s.stack.map (eraseEvent · e))); rw [h1]; exact hI.tm
  · show TkInv s.tasks (allTasks (s.stack.map (eraseEvent · e))) s.tobjs; rw [h2]; exact hI.tk
  · show EvInv (s.pending.erase e) (allEvents (s.stack.map (eraseEvent · e))) (upd s.evs e { (s.evs e) with registered := false })
    obtain ⟨hnd, hreg, hlv⟩ := hI.ev
    have hnd2 := List.nodup_append.1 hnd
    have hmemfr := flat_erase_mem frEvents eraseEvent (fun x k => by cases x <;> simp [eraseEvent, frEvents]) s.stack e hnd2.2.1
    have hsub := flat_erase_sub frEvents eraseEvent (fun x k => by cases x <;> simp [eraseEvent, frEvents]) s.stack e
    have hmem : ∀ x, x ∈ s.pending.erase e ++ allEvents (s.stack.map (eraseEvent · e)) → (x ≠ e ∧ x ∈ s.pending ++ allEvents s.stack) := by
      intro x
      simp only [List.mem_append, allEvents, hmemfr x, List.Nodup.mem_erase_iff hnd2.1]
      grind
    refine ⟨hnd.sublist (List.Sublist.append List.erase_sublist hsub), ?_, ?_⟩
    · intro x hx
      obtain ⟨hxe, hx'⟩ := hmem x hx
      simp only [upd_apply, hxe, if_false]
      exact hreg x hx'
    · intro x hx
      simp only [upd_apply] at hx ⊢
      split
      · next hxe => simp [hxe] at hx
      · next hxe => simp only [hxe, if_false] at hx; exact hlv x hx
  · show ActInv s.fds (allActive (s.stack.map (eraseEvent · e))); rw [h3]; exact hI.act
  · show HdInv s.fds s.handled (allFd (s.stack.map (eraseEvent · e))); rw [h4]; exact hI.hd

theorem Regd_evUnreg {s s' : St} {e : Nat} (hfds : ∀ f, f < 1000 → (s'.fds f).registered = (s.fds f).registered)
    (hheap : s'.heap = s.heap) (htk : s'.tasks ++ allTasks s'.stack = s.tasks ++ allTasks s.stack)
    (hevs : s'.evs = upd s.evs e { (s.evs e) with registered := false })
    (hraws : ∀ r, 1 ≤ r → (s'.raws r).registered = (s.raws r).registered) :
    ∀ q, Regd s' q ↔ (q ≠ (3, e) ∧ Regd s q) := by
  apply Regd_cases <;> intro x <;> simp [Regd5, hheap, htk, hevs]
  · intro hx; rw [hfds x hx]
  · simp only [upd_apply]
    split
    · next hx => subst hx; simp
    · next hx => simp [hx]
  · intro hx; rw [hraws x hx]

theorem VCore.setMisc2 {s : St} (h : VCore (view s)) (a : Int) (k1 k2 : Bool) :
    VCore (view { s with kickReg := k1, kickArmed := k2, numobjs := a }) :=
  ⟨h.tm, h.tk, h.ev, h.fl, h.act, h.hd, h.ep, h.po⟩

theorem api_evUnregister {s s' outs} (e : Nat) (hI : Inv s) (hpc : s.pc = .user)
    (henv : envOk s (.api (.evUnregister e)) = true)
    (h : api s (.evUnregister e) = (s', outs)) : ApiSpec (.evUnregister e) s s' outs := by
  simp only [envOk, apiOk, apiLive, Bool.and_eq_true, decide_eq_true_eq] at henv
  obtain ⟨hreg, hlive⟩ := henv
  have hraw := hI.raw
  have hsh := hI.shape
  rw [hpc] at hsh
  obtain ⟨hshM, hvM, hfdM, htkM⟩ := evUnreg_mid hI hpc e
  rw [evUnregister_eq] at h
  split at h
  · next hec =>
    split at h
    · next hu =>
      simp only [ok] at h
      have hreg0 : (s.raws 0).registered = true := by
        rw [hraw.2.1, hu]
        simp; omega
      obtain ⟨hv, hua, F, N, K, P, a, b, heq⟩ :=
        rawUnregisterCore_spec (s := evUnregMid s e) (r := 0) hvM (hraw.1 0) hreg0
          (by rw [hfdM]; exact UserSt_fd_pos hsh)
      rw [heq] at h hv hua
      cases h
      have hrawN : RawInv F (upd s.raws 0 { (s.raws 0) with registered := false }) s.useRaw (s.eventCount - 1) :=
        hraw.unregRaw0 _ _ hua (by rw [hec]; simp)
      refine Or.inr ⟨⟨?_, ⟨hv.tm, hv.tk, hv.ev, hv.fl, hv.act, hv.hd, hv.ep, hv.po, hrawN⟩⟩, by simp, ?_⟩
      · show Shape s.pc ((s.stack.map (eraseEvent · e)).map (eraseActive · (rawFd 0))) _
        rw [hpc]
        exact UserSt_map (keepsKind_eraseActive _) (UserSt_map (keepsKind_eraseEvent e) hsh)
      · refine Regd_evUnreg (fun f hf => ?_) rfl ?_ rfl (fun r hr => ?_)
        · have := (hua f).1
          have hne : f ≠ rawFd 0 := by unfold rawFd; c01_omega
          simp only [hne, if_false] at this
          exact this
        · show s.tasks ++ allTasks ((s.stack.map (eraseEvent · e)).map (eraseActive · (rawFd 0))) = _
          rw [allTasks_erase]
          exact congrArg _ htkM
        · have : r ≠ 0 := by c01_omega
          simp [upd_apply, this, evUnregMid]
    · next hu =>
      simp only [ok] at h
      cases h
      refine Or.inr ⟨⟨hshM, (hvM.setMisc2 _ _ _).toInv ⟨hraw.1, ?_, hraw.2.2⟩⟩, by simp, ?_⟩
      · show (s.raws 0).registered = (s.useRaw && decide (1 ≤ s.eventCount - 1))
        have hu' : s.useRaw = false := by simpa using hu
        rw [hraw.2.1, hu']; simp
      · exact Regd_evUnreg (fun _ _ => rfl) rfl (congrArg _ htkM) rfl (fun _ _ => rfl)
  · next hec =>
    simp only [ok] at h
    cases h
    refine Or.inr ⟨⟨hshM, ⟨hvM.tm, hvM.tk, hvM.ev, hvM.fl, hvM.act, hvM.hd, hvM.ep, hvM.po, ⟨hraw.1, ?_, hraw.2.2⟩⟩⟩, by simp, ?_⟩
    · show (s.raws 0).registered = (s.useRaw && decide (1 ≤ s.eventCount - 1))
      rw [hraw.2.1]
      congr 1
      simp only [decide_eq_decide]
      omega
    · exact Regd_evUnreg (fun _ _ => rfl) rfl (congrArg _ htkM) rfl (fun _ _ => rfl)

theorem api_evPost {s s' outs} (e : Nat) (hI : Inv s) (hpc : s.pc = .user)
    (henv : envOk s (.api (.evPost e)) = true)
    (h : api s (.evPost e) = (s', outs)) : ApiSpec (.evPost e) s s' outs := by
  simp only [envOk, apiOk, apiLive, Bool.and_eq_true, decide_eq_true_eq] at henv
  obtain ⟨hreg, hlive⟩ := henv
  simp only [api] at h
  split at h
  · cases h
    exact .other rfl (by simp) hI (fun _ => Iff.rfl)
  · next hon =>
    have he : e ∉ s.pending ++ allEvents s.stack := fun hh => hon ((evOnList_iff s e).2 hh)
    have hI1 : Inv { s with pending := s.pending ++ [e] } := by
      refine Inv.mk' hI.shape hI.tm hI.tk ?_ hI.fl hI.act hI.hd hI.ep hI.po hI.raw
      obtain ⟨hnd, hr, hlv⟩ := hI.ev
      have hperm : ((s.pending ++ [e]) ++ allEvents s.stack).Perm (e :: (s.pending ++ allEvents s.stack)) := by
        simp
      refine ⟨hperm.nodup_iff.2 (List.nodup_cons.2 ⟨he, hnd⟩), ?_, hlv⟩
      intro x hx
      rcases List.mem_cons.1 (hperm.mem_iff.1 hx) with rfl | hx'
      · exact hreg
      · exact hr x hx'
    have hr1 : ∀ q, Regd { s with pending := s.pending ++ [e] } q ↔ Regd s q := by
      apply Regd_of <;> first | (intro _; rfl) | rfl
    split at h
    · next hc =>
      cases h
      simp only [Bool.and_eq_true, Bool.not_eq_true', ← Bool.not_eq_true] at hc
      have h0 : (0 : Nat) ∉ ({ s with pending := s.pending ++ [e] } : St).tasks ++ allTasks ({ s with pending := s.pending ++ [e] } : St).stack :=
        fun hh => hc.2 ((taskOnList_iff _ 0).2 hh)
      obtain ⟨hInv, hmem, hfd, hheap, hevs, hraws⟩ := taskRegisterCore_inv hI1 hpc h0 hI.tk.2.2
      refine .other rfl (by simp) hInv (fun q => Iff.trans ?_ (hr1 q))
      revert q
      apply Regd_cases <;> intro x <;> simp [Regd5, hfd, hheap, hevs, hraws, -List.mem_append]
      rw [hmem x]
      intro hx
      constructor
      · rintro (rfl | h2)
        · omega
        · exact h2
      · exact Or.inr
    · cases h
      exact .other rfl (by simp) hI1 hr1

/-! Part O: dispatchers for blocks and API calls; the simple inputs -/

theorem internal_spec {s s' : St} {b : Block} {outs} (hI : Inv s) (hpc : s.pc = .run b)
    (h : internal s b = (s', outs)) : ISpec s s' outs := by
  cases b with
  | mainTop rt => exact int_mainTop hI hpc h
  | collect => exact int_collect hI hpc h
  | popTimer => exact int_popTimer hI hpc h
  | startTasks => exact int_startTasks hI hpc h
  | popTask => exact int_popTask hI hpc h
  | runEvents => exact int_runEvents hI hpc h
  | popEvent => exact int_popEvent hI hpc h
  | resume => exact int_resume hI hpc h
  | exitCheck => exact int_exitCheck hI hpc h
  | prepWait => exact int_prepWait hI hpc h
  | flush abs km => exact int_flush hI hpc h
  | wait abs km => exact int_wait hI hpc h
  | dispatchNext => exact int_dispatchNext hI hpc h
  | fdStage => exact int_fdStage hI hpc h

theorem api_spec {s s' : St} {a : Api} {outs} (hI : Inv s) (hpc : s.pc = .user)
    (henv : envOk s (.api a) = true) (h : api s a = (s', outs)) : ApiSpec a s s' outs := by
  cases a with
  | fdRegister f a b c => exact api_fdRegister f a b c hI hpc henv h
  | fdRegisterTry f a b c k => exact api_fdRegisterTry f a b c k hI hpc henv h
  | fdUnregister f => exact api_fdUnregister f hI hpc henv h
  | fdSetIn f v => exact api_fdSetIn f v hI hpc h
  | fdSetOut f v => exact api_fdSetOut f v hI hpc h
  | fdSetErr f v => exact api_fdSetErr f v hI hpc h
  | timerRegister t e => exact api_timerRegister t e hI hpc henv h
  | timerUnregister t => exact api_timerUnregister t hI hpc henv h
  | taskRegister k => exact api_taskRegister k hI hpc henv h
  | taskUnregister k => exact api_taskUnregister k hI hpc henv h
  | taskInit k => exact api_taskInit k hI hpc h
  | evRegister e r => exact api_evRegister e r hI hpc henv h
  | evUnregister e => exact api_evUnregister e hI hpc henv h
  | evPost e => exact api_evPost e hI hpc henv h
  | rawRegister r k => exact api_rawRegister r k hI hpc henv h
  | rawUnregister r => exact api_rawUnregister r hI hpc henv h
  | quit => exact api_simple _ hI hpc (Or.inl rfl) h
  | invalidateNow => exact api_simple _ hI hpc (Or.inr (Or.inl rfl)) h
  | validateNow => exact api_simple _ hI hpc (Or.inr (Or.inr (Or.inl rfl))) h
  | main => exact api_simple _ hI hpc (Or.inr (Or.inr (Or.inr rfl))) h

/-! ### inputs other than API calls -/

theorem pc_of_handlerEnd {s : St} {r} (h : input s .handlerEnd = some r) : s.pc = .user := by
  unfold input at h
  split at h <;> simp_all
theorem pc_of_api {s : St} {a r} (h : input s (.api a) = some r) : s.pc = .user := by
  unfold input at h
  split at h <;> simp_all
theorem pc_of_free {s : St} {k i r} (h : input s (.free k i) = some r) : s.pc = .user := by
  unfold input at h
  split at h <;> simp_all
theorem pc_of_init {s : St} {k i r} (h : input s (.init k i) = some r) : s.pc = .user := by
  unfold input at h
  split at h <;> simp_all
theorem pc_of_time {s : St} {t r} (h : input s (.time t) = some r) : ∃ k, s.pc = .needTime k := by
  unfold input at h
  split at h <;> simp_all
theorem pc_of_wret {s : St} {w r} (h : input s (.wret w) = some r) : ∃ abs km, s.pc = .waiting abs km := by
  unfold input at h
  split at h <;> simp_all
theorem pc_of_xpost {s : St} {e r} (h : input s (.xpost e) = some r) : ∃ abs km, s.pc = .waiting abs km := by
  unfold input at h
  split at h <;> simp_all
theorem pc_of_rawRead {s : St} {b r} (h : input s (.rawRead b) = some r) : ∃ x, s.pc = .needRawRead x := by
  unfold input at h
  split at h <;> simp_all

theorem inp_handlerEnd {s s' : St} {outs} (hI : Inv s) (h : input s .handlerEnd = some (s', outs)) :
    ISpec s s' outs := by
  have hpc := pc_of_handlerEnd h
  have hsh := hI.shape
  rw [hpc] at hsh
  simp only [Shape] at hsh
  simp only [input, hpc, goto] at h
  rcases hsh with hst | ⟨r, hst⟩ | ⟨r, hst⟩ | ⟨c, n, a, rt, hst, hn⟩ | ⟨b, rest, hst, hb⟩ <;> rw [hst] at h <;>
    simp only [Option.some.injEq, reduceCtorEq] at h
  · cases h
    exact .same (by simp) hI (show ∃ r, _ from ⟨_, rfl⟩) (by simp [view, hst])
  · cases h
    exact .same (by simp) hI (show ∃ r, _ from ⟨_, rfl⟩) (by simp [view, hst])
  · cases h
    exact .same (by simp) hI (show ∃ c n a rt, _ from ⟨_, _, _, _, rfl⟩) (by simp [view, hst])
  · cases h
    exact .same (by simp) hI (show ∃ b rest, _ ∧ _ from ⟨_, _, rfl, hb⟩) (by simp [view, hst])

theorem inp_time {s s' : St} {outs} (t : TS) (hI : Inv s) (h : input s (.time t) = some (s', outs)) :
    ISpec s s' outs := by
  obtain ⟨k, hpc⟩ := pc_of_time h
  have hsh := hI.shape
  rw [hpc] at hsh
  simp only [input, hpc, Option.some.injEq] at h
  unfold afterTime at h
  cases k with
  | forTimers =>
    simp only [Shape] at hsh
    simp only [goto] at h
    cases h
    exact .same (by simp) hI (by simpa [Shape] using hsh) (by simp [view])
  | forWait abs km =>
    simp only [Shape] at hsh
    simp only [goto] at h
    cases h
    exact .same (by simp) hI (by simpa [Shape] using hsh) (by simp [view])
  | forValidate =>
    simp only [Shape] at hsh
    simp only at h
    cases h
    exact .same (by simp) hI (by simpa [Shape] using hsh) (by simp [view])



theorem inp_rawRead {s s' : St} {outs} (okk : Bool) (hI : Inv s) (h : input s (.rawRead okk) = some (s', outs)) :
    ISpec s s' outs := by
  obtain ⟨r, hpc⟩ := pc_of_rawRead h
  have hsh := hI.shape
  rw [hpc] at hsh
  simp only [Shape] at hsh
  obtain ⟨n, a, rt, hst, hn, hhd⟩ := hsh
  simp only [input, hpc, goto] at h
  split at h
  · simp only [Option.some.injEq] at h
    cases h
    exact .same (by simp) hI (show ∃ c n a rt, _ from ⟨_, _, _, _, hst⟩) (by simp [view])
  split at h
  · simp only [Option.some.injEq] at h
    cases h
    exact .same (by simp) hI (show Base _ from Or.inr (Or.inr ⟨_, _, _, _, hst, hn⟩)) (by simp [view])
  next hok hr0 =>
  have hregf : (s.fds (rawFd r)).registered = true := hI.hd.2 _ hhd
  have hregr : (s.raws r).registered = true := by rw [← hI.raw.1 r]; exact hregf
  have hr1 : 1 ≤ r := Nat.pos_of_ne_zero hr0
  have hlive : (s.raws r).live = true := hI.raw.2.2 r hr1 hregr
  split at h
  · next hdead => simp [hlive] at hdead
  simp only [Option.some.injEq] at h
  cases h
  refine .cb (.raw r) rfl ?_ (by simp [cbKey, hregr]; exact hr1) ?_
  · exact hI.of_view (show UserSt _ from Or.inr (Or.inr (Or.inr (Or.inl ⟨_, _, _, _, hst, hn⟩)))) (by simp [view])
  · intro q
    simp only [cbKey, Bool.false_eq_true, if_false]
    exact Regd_congr (by simp [view]) q

theorem inp_xpost {s s' : St} {outs} (e : Nat) (hI : Inv s) (henv : envOk s (.xpost e) = true)
    (h : input s (.xpost e) = some (s', outs)) : ISpec s s' outs := by
  obtain ⟨abs, km, hpc⟩ := pc_of_xpost h
  simp only [envOk, Bool.and_eq_true] at henv
  obtain ⟨hreg, hlive⟩ := henv
  have hsh := hI.shape
  rw [hpc] at hsh
  simp only [Shape] at hsh
  simp only [input, hpc] at h
  split at h
  · simp only [Option.some.injEq] at h
    cases h
    exact .same (by simp) hI (by rw [hpc]; exact hsh) rfl
  · next hon =>
    have he : e ∉ s.pending ++ allEvents s.stack := fun hh => hon ((evOnList_iff s e).2 hh)
    have hev : EvInv (s.pending ++ [e]) (allEvents s.stack) s.evs := by
      obtain ⟨hnd, hr, hlv⟩ := hI.ev
      have hperm : ((s.pending ++ [e]) ++ allEvents s.stack).Perm (e :: (s.pending ++ allEvents s.stack)) := by
        simp
      refine ⟨hperm.nodup_iff.2 (List.nodup_cons.2 ⟨he, hnd⟩), ?_, hlv⟩
      intro x hx
      rcases List.mem_cons.1 (hperm.mem_iff.1 hx) with rfl | hx'
      · exact hreg
      · exact hr x hx'
    simp only [Option.some.injEq] at h
    split at h <;> cases h
    · refine .quiet (by simp) ?_ (by apply Regd_of <;> first | (intro _; rfl) | rfl)
      exact Inv.mk' (by show Shape (.waiting abs km) s.stack s.handled; exact hsh) hI.tm hI.tk hev hI.fl hI.act hI.hd hI.ep hI.po hI.raw
    · refine .quiet (by simp) ?_ (by apply Regd_of <;> first | (intro _; rfl) | rfl)
      exact Inv.mk' (by show Shape (.waiting abs km) s.stack s.handled; exact hsh) hI.tm hI.tk hev hI.fl hI.act hI.hd hI.ep hI.po hI.raw

/-! Part P: the user frees / re-initialises object memory -/

/-- replacing the memory of an unregistered user descriptor by an object that is again unregistered,
with clean `regBands`/`index` or the old ones -/
theorem fdMem {s : St} {f : Nat} (o' : FdObj) (hI : Inv s) (hf : f < 1000) (hun : (s.fds f).registered = false)
    (h1 : o'.registered = false)
    (h2 : (o'.regBands = {} ∧ o'.index = none) ∨ (o'.regBands = (s.fds f).regBands ∧ o'.index = (s.fds f).index)) :
    Inv { s with fds := upd s.fds f o' } ∧ ∀ q, Regd { s with fds := upd s.fds f o' } q ↔ Regd s q := by
  have hr : ∀ g, (upd s.fds f o' g).registered = (s.fds g).registered := by
    intro g
    simp only [upd_apply]
    split
    · next hg => subst hg; rw [h1, hun]
    · rfl
  have hlv : ∀ g, g ≠ f → (upd s.fds f o' g).live = (s.fds g).live := by
    intro g hg
    simp only [upd_apply, hg, if_false]
  refine ⟨Inv.mk' hI.shape hI.tm hI.tk hI.ev ?_ ?_ ?_ ?_ ?_ ?_, ?_⟩
  · refine ⟨fun g hg => ?_, fun g hg => ?_⟩
    · have hgf : g ≠ f := by
        rintro rfl
        rw [hr, hun] at hg
        simp at hg
      rw [hlv g hgf]
      exact hI.fl.1 g (by rw [← hr]; exact hg)
    · rw [hlv g (by c01_omega)]; exact hI.fl.2 g hg
  · exact ⟨hI.act.1, fun g hg => by rw [hr]; exact hI.act.2 g hg⟩
  · exact ⟨hI.hd.1, fun g hg => by rw [hr]; exact hI.hd.2 g hg⟩
  · intro hep
    obtain ⟨k1, k2, n1, n2⟩ := hI.ep hep
    have hkf : s.kint f = none := by
      cases hk : s.kint f with
      | none => rfl
      | some b =>
        have := k1 f (by simp [hk])
        simp [hun] at this
    refine ⟨fun g hg => by rw [hr]; exact k1 g hg, ?_, n1, fun g hg => by rw [hr]; exact n2 g hg⟩
    intro g hg
    by_cases hgf : g = f
    · subst hgf; exact hkf
    · simp only [upd_apply, hgf, if_false] at hg
      exact k2 g hg
  · intro hpo
    obtain ⟨p1, p2⟩ := hI.po hpo
    have hif : (s.fds f).index = none := by
      cases hi : (s.fds f).index with
      | none => rfl
      | some i =>
        obtain ⟨b, hb⟩ := p1 f i hi
        have := (p2 i f b hb).2
        simp [hun] at this
    have hi' : o'.index = none := by
      rcases h2 with ⟨_, h⟩ | ⟨_, h⟩
      · exact h
      · rw [h, hif]
    refine ⟨?_, ?_⟩
    · intro g i hg
      by_cases hgf : g = f
      · subst hgf
        simp [hi'] at hg
      · simp only [upd_apply, hgf, if_false] at hg
        exact p1 g i hg
    · intro i g b hi
      have := p2 i g b hi
      have hgf : g ≠ f := by
        rintro rfl
        simp [hun] at this
      simp only [upd_apply, hgf, if_false]
      exact this
  · exact ⟨fun r => by rw [hr]; exact hI.raw.1 r, hI.raw.2.1, hI.raw.2.2⟩
  · apply Regd_of <;> first | (intro _; rfl) | rfl | skip
    exact hr

theorem inp_free {s s' : St} {outs} (kind id : Nat) (hI : Inv s) (henv : envOk s (.free kind id) = true)
    (h : input s (.free kind id) = some (s', outs)) : ISpec s s' outs := by
  have hpc := pc_of_free h
  simp only [input, hpc, Option.some.injEq] at h
  simp only [envOk] at henv
  match kind, henv, h with
  | 0, henv, h =>
    simp only [unregisteredObj, Bool.and_eq_true, decide_eq_true_eq, Bool.not_eq_true'] at henv
    simp only [freeObj] at h
    cases h
    obtain ⟨hInv, hr⟩ := fdMem { (s.fds id) with live := false } hI henv.1 henv.2 henv.2 (Or.inr ⟨rfl, rfl⟩)
    exact .quiet (by simp) hInv hr
  | 1, henv, h =>
    simp only [unregisteredObj, beq_iff_eq] at henv
    simp only [freeObj] at h
    cases h
    refine .quiet (by simp) ?_ (by apply Regd_of <;> first | (intro _; rfl) | rfl)
    obtain ⟨hh, hnd, hidx, hlv⟩ := hI.tm
    refine Inv.mk' hI.shape ⟨hh, hnd, hidx, ?_⟩ hI.tk hI.ev hI.fl hI.act hI.hd hI.ep hI.po hI.raw
    intro t ht
    simp only [upd_apply]
    split
    · next hti =>
      have ht' : 0 ≤ s.heap.idx.getD t (-1) := ht
      rw [hti, henv] at ht'
      omega
    · exact hlv t ht
  | 2, henv, h =>
    simp only [unregisteredObj, Bool.and_eq_true, decide_eq_true_eq, Bool.not_eq_true', ← Bool.not_eq_true] at henv
    simp only [freeObj] at h
    cases h
    refine .quiet (by simp) ?_ (by apply Regd_of <;> first | (intro _; rfl) | rfl)
    obtain ⟨hnd, hlv, h0⟩ := hI.tk
    have hnot : id ∉ s.tasks ++ allTasks s.stack := fun hh => henv.2 ((taskOnList_iff s id).2 hh)
    refine Inv.mk' hI.shape hI.tm ⟨hnd, ?_, ?_⟩ hI.ev hI.fl hI.act hI.hd hI.ep hI.po hI.raw
    · intro k hk
      have : k ≠ id := fun hh => hnot (hh ▸ hk)
      simp only [upd_apply, this, if_false]
      exact hlv k hk
    · have : (0 : Nat) ≠ id := by omega
      simp only [upd_apply, this, if_false]
      exact h0
  | 3, henv, h =>
    simp only [unregisteredObj, Bool.not_eq_true'] at henv
    simp only [freeObj] at h
    cases h
    have hr : ∀ x, (upd s.evs id { (s.evs id) with live := false } x).registered = (s.evs x).registered := by
      intro x
      simp only [upd_apply]
      split
      · next hx => subst hx; rfl
      · rfl
    refine .quiet (by simp) ?_ (by apply Regd_of <;> first | (intro _; rfl) | rfl | exact hr)
    obtain ⟨hnd, hreg, hlv⟩ := hI.ev
    refine Inv.mk' hI.shape hI.tm hI.tk ⟨hnd, fun x hx => by rw [hr]; exact hreg x hx, ?_⟩ hI.fl hI.act hI.hd hI.ep hI.po hI.raw
    intro x hx
    rw [hr] at hx
    have : x ≠ id := by
      rintro rfl
      rw [henv] at hx
      simp at hx
    simp only [upd_apply, this, if_false]
    exact hlv x hx
  | k + 4, henv, h =>
    simp only [unregisteredObj, Bool.and_eq_true, decide_eq_true_eq, Bool.not_eq_true'] at henv
    simp only [freeObj] at h
    cases h
    have hr : ∀ x, (upd s.raws id { (s.raws id) with live := false } x).registered = (s.raws x).registered := by
      intro x
      simp only [upd_apply]
      split
      · next hx => subst hx; rfl
      · rfl
    refine .quiet (by simp) ?_ (by apply Regd_of <;> first | (intro _; rfl) | rfl | exact hr)
    obtain ⟨hl, h0, hlv⟩ := hI.raw
    refine Inv.mk' hI.shape hI.tm hI.tk hI.ev hI.fl hI.act hI.hd hI.ep hI.po ⟨fun r => by rw [hr]; exact hl r, by rw [hr]; exact h0, ?_⟩
    intro x hx1 hx
    rw [hr] at hx
    have : x ≠ id := by
      rintro rfl
      rw [henv.2] at hx
      simp at hx
    simp only [upd_apply, this, if_false]
    exact hlv x hx1 hx



theorem inp_init {s s' : St} {outs} (kind id : Nat) (hI : Inv s) (henv : envOk s (.init kind id) = true)
    (h : input s (.init kind id) = some (s', outs)) : ISpec s s' outs := by
  have hpc := pc_of_init h
  simp only [input, hpc, Option.some.injEq] at h
  simp only [envOk] at henv
  match kind, henv, h with
  | 0, henv, h =>
    simp only [unregisteredObj, Bool.and_eq_true, decide_eq_true_eq, Bool.not_eq_true'] at henv
    simp only [initObj] at h
    cases h
    obtain ⟨hInv, hr⟩ := fdMem { live := true } hI henv.1 henv.2 rfl (Or.inl ⟨rfl, rfl⟩)
    exact .quiet (by simp) hInv hr
  | 1, henv, h =>
    simp only [initObj] at h
    cases h
    refine .quiet (by simp) ?_ (by apply Regd_of <;> first | (intro _; rfl) | rfl)
    obtain ⟨hh, hnd, hidx, hlv⟩ := hI.tm
    refine Inv.mk' hI.shape ⟨hh, hnd, hidx, ?_⟩ hI.tk hI.ev hI.fl hI.act hI.hd hI.ep hI.po hI.raw
    intro t ht
    simp only [upd_apply]
    split
    · rfl
    · exact hlv t ht
  | 2, henv, h =>
    simp only [unregisteredObj, Bool.and_eq_true, decide_eq_true_eq, Bool.not_eq_true', ← Bool.not_eq_true] at henv
    simp only [initObj] at h
    cases h
    refine .quiet (by simp) ?_ (by apply Regd_of <;> first | (intro _; rfl) | rfl)
    obtain ⟨hnd, hlv, h0⟩ := hI.tk
    refine Inv.mk' hI.shape hI.tm ⟨hnd, ?_, ?_⟩ hI.ev hI.fl hI.act hI.hd hI.ep hI.po hI.raw
    · intro k hk
      simp only [upd_apply]
      split
      · rfl
      · exact hlv k hk
    · simp only [upd_apply]
      split
      · rfl
      · exact h0
  | 3, henv, h =>
    simp only [unregisteredObj, Bool.not_eq_true'] at henv
    simp only [initObj] at h
    cases h
    have hr : ∀ x, (upd s.evs id { live := true } x).registered = (s.evs x).registered := by
      intro x
      simp only [upd_apply]
      split
      · next hx => subst hx; rw [henv]
      · rfl
    refine .quiet (by simp) ?_ (by apply Regd_of <;> first | (intro _; rfl) | rfl | exact hr)
    obtain ⟨hnd, hreg, hlv⟩ := hI.ev
    refine Inv.mk' hI.shape hI.tm hI.tk ⟨hnd, fun x hx => by rw [hr]; exact hreg x hx, ?_⟩ hI.fl hI.act hI.hd hI.ep hI.po hI.raw
    intro x hx
    rw [hr] at hx
    simp only [upd_apply]
    split
    · rfl
    · exact hlv x hx
  | k + 4, henv, h =>
    simp only [unregisteredObj, Bool.and_eq_true, decide_eq_true_eq, Bool.not_eq_true'] at henv
    simp only [initObj] at h
    cases h
    have hr : ∀ x, (upd s.raws id { live := true } x).registered = (s.raws x).registered := by
      intro x
      simp only [upd_apply]
      split
      · next hx => subst hx; rw [henv.2]
      · rfl
    refine .quiet (by simp) ?_ (by apply Regd_of <;> first | (intro _; rfl) | rfl | exact hr)
    obtain ⟨hl, h0, hlv⟩ := hI.raw
    refine Inv.mk' hI.shape hI.tm hI.tk hI.ev hI.fl hI.act hI.hd hI.ep hI.po ⟨fun r => by rw [hr]; exact hl r, by rw [hr]; exact h0, ?_⟩
    intro x hx1 hx
    rw [hr] at hx
    simp only [upd_apply]
    split
    · rfl
    · exact hlv x hx1 hx

/-! Part Q: the kernel wait returns -/

def Strong (fds fds' : FdId → FdObj) : Prop :=
  ∀ g, (fds' g).registered = (fds g).registered ∧ (fds' g).live = (fds g).live ∧
    (fds' g).regBands = (fds g).regBands ∧ (fds' g).index = (fds g).index

/-- what `iv_fd_*_poll` changes while it collects the active list -/
def WaitRel (s0 s1 : St) : Prop :=
  ∃ fds ka kt tv lac, s1 = { s0 with fds := fds, kickArmed := ka, ktimer := kt, timeValid := tv, lastAbsCount := lac } ∧
    Strong s0.fds fds

theorem WaitRel.refl (s : St) : WaitRel s s := ⟨s.fds, s.kickArmed, s.ktimer, s.timeValid, s.lastAbsCount, rfl, fun _ => ⟨rfl, rfl, rfl, rfl⟩⟩

theorem VInv.waitRel {s0 s1 : St} (h : VInv (view s0)) (hw : WaitRel s0 s1) : VInv (view s1) := by
  obtain ⟨fds, ka, kt, tv, lac, rfl, hst⟩ := hw
  have hsim : SimRL s0.fds fds := fun g => ⟨(hst g).1, (hst g).2.1⟩
  exact ⟨h.tm, h.tk, h.ev, h.fl.sim hsim, h.act.sim hsim, h.hd.sim hsim,
    fun hep => (h.ep hep).congr (fun g => ⟨(hst g).1, (hst g).2.2.1⟩),
    fun hpo => (h.po hpo).congr (fun g => ⟨(hst g).1, (hst g).2.2.2⟩), h.raw.sim hsim⟩

theorem Regd_waitRel {s0 s1 : St} (hw : WaitRel s0 s1) : ∀ q, Regd s1 q ↔ Regd s0 q := by
  obtain ⟨fds, ka, kt, tv, lac, rfl, hst⟩ := hw
  apply Regd_of <;> first | (intro _; rfl) | rfl | skip
  intro f; exact (hst f).1

def AccOK (s0 : St) (P : Nat → Prop) (x : St × List FdId) : Prop :=
  WaitRel s0 x.1 ∧ x.2.Nodup ∧ ∀ g ∈ x.2, P g

theorem WaitRel.setReady {s0 s : St} (hw : WaitRel s0 s) (f : Nat) (r : Bands) :
    WaitRel s0 { s with fds := upd s.fds f { (s.fds f) with ready := r } } := by
  obtain ⟨fds, ka, kt, tv, lac, rfl, hst⟩ := hw
  refine ⟨_, ka, kt, tv, lac, rfl, ?_⟩
  intro g
  simp only [upd_apply]
  split
  · next hg => subst hg; exact hst g
  · exact hst g

theorem makeReady_ok {s0 : St} {P : Nat → Prop} {s : St} {a : List FdId} (f : Nat) (b : Bands)
    (h : AccOK s0 P (s, a)) (hf : P f) : AccOK s0 P (makeReady s a f b) := by
  obtain ⟨hw, hnd, hp⟩ := h
  unfold makeReady
  simp only
  split
  · exact ⟨hw.setReady f _, hnd, hp⟩
  · next hc =>
    refine ⟨hw.setReady f _, ?_, ?_⟩
    · simp only at hnd ⊢
      rw [List.nodup_append]
      refine ⟨hnd, by simp, ?_⟩
      intro x hx y hy
      simp at hy
      subst hy
      rintro rfl
      exact hc (by simpa using hx)
    · intro g hg
      simp only [List.mem_append, List.mem_cons, List.not_mem_nil, or_false] at hg
      rcases hg with hg | rfl
      · exact hp g hg
      · exact hf

theorem activate_ok {s0 : St} {P : Nat → Prop} {s : St} {a : List FdId} (f : Nat) (ev : KEv)
    (h : AccOK s0 P (s, a)) (hf : P f) : AccOK s0 P (activate s a f ev) := by
  unfold activate
  simp only
  have h1 : AccOK s0 P (if (bandsOfKEv ev).i = true then makeReady s a f ⟨true, false, false⟩ else (s, a)) := by
    split
    · exact makeReady_ok f _ h hf
    · exact h
  generalize (if (bandsOfKEv ev).i = true then makeReady s a f ⟨true, false, false⟩ else (s, a)) = x1 at h1
  obtain ⟨s1, a1⟩ := x1
  simp only
  have h2 : AccOK s0 P (if (bandsOfKEv ev).o = true then makeReady s1 a1 f ⟨false, true, false⟩ else (s1, a1)) := by
    split
    · exact makeReady_ok f _ h1 hf
    · exact h1
  generalize (if (bandsOfKEv ev).o = true then makeReady s1 a1 f ⟨false, true, false⟩ else (s1, a1)) = x2 at h2
  obtain ⟨s2, a2⟩ := x2
  simp only
  split
  · exact makeReady_ok f _ h2 hf
  · exact h2

/-- the fold of `afterWait` over the reported items -/
def waitStep (acc : St × List FdId × Bool × Bool) (it : WItem) : St × List FdId × Bool × Bool :=
  match it with
  | .kick => ({ acc.1 with kickArmed := false }, acc.2.1, acc.2.2.1, true)
  | .ktimer => ({ acc.1 with ktimer := none }, acc.2.1, true, acc.2.2.2)
  | .fd f ev => ((activate acc.1 acc.2.1 f ev).1, (activate acc.1 acc.2.1 f ev).2, acc.2.2.1, acc.2.2.2)

theorem waitStep_ok {s0 : St} {P : Nat → Prop} (acc : St × List FdId × Bool × Bool) (it : WItem)
    (h : AccOK s0 P (acc.1, acc.2.1)) (hp : ∀ f ev, it = .fd f ev → P f) :
    AccOK s0 P ((waitStep acc it).1, (waitStep acc it).2.1) := by
  cases it with
  | kick =>
    obtain ⟨⟨fds, ka, kt, tv, lac, heq, hst⟩, h2, h3⟩ := h
    refine ⟨⟨fds, false, kt, tv, lac, ?_, hst⟩, h2, h3⟩
    simp only [waitStep] at heq ⊢
    rw [heq]
  | ktimer =>
    obtain ⟨⟨fds, ka, kt, tv, lac, heq, hst⟩, h2, h3⟩ := h
    refine ⟨⟨fds, ka, none, tv, lac, ?_, hst⟩, h2, h3⟩
    simp only [waitStep] at heq ⊢
    rw [heq]
  | fd f ev =>
    exact activate_ok f ev h (hp f ev rfl)

theorem waitFold_ok {s0 : St} {P : Nat → Prop} : ∀ (l : List WItem) (acc : St × List FdId × Bool × Bool),
    AccOK s0 P (acc.1, acc.2.1) → (∀ f ev, WItem.fd f ev ∈ l → P f) →
    AccOK s0 P ((l.foldl waitStep acc).1, (l.foldl waitStep acc).2.1) := by
  intro l
  induction l with
  | nil => intro acc h _; exact h
  | cons it l ih =>
    intro acc h hp
    simp only [List.foldl_cons]
    exact ih _ (waitStep_ok acc it h (fun f ev hh => hp f ev (by simp [hh]))) (fun f ev hh => hp f ev (by simp [hh]))

theorem wret_reg {s : St} {l : List WItem} (hI : Inv s) (hok : wretOk s (.events l) = true) :
    ∀ f ev, WItem.fd f ev ∈ l → (s.fds f).registered = true := by
  intro f ev hmem
  simp only [wretOk, Bool.and_eq_true, List.all_eq_true] at hok
  have := hok.1 _ hmem
  simp only at this
  split at this
  · next hep =>
    obtain ⟨k1, _⟩ := hI.ep hep
    apply k1
    intro hn
    rw [hn] at this
    simp at this
  · next hep =>
    have hpo : s.method.isEpoll = false := by simpa using hep
    obtain ⟨_, p2⟩ := hI.po hpo
    simp only [List.any_eq_true, beq_iff_eq] at this
    obtain ⟨⟨g, b⟩, hgm, hg⟩ := this
    simp only at hg
    subst hg
    obtain ⟨i, hi, hget⟩ := List.getElem_of_mem hgm
    exact (p2 i g b (by rw [List.getElem?_eq_getElem hi, hget])).2



theorem afterWait_events (s : St) (abs : Option TS) (km : Bool) (l : List WItem) :
    afterWait s abs km (.events l) =
      (let r := l.foldl waitStep ({ s with timeValid := false }, [], (if s.method == .epollTimerfd then abs.isSome else true), false)
       let s1 := if (km && r.2.2.1) = true then { r.1 with lastAbsCount := 0 } else r.1
       let s2 := { s1 with stack := .poll r.2.1 r.2.2.1 :: s1.stack }
       if r.2.2.2 = true then goto s2 .runEvents else goto s2 .dispatchNext) := by
  simp only [afterWait]
  rfl

theorem wait_finish {s s2 : St} (hI : Inv s) (hst : s.stack = []) (hw : WaitRel s s2) (active : List FdId)
    (rt : Bool) (hnd : active.Nodup) (hreg : ∀ g ∈ active, (s.fds g).registered = true) (pc' : Pc)
    (hs : Shape pc' [.poll active rt] s.handled) :
    Inv { s2 with stack := .poll active rt :: s2.stack, pc := pc' } ∧
    ∀ q, Regd { s2 with stack := .poll active rt :: s2.stack, pc := pc' } q ↔ Regd s q := by
  have hv2 := hI.2.waitRel hw
  have hr2 := Regd_waitRel hw
  obtain ⟨fds, ka, kt, tv, lac, rfl, hstr⟩ := hw
  have hact : ActInv fds active := ⟨hnd, fun g hg => by rw [(hstr g).1]; exact hreg g hg⟩
  refine ⟨?_, ?_⟩
  · refine Inv.mk' (by simpa [hst] using hs) ?_ ?_ ?_ hv2.fl ?_ ?_ hv2.ep hv2.po hv2.raw
    · simpa [hst, frTimers] using hI.tm
    · simpa [hst, frTasks] using hI.tk
    · simpa [hst, frEvents] using hI.ev
    · simpa [hst, frActive] using hact
    · have := hv2.hd
      simp only [view, hst, allFd_nil] at this
      simpa [hst, frFd] using this
  · intro q
    refine Iff.trans ?_ (hr2 q)
    revert q
    apply Regd_of <;> first | (intro _; rfl) | rfl | simp [hst, frTasks]

theorem inp_wret {s s' : St} {outs} (w : WRes) (hI : Inv s) (henv : envOk s (.wret w) = true)
    (h : input s (.wret w) = some (s', outs)) : ISpec s s' outs := by
  obtain ⟨abs, km, hpc⟩ := pc_of_wret h
  have hsh := hI.shape
  rw [hpc] at hsh
  simp only [Shape] at hsh
  simp only [input, hpc, Option.some.injEq] at h
  simp only [envOk] at henv
  cases w with
  | enosys =>
    simp only [afterWait] at h
    split at h
    · split at h
      · simp only [goto] at h
        cases h
        exact .same (by simp) hI (by simpa [Shape] using hsh) (by simp [view])
      · simp only [fatal] at h; cases h; exact .fatal _ rfl
    · split at h
      · simp only [goto] at h
        cases h
        exact .same (by simp) hI (by simpa [Shape] using hsh) (by simp [view])
      · simp only [fatal] at h; cases h; exact .fatal _ rfl
    · next hm =>
      split at h <;> (try simp only [goto] at h) <;> cases h
      · exact .same (by simp) hI (by simpa [Shape] using hsh) (by simp [view, hm, Method.isEpoll])
      · exact .same (by simp) hI (by simpa [Shape] using hsh) (by simp [view, hm, Method.isEpoll])
    · simp only [fatal] at h; cases h; exact .fatal _ rfl
  | eintr =>
    simp only [afterWait, goto] at h
    generalize (if (s.method == .epollTimerfd) = true then abs.isSome else true) = rt0 at h
    have hw2 : WaitRel s (if (km && rt0) = true then { ({ s with timeValid := false } : St) with lastAbsCount := 0 } else { s with timeValid := false }) := by
      split
      · exact ⟨s.fds, s.kickArmed, s.ktimer, false, 0, rfl, fun _ => ⟨rfl, rfl, rfl, rfl⟩⟩
      · exact ⟨s.fds, s.kickArmed, s.ktimer, false, s.lastAbsCount, rfl, fun _ => ⟨rfl, rfl, rfl, rfl⟩⟩
    generalize (if (km && rt0) = true then { ({ s with timeValid := false } : St) with lastAbsCount := 0 } else { s with timeValid := false }) = s2 at h hw2
    cases h
    obtain ⟨hInv, hr⟩ := wait_finish hI hsh hw2 [] _ (by simp) (by simp) (.run .dispatchNext) (show ∃ a rt, _ from ⟨_, _, rfl⟩)
    exact .quiet (by simp) hInv hr
  | events l =>
    rw [afterWait_events] at h
    have hacc0 : AccOK s (fun g => (s.fds g).registered = true) (({ s with timeValid := false } : St), ([] : List FdId)) :=
      ⟨⟨s.fds, s.kickArmed, s.ktimer, false, s.lastAbsCount, rfl, fun _ => ⟨rfl, rfl, rfl, rfl⟩⟩, by simp, by simp⟩
    have hfold := waitFold_ok l ({ s with timeValid := false }, [], (if s.method == .epollTimerfd then abs.isSome else true), false)
      hacc0 (wret_reg hI henv)
    generalize l.foldl waitStep ({ s with timeValid := false }, [], (if s.method == .epollTimerfd then abs.isSome else true), false) = r at h hfold
    obtain ⟨s1, active, rt, runEv⟩ := r
    dsimp only at h hfold
    obtain ⟨hw, hnd, hreg⟩ := hfold
    have hw2 : WaitRel s (if (km && rt) = true then { s1 with lastAbsCount := 0 } else s1) := by
      split
      · obtain ⟨fds, ka, kt, tv, lac, rfl, hst⟩ := hw
        exact ⟨fds, ka, kt, tv, 0, rfl, hst⟩
      · exact hw
    generalize (if (km && rt) = true then { s1 with lastAbsCount := 0 } else s1) = s2 at h hw2
    simp only [goto] at h
    split at h <;> cases h
    · obtain ⟨hInv, hr⟩ := wait_finish hI hsh hw2 active rt hnd hreg (.run .runEvents) (show Base _ from Or.inr (Or.inl ⟨_, _, rfl⟩))
      exact .quiet (by simp) hInv hr
    · obtain ⟨hInv, hr⟩ := wait_finish hI hsh hw2 active rt hnd hreg (.run .dispatchNext) (show ∃ a rt, _ from ⟨_, _, rfl⟩)
      exact .quiet (by simp) hInv hr

/-! Part R: assembly -/

theorem internal_ok {μ : M} {s s' : St} {b : Block} {outs} (hR : R μ s) (hpc : s.pc = .run b)
    (h : internal s b = (s', outs)) : ∃ μ', (outs.map Ev.out).foldlM mstep μ = .ok μ' ∧ R μ' s' := by
  rcases hR with hd | ⟨reg, rfl, hI, hreg⟩
  · exact ⟨μ, fold_dead μ hd _, Or.inl hd⟩
  · exact (internal_spec hI hpc h).fold hreg

theorem ISpec.foldInp {s s' : St} {outs reg} {i : Input} (hi : ∀ a, i ≠ .api a) (hreg : RegOk reg s)
    (h : ISpec s s' outs) :
    ∃ μ', (Ev.inp i :: outs.map Ev.out).foldlM mstep ⟨reg, none, false⟩ = .ok μ' ∧ R μ' s' := by
  rw [List.foldlM_cons, step_inp_other reg i hi]
  exact h.fold hreg

theorem input_ok {μ : M} {s s' : St} {i : Input} {outs} (hR : R μ s) (henv : envOk s i = true)
    (h : input s i = some (s', outs)) :
    ∃ μ', (Ev.inp i :: outs.map Ev.out).foldlM mstep μ = .ok μ' ∧ R μ' s' := by
  rcases hR with hd | ⟨reg, rfl, hI, hreg⟩
  · exact ⟨μ, fold_dead μ hd _, Or.inl hd⟩
  · cases i with
    | api a =>
      have hpc := pc_of_api h
      simp only [input, hpc, Option.some.injEq] at h
      exact (api_spec hI hpc henv h).fold hreg
    | handlerEnd => exact (inp_handlerEnd hI h).foldInp (fun _ => by simp) hreg
    | time t => exact (inp_time t hI h).foldInp (fun _ => by simp) hreg
    | wret w => exact (inp_wret w hI henv h).foldInp (fun _ => by simp) hreg
    | rawRead b => exact (inp_rawRead b hI h).foldInp (fun _ => by simp) hreg
    | xpost e => exact (inp_xpost e hI henv h).foldInp (fun _ => by simp) hreg
    | free k id => exact (inp_free k id hI henv h).foldInp (fun _ => by simp) hreg
    | init k id => exact (inp_init k id hI henv h).foldInp (fun _ => by simp) hreg

theorem exec_ok {s s' : St} {evs : List Ev} (h : Exec s evs s') :
    ∀ μ, R μ s → ∃ μ', evs.foldlM mstep μ = .ok μ' := by
  induction h with
  | nil s => intro μ _; exact ⟨μ, rfl⟩
  | internal hpc hint _ ih =>
    intro μ hR
    obtain ⟨μ1, h1, hR1⟩ := internal_ok hR hpc hint
    obtain ⟨μ2, h2⟩ := ih μ1 hR1
    refine ⟨μ2, ?_⟩
    rw [List.foldlM_append, h1]
    exact h2
  | input henv hinp _ ih =>
    intro μ hR
    obtain ⟨μ1, h1, hR1⟩ := input_ok hR henv hinp
    obtain ⟨μ2, h2⟩ := ih μ1 hR1
    refine ⟨μ2, ?_⟩
    rw [← List.cons_append, List.foldlM_append, h1]
    exact h2

theorem inv_init (m : Method) (ntimers : Nat) (timerfdAvail pwait2 : Bool) :
    Inv (St.init m ntimers timerfdAvail pwait2) := by
  refine Inv.mk' (Or.inl rfl) ⟨Ivy.Props.C05.init_inv ntimers, by simp [St.init], by simp [St.init], by simp [St.init]⟩
    ⟨by simp [St.init], by simp [St.init], rfl⟩ ⟨by simp [St.init], by simp [St.init], by simp [St.init]⟩
    ⟨by simp [St.init], by simp [St.init]⟩ ⟨by simp [St.init], by simp [St.init]⟩
    ⟨by simp [St.init], by simp [St.init]⟩ (fun _ => ⟨by simp [St.init], by simp [St.init], by simp [St.init], by simp [St.init]⟩)
    (fun _ => ⟨by simp [St.init], by simp [St.init]⟩) ⟨by simp [St.init], by simp [St.init], by simp [St.init]⟩

theorem regOk_init (m : Method) (ntimers : Nat) (timerfdAvail pwait2 : Bool) :
    RegOk [] (St.init m ntimers timerfdAvail pwait2) := by
  refine ⟨by simp, ?_⟩
  apply Regd_cases <;> intro x <;> simp [Regd5, St.init, Store.init]
  by_cases hx : x < ntimers <;> simp [hx]

theorem monitor_accepts (m : Method) (ntimers : Nat) (timerfdAvail pwait2 : Bool)
    (evs : List Ev) (s' : St) (h : Exec (St.init m ntimers timerfdAvail pwait2) evs s') :
    Ivy.Mon.C01.verdict evs = none := by
  obtain ⟨μ', hμ⟩ := exec_ok h ⟨[], none, false⟩
    (Or.inr ⟨[], rfl, inv_init m ntimers timerfdAvail pwait2, regOk_init m ntimers timerfdAvail pwait2⟩)
  unfold Ivy.Mon.C01.verdict runMon
  have : (List.foldlM Ivy.Mon.C01.step ({} : M) evs) = .ok μ' := hμ
  rw [this]


/-! ## non-vacuity: a run with a task, an event and a descriptor callback, each object unregistered and
freed inside its own handler, and a kernel wait in between -/

def demoInputs : List Input :=
  [.api (.fdRegister 3 true false false), .api (.taskRegister 1), .api (.evRegister 5 true), .api (.evPost 5),
   .api .main,
   .handlerEnd,                                      -- task 1's handler returns
   .api (.evUnregister 5), .free 3 5, .handlerEnd,   -- event 5's handler unregisters and frees it
   .wret (.events [.fd 3 { kin := true }]),          -- the kernel reports descriptor 3 readable
   .api (.fdUnregister 3), .free 0 3, .handlerEnd]   -- descriptor 3's handler unregisters and frees it

def cbOf : Ev → Option Cb
  | .out (.cb c) => some c
  | _ => none

def isWait : Ev → Bool
  | .out (.wait ..) => true
  | _ => false

def isMainRet : Ev → Bool
  | .out .mainRet => true
  | _ => false

example :
    Exec (St.init .epoll 0) (runTrace 80 (St.init .epoll 0) demoInputs).1 (runTrace 80 (St.init .epoll 0) demoInputs).2 ∧
    (runTrace 80 (St.init .epoll 0) demoInputs).1.filterMap cbOf = [.task 1, .event 5, .fd 3 1] ∧
    (runTrace 80 (St.init .epoll 0) demoInputs).1.any isWait = true ∧
    (runTrace 80 (St.init .epoll 0) demoInputs).1.any isMainRet = true ∧
    Ivy.Mon.C01.verdict (runTrace 80 (St.init .epoll 0) demoInputs).1 = none :=
  ⟨runTrace_exec _ _ _, by decide, by decide, by decide,
   monitor_accepts .epoll 0 true true _ _ (runTrace_exec 80 (St.init .epoll 0) demoInputs)⟩

/-- the monitor is not trivially accepting: a callback after the unregister call returned is rejected,
and so is any `fault` record -/
example : Ivy.Mon.C01.verdict
    [.inp (.api (.fdRegister 3 true false false)), .out (.ret 0), .inp (.api (.fdUnregister 3)), .out (.ret 0),
     .out (.cb (.fd 3 1))] ≠ none := by decide

example : Ivy.Mon.C01.verdict [.out (.fault "use-after-free")] ≠ none := by decide

end Ivy.L1.ProofsC01
